(* Property C20, parser half, blank lines: one extra Eol token directly after an Eol token (or at
   the very start of the statement tokens) changes nothing except that the line recorded in every
   row that is parsed after it grows by one.
     blank_line_insert  (token level) the two runs of parse_block_loop on  pre ++ post  and
                        pre ++ e :: post  (e an Eol token, pre empty or ending with an Eol token)
                        either both fail with the same kind of error, or both succeed, with the
                        same bookkeeping lists, and the statements of the second run are those of
                        the first with [bump L] applied to every row line, L being the line
                        counter after the tokens of pre
   Relational weakest preconditions: [wp2 m1 m2 Q st1 st2] relates the outcomes of the two runs
   (running out of fuel on either side is always accepted: the two runs use different amounts
   of fuel, the second one goes round the block loop once more).  The two states are related by
   [rel]: either both runs are still in front of the insertion point (same position in both token
   lists, same line counter), or both are behind it (same tokens left, line counter one apart).
   [instep] excludes the one moment at which the second run has the extra token in front of
   it and the first has not; that happens only where the block loop is (re-)entered. *)
From Coq Require Import String.
From DTR Require Import Prelude Ast FramedMap Lexer Parser.
From DTR.proofs Require Import LexerProof ParserProof ParserLinesProof ParserLayoutProof.
Open Scope N_scope.

(* ================================================================== shifting the recorded lines *)

Definition bump (L ln : N) : N := if L <=? ln then ln + 1 else ln.

Fixpoint bump_stmt (L : N) (s : stmt) : stmt :=
  match s with
  | SRow d ln => SRow d (bump L ln)
  | SLoop v m body => SLoop v m (map (bump_stmt L) body)
  | SWhile c body => SWhile c (map (bump_stmt L) body)
  | SLet x e => SLet x e
  | SReset => SReset
  end.

Definition bump_block (L : N) (b : list stmt) : list stmt := map (bump_stmt L) b.

Definition bump_arm (L : N) (a : arm_result) : arm_result :=
  match a with ArmContinue b => ArmContinue (bump_block L b) | ArmBreak b => ArmBreak (bump_block L b) end.

Lemma bump_block_snoc : forall L b s, bump_block L (b ++ [s]) = bump_block L b ++ [bump_stmt L s].
Proof. intros. unfold bump_block. rewrite map_app. reflexivity. Qed.

(* ================================================================== relational wp *)

Definition wp2 {A} (m1 m2 : P A) (Q : A -> A -> pstate -> pstate -> Prop) (st1 st2 : pstate) : Prop :=
  match m1 st1, m2 st2 with
  | OOF, _ | _, OOF => True
  | Ok (a1, s1), Ok (a2, s2) => Q a1 a2 s1 s2
  | Err e1, Err e2 => pe_kind e1 = pe_kind e2
  | Panic x, Panic y => x = y
  | _, _ => False
  end.

Lemma wp2_ret : forall A (a1 a2 : A) (Q : A -> A -> pstate -> pstate -> Prop) st1 st2,
  Q a1 a2 st1 st2 -> wp2 (ret a1) (ret a2) Q st1 st2.
Proof. intros. exact H. Qed.

Lemma wp2_bind : forall A B (m1 m2 : P A) (k1 k2 : A -> P B) Q st1 st2,
  wp2 m1 m2 (fun a1 a2 s1 s2 => wp2 (k1 a1) (k2 a2) Q s1 s2) st1 st2 ->
  wp2 (bind m1 k1) (bind m2 k2) Q st1 st2.
Proof.
  unfold wp2, bind. intros A B m1 m2 k1 k2 Q st1 st2 H.
  destruct (m1 st1) as [[a1 s1]| | |]; destruct (m2 st2) as [[a2 s2]| | |]; try exact H; try exact I;
    try contradiction.
  - destruct (k1 a1 s1) as [[? ?]| | |]; exact I.
Qed.

Lemma wp2_conseq : forall A (m1 m2 : P A) (Q1 Q2 : A -> A -> pstate -> pstate -> Prop) st1 st2,
  wp2 m1 m2 Q1 st1 st2 -> (forall a1 a2 s1 s2, Q1 a1 a2 s1 s2 -> Q2 a1 a2 s1 s2) -> wp2 m1 m2 Q2 st1 st2.
Proof.
  unfold wp2. intros A m1 m2 Q1 Q2 st1 st2 H HQ.
  destruct (m1 st1) as [[a1 s1]| | |]; destruct (m2 st2) as [[a2 s2]| | |]; auto.
Qed.

Lemma wp2_fail : forall A e1 e2 (Q : A -> A -> pstate -> pstate -> Prop) st1 st2,
  pe_kind e1 = pe_kind e2 -> wp2 (fail e1) (fail e2) Q st1 st2.
Proof. intros. exact H. Qed.

Lemma wp2_tok_error : forall A t1 t2 k (Q : A -> A -> pstate -> pstate -> Prop) st1 st2,
  wp2 (tok_error t1 k) (tok_error t2 k) Q st1 st2.
Proof. intros. reflexivity. Qed.

Lemma wp2_ppanic : forall A n (Q : A -> A -> pstate -> pstate -> Prop) st1 st2,
  wp2 (ppanic n) (ppanic n) Q st1 st2.
Proof. intros. reflexivity. Qed.

(* the second run may be rewritten *)
Lemma wp2_right : forall A (m1 m2 m2' : P A) Q st1 st2 st2',
  m2 st2 = m2' st2' -> wp2 m1 m2' Q st1 st2' -> wp2 m1 m2 Q st1 st2.
Proof. unfold wp2. intros A m1 m2 m2' Q st1 st2 st2' E H. rewrite E. exact H. Qed.

(* one round of the block loop on an Eol token *)
Lemma block_loop_skip_eol : forall il hdr f et b st e r, toks st = e :: r -> tkind e = TEol ->
  parse_block_loop il hdr (S f) et b st = parse_block_loop il hdr f et b (set_toks st r (pline st + 1)).
Proof.
  intros il hdr f et b st e r Ht Hk. destruct e as [k sp tx]. cbn [tkind] in Hk. subst k.
  destruct st as [ts ln vs vi ei eo]. cbn [toks] in Ht. subst ts. reflexivity.
Qed.

(* ================================================================== the two runs *)

Local Open Scope nat_scope.

Lemma skipn_app_lt : forall A (l1 l2 : list A) n, n <= length l1 -> skipn n (l1 ++ l2) = skipn n l1 ++ l2.
Proof.
  intros A l1 l2 n H. rewrite skipn_app. replace (n - length l1) with 0 by lia. reflexivity.
Qed.

Section BLANK.
Variables pre post : list token.
Variable e : token.                 (* the extra token *)
Variable line0 : N.                 (* the line counter in front of pre *)
Hypothesis e_eol : tkind e = TEol.
Hypothesis pre_ok : pre = [] \/ exists pre' e0, pre = pre' ++ [e0] /\ tkind e0 = TEol.

Definition p : nat := length pre.
Definition L : N := (line0 + N.of_nat (count_eol pre))%N.

Definition same_rest (s1 s2 : pstate) : Prop :=
  pvars s2 = pvars s1 /\ pvirtuals s2 = pvirtuals s1 /\
  pexp_inputs s2 = pexp_inputs s1 /\ pexp_outputs s2 = pexp_outputs s1.

(* both runs have consumed the first n tokens of pre *)
Definition ainv (n : nat) (s1 s2 : pstate) : Prop :=
  n <= p /\ toks s1 = skipn n pre ++ post /\ toks s2 = skipn n pre ++ e :: post /\
  pline s2 = pline s1 /\ pline s1 = (line0 + N.of_nat (count_eol (firstn n pre)))%N /\ same_rest s1 s2.

(* both runs are behind the insertion point *)
Definition binv (s1 s2 : pstate) : Prop :=
  toks s2 = toks s1 /\ pline s2 = (pline s1 + 1)%N /\ (L <= pline s1)%N /\ same_rest s1 s2.

Definition rel (s1 s2 : pstate) : Prop := (exists n, ainv n s1 s2) \/ binv s1 s2.
Definition instep (s1 s2 : pstate) : Prop := (exists n, n < p /\ ainv n s1 s2) \/ binv s1 s2.

Lemma instep_rel : forall s1 s2, instep s1 s2 -> rel s1 s2.
Proof. intros s1 s2 [[n [_ H]]|H]; [left; exists n; exact H | right; exact H]. Qed.

Definition head_is (st : pstate) (t : token) : Prop := exists r, toks st = t :: r.

Lemma head_is_fun : forall st t t', head_is st t -> head_is st t' -> t = t'.
Proof. intros st t t' [r H] [r' H']. congruence. Qed.

Lemma pre_last : forall n t, n < p -> nth_error pre n = Some t -> tkind t <> TEol -> S n < p.
Proof.
  intros n t Hn Ht Hk. unfold p in *. destruct pre_ok as [E|[pre' [e0 [E He0]]]].
  - rewrite E in Hn. cbn in Hn. lia.
  - rewrite E in *. rewrite app_length in *. cbn [length] in *.
    destruct (Nat.eq_dec n (length pre')) as [->|Hne]; [|lia].
    rewrite nth_error_app2 in Ht by lia. rewrite Nat.sub_diag in Ht. cbn in Ht. injection Ht as <-.
    contradiction.
Qed.

Lemma count_eol_firstn_lt : forall n, n < p ->
  (count_eol (firstn n pre) < count_eol pre)%nat.
Proof.
  intros n Hn. unfold p in Hn. destruct pre_ok as [E|[pre' [e0 [E He0]]]].
  - rewrite E in Hn. cbn in Hn. lia.
  - rewrite E in *. rewrite app_length in Hn. cbn [length] in Hn.
    rewrite firstn_app. replace (n - length pre') with 0 by lia. cbn [firstn]. rewrite app_nil_r.
    rewrite count_eol_snoc, He0. cbn [tk_beq].
    assert (H : forall (l : list token) k, count_eol (firstn k l) <= count_eol l).
    { induction l as [|x l IH]; intros k.
      - destruct k; apply Nat.le_refl.
      - destruct k as [|k]; cbn [firstn]; [apply Nat.le_0_l|].
        rewrite !count_eol_cons. specialize (IH k). lia. }
    specialize (H pre' n). lia.
Qed.

(* what a successful get does to a state *)
Definition adv (st : pstate) (t : token) (r : list token) : pstate :=
  set_toks st r (if tk_beq (tkind t) TEol then pline st + 1 else pline st)%N.

Lemma same_rest_adv : forall s1 s2 t r1 r2, same_rest s1 s2 -> same_rest (adv s1 t r1) (adv s2 t r2).
Proof. intros s1 s2 t r1 r2 H. exact H. Qed.

Lemma instep_nil : forall s1 s2, instep s1 s2 -> toks s1 = [] -> toks s2 = [].
Proof.
  intros s1 s2 [[n [Hn (_ & H1 & _)]]|(H1 & _)] E; [|congruence].
  exfalso. rewrite H1 in E. apply app_eq_nil in E. destruct E as [E _].
  apply (f_equal (@length _)) in E. rewrite skipn_length in E. cbn in E. unfold p in Hn. lia.
Qed.

Lemma instep_cons : forall s1 s2 t r1, instep s1 s2 -> toks s1 = t :: r1 ->
  exists r2, toks s2 = t :: r2 /\ rel (adv s1 t r1) (adv s2 t r2) /\
             (tkind t <> TEol -> instep (adv s1 t r1) (adv s2 t r2)).
Proof.
  intros s1 s2 t r1 [[n [Hn (Hle & H1 & H2 & H3 & H4 & H5)]]|(H1 & H2 & H3 & H4)] E.
  - destruct (skipn n pre) as [|t' rest] eqn:Es.
    { apply (f_equal (@length _)) in Es. rewrite skipn_length in Es. cbn in Es. unfold p in Hn. lia. }
    rewrite H1 in E. cbn [app] in E. injection E as -> <-.
    destruct (skipn_cons_inv _ _ _ _ _ Es) as [Hnth [Hs Hf]].
    exists (rest ++ e :: post). split; [rewrite H2; reflexivity|].
    assert (Ha : ainv (S n) (adv s1 t (rest ++ post)) (adv s2 t (rest ++ e :: post))).
    { split; [unfold p in *; lia|]. unfold adv. cbn [toks pline set_toks]. rewrite Hs.
      split; [reflexivity|]. split; [reflexivity|]. split; [rewrite H3; reflexivity|].
      split; [|exact H5]. rewrite Hf, count_eol_snoc, H4. destruct (tk_beq (tkind t) TEol); lia. }
    split; [left; exists (S n); exact Ha|].
    intro Hk. left. exists (S n). split; [|exact Ha]. eapply pre_last; eassumption.
  - exists r1. split; [congruence|].
    assert (Hb : binv (adv s1 t r1) (adv s2 t r1)).
    { unfold adv. split; [reflexivity|]. cbn [pline set_toks]. rewrite H2.
      split; [destruct (tk_beq (tkind t) TEol); lia|]. split; [destruct (tk_beq (tkind t) TEol); lia | exact H4]. }
    split; [right; exact Hb | intros _; right; exact Hb].
Qed.

(* changes that leave tokens and line counter alone, the same in both runs *)
Lemma rel_transport : forall s1 s2 s1' s2', toks s1' = toks s1 -> pline s1' = pline s1 ->
  toks s2' = toks s2 -> pline s2' = pline s2 -> same_rest s1' s2' ->
  (rel s1 s2 -> rel s1' s2') /\ (instep s1 s2 -> instep s1' s2').
Proof.
  intros s1 s2 s1' s2' T1 P1 T2 P2 Hr.
  assert (Ha : forall n, ainv n s1 s2 -> ainv n s1' s2').
  { intros n (H0 & H1 & H2 & H3 & H4 & _). unfold ainv. rewrite T1, T2, P1, P2. auto 10. }
  assert (Hb : binv s1 s2 -> binv s1' s2').
  { intros (H1 & H2 & H3 & _). unfold binv. rewrite T1, T2, P1, P2. auto. }
  split; intros [[n H]|H].
  - left. exists n. auto.
  - right. auto.
  - left. exists n. destruct H. auto.
  - right. auto.
Qed.

Lemma rel_same_rest : forall s1 s2, rel s1 s2 -> same_rest s1 s2.
Proof. intros s1 s2 [[n H]|H]; apply H. Qed.

Lemma instep_line : forall s1 s2, instep s1 s2 -> pline s2 = bump L (pline s1).
Proof.
  intros s1 s2 [[n [Hn (_ & _ & _ & H3 & H4 & _)]]|(_ & H2 & H3 & _)]; unfold bump.
  - pose proof (count_eol_firstn_lt n Hn) as Hlt.
    destruct (N.leb_spec L (pline s1)) as [Hle|_]; [unfold L in Hle; lia | exact H3].
  - apply N.leb_le in H3. rewrite H3. exact H2.
Qed.

(* ------------------------------------------------------------------ rules for the primitives *)

Variables il1 il2 : N.
Variable hdr : list name.

Lemma wp2_peek : forall (Q : tk -> tk -> pstate -> pstate -> Prop) s1 s2, instep s1 s2 ->
  (forall t, head_is s1 t -> Q (tkind t) (tkind t) s1 s2) -> wp2 peek peek Q s1 s2.
Proof.
  unfold wp2, peek. intros Q s1 s2 H HQ. destruct (toks s1) as [|t r1] eqn:E.
  - rewrite (instep_nil _ _ H E). reflexivity.
  - destruct (instep_cons _ _ _ _ H E) as [r2 [-> _]]. apply HQ. exists r1. exact E.
Qed.

Lemma wp2_peek_span : forall (Q : span -> span -> pstate -> pstate -> Prop) s1 s2, instep s1 s2 ->
  (forall t, head_is s1 t -> Q (tspan t) (tspan t) s1 s2) -> wp2 peek_span peek_span Q s1 s2.
Proof.
  unfold wp2, peek_span. intros Q s1 s2 H HQ. destruct (toks s1) as [|t r1] eqn:E.
  - rewrite (instep_nil _ _ H E). reflexivity.
  - destruct (instep_cons _ _ _ _ H E) as [r2 [-> _]]. apply HQ. exists r1. exact E.
Qed.

Lemma wp2_at : forall k (Q : bool -> bool -> pstate -> pstate -> Prop) s1 s2, instep s1 s2 ->
  (forall t, head_is s1 t -> Q (tk_beq (tkind t) k) (tk_beq (tkind t) k) s1 s2) -> wp2 (at_ k) (at_ k) Q s1 s2.
Proof.
  unfold wp2, at_, bind, peek, ret. intros k Q s1 s2 H HQ. destruct (toks s1) as [|t r1] eqn:E.
  - rewrite (instep_nil _ _ H E). reflexivity.
  - destruct (instep_cons _ _ _ _ H E) as [r2 [-> _]]. apply HQ. exists r1. exact E.
Qed.

Lemma wp2_get : forall (Q : token -> token -> pstate -> pstate -> Prop) s1 s2, instep s1 s2 ->
  (forall t s1' s2', head_is s1 t -> rel s1' s2' -> (tkind t <> TEol -> instep s1' s2') -> Q t t s1' s2') ->
  wp2 (get il1) (get il2) Q s1 s2.
Proof.
  unfold wp2, get. intros Q s1 s2 H HQ. destruct (toks s1) as [|t r1] eqn:E.
  - rewrite (instep_nil _ _ H E). reflexivity.
  - destruct (instep_cons _ _ _ _ H E) as [r2 [-> [Hr Hi]]]. apply HQ; [exists r1; exact E | exact Hr | exact Hi].
Qed.

Lemma wp2_skip : forall (Q : unit -> unit -> pstate -> pstate -> Prop) s1 s2, instep s1 s2 ->
  (forall t s1' s2', head_is s1 t -> rel s1' s2' -> (tkind t <> TEol -> instep s1' s2') -> Q tt tt s1' s2') ->
  wp2 (skip il1) (skip il2) Q s1 s2.
Proof.
  intros Q s1 s2 H HQ. pose proof (wp2_get (fun _ _ s1' s2' => Q tt tt s1' s2') s1 s2 H HQ) as G.
  unfold wp2, skip in *.
  destruct (get il1 s1) as [[a1 s1']| | |]; destruct (get il2 s2) as [[a2 s2']| | |]; try exact G; try exact I;
    try contradiction; reflexivity.
Qed.

Lemma wp2_expect : forall k (Q : token -> token -> pstate -> pstate -> Prop) s1 s2, instep s1 s2 ->
  (forall t s1' s2', head_is s1 t -> tkind t = k -> rel s1' s2' -> (tkind t <> TEol -> instep s1' s2') ->
     Q t t s1' s2') ->
  wp2 (expect il1 k) (expect il2 k) Q s1 s2.
Proof.
  intros k Q s1 s2 H HQ. unfold expect. apply wp2_bind. apply wp2_get; [exact H|].
  intros t s1' s2' Hh Hr Hi. destruct (tk_beq (tkind t) k) eqn:E; [|apply wp2_tok_error].
  apply wp2_ret. apply HQ; try assumption. apply tk_beq_true. exact E.
Qed.

Lemma wp2_parse_number : forall (Q : Z -> Z -> pstate -> pstate -> Prop) s1 s2, instep s1 s2 ->
  (forall z s1' s2', instep s1' s2' -> Q z z s1' s2') ->
  wp2 (parse_number il1) (parse_number il2) Q s1 s2.
Proof.
  intros Q s1 s2 H HQ. unfold parse_number. apply wp2_bind. apply wp2_get; [exact H|].
  intros t s1' s2' Hh Hr Hi.
  destruct (tkind t) eqn:Hk; try apply wp2_tok_error;
    match goal with |- context[from_str_radix ?a ?b] => destruct (from_str_radix a b) end;
    try apply wp2_tok_error; apply wp2_ret; apply HQ; apply Hi; discriminate.
Qed.

Lemma wp2_get_line : forall (Q : N -> N -> pstate -> pstate -> Prop) s1 s2, instep s1 s2 ->
  (forall l, Q l (bump L l) s1 s2) -> wp2 get_line get_line Q s1 s2.
Proof. intros Q s1 s2 H HQ. unfold wp2, get_line. rewrite (instep_line _ _ H). apply HQ. Qed.

Lemma wp2_get_vars : forall (Q : fset -> fset -> pstate -> pstate -> Prop) s1 s2, rel s1 s2 ->
  (forall v, Q v v s1 s2) -> wp2 get_vars get_vars Q s1 s2.
Proof.
  intros Q s1 s2 H HQ. unfold wp2, get_vars. destruct (rel_same_rest _ _ H) as [-> _]. apply HQ.
Qed.

(* the state-only primitives *)
Definition quiet2 (m : P unit) : Prop :=
  forall s1 s2, same_rest s1 s2 ->
  match m s1, m s2 with
  | Ok (_, s1'), Ok (_, s2') =>
      toks s1' = toks s1 /\ pline s1' = pline s1 /\ toks s2' = toks s2 /\ pline s2' = pline s2 /\
      same_rest s1' s2'
  | Err e1, Err e2 => pe_kind e1 = pe_kind e2
  | _, _ => False
  end.

Lemma wp2_quiet : forall m (Q : unit -> unit -> pstate -> pstate -> Prop) s1 s2, quiet2 m -> rel s1 s2 ->
  (forall s1' s2', rel s1' s2' -> (instep s1 s2 -> instep s1' s2') -> Q tt tt s1' s2') ->
  wp2 m m Q s1 s2.
Proof.
  intros m Q s1 s2 Hq H HQ. specialize (Hq s1 s2 (rel_same_rest _ _ H)). unfold wp2.
  destruct (m s1) as [[[] s1']| | |]; destruct (m s2) as [[[] s2']| | |]; try contradiction; try exact Hq.
  destruct Hq as (T1 & P1 & T2 & P2 & Hr).
  destruct (rel_transport s1 s2 s1' s2' T1 P1 T2 P2 Hr) as [G1 G2]. apply HQ; auto.
Qed.

Lemma quiet2_modify_vars : forall f, quiet2 (modify_vars f).
Proof.
  intros f s1 s2 (H1 & H2 & H3 & H4). cbn. repeat split; try assumption. cbn. rewrite H1. reflexivity.
Qed.
Lemma quiet2_put_vars : forall v, quiet2 (put_vars v).
Proof. intros v s1 s2 (H1 & H2 & H3 & H4). cbn. repeat split; assumption. Qed.
Lemma quiet2_note_read_output : forall x sp, quiet2 (note_read_output x sp).
Proof.
  intros x sp s1 s2 (H1 & H2 & H3 & H4). unfold note_read_output. rewrite H1.
  destruct (fs_contains (pvars s1) x); cbn; repeat split; try assumption. cbn. rewrite H4. reflexivity.
Qed.
Lemma quiet2_note_expected_input : forall x sp, quiet2 (note_expected_input x sp).
Proof.
  intros x sp s1 s2 (H1 & H2 & H3 & H4). cbn. repeat split; try assumption. cbn. rewrite H3. reflexivity.
Qed.
Lemma quiet2_add_virtual : forall nm sp ex, quiet2 (add_virtual nm sp ex).
Proof.
  intros nm sp ex s1 s2 (H1 & H2 & H3 & H4). unfold add_virtual. rewrite H2.
  destruct (assoc_get nm (pvirtuals s1)) as [[ps pe]|]; cbn; [reflexivity|].
  repeat split; try assumption; reflexivity.
Qed.

Lemma wp2_oof_r : forall A (m1 m2 : P A) Q s1 s2, m2 s2 = OOF -> wp2 m1 m2 Q s1 s2.
Proof. intros A m1 m2 Q s1 s2 E. unfold wp2. rewrite E. destruct (m1 s1) as [[? ?]| | |]; exact I. Qed.

(* the moment the second run has the extra token in front of it *)
Lemma rel_cases : forall s1 s2, rel s1 s2 ->
  instep s1 s2 \/ (toks s2 = e :: toks s1 /\ binv s1 (set_toks s2 (toks s1) (pline s2 + 1)%N)).
Proof.
  intros s1 s2 [[n Ha]|Hb]; [|left; right; exact Hb].
  destruct (Nat.eq_dec n p) as [->|Hne].
  - right. destruct Ha as (_ & H1 & H2 & H3 & H4 & H5). unfold p in *.
    rewrite skipn_all in H1, H2. cbn [app] in H1, H2. rewrite firstn_all in H4.
    split; [congruence|]. split; [reflexivity|]. cbn [pline set_toks]. split; [rewrite H3; reflexivity|].
    split; [unfold L; lia | exact H5].
  - left. left. exists n. split; [destruct Ha; lia | exact Ha].
Qed.

(* ------------------------------------------------------------------ the sweep of this pass *)

Definition epost2 {A} (a1 a2 : A) (s1 s2 : pstate) : Prop := a2 = a1 /\ instep s1 s2.
Definition bpost2 (b1 b2 : list stmt) (s1 s2 : pstate) : Prop := b2 = bump_block L b1 /\ instep s1 s2.
Definition apost2 (a1 a2 : arm_result) (s1 s2 : pstate) : Prop := a2 = bump_arm L a1 /\ instep s1 s2.

Ltac w_hook :=
  repeat match goal with
  | H : _ /\ _ |- _ => destruct H
  | H : epost2 _ ?b _ _ |- _ => destruct H as [? ?]; subst b
  | H : bpost2 _ ?b _ _ |- _ => destruct H as [? ?]; subst b
  | H : apost2 _ ?b _ _ |- _ => destruct H as [? ?]; subst b
  | H1 : head_is ?st ?t, H2 : head_is ?st ?t' |- _ =>
      lazymatch t' with
      | t => clear H2
      | _ => pose proof (head_is_fun _ _ _ H1 H2); first [subst t' | subst t]; clear H2
      end
  | H : instep ?a ?b -> _, H' : instep ?a ?b |- _ => specialize (H H')
  | H : tkind ?t <> TEol -> _, Hk : tkind ?t <> TEol |- _ => specialize (H Hk)
  | H : tkind ?t <> TEol -> _, Hk : tkind ?t = _ |- _ =>
      first [ specialize (H ltac:(congruence)) | clear H ]
  | H : tk_beq _ _ = true |- _ => apply tk_beq_true in H
  end.

Ltac w_in := intros; w_hook; norm_goal.
Ltac w_rel := first [ eassumption | apply instep_rel; eassumption ].
Ltac w_quiet lem := eapply wp2_quiet; [ apply lem | w_rel | w_in ].
Ltac w_side_pre := first [ eassumption | reflexivity | discriminate | congruence | apply instep_rel; eassumption ].

Ltac w_step :=
  lazymatch goal with
  | |- wp2 (bind _ _) (bind _ _) _ _ _ => apply wp2_bind
  | |- wp2 (ret _) (ret _) _ _ _ => apply wp2_ret; norm_goal
  | |- wp2 (fail _) (fail _) _ _ _ => apply wp2_fail; reflexivity
  | |- wp2 (tok_error _ _) (tok_error _ _) _ _ _ => apply wp2_tok_error
  | |- wp2 (ppanic _) (ppanic _) _ _ _ => apply wp2_ppanic
  | |- wp2 peek peek _ _ _ => apply wp2_peek; [ eassumption | w_in ]
  | |- wp2 peek_span peek_span _ _ _ => apply wp2_peek_span; [ eassumption | w_in ]
  | |- wp2 (at_ _) (at_ _) _ _ _ => apply wp2_at; [ eassumption | w_in ]
  | |- wp2 (get _) (get _) _ _ _ => apply wp2_get; [ eassumption | w_in ]
  | |- wp2 (skip _) (skip _) _ _ _ => apply wp2_skip; [ eassumption | w_in ]
  | |- wp2 (expect _ _) (expect _ _) _ _ _ => apply wp2_expect; [ eassumption | w_in ]
  | |- wp2 (parse_number _) (parse_number _) _ _ _ => apply wp2_parse_number; [ eassumption | w_in ]
  | |- wp2 get_line get_line _ _ _ => apply wp2_get_line; [ eassumption | w_in ]
  | |- wp2 get_vars get_vars _ _ _ => apply wp2_get_vars; [ w_rel | w_in ]
  | |- wp2 (put_vars _) (put_vars _) _ _ _ => w_quiet quiet2_put_vars
  | |- wp2 (modify_vars _) (modify_vars _) _ _ _ => w_quiet quiet2_modify_vars
  | |- wp2 (note_read_output _ _) (note_read_output _ _) _ _ _ => w_quiet quiet2_note_read_output
  | |- wp2 (note_expected_input _ _) (note_expected_input _ _) _ _ _ => w_quiet quiet2_note_expected_input
  | |- wp2 (add_virtual _ _ _) (add_virtual _ _ _) _ _ _ => w_quiet quiet2_add_virtual
  | |- wp2 (if tk_beq (tkind ?t) ?k then _ else _) _ _ _ _ =>
      let E := fresh "E" in destruct (tk_beq (tkind t) k) eqn:E; w_hook; norm_goal
  | |- wp2 (match ?x with _ => _ end) _ _ _ _ =>
      lazymatch x with
      | context[tkind ?t] => destruct (tkind t) eqn:?
      | _ => tryif is_var x then destruct x else destruct x eqn:?
      end; w_hook; norm_goal
  | |- wp2 _ _ _ _ _ =>
      eapply wp2_conseq;
      [ match goal with H : _ |- _ => eapply H; w_side_pre end
      | cbv beta; intros ? ? ? ? ?; w_hook; norm_goal ]
  end.

Ltac w_sweep := repeat w_step.
Ltac e_fin2 := split; [reflexivity | eassumption].
Ltac b_fin2 :=
  unfold apost2, bpost2; cbn [bump_arm]; rewrite ?bump_block_snoc; split; [reflexivity | eassumption].

Lemma expr2 : forall f1 f2,
  (forall s1 s2, instep s1 s2 -> wp2 (parse_expr il1 f1) (parse_expr il2 f2) epost2 s1 s2) /\
  (forall tree s1 s2, instep s1 s2 ->
     wp2 (parse_expr_loop il1 f1 tree) (parse_expr_loop il2 f2 tree) epost2 s1 s2) /\
  (forall s1 s2, instep s1 s2 -> wp2 (parse_factor il1 f1) (parse_factor il2 f2) epost2 s1 s2) /\
  (forall acc s1 s2 t, instep s1 s2 -> head_is s1 t -> tkind t <> TEol ->
     wp2 (parse_args il1 f1 acc) (parse_args il2 f2 acc) epost2 s1 s2).
Proof.
  induction f1 as [|f1 IH]; intro f2.
  - repeat split; intros; exact I.
  - destruct f2 as [|f2]; [repeat split; intros; apply wp2_oof_r; reflexivity|].
    destruct (IH f2) as [IHe [IHl [IHf IHa]]]. clear IH.
    split; [|split; [|split]].
    + intros s1 s2 Hi. rewrite !parse_expr_S. w_sweep; e_fin2.
    + intros tree s1 s2 Hi. rewrite !parse_expr_loop_S. w_sweep; e_fin2.
    + intros s1 s2 Hi. rewrite !parse_factor_S. w_sweep; e_fin2.
    + intros acc s1 s2 t Hi Hh Hk. rewrite !parse_args_S. w_sweep; e_fin2.
Qed.

Lemma row2 : forall f1 f2 data idx s1 s2, instep s1 s2 ->
  wp2 (parse_row_loop il1 hdr f1 data idx) (parse_row_loop il2 hdr f2 data idx) epost2 s1 s2.
Proof.
  induction f1 as [|f1 IH]; intros f2 data idx s1 s2 Hi; [exact I|].
  destruct f2 as [|f2]; [apply wp2_oof_r; reflexivity|].
  pose proof (proj1 (expr2 f1 f2)) as He. specialize (IH f2).
  rewrite !parse_row_loop_S. w_sweep; e_fin2.
Qed.

Lemma data_row2 : forall f1 f2 s1 s2, instep s1 s2 ->
  wp2 (parse_data_row il1 hdr f1) (parse_data_row il2 hdr f2) epost2 s1 s2.
Proof.
  intros f1 f2 s1 s2 Hi. pose proof (row2 f1 f2) as Hr.
  rewrite !parse_data_row_eq. w_sweep; e_fin2.
Qed.

Section BLOCK_STEP.
Variables f1 f2 : nat.
Hypothesis IH : forall et b b' s1 s2, et <> Some TEol -> b' = bump_block L b -> rel s1 s2 ->
  wp2 (parse_block_loop il1 hdr f1 et b) (parse_block_loop il2 hdr f2 et b') bpost2 s1 s2.

Lemma post2 : forall et a s1 s2, et <> Some TEol -> instep s1 s2 ->
  wp2 (block_post il1 hdr f1 et a) (block_post il2 hdr f2 et (bump_arm L a)) bpost2 s1 s2.
Proof.
  intros et a s1 s2 Het Hi. unfold block_post. destruct a as [b|b]; cbn [bump_arm].
  all: w_sweep; b_fin2.
Qed.

Lemma arm2 : forall et b t s1 s2, et <> Some TEol -> instep s1 s2 -> head_is s1 t ->
  wp2 (block_arm il1 hdr f1 et b (tkind t)) (block_arm il2 hdr f2 et (bump_block L b) (tkind t)) apost2 s1 s2.
Proof.
  intros et b t s1 s2 Het Hi Hh.
  pose proof (proj1 (expr2 f1 f2)) as He. pose proof (data_row2 f1 f2) as Hd.
  unfold block_arm. w_sweep; b_fin2.
Qed.
End BLOCK_STEP.

Lemma block2 : forall f2 f1 et b s1 s2, et <> Some TEol -> rel s1 s2 ->
  wp2 (parse_block_loop il1 hdr f1 et b) (parse_block_loop il2 hdr f2 et (bump_block L b)) bpost2 s1 s2.
Proof.
  induction f2 as [|f2 IH]; intros f1 et b s1 s2 Het Hrel; [apply wp2_oof_r; reflexivity|].
  destruct f1 as [|f1]; [exact I|].
  destruct (rel_cases _ _ Hrel) as [Hi|[Ht Hb]].
  - assert (IH' : forall et b b' s1 s2, et <> Some TEol -> b' = bump_block L b -> rel s1 s2 ->
      wp2 (parse_block_loop il1 hdr f1 et b) (parse_block_loop il2 hdr f2 et b') bpost2 s1 s2).
    { intros et' b0 b' s1' s2' Het' -> Hr'. apply IH; assumption. }
    rewrite !parse_block_loop_S.
    apply wp2_bind. apply wp2_peek; [exact Hi|]. intros t Hh. cbv beta.
    apply wp2_bind. eapply wp2_conseq; [apply (arm2 f1 f2 IH'); assumption|].
    intros a1 a2 s1' s2' [-> Hi']. apply (post2 f1 f2 IH'); assumption.
  - eapply wp2_right; [eapply block_loop_skip_eol; [exact Ht | exact e_eol]|].
    apply IH; [exact Het | right; exact Hb].
Qed.

End BLANK.

(* ================================================================== the theorem *)

Definition mk_state (ts : list token) (line : N) (vars : fset) (virt : list (name * (span * expr)))
  (ins outs : list (name * span)) : pstate :=
  {| toks := ts; pline := line; pvars := vars; pvirtuals := virt; pexp_inputs := ins; pexp_outputs := outs |}.

(* One extra Eol token e directly after an Eol token, or at the very start: same outcome, except
   that the rows recorded at or after line L (= the line counter behind pre, i.e. the rows parsed
   after the extra token) report one line more. *)
Theorem blank_line_insert : forall pre post e line0 il1 il2 hdr f1 f2 vars virt ins outs,
  tkind e = TEol -> (pre = [] \/ exists pre' e0, pre = pre' ++ [e0] /\ tkind e0 = TEol) ->
  f1 >= 2 + 4 * length (pre ++ post) -> f2 >= 2 + 4 * length (pre ++ e :: post) ->
  match parse_block_loop il1 hdr f1 None [] (mk_state (pre ++ post) line0 vars virt ins outs),
        parse_block_loop il2 hdr f2 None [] (mk_state (pre ++ e :: post) line0 vars virt ins outs) with
  | Ok (b1, s1), Ok (b2, s2) =>
      b2 = bump_block (line0 + N.of_nat (count_eol pre)) b1 /\
      pvars s2 = pvars s1 /\ pvirtuals s2 = pvirtuals s1 /\
      pexp_inputs s2 = pexp_inputs s1 /\ pexp_outputs s2 = pexp_outputs s1
  | Err e1, Err e2 => pe_kind e1 = pe_kind e2
  | Panic x, Panic y => x = y          (* only if the token list does not end with Eof *)
  | _, _ => False
  end.
Proof.
  intros pre post e line0 il1 il2 hdr f1 f2 vars virt ins outs He Hpre Hf1 Hf2.
  set (st1 := mk_state (pre ++ post) line0 vars virt ins outs).
  set (st2 := mk_state (pre ++ e :: post) line0 vars virt ins outs).
  assert (Hrel : rel pre post e line0 st1 st2).
  { left. exists 0. unfold ainv, same_rest. cbn. repeat split; try reflexivity; lia. }
  pose proof (block2 pre post e line0 He Hpre il1 il2 hdr f2 f1 None [] st1 st2 ltac:(discriminate) Hrel) as H.
  pose proof (parse_block_never_oof f1 il1 hdr None [] st1 Hf1) as N1.
  pose proof (parse_block_never_oof f2 il2 hdr None [] st2 Hf2) as N2.
  unfold wp2 in H. cbn [bump_block map] in H.
  destruct (parse_block_loop il1 hdr f1 None [] st1) as [[b1 s1]| | |];
    destruct (parse_block_loop il2 hdr f2 None [] st2) as [[b2 s2]| | |]; try congruence; try exact H.
  destruct H as [-> Hi]. split; [reflexivity|].
  exact (rel_same_rest _ _ _ _ _ _ (instep_rel _ _ _ _ _ _ Hi)).
Qed.

(* the same for token lists given up to spans: the second list has the tokens of the first, as
   far as kinds and texts go, with one Eol token more *)
Lemma view_count_eol : forall ts1 ts2, view ts1 = view ts2 -> count_eol ts1 = count_eol ts2.
Proof.
  induction ts1 as [|t1 r1 IH]; intros [|t2 r2] H; try discriminate H; [reflexivity|].
  cbn [view map] in H. injection H as Hk _ Hr. rewrite !count_eol_cons, Hk, (IH r2 Hr). reflexivity.
Qed.

Theorem blank_line_insert_view : forall ts1 ts2 U V w line0 il1 il2 hdr f1 f2,
  view ts1 = U ++ V -> view ts2 = U ++ (TEol, w) :: V ->
  (U = [] \/ exists U' w0, U = U' ++ [(TEol, w0)]) ->
  f1 >= 2 + 4 * length ts1 -> f2 >= 2 + 4 * length ts2 ->
  match parse_block_loop il1 hdr f1 None [] (mk_state ts1 line0 fm_new [] [] []),
        parse_block_loop il2 hdr f2 None [] (mk_state ts2 line0 fm_new [] [] []) with
  | Ok (b1, s1), Ok (b2, s2) =>
      b2 = bump_block (line0 + N.of_nat (length (filter (fun kv => tk_beq (fst kv) TEol) U))) b1 /\
      pvars s2 = pvars s1 /\ virt_view (pvirtuals s2) = virt_view (pvirtuals s1) /\
      map fst (pexp_inputs s2) = map fst (pexp_inputs s1) /\
      map fst (pexp_outputs s2) = map fst (pexp_outputs s1)
  | Err e1, Err e2 => pe_kind e1 = pe_kind e2
  | Panic x, Panic y => x = y
  | _, _ => False
  end.
Proof.
  intros ts1 ts2 U V w line0 il1 il2 hdr f1 f2 H1 H2 HU Hf1 Hf2.
  unfold view in H1, H2. apply map_eq_app in H1. destruct H1 as [pre [post [-> [Hpre Hpost]]]].
  apply map_eq_app in H2. destruct H2 as [pre2 [post2' [-> [Hpre2 Hpost2]]]].
  apply map_eq_cons in Hpost2. destruct Hpost2 as [e [post2 [-> [He Hpost2]]]].
  injection He as Hek Hew.
  assert (Hpre_ok : pre = [] \/ exists pre' e0, pre = pre' ++ [e0] /\ tkind e0 = TEol).
  { destruct HU as [->|[U' [w0 ->]]].
    - left. destruct pre; [reflexivity | discriminate Hpre].
    - right. apply map_eq_app in Hpre. destruct Hpre as [pre' [l [-> [_ Hl]]]].
      destruct l as [|e0 [|? ?]]; try discriminate Hl. injection Hl as Hk _. exists pre', e0. auto. }
  assert (Hlen : length (pre ++ e :: post) = length (pre2 ++ e :: post2)).
  { apply (f_equal (@length _)) in Hpre2. apply (f_equal (@length _)) in Hpost2.
    rewrite <- Hpre, <- Hpost, !map_length in *. rewrite !app_length. cbn [length]. lia. }
  pose proof (blank_line_insert pre post e line0 il1 il2 hdr f1 f2 fm_new [] [] [] Hek Hpre_ok Hf1
                ltac:(rewrite Hlen; exact Hf2)) as HA.
  assert (Hst : st_eqv (mk_state (pre ++ e :: post) line0 fm_new [] [] [])
                       (mk_state (pre2 ++ e :: post2) line0 fm_new [] [] [])).
  { repeat split; try reflexivity. cbn [toks mk_state]. unfold view. rewrite !map_app. cbn [map].
    transitivity (U ++ (tkind e, ttext e) :: V);
      [ f_equal; [exact Hpre | f_equal; exact Hpost]
      | symmetry; f_equal; [exact Hpre2 | f_equal; exact Hpost2] ]. }
  pose proof (block_layout il2 il2 hdr f2 None [] _ _ Hst) as HB.
  assert (Hcnt : count_eol pre = length (filter (fun kv => tk_beq (fst kv) TEol) U)).
  { rewrite <- Hpre. unfold count_eol. clear. induction pre as [|t r IH]; [reflexivity|].
    cbn [map filter fst]. destruct (tk_beq (tkind t) TEol); cbn [length]; rewrite IH; reflexivity. }
  rewrite Hcnt in HA.
  destruct (parse_block_loop il1 hdr f1 None [] (mk_state (pre ++ post) line0 fm_new [] [] [])) as [[b1 s1]| | |];
    destruct (parse_block_loop il2 hdr f2 None [] (mk_state (pre ++ e :: post) line0 fm_new [] [] [])) as [[b2 s2]| | |];
    try contradiction;
    destruct (parse_block_loop il2 hdr f2 None [] (mk_state (pre2 ++ e :: post2) line0 fm_new [] [] [])) as [[b3 s3]| | |];
    cbn [res_eqv] in HB; try contradiction.
  - destruct HA as (-> & A1 & A2 & A3 & A4). destruct HB as [<- HB]. split; [reflexivity|].
    destruct HB as (B1 & B2 & B3 & B4 & B5 & B6).
    rewrite <- B3, <- B4, <- B5, <- B6, A1, A2, A3, A4. repeat split; reflexivity.
  - congruence.
  - congruence.
Qed.


(* ================================================================== whole texts *)

Local Close Scope nat_scope.

(* number of Eol tokens in a view *)
Definition vcount (vs : list (tk * text)) : nat := length (filter (fun kv => tk_beq (fst kv) TEol) vs).

Lemma vcount_view : forall ts, vcount (view ts) = count_eol ts.
Proof.
  unfold vcount, count_eol. induction ts as [|t r IH]; [reflexivity|].
  cbn [view map filter fst]. destruct (tk_beq (tkind t) TEol); cbn [length]; fold (view r); rewrite IH; reflexivity.
Qed.

Lemma vcount_app : forall a b, vcount (a ++ b) = (vcount a + vcount b)%nat.
Proof. intros. unfold vcount. rewrite filter_app, app_length. reflexivity. Qed.

Lemma parse_blank_core : forall s1 s2 h1 h2 U V w,
  parse_header s1 = Ok h1 -> parse_header s2 = Ok h2 ->
  h_names h1 = h_names h2 -> h_line h1 = h_line h2 ->
  lex_view (h_rest h1) = U ++ V -> lex_view (h_rest h2) = U ++ (TEol, w) :: V ->
  (U = [] \/ exists U' w0, U = U' ++ [(TEol, w0)]) ->
  match parse s1, parse s2 with
  | Ok p1, Ok p2 =>
      p_stmts p2 = bump_block (h_line h1 + N.of_nat (vcount U)) (p_stmts p1) /\
      p_signals p2 = p_signals p1 /\
      map fst (p_expected_inputs p2) = map fst (p_expected_inputs p1) /\
      map fst (p_read_outputs p2) = map fst (p_read_outputs p1) /\
      map (fun v => fst v) (p_virtuals p2) = map (fun v => fst v) (p_virtuals p1)
  | Err e1, Err e2 => pe_kind e1 = pe_kind e2
  | _, _ => False
  end.
Proof.
  intros s1 s2 h1 h2 U V w Eh1 Eh2 Hn Hl HV1 HV2 HU.
  pose proof (parse_never_panics s1) as Np1. pose proof (parse_never_panics s2) as Np2.
  pose proof (parse_never_oof s1) as No1. pose proof (parse_never_oof s2) as No2.
  unfold parse in *. rewrite Eh1, Eh2 in *.
  destruct (lex_body (h_pos h1) (h_rest h1)) as [ts1|] eqn:El1; [|congruence].
  destruct (lex_body (h_pos h2) (h_rest h2)) as [ts2|] eqn:El2; [|congruence].
  rewrite <- (lex_view_spec _ _ _ El1) in HV1. rewrite <- (lex_view_spec _ _ _ El2) in HV2.
  pose proof (blank_line_insert_view ts1 ts2 U V w (h_line h1) (text_bytes s1) (text_bytes s2) (h_names h1)
                (parser_fuel (length ts1)) (parser_fuel (length ts2)) HV1 HV2 HU
                ltac:(unfold parser_fuel; lia) ltac:(unfold parser_fuel; lia)) as HB.
  unfold mk_state in HB. rewrite <- Hn, <- Hl in *.
  pose proof (block_lists_sorted (h_pos h1) (h_rest h1) ts1 (text_bytes s1) (h_names h1)
                (parser_fuel (length ts1)) None [] (h_line h1) fm_new) as Hs1.
  pose proof (block_lists_sorted (h_pos h2) (h_rest h2) ts2 (text_bytes s2) (h_names h1)
                (parser_fuel (length ts2)) None [] (h_line h1) fm_new) as Hs2.
  specialize (fun stmts st' => Hs1 stmts st' El1). specialize (fun stmts st' => Hs2 stmts st' El2).
  match goal with |- context[parse_block_loop (text_bytes s1) ?b ?c ?d ?e ?st] =>
    remember (parse_block_loop (text_bytes s1) b c d e st) as r1 eqn:R1 end.
  match goal with |- context[parse_block_loop (text_bytes s2) ?b ?c ?d ?e ?st] =>
    remember (parse_block_loop (text_bytes s2) b c d e st) as r2 eqn:R2 end.
  clear R1 R2. destruct r1 as [[stmts1 st1']| | |]; destruct r2 as [[stmts2 st2']| | |];
  try contradiction; try exact HB; try congruence.
  destruct HB as (-> & _ & Hvv & Hii & Hoo).
  destruct (Hs1 _ _ eq_refl) as (A1 & A2 & A3). destruct (Hs2 _ _ eq_refl) as (B1 & B2 & B3).
  cbn [p_stmts p_signals p_expected_inputs p_read_outputs p_virtuals].
  fold kv ki. rewrite !sort_by_key_sorted by assumption.
  split; [reflexivity|]. split; [reflexivity|]. split; [exact Hii|]. split; [exact Hoo|].
  rewrite !map_map. cbn [fst]. exact Hvv.
Qed.

(* a blank line at the very start of the statements: every row reports one line more *)
Theorem C20_blank_line_at_start : forall s1 s2 h1 h2,
  parse_header s1 = Ok h1 -> parse_header s2 = Ok h2 ->
  h_names h1 = h_names h2 -> h_line h1 = h_line h2 -> h_rest h2 = 10 :: h_rest h1 ->
  match parse s1, parse s2 with
  | Ok p1, Ok p2 =>
      p_stmts p2 = bump_block (h_line h1) (p_stmts p1) /\
      p_signals p2 = p_signals p1 /\
      map fst (p_expected_inputs p2) = map fst (p_expected_inputs p1) /\
      map fst (p_read_outputs p2) = map fst (p_read_outputs p1) /\
      map (fun v => fst v) (p_virtuals p2) = map (fun v => fst v) (p_virtuals p1)
  | Err e1, Err e2 => pe_kind e1 = pe_kind e2
  | _, _ => False
  end.
Proof.
  intros s1 s2 h1 h2 Eh1 Eh2 Hn Hl Hr.
  pose proof (parse_blank_core s1 s2 h1 h2 [] (lex_view (h_rest h1)) [10] Eh1 Eh2 Hn Hl eq_refl) as H.
  cbn [app vcount filter length] in H. rewrite N.add_0_r in H. apply H; [|left; reflexivity].
  rewrite Hr. destruct (lex_body_total 0 (h_rest h1)) as [ts1 E1].
  destruct (lex_body_total 0 (10 :: h_rest h1)) as [ts2 E2].
  rewrite <- (lex_view_spec _ _ _ E1), <- (lex_view_spec _ _ _ E2).
  apply lex_body_Lex in E1. apply lex_body_Lex in E2.
  eapply Lex_det; [exact E2|]. eapply Lex_tok; [reflexivity | exact E1].
Qed.

(* ------------------------------------------------------------------ a newline after a newline *)

Section LREL.
Variable G : list (tk * text) -> list (tk * text) -> Prop.
Hypothesis G_cons : forall x a b, G a b -> G (x :: a) (x :: b).

(* the token sequence of s2 is G-related to that of s1 *)
Definition Lrel (s1 s2 : text) : Prop := forall vs1, Lex s1 vs1 -> exists vs2, Lex s2 vs2 /\ G vs1 vs2.

Lemma Lrel_step : forall s1 s2 k w1 w2 r1 r2,
  lex_one s1 = Some (k, w1, r1) -> lex_one s2 = Some (k, w2, r2) ->
  (k = None \/ w1 = w2) -> Lrel r1 r2 -> Lrel s1 s2.
Proof.
  intros s1 s2 k w1 w2 r1 r2 E1 E2 Hk Hr vs H.
  destruct (Lex_step_inv _ _ _ _ _ E1 H) as [vs' [H' ->]].
  destruct (Hr _ H') as [vs2 [H2 Hg]]. exists (emit k w2 vs2).
  split; [eapply Lex_step; eassumption|].
  replace (emit k w1 vs') with (emit k w2 vs') by (destruct Hk as [->| ->]; reflexivity).
  destruct k; cbn [emit]; auto.
Qed.

Lemma Lrel_skip_class : forall (p : N -> bool) c u T1 T2,
  (forall r, lex_one (c :: r) = let (a, b) := span_while p r in Some (None, c :: a, b)) ->
  Lrel (snd (span_while p T1)) (snd (span_while p T2)) ->
  (forall b, (length b <= length u)%nat -> Lrel (b ++ T1) (b ++ T2)) ->
  Lrel ((c :: u) ++ T1) ((c :: u) ++ T2).
Proof.
  intros p0 c u T1 T2 Hone HT IH. cbn [app].
  pose proof (Hone (u ++ T1)) as E1. pose proof (Hone (u ++ T2)) as E2.
  rewrite sw_app_gen in E1, E2.
  destruct (span_while p0 u) as [a0 [|e0 b0]] eqn:E0.
  - destruct (span_while p0 T1) as [a1 b1]. destruct (span_while p0 T2) as [a2 b2].
    cbn [snd] in HT. eapply Lrel_step; [exact E1|exact E2|left; reflexivity|exact HT].
  - eapply Lrel_step; [exact E1|exact E2|right; reflexivity|].
    apply IH. eapply sw_length. exact E0.
Qed.

Lemma Lrel_context : forall T1 T2, stops T1 = true -> stops T2 = true ->
  Lrel (snd (span_while is_ws T1)) (snd (span_while is_ws T2)) ->
  Lrel (snd (span_while notnl T1)) (snd (span_while notnl T2)) ->
  forall u, Lrel (u ++ T1) (u ++ T2).
Proof.
  intros T1 T2 S1 S2 Hw Hc.
  assert (H0 : Lrel T1 T2).
  { intros vs H. apply (proj1 (Lsub_skip_ws T1)) in H. destruct (Hw _ H) as [vs2 [H2 Hg]].
    exists vs2. split; [apply (proj2 (Lsub_skip_ws T2)); exact H2 | exact Hg]. }
  assert (Hn : forall n u, (length u <= n)%nat -> Lrel (u ++ T1) (u ++ T2)).
  { induction n as [|n IH]; intros u Hlen.
    - destruct u; [exact H0|cbn [length] in Hlen; lia].
    - destruct u as [|c u]; [exact H0|]. cbn [length] in Hlen.
      destruct (is_ws c) eqn:Hws.
      { apply (Lrel_skip_class is_ws); [intro r; apply lex_one_ws; exact Hws|exact Hw|].
        intros b Hb. apply IH. lia. }
      destruct (N.eq_dec c 35) as [->|Hh].
      { apply (Lrel_skip_class notnl); [exact lex_one_comment|exact Hc|].
        intros b Hb. apply IH. lia. }
      pose proof (lex_one_app_stop c u T1 Hws Hh S1) as E1.
      pose proof (lex_one_app_stop c u T2 Hws Hh S2) as E2.
      destruct (lex_one (c :: u)) as [[[k x] r]|] eqn:E; [|apply lex_one_nil in E; discriminate E].
      cbn [extend] in E1, E2. eapply Lrel_step; [exact E1|exact E2|right; reflexivity|].
      apply IH. destruct (lex_one_progress _ _ _ _ E) as [Hs Hx].
      apply (f_equal (@length N)) in Hs. rewrite app_length in Hs. cbn [length] in Hs.
      destruct x; [congruence|]. cbn [length] in Hs. lia. }
  intro u. apply (Hn (length u)). lia.
Qed.
End LREL.

(* the tokens of  u ++ "\n\n" ++ v  are those of  u ++ "\n" ++ v  with one Eol token more, which
   follows an Eol token and is followed by the tokens of v *)
Definition ins_eol (v : text) (vs1 vs2 : list (tk * text)) : Prop :=
  exists U V, vs1 = U ++ V /\ vs2 = U ++ (TEol, [10]) :: V /\ Lex v V /\
              exists U' w0, U = U' ++ [(TEol, w0)].

Lemma lex_newline_twice : forall u v, Lrel (ins_eol v) (u ++ 10 :: v) (u ++ 10 :: 10 :: v).
Proof.
  intros u v.
  assert (Hb : Lrel (ins_eol v) (10 :: v) (10 :: 10 :: v)).
  { intros vs1 H. destruct (Lex_step_inv (10 :: v) (Some TEol) [10] v vs1 eq_refl H) as [vs' [H' ->]].
    cbn [emit]. exists ((TEol, [10]) :: (TEol, [10]) :: vs').
    split; [eapply Lex_tok; [reflexivity|]; eapply Lex_tok; [reflexivity | exact H']|].
    exists [(TEol, [10])], vs'. split; [reflexivity|]. split; [reflexivity|]. split; [exact H'|].
    exists [], [10]. reflexivity. }
  apply Lrel_context; try reflexivity; try exact Hb.
  intros x a b (U & V & -> & -> & HV & U' & w0 & ->).
  exists (x :: U' ++ [(TEol, w0)]), V. split; [reflexivity|]. split; [reflexivity|]. split; [exact HV|].
  exists (x :: U'), w0. reflexivity.
Qed.

(* a blank line after a line end anywhere in the statements: the rows from physical line
   L = (line of that line end) + 1 on report one line more, the others are unchanged *)
Theorem C20_blank_line_after_newline : forall s1 s2 h1 h2 u v,
  parse_header s1 = Ok h1 -> parse_header s2 = Ok h2 ->
  h_names h1 = h_names h2 -> h_line h1 = h_line h2 ->
  h_rest h1 = u ++ 10 :: v -> h_rest h2 = u ++ 10 :: 10 :: v ->
  match parse s1, parse s2 with
  | Ok p1, Ok p2 =>
      p_stmts p2 = bump_block (h_line h1 + N.of_nat (count_nl u) + 1) (p_stmts p1) /\
      p_signals p2 = p_signals p1 /\
      map fst (p_expected_inputs p2) = map fst (p_expected_inputs p1) /\
      map fst (p_read_outputs p2) = map fst (p_read_outputs p1) /\
      map (fun v => fst v) (p_virtuals p2) = map (fun v => fst v) (p_virtuals p1)
  | Err e1, Err e2 => pe_kind e1 = pe_kind e2
  | _, _ => False
  end.
Proof.
  intros s1 s2 h1 h2 u v Eh1 Eh2 Hn Hl Hr1 Hr2.
  destruct (lex_body_total 0 (h_rest h1)) as [ts1 E1]. destruct (lex_body_total 0 (h_rest h2)) as [ts2 E2].
  destruct (lex_body_total 0 v) as [tsv Ev].
  pose proof (lex_body_Lex _ _ _ E1) as L1. pose proof (lex_body_Lex _ _ _ E2) as L2.
  rewrite Hr1 in L1. rewrite Hr2 in L2.
  destruct (lex_newline_twice u v _ L1) as [vs2 [L2' (U & V & HU1 & -> & HV & HUl)]].
  pose proof (Lex_det _ _ L2 _ L2') as HU2.
  assert (Hcnt : vcount U = (count_nl u + 1)%nat).
  { pose proof (count_eol_count_nl _ _ _ E1) as C1. pose proof (count_eol_count_nl _ _ _ Ev) as Cv.
    rewrite <- vcount_view, HU1, vcount_app in C1.
    rewrite <- vcount_view, (Lex_det _ _ (lex_body_Lex _ _ _ Ev) _ HV) in Cv.
    rewrite Hr1, count_nl_app in C1. change (10 :: v) with ([10] ++ v) in C1. rewrite count_nl_app in C1.
    change (count_nl [10]) with 1%nat in C1. lia. }
  pose proof (parse_blank_core s1 s2 h1 h2 U V [10] Eh1 Eh2 Hn Hl) as H.
  rewrite Hcnt in H. replace (h_line h1 + N.of_nat (count_nl u + 1)%nat)%N with (h_line h1 + N.of_nat (count_nl u) + 1)%N in H by lia.
  apply H.
  - rewrite <- (lex_view_spec _ _ _ E1). exact HU1.
  - rewrite <- (lex_view_spec _ _ _ E2). exact HU2.
  - right. exact HUl.
Qed.

Print Assumptions blank_line_insert.
Print Assumptions blank_line_insert_view.
Print Assumptions C20_blank_line_at_start.
Print Assumptions C20_blank_line_after_newline.
