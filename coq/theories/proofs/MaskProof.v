(* C07: values from the program are reduced to the width of the signal they drive.
   The model's mask is I64.bit_mask / mask_value (src/data_row_iterator.rs: fn bit_mask and
   the two `n & bit_mask(signal.bits)` expressions). *)
From DTR Require Import Prelude I64.
From DTR.proofs Require Import I64Facts.
Open Scope Z_scope.

Lemma bit_mask_small : forall bits, (bits < 64)%N -> bit_mask bits = Z.ones (Z.of_N bits).
Proof.
  intros bits H. unfold bit_mask. destruct (N.ltb_spec bits 64); [|lia].
  rewrite Z.ones_equiv. lia.
Qed.

Lemma bit_mask_wide : forall bits, (64 <= bits)%N -> bit_mask bits = -1.
Proof. intros bits H. unfold bit_mask. destruct (N.ltb_spec bits 64); [lia|reflexivity]. Qed.

(* widths below 64: the unsigned residue *)
Theorem mask_value_small : forall bits n, (bits < 64)%N ->
  mask_value bits n = n mod 2 ^ Z.of_N bits.
Proof.
  intros bits n H. unfold mask_value. rewrite bit_mask_small by exact H.
  apply Z.land_ones. lia.
Qed.

(* width 64 (and above): the value itself *)
Theorem mask_value_wide : forall bits n, (64 <= bits)%N -> mask_value bits n = n.
Proof.
  intros bits n H. unfold mask_value. rewrite bit_mask_wide by exact H. apply Z.land_m1_r.
Qed.

(* the property's sentence: the 64-bit value reduced modulo 2^bits, as a two's complement i64 *)
Theorem mask_value_mod : forall bits n, (1 <= bits <= 64)%N -> i64 n ->
  mask_value bits n = to_i64 (n mod 2 ^ Z.of_N bits).
Proof.
  intros bits n [Hlo Hhi] Hn.
  destruct (N.ltb_spec bits 64) as [Hlt|Hge].
  - rewrite mask_value_small by exact Hlt.
    assert (Hb : 0 <= n mod 2 ^ Z.of_N bits < 2 ^ Z.of_N bits) by (apply Z.mod_pos_bound; lia).
    assert (Hp : 2 ^ Z.of_N bits <= 2 ^ 63) by (apply Z.pow_le_mono_r; lia).
    unfold to_i64. rewrite two63_val. destruct (Z.ltb_spec (n mod 2 ^ Z.of_N bits) (2 ^ 63)); lia.
  - assert (bits = 64%N) by lia. subst bits.
    rewrite mask_value_wide by lia.
    change (2 ^ Z.of_N 64) with two64. symmetry. apply to_i64_mod_i64. exact Hn.
Qed.

Theorem mask_value_i64 : forall bits n, i64 n -> i64 (mask_value bits n).
Proof.
  intros bits n Hn. destruct (N.ltb_spec bits 64) as [Hlt|Hge].
  - rewrite mask_value_small by exact Hlt.
    assert (Hb : 0 <= n mod 2 ^ Z.of_N bits < 2 ^ Z.of_N bits) by (apply Z.mod_pos_bound; lia).
    assert (Hp : 2 ^ Z.of_N bits <= 2 ^ 63) by (apply Z.pow_le_mono_r; lia).
    unfold i64. rewrite two63_val. lia.
  - rewrite mask_value_wide by exact Hge. exact Hn.
Qed.

(* truncation is idempotent and only depends on the low bits *)
Theorem mask_value_idem : forall bits n, mask_value bits (mask_value bits n) = mask_value bits n.
Proof. intros. unfold mask_value. rewrite <- Z.land_assoc, Z.land_diag. reflexivity. Qed.

(* negative values map to their unsigned bit pattern *)
Example mask_neg1_8 : mask_value 8 (-1) = 255. Proof. reflexivity. Qed.
Example mask_neg1_64 : mask_value 64 (-1) = -1. Proof. reflexivity. Qed.
Example mask_min_63 : mask_value 63 (- two63) = 0. Proof. reflexivity. Qed.
Example mask_63 : mask_value 63 (-1) = 9223372036854775807. Proof. reflexivity. Qed.
