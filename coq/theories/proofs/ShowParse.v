(* The parser on the expected tokens of a printed program (ShowLex.tok_expr ... tok_prog): it
   returns the printed trees.

   Part 1  tok_expr e is a printing of e in the sense of ExprRoundTrip.Prints, hence parse_expr
           returns e (expr_run).
   Part 2  entries and rows: parse_row_loop on tok_row data appends exactly data (row_run,
           data_row_run).
   Part 3  statements, blocks, programs: the arm of parse_stmt_block on tok_stmt s returns s up to
           the recorded line number (stmt_run), the block loop on tok_lines body followed by
           `end <kind>` returns body (lines_run), the top-level loop on tok_prog ss returns ss
           (prog_run).  This is GrammarComplete's induction again, but saying WHICH statements are
           returned; there is no `declare` in a printed statement list, so nothing can fail. *)
From Coq Require Import String.
From DTR Require Import Prelude Ast FramedMap Lexer Parser Show.
From DTR Require Import I64 Bind Eval Stmt Iter WfSpec.
From DTR Require Import RadixProof LexerProof ParserProof BinOpTreeProof Grammar GrammarProof ExprRoundTrip
                        GrammarComplete ShowLex.
Open Scope N_scope.

(* ================================================================== part 1: expressions *)

Lemma tok_args_print : forall args, args <> [] -> Forall (fun a => Prints a (tok_expr a)) args ->
  Prints_args args (join (map tok_expr args)).
Proof.
  induction args as [|a args IH]; intros Hne HF; [contradiction|].
  inversion HF as [|? ? Ha HF']; subst. destruct args as [|b args].
  - cbn [map join]. apply PA_one. exact Ha.
  - change (join (map tok_expr (a :: b :: args))) with (tok_expr a ++ comma :: join (map tok_expr (b :: args))).
    apply PA_more; [exact Ha|]. apply IH; [discriminate | exact HF'].
Qed.

(* the fully parenthesised token list is a printing (as a factor) of the tree *)
Theorem tok_expr_factor : forall e, printable e -> Prints_factor e (tok_expr e).
Proof.
  induction e as [n|x|op l r IHl IHr|op a IHa|f args IHargs] using expr_ind_nested; intros Hp.
  - cbn [tok_expr]. apply (PF_num _ n). apply num_tok_value. exact Hp.
  - apply PF_var.
  - destruct Hp as [Hl Hr]. cbn [tok_expr].
    replace (tok_expr l ++ binop_tok op :: tok_expr r ++ [rp])
      with ((tok_expr l ++ binop_tok op :: tok_expr r) ++ [rp]) by (rewrite <- app_assoc; reflexivity).
    apply PF_paren.
    pose proof (binop_tok_ok op) as Hk. destruct (binop_tok op) as [k x]. cbn [fst] in Hk.
    pose proof (P_chain l (tok_expr l) [(op, r)] ((k, x) :: tok_expr r ++ []) (IHl Hl)
                  (PC_cons k x op r (tok_expr r) [] [] Hk (IHr Hr) PC_nil)) as HP.
    rewrite app_nil_r in HP. exact HP.
  - cbn [tok_expr]. apply PF_un_tok. apply IHa. exact Hp.
  - cbn [tok_expr]. apply printable_func in Hp. destruct Hp as (Hne & Har & Hall).
    apply PF_call; [exact Har|]. apply tok_args_print; [exact Hne|].
    rewrite Forall_forall in *. intros a Hin. apply Prints_of_factor. apply (IHargs a Hin). apply Hall. exact Hin.
Qed.

Theorem tok_expr_Prints : forall e, printable e -> Prints e (tok_expr e).
Proof. intros e Hp. apply Prints_of_factor. apply tok_expr_factor. exact Hp. Qed.

(* parse_expr returns the printed tree and stops right behind its tokens *)
Lemma expr_run : forall il e c st rest f, printable e -> view c = tok_expr e ->
  toks st = c ++ rest -> stop_expr rest -> (2 * length c + 2 <= f)%nat ->
  exists st', parse_expr il f st = Ok (e, st') /\ nx st rest st'.
Proof.
  intros il e c st rest f Hp Hv Ht Hstop Hfuel.
  assert (Hf : (2 * length (tok_expr e) + 2 <= f)%nat) by (rewrite <- Hv, view_length; exact Hfuel).
  destruct (C08_unparse_parse il e (tok_expr e) c rest st f (tok_expr_Prints e Hp) Hv Ht Hstop Hf)
    as (st' & Hrun & Htk & _ & _ & Hvirt & _).
  exists st'. split; [exact Hrun|]. split; assumption.
Qed.

(* ================================================================== part 2: entries and rows *)

Section ROWS.
Variable input_len : N.
Variable hdr : list name.
Notation il := input_len.

Lemma cxz_step : forall f data idx st t r d, toks st = t :: r -> tkind t = TIdent ->
  (ttext t = s2n "X" /\ d = DX) \/ (ttext t = s2n "Z" /\ d = DZ) \/ (ttext t = s2n "C" /\ d = DC) ->
  exists st', parse_row_loop il hdr (S f) data idx st =
              parse_row_loop il hdr f (data ++ [d]) (idx + 1) st' /\ nx st r st'.
Proof.
  intros f data idx st t r d Ht Hk Hd.
  rewrite parse_row_loop_S. peek_with Ht. rewrite Hk.
  run_as (get_nx il st t r Ht) st1 X1. cbv zeta.
  destruct Hd as [[Hx ->]|[[Hx ->]|[Hx ->]]]; rewrite Hx.
  - change (is_cxz (s2n "X") 99 67) with false. change (is_cxz (s2n "X") 120 88) with true. cbv iota.
    exists st1. split; [reflexivity | exact X1].
  - change (is_cxz (s2n "Z") 99 67) with false. change (is_cxz (s2n "Z") 120 88) with false.
    change (is_cxz (s2n "Z") 122 90) with true. cbv iota.
    exists st1. split; [reflexivity | exact X1].
  - change (is_cxz (s2n "C") 99 67) with true. cbv iota.
    destruct (nth_error hdr (N.to_nat idx)) as [sig|].
    + eexists. split; [reflexivity|]. destruct X1 as [T1 V1]. split; [exact T1 | exact V1].
    + exists st1. split; [reflexivity | exact X1].
Qed.

Lemma small_number : forall k, k <= 64 -> (0 <= Z.of_N k < 2 ^ 63)%Z.
Proof. intros k Hk. split; [timeout 20 lia|]. apply Z.le_lt_trans with 64%Z; [timeout 20 lia | reflexivity]. Qed.

(* one entry: the row loop goes round once and appends the entry *)
Lemma entry_run : forall d, printable_entry d -> forall c st rest f data idx,
  view c = tok_dentry d -> toks st = c ++ rest -> (1 + 4 * length (toks st) <= S f)%nat ->
  exists st', parse_row_loop il hdr (S f) data idx st =
              parse_row_loop il hdr f (data ++ [d]) (idx + N.of_nat (entry_width d)) st' /\
              nx st rest st'.
Proof.
  intros d Hp c st rest f data idx Hview Ht Hfuel.
  destruct d as [n|e|k e| | |]; cbn [tok_dentry printable_entry entry_width] in *;
    unfold kw, lp, rp, comma in Hview.
  - destruct (tv_view_cons _ _ _ Hview) as (t1 & c' & -> & Htv & _ & _ & Hv').
    apply view_nil_inv in Hv'. subst c'. cbn [app] in Ht.
    pose proof (num_tok_value n Hp) as Hv. rewrite <- Htv in Hv.
    exact (row_number_step il hdr f data idx st t1 rest n Ht Hv).
  - vdes Hview. norm_app Ht. rewrite Ht in Hfuel. len_all.
    rewrite parse_row_loop_S. peek_with Ht.
    match goal with H : tkind t = TLParen |- _ => rewrite H end.
    run_as (skip_nx il st t _ Ht) st1 X1.
    match goal with Hv : view ?c1 = tok_expr e, Hk : tkind ?t2 = TRParen |- _ =>
      destruct (expr_run il e c1 st1 (t2 :: rest) f Hp Hv (proj1 X1) (stop_rparen _ _ Hk))
        as (st2 & E2 & X2); [timeout 20 lia|];
      rewrite (bind_ok _ _ _ _ _ _ _ E2);
      run_as (expect_nx il TRParen st2 t2 rest (proj1 X2) Hk) st3 X3 end.
    exists st3. split; [reflexivity|].
    eapply nx_trans; [exact X1|]. eapply nx_trans; [exact X2 | exact X3].
  - destruct Hp as [Hk64 Hp].
    destruct (tv_view_cons _ _ _ Hview) as (t1 & c' & -> & _ & Hk1 & _ & Hv').
    destruct (tv_view_cons _ _ _ Hv') as (t2 & c'' & -> & _ & Hk2 & _ & Hv'').
    destruct (tv_view_cons _ _ _ Hv'') as (t3 & c3 & -> & Htv3 & _ & _ & Hv3).
    destruct (tv_view_cons _ _ _ Hv3) as (t4 & c4 & -> & _ & Hk4 & _ & Hv4).
    destruct (view_app_inv _ _ _ Hv4) as (c5 & c6 & -> & Hv5 & Hv6).
    destruct (tv_view_cons _ _ _ Hv6) as (t7 & c7 & -> & _ & Hk7 & _ & Hv7).
    apply view_nil_inv in Hv7. subst c7. cbn [fst] in Hk1, Hk2, Hk4, Hk7.
    cbn [app] in Ht. rewrite <- app_assoc in Ht. cbn [app] in Ht.
    rewrite Ht in Hfuel. len_all.
    pose proof (num_tok_value (Z.of_N k) (small_number k Hk64)) as Hv. rewrite <- Htv3 in Hv.
    rewrite parse_row_loop_S. peek_with Ht. rewrite Hk1.
    run_as (skip_nx il st t1 _ Ht) st1 X1.
    run_as (expect_nx il TLParen st1 t2 _ (proj1 X1) Hk2) st2 X2.
    rewrite (bind_ok _ _ _ _ _ _ _ (peek_span_cons _ _ _ (proj1 X2))).
    run_as (number_nx il st2 t3 _ (Z.of_N k) (proj1 X2) Hv) st3 X3.
    replace (64 <? Z.of_N k)%Z with false by (symmetry; apply Z.ltb_ge; lia).
    run_as (expect_nx il TComma st3 t4 _ (proj1 X3) Hk4) st4 X4.
    destruct (expr_run il e c5 st4 (t7 :: rest) f Hp Hv5 (proj1 X4) (stop_rparen _ _ Hk7))
      as (st5 & E5 & X5); [timeout 20 lia|].
    rewrite (bind_ok _ _ _ _ _ _ _ E5).
    run_as (expect_nx il TRParen st5 t7 rest (proj1 X5) Hk7) st6 X6.
    exists st6. split; [rewrite N2Z.id, N2Nat.id; reflexivity|].
    eapply nx_trans; [exact X1|]. eapply nx_trans; [exact X2|]. eapply nx_trans; [exact X3|].
    eapply nx_trans; [exact X4|]. eapply nx_trans; [exact X5 | exact X6].
  - vdes Hview. cbn [app] in Ht. eapply cxz_step; [exact Ht | assumption | left; split; [assumption | reflexivity]].
  - vdes Hview. cbn [app] in Ht.
    eapply cxz_step; [exact Ht | assumption | right; left; split; [assumption | reflexivity]].
  - vdes Hview. cbn [app] in Ht.
    eapply cxz_step; [exact Ht | assumption | right; right; split; [assumption | reflexivity]].
Qed.

Lemma tok_dentry_nonempty : forall d, tok_dentry d <> [].
Proof. intros d. destruct d; discriminate. Qed.

Lemma tok_dentry_start : forall d, exists t l, tok_dentry d = t :: l /\ is_row_start (fst t) = true.
Proof.
  intros d. destruct d as [n|e|k e| | |]; cbn [tok_dentry]; eexists; eexists; (split; [reflexivity|]);
    try reflexivity.
  unfold num_tok. destruct (n =? 0)%Z; reflexivity.
Qed.

(* the whole row: parse_row_loop appends exactly the printed entries and counts their columns *)
Lemma row_run : forall data, Forall printable_entry data -> forall c st rest f acc idx,
  view c = tok_row data -> toks st = c ++ rest -> follows rest ->
  (1 + 4 * length (toks st) <= f)%nat ->
  exists st', parse_row_loop il hdr f acc idx st = Ok ((acc ++ data, idx + N.of_nat (row_width data)), st') /\
              nx st rest st'.
Proof.
  induction data as [|d data IH]; intros HF c st rest f acc idx Hview Ht Hfol Hfuel.
  - cbn [tok_row flat_map] in Hview. apply view_nil_inv in Hview. subst c. cbn [app] in Ht.
    destruct f as [|f]; [timeout 20 lia|].
    rewrite row_stop by (rewrite Ht; exact Hfol).
    exists st. split; [|apply nx_start; exact Ht].
    rewrite app_nil_r. cbn [row_width]. rewrite N.add_0_r. reflexivity.
  - inversion HF as [|? ? Hd HF']; subst. rewrite tok_row_cons in Hview.
    destruct (view_app_inv _ _ _ Hview) as (c1 & c2 & -> & Hv1 & Hv2).
    rewrite <- app_assoc in Ht. destruct f as [|f]; [timeout 20 lia|].
    destruct (entry_run d Hd c1 st (c2 ++ rest) f acc idx Hv1 Ht Hfuel) as (st' & E & X).
    pose proof (view_nonempty_length _ _ Hv1 (tok_dentry_nonempty d)) as Hlen.
    rewrite Ht in Hfuel. len_all.
    destruct (IH HF' c2 st' rest f (acc ++ [d]) (idx + N.of_nat (entry_width d)) Hv2 (proj1 X) Hfol)
      as (st'' & E' & X').
    { rewrite (proj1 X). len_all. timeout 20 lia. }
    rewrite E, E'. exists st''. split; [|eapply nx_trans; eassumption].
    rewrite <- app_assoc. cbn [app row_width]. rewrite Nat2N.inj_add, N.add_assoc. reflexivity.
Qed.

Lemma data_row_run : forall data c st rest f,
  printable_row (length hdr) data -> view c = tok_row data -> toks st = c ++ rest -> follows rest ->
  (1 + 4 * length (toks st) <= f)%nat ->
  exists st', parse_data_row il hdr f st = Ok (data, st') /\ nx st rest st'.
Proof.
  intros data c st rest f (Hne & HF & Hw) Hview Ht Hfol Hfuel.
  destruct (row_run data HF c st rest f [] 0 Hview Ht Hfol Hfuel) as (st' & E & X).
  rewrite parse_data_row_eq.
  assert (Hne' : exists t0 r0, toks st = t0 :: r0).
  { rewrite Ht. destruct c as [|t0 c]; [|exists t0, (c ++ rest); reflexivity].
    destruct Hfol as (t & r0 & -> & _). exists t, r0. reflexivity. }
  destruct Hne' as (t0 & r0 & Ht0).
  rewrite (bind_ok _ _ _ _ _ _ _ (peek_span_cons _ _ _ Ht0)).
  rewrite (bind_ok _ _ _ _ _ _ _ E).
  destruct Hfol as (t & r1 & Hrest & _). rewrite Hrest in X.
  rewrite (bind_ok _ _ _ _ _ _ _ (peek_span_cons _ _ _ (proj1 X))).
  cbv beta iota. rewrite N.add_0_l, Hw. unfold Nlen. rewrite N.eqb_refl. cbn [negb app].
  exists st'. split; [reflexivity|]. rewrite Hrest. exact X.
Qed.

End ROWS.

(* ================================================================== part 3: statements, blocks, programs *)

Lemma strip_lines_app : forall a b, strip_lines (a ++ b) = strip_lines a ++ strip_lines b.
Proof. intros a b. apply map_app. Qed.

Lemma tok_row_start : forall data, data <> [] ->
  exists t l, tok_row data = t :: l /\ is_row_start (fst t) = true.
Proof.
  intros [|d data] H; [contradiction|]. rewrite tok_row_cons.
  destruct (tok_dentry_start d) as (t & l & -> & Hs). exists t, (l ++ tok_row data). split; [reflexivity | exact Hs].
Qed.

Lemma tok_stmt_nonempty : forall w s, printable_stmt w s -> tok_stmt s <> [].
Proof.
  intros w s Hp. destruct s as [x e|data ln|v max body|c body|]; try discriminate.
  cbn [tok_stmt]. destruct Hp as (Hne & _ & _).
  destruct (tok_row_start data Hne) as (t & l & -> & _). discriminate.
Qed.

(* one step of symbolic execution; the context holds  T : toks st = <tokens left>  for the
   current state st *)
Ltac tstep il :=
  cbv beta zeta;
  lazymatch goal with
  | |- context [bind (skip _) _ ?st] =>
      match goal with T : toks st = ?t :: ?r |- _ =>
        let st' := fresh "st" in let X' := fresh "X" in let T' := fresh "T" in
        run_as (skip_nx il st t r T) st' X'; pose proof (proj1 X') as T'; clear X' end
  | |- context [bind (expect _ ?k) _ ?st] =>
      match goal with T : toks st = ?t :: ?r |- _ =>
        let st' := fresh "st" in let X' := fresh "X" in let T' := fresh "T" in
        run_as (expect_nx il k st t r T ltac:(assumption)) st' X'; pose proof (proj1 X') as T'; clear X' end
  | |- context [bind peek_span _ ?st] =>
      match goal with T : toks st = ?t :: ?r |- _ =>
        rewrite (bind_ok _ _ _ _ _ _ _ (peek_span_cons st t r T)) end
  | |- context [bind get_line _ ?st] =>
      rewrite (bind_ok _ _ _ _ _ _ _ (get_line_at st))
  | |- context [bind (modify_vars ?g) _ ?st] =>
      match goal with T : toks st = ?r |- _ =>
        let st' := fresh "st" in let T' := fresh "T" in
        rewrite (modify_vars_run _ g _ st);
        set (st' := set_vars st (g (pvars st)));
        assert (T' : toks st' = r) by exact T; clearbody st' end
  | |- context [bind (parse_expr _ ?f) _ ?st] =>
      match goal with T : toks st = ?c ++ ?rest, Hv : view ?c = tok_expr ?e, Hp : printable ?e |- _ =>
        let st' := fresh "st" in let E := fresh "E" in let X' := fresh "X" in let T' := fresh "T" in
        destruct (expr_run il e c st rest f Hp Hv T) as (st' & E & X');
        [ stop_tac | timeout 20 lia
        | rewrite (bind_ok _ _ _ _ _ _ _ E); clear E; pose proof (proj1 X') as T'; clear X' ] end
  end.

Section BLOCKS.
Variable input_len : N.
Variable hdr : list name.
Notation il := input_len.
Notation w := (length hdr).

(* the arm of parse_stmt_block's match on the tokens of a printed statement returns the
   statement, up to the line number recorded in a row *)
Definition R_stmt (s : stmt) : Prop :=
  printable_stmt w s ->
  forall c st rest f et block,
  view c = tok_stmt s -> toks st = c ++ rest -> follows rest ->
  (1 + 4 * length (toks st) <= f)%nat ->
  exists s' st', block_arm il hdr f et block (hd_kind c) st = Ok (ArmContinue (block ++ [s']), st') /\
                 strip_line s' = strip_line s /\ toks st' = rest.

(* the block loop on the printed body of a loop/while and its `end <kind>` *)
Definition R_lines (body : list stmt) : Prop :=
  Forall (printable_stmt w) body ->
  forall c st tE tK rest fuel kind block,
  view c = tok_lines body -> toks st = c ++ tE :: tK :: rest -> tkind tE = TEnd -> tkind tK = kind ->
  (2 + 4 * length (toks st) <= fuel)%nat ->
  exists ss' st', parse_block_loop il hdr fuel (Some kind) block st = Ok (block ++ ss', st') /\
                  strip_lines ss' = strip_lines body /\ toks st' = rest.

Ltac arm_start Hview Ht Hfol Hfuel :=
  let tf := fresh "tf" in let rf := fresh "rf" in let Hkf := fresh "Hkf" in
  pose proof Hfol as (tf & rf & -> & Hkf);
  unfold kw, semi, lp, rp, comma, eol in Hview; cbn [binop_tok] in Hview;
  vdes Hview; norm_app Ht; rewrite Ht in Hfuel; len_all;
  cbn [hd_kind];
  match goal with H : tkind ?t = _ |- context[block_arm _ _ _ _ _ (tkind ?t)] => rewrite H end;
  unfold block_arm; cbn [is_row_start].

Lemma run_row : forall data ln, R_stmt (SRow data ln).
Proof.
  intros data ln Hp c st rest f et block Hview Ht Hfol Hfuel.
  cbn [tok_stmt printable_stmt] in *.
  destruct (tok_row_start data (proj1 Hp)) as (t & l & Hr0 & Hstart).
  destruct c as [|t0 c']; [rewrite view_nil, Hr0 in Hview; discriminate Hview|].
  assert (Hs0 : is_row_start (tkind t0) = true).
  { rewrite view_cons, Hr0 in Hview. injection Hview as Ht0 _. rewrite <- Ht0 in Hstart. exact Hstart. }
  cbn [hd_kind]. rewrite arm_row_eq by exact Hs0.
  destruct (data_row_run il hdr data (t0 :: c') st rest f Hp Hview Ht Hfol Hfuel) as (st' & E & X).
  rewrite (bind_ok _ _ _ _ _ _ _ E). rewrite (bind_ok _ _ _ _ _ _ _ (get_line_at st')).
  eexists. exists st'. split; [reflexivity|]. split; [reflexivity | exact (proj1 X)].
Qed.

Lemma run_let : forall x e, R_stmt (SLet x e).
Proof.
  intros x e [Hx He] c st rest f et block Hview Ht Hfol Hfuel.
  cbn [tok_stmt] in Hview. arm_start Hview Ht Hfol Hfuel. repeat tstep il.
  eexists. eexists. split; [reflexivity|]. split; [|eassumption].
  subst x. reflexivity.
Qed.

Lemma run_reset : R_stmt SReset.
Proof.
  intros _ c st rest f et block Hview Ht Hfol Hfuel.
  cbn [tok_stmt] in Hview. arm_start Hview Ht Hfol Hfuel. repeat tstep il.
  eexists. eexists. split; [reflexivity|]. split; [reflexivity | eassumption].
Qed.

Lemma run_loop : forall v max body, R_lines body -> R_stmt (SLoop v max body).
Proof.
  intros v max body IHb Hp c st rest f et block Hview Ht Hfol Hfuel.
  apply printable_loop in Hp. destruct Hp as (Hv & Hm & Hb).
  rewrite tok_stmt_loop in Hview. arm_start Hview Ht Hfol Hfuel. repeat tstep il.
  match goal with
  | T : toks ?s = ?cb ++ ?tE :: ?tK :: ?more, Hvb : view ?cb = tok_lines body
    |- context [bind (parse_block_loop _ _ ?f' (Some TLoop) []) _ ?s] =>
      destruct (IHb Hb cb s tE tK more f' TLoop [] Hvb T ltac:(assumption) ltac:(assumption))
        as (ss' & st' & E & Hstrip & T');
      [ rewrite T; len_all; timeout 20 lia | rewrite (bind_ok _ _ _ _ _ _ _ E); clear E ]
  end.
  repeat tstep il.
  eexists. eexists. split; [reflexivity|]. split; [|eassumption].
  subst v. cbn [strip_line app]. unfold strip_lines in Hstrip. rewrite Hstrip. reflexivity.
Qed.

Lemma run_while : forall c0 body, R_lines body -> R_stmt (SWhile c0 body).
Proof.
  intros c0 body IHb Hp c st rest f et block Hview Ht Hfol Hfuel.
  apply printable_while in Hp. destruct Hp as (Hc & Hb).
  rewrite tok_stmt_while in Hview. arm_start Hview Ht Hfol Hfuel. repeat tstep il.
  match goal with
  | T : toks ?s = ?cb ++ ?tE :: ?tK :: ?more, Hvb : view ?cb = tok_lines body
    |- context [bind (parse_block_loop _ _ ?f' (Some TWhile) []) _ ?s] =>
      destruct (IHb Hb cb s tE tK more f' TWhile [] Hvb T ltac:(assumption) ltac:(assumption))
        as (ss' & st' & E & Hstrip & T');
      [ rewrite T; len_all; timeout 20 lia | rewrite (bind_ok _ _ _ _ _ _ _ E); clear E ]
  end.
  eexists. eexists. split; [reflexivity|]. split; [|eassumption].
  cbn [strip_line app]. unfold strip_lines in Hstrip. rewrite Hstrip. reflexivity.
Qed.

(* one line of a block: the statement, its line break, and round the loop again *)
Lemma line_step : forall s, R_stmt s -> printable_stmt w s ->
  forall c1 tl more st f et block,
  view c1 = tok_stmt s -> toks st = c1 ++ tl :: more -> tkind tl = TEol ->
  (2 + 4 * length (toks st) <= S f)%nat ->
  exists s' st2, parse_block_loop il hdr (S f) et block st = parse_block_loop il hdr f et (block ++ [s']) st2 /\
                 strip_line s' = strip_line s /\ toks st2 = more.
Proof.
  intros s Rs Hp c1 tl more st f et block Hview Ht Hk Hfuel.
  destruct c1 as [|t0 c1'].
  { exfalso. eapply tok_stmt_nonempty; [exact Hp | symmetry; exact Hview]. }
  rewrite parse_block_loop_S.
  assert (Ht0 : toks st = t0 :: (c1' ++ tl :: more)) by (rewrite Ht; reflexivity).
  peek_with Ht0.
  destruct (Rs Hp (t0 :: c1') st (tl :: more) f et block Hview Ht) as (s' & st' & E & Hs & T');
    [exists tl, more; timeout 20 auto | timeout 20 lia |].
  cbn [hd_kind] in E. rewrite (bind_ok _ _ _ _ _ _ _ E).
  destruct (post_eol il hdr f et (block ++ [s']) st' st' tl more (nx_start _ _ T') Hk) as (st2 & E2 & X2).
  rewrite E2. exists s', st2. split; [reflexivity|]. split; [exact Hs | exact (proj1 X2)].
Qed.

Lemma lines_run : forall body, Forall R_stmt body -> R_lines body.
Proof.
  induction body as [|s body IH]; intros HR HP c st tE tK rest fuel kind block Hview Ht HkE HkK Hfuel.
  - cbn [tok_lines map List.concat] in Hview. apply view_nil_inv in Hview. subst c. cbn [app] in Ht.
    destruct fuel as [|f]; [timeout 20 lia|].
    rewrite parse_block_loop_S. peek_with Ht. rewrite HkE.
    destruct (arm_end il hdr f kind block st tE tK rest Ht HkK) as (st' & E & X).
    rewrite (bind_ok _ _ _ _ _ _ _ E).
    exists [], st'. split; [rewrite app_nil_r; reflexivity|]. split; [reflexivity | exact (proj1 X)].
  - apply Forall_cons_iff in HR. destruct HR as [Rs HR'].
    apply Forall_cons_iff in HP. destruct HP as [Hps HP'].
    rewrite tok_lines_cons in Hview. unfold eol in Hview. vdes Hview. norm_app Ht.
    destruct fuel as [|f]; [timeout 20 lia|].
    lazymatch goal with Hv1 : view ?c1 = tok_stmt s, Hk : tkind ?tl = TEol |- _ =>
      destruct (line_step s Rs Hps c1 tl _ st f (Some kind) block Hv1 Ht Hk Hfuel)
        as (s' & st2 & E & Hs & T2) end.
    rewrite E.
    match goal with Hvb : view ?cb = tok_lines body |- _ =>
      destruct (IH HR' HP' cb st2 tE tK rest f kind (block ++ [s']) Hvb T2 HkE HkK)
        as (ss' & st' & E' & Hss & T') end.
    { rewrite T2. rewrite Ht in Hfuel. len_all. timeout 20 lia. }
    rewrite E'. exists (s' :: ss'), st'. split; [rewrite <- app_assoc; reflexivity|].
    split; [|exact T']. unfold strip_lines in *. cbn [map]. rewrite Hs, Hss. reflexivity.
Qed.

Theorem stmt_run : forall s, R_stmt s.
Proof.
  induction s as [x e|data ln|v max body IH|c body IH|] using stmt_ind_nested.
  - apply run_let.
  - apply run_row.
  - apply run_loop. apply lines_run. exact IH.
  - apply run_while. apply lines_run. exact IH.
  - apply run_reset.
Qed.

(* the top-level loop on the tokens of a printed program; what follows the Eof token is never
   looked at *)
Theorem prog_run : forall ss, printable_prog w ss ->
  forall c st extra fuel block,
  view c = tok_prog ss -> toks st = c ++ extra -> (2 + 4 * length (toks st) <= fuel)%nat ->
  exists ss' st', parse_block_loop il hdr fuel None block st = Ok (block ++ ss', st') /\
                  strip_lines ss' = strip_lines ss.
Proof.
  unfold printable_prog, tok_prog.
  induction ss as [|s ss IH]; intros HP c st extra fuel block Hview Ht Hfuel.
  - cbn [tok_lines map List.concat app] in Hview. vdes Hview. cbn [app] in Ht. destruct fuel as [|f]; [timeout 20 lia|].
    rewrite parse_block_loop_S. peek_with Ht.
    match goal with H : tkind _ = TEof |- _ => rewrite H end.
    destruct (arm_eof_top il hdr f block st _ extra Ht) as (st' & E & X).
    rewrite (bind_ok _ _ _ _ _ _ _ E).
    exists [], st'. split; [rewrite app_nil_r; reflexivity | reflexivity].
  - apply Forall_cons_iff in HP. destruct HP as [Hps HP'].
    rewrite tok_lines_cons in Hview. unfold eol in Hview. rewrite <- app_assoc in Hview.
    cbn [app] in Hview.
    destruct (view_app_inv _ _ _ Hview) as (c1 & c2 & -> & Hv1 & Hv2).
    destruct (view_cons_inv _ _ _ Hv2) as (tl & c3 & -> & Hk & _ & Hv3). cbn [fst] in Hk.
    norm_app Ht. destruct fuel as [|f]; [timeout 20 lia|].
    destruct (line_step s (stmt_run s) Hps c1 tl _ st f None block Hv1 Ht Hk Hfuel)
      as (s' & st2 & E & Hs & T2).
    rewrite E.
    destruct (IH HP' c3 st2 extra f (block ++ [s']) Hv3 T2) as (ss' & st' & E' & Hss).
    { rewrite T2. rewrite Ht in Hfuel. len_all. timeout 20 lia. }
    rewrite E'. exists (s' :: ss'), st'. split; [rewrite <- app_assoc; reflexivity|].
    unfold strip_lines in *. cbn [map]. rewrite Hs, Hss. reflexivity.
Qed.

End BLOCKS.

Check tok_expr_Prints.
Check expr_run.
Check row_run.
Check data_row_run.
Check stmt_run.
Check lines_run.
Check prog_run.
Print Assumptions expr_run.
Print Assumptions data_row_run.
Print Assumptions stmt_run.
Print Assumptions prog_run.
