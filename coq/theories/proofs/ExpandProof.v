(* C05: clock and don't-care inputs expand into the documented row sequences.

   The row iterator (Iter.v) keeps a stack of rows; on every call it runs
   prepare_cache (expand_x, then expand_c) on the stack and pops the top row.
   `pops` is that loop.  The theorem says: starting from the stack [row], the rows
   popped are exactly ExpandSpec.expand_spec of the row, for every row and every
   test case (no well-formedness hypothesis). *)
From DTR Require Import Prelude I64 Ast FramedMap Parser Bind Eval Stmt Iter ExpandSpec.
Local Open Scope nat_scope.

(* ------------------------------------------------------------------ lists *)

Lemma nth_error_ext : forall A (l1 l2 : list A),
  (forall n, nth_error l1 n = nth_error l2 n) -> l1 = l2.
Proof.
  induction l1 as [|a l1 IH]; intros [|b l2] H.
  - reflexivity.
  - specialize (H 0); discriminate.
  - specialize (H 0); discriminate.
  - pose proof (H 0) as H0. simpl in H0. inversion H0; subst. f_equal.
    apply IH. intro n. exact (H (S n)).
Qed.

Lemma mapi_aux_nth : forall A B (f : nat -> A -> B) l k n,
  nth_error (mapi_aux f k l) n = option_map (f (k + n)) (nth_error l n).
Proof.
  induction l as [|a l IH]; intros k n.
  - destruct n; reflexivity.
  - destruct n as [|n]; simpl.
    + rewrite Nat.add_0_r. reflexivity.
    + rewrite IH. rewrite Nat.add_succ_r. reflexivity.
Qed.

Lemma mapi_nth : forall A B (f : nat -> A -> B) l n,
  nth_error (mapi f l) n = option_map (f n) (nth_error l n).
Proof. intros. unfold mapi. rewrite mapi_aux_nth. reflexivity. Qed.

Lemma mapi_ext_nth : forall A B (f g : nat -> A -> B) l,
  (forall n x, nth_error l n = Some x -> f n x = g n x) -> mapi f l = mapi g l.
Proof.
  intros A B f g l H. apply nth_error_ext. intro n. rewrite !mapi_nth.
  destruct (nth_error l n) as [x|] eqn:E; simpl; [rewrite (H _ _ E)|]; reflexivity.
Qed.

Lemma mapi_ext : forall A B (f g : nat -> A -> B) l,
  (forall n x, f n x = g n x) -> mapi f l = mapi g l.
Proof. intros A B f g l H. apply mapi_ext_nth. intros n x _. apply H. Qed.

Lemma mapi_mapi : forall A B C (f : nat -> B -> C) (g : nat -> A -> B) l,
  mapi f (mapi g l) = mapi (fun i x => f i (g i x)) l.
Proof.
  intros. apply nth_error_ext. intro n. rewrite !mapi_nth.
  destruct (nth_error l n); reflexivity.
Qed.

Lemma mapi_id : forall A (l : list A), mapi (fun _ x => x) l = l.
Proof.
  intros. apply nth_error_ext. intro n. rewrite mapi_nth.
  destruct (nth_error l n); reflexivity.
Qed.

Lemma mapi_length : forall A B (f : nat -> A -> B) l, length (mapi f l) = length l.
Proof.
  intros A B f l. unfold mapi. generalize 0.
  induction l as [|a l IH]; intro k; simpl; [|rewrite IH]; reflexivity.
Qed.

Lemma list_set_nth : forall A (l : list A) i v n,
  nth_error (list_set l i v) n =
  if Nat.eqb n i then option_map (fun _ => v) (nth_error l n) else nth_error l n.
Proof.
  induction l as [|a l IH]; intros i v n.
  - destruct i; destruct n; simpl; try reflexivity; destruct (Nat.eqb n i); reflexivity.
  - destruct i as [|i]; destruct n as [|n]; simpl; try reflexivity. apply IH.
Qed.

Lemma list_set_mapi : forall A (l : list A) i v,
  list_set l i v = mapi (fun j x => if Nat.eqb j i then v else x) l.
Proof.
  intros. apply nth_error_ext. intro n. rewrite list_set_nth, mapi_nth.
  destruct (Nat.eqb n i); destruct (nth_error l n); reflexivity.
Qed.

Lemma list_set_length : forall A (l : list A) i v, length (list_set l i v) = length l.
Proof.
  induction l as [|a l IH]; intros [|i] v; simpl; try reflexivity. rewrite IH. reflexivity.
Qed.

Definition memb (j : nat) (cs : list nat) : bool := existsb (Nat.eqb j) cs.

Lemma memb_In : forall j cs, memb j cs = true <-> In j cs.
Proof.
  intros j cs. unfold memb. rewrite existsb_exists. split.
  - intros [x [Hin He]]. apply Nat.eqb_eq in He. subst. exact Hin.
  - intro Hin. exists j. split; [exact Hin|apply Nat.eqb_refl].
Qed.

Lemma set_all_mapi : forall cs (l : list dentry) d,
  set_all l cs d = mapi (fun j x => if memb j cs then d else x) l.
Proof.
  induction cs as [|a cs IH]; intros l d.
  - unfold set_all. simpl. symmetry. apply mapi_id.
  - change (set_all l (a :: cs) d) with (set_all (list_set l a d) cs d).
    rewrite IH, list_set_mapi, mapi_mapi. apply mapi_ext. intros n x.
    unfold memb. simpl. destruct (Nat.eqb n a); destruct (existsb (Nat.eqb n) cs); reflexivity.
Qed.

Lemma set_cols_set_all : forall cs d es, set_cols cs d es = set_all es cs d.
Proof.
  induction cs as [|a cs IH]; intros d es; simpl; [reflexivity|]. rewrite IH. reflexivity.
Qed.

Lemma length_flat_map_const : forall A B (f : A -> list B) c l,
  (forall x, In x l -> length (f x) = c) -> length (flat_map f l) = length l * c.
Proof.
  induction l as [|a l IH]; intro H; simpl; [reflexivity|].
  rewrite app_length, IH, (H a); [reflexivity|left; reflexivity|].
  intros x Hx. apply H. right. exact Hx.
Qed.

(* ------------------------------------------------------------------ the spec's assignments *)

Lemma assignments_snoc : forall cols j es,
  assignments (cols ++ [j]) es =
  assignments cols (list_set es j (DNum 0)) ++ assignments cols (list_set es j (DNum 1)).
Proof.
  induction cols as [|c cols IH]; intros j es; simpl.
  - reflexivity.
  - rewrite IH, flat_map_app. reflexivity.
Qed.

Lemma assignments_length : forall cols es, length (assignments cols es) = 2 ^ length cols.
Proof.
  induction cols as [|c cols IH]; intro es.
  - reflexivity.
  - cbn [assignments length]. rewrite (length_flat_map_const _ _ _ 2).
    + rewrite IH. rewrite Nat.pow_succ_r'. lia.
    + intros; reflexivity.
Qed.

(* ------------------------------------------------------------------ the theorem *)

Section EXPAND.
Variable tc : testcase.

Local Notation inp := (entry_is_input tc).

(* the rows obtained by: prepare the cache, pop the top row, and again, until the cache
   is empty *)
Fixpoint pops (fuel : nat) (cache : list dentries) : R rterr (list dentries) :=
  match fuel with O => OOF | S f =>
    match cache with
    | [] => Ok []
    | _ => rbind (prepare_cache tc cache) (fun c' =>
           match c' with
           | [] => Panic 37%N
           | row :: rest => rbind (pops f rest) (fun l => Ok (row :: l))
           end)
    end
  end.

Definition pure_expected_col (i : nat) : bool :=
  existsb (fun e => ei_indexes e i) (tc_expected_indices tc) && negb (entry_is_input tc i).

Definition spec_rows (row : dentries) : list dentries :=
  map (fun p => {| de_entries := fst p; de_line := de_line row; de_update_output := snd p |})
      (expand_spec (entry_is_input tc) pure_expected_col (de_entries row)).

(* the same for a row anywhere in the stack: rows pushed by expand_c carry their own
   update_output flag *)
Definition spec_rows_gen (row : dentries) : list dentries :=
  map (fun p => {| de_entries := fst p; de_line := de_line row;
                   de_update_output := snd p && de_update_output row |})
      (expand_spec (entry_is_input tc) pure_expected_col (de_entries row)).

Lemma spec_rows_gen_checked : forall row,
  de_update_output row = true -> spec_rows_gen row = spec_rows row.
Proof.
  intros row H. unfold spec_rows_gen, spec_rows. apply map_ext. intro p.
  rewrite H, andb_true_r. reflexivity.
Qed.

(* ---------- one-step unfoldings *)

Lemma pops_0 : forall c, pops 0 c = OOF.
Proof. reflexivity. Qed.

Lemma pops_S_nil : forall f, pops (S f) [] = Ok [].
Proof. reflexivity. Qed.

Lemma pops_S_cons : forall f row rest,
  pops (S f) (row :: rest) =
  rbind (prepare_cache tc (row :: rest)) (fun c' =>
    match c' with
    | [] => Panic 37%N
    | r :: rest' => rbind (pops f rest') (fun l => Ok (r :: l))
    end).
Proof. reflexivity. Qed.

Lemma expand_x_S_cons : forall f row rest,
  expand_x tc (S f) (row :: rest) =
  match find_x_from tc O (de_entries row) with
  | None => Ok (row :: rest)
  | Some i => expand_x tc f (set_entry row i (DNum 0) :: set_entry row i (DNum 1) :: rest)
  end.
Proof. reflexivity. Qed.

(* ---------- pops is monotone in its fuel *)

Lemma pops_mono : forall f f' c r, pops f c = r -> r <> OOF -> f <= f' -> pops f' c = r.
Proof.
  induction f as [|f IH]; intros f' c r H Hr Hle.
  - rewrite pops_0 in H. congruence.
  - destruct f' as [|f']; [lia|]. destruct c as [|row rest].
    + rewrite pops_S_nil in *. exact H.
    + rewrite pops_S_cons in *.
      destruct (prepare_cache tc (row :: rest)) as [c'| | |]; simpl in *; try exact H.
      destruct c' as [|r0 rest']; [exact H|].
      destruct (pops f rest') as [l| | |] eqn:E.
      * rewrite (IH f' rest' (Ok l)); [exact H|exact E|discriminate|lia].
      * rewrite (IH f' rest' (Err e)); [exact H|exact E|discriminate|lia].
      * rewrite (IH f' rest' (Panic site)); [exact H|exact E|discriminate|lia].
      * simpl in H. congruence.
Qed.

(* ---------- input columns holding d *)

Lemma cols_from_In : forall d es i j,
  In j (cols_holding_from inp d i es) <->
  exists n x, j = i + n /\ nth_error es n = Some x /\ dentry_eqb x d = true /\ inp j = true.
Proof.
  induction es as [|a es IH]; intros i j.
  - simpl. split; [tauto|]. intros (n & x & _ & H & _). destruct n; discriminate.
  - cbn [cols_holding_from]. split.
    + intro H.
      assert (Hc : (dentry_eqb a d && inp i = true /\ j = i) \/
                   In j (cols_holding_from inp d (S i) es)).
      { destruct (dentry_eqb a d && inp i); [destruct H as [H|H]; auto|auto]. }
      destruct Hc as [[Hc ->]|Hc].
      * apply andb_true_iff in Hc. destruct Hc as [Hd Hi].
        exists 0, a. rewrite Nat.add_0_r. auto.
      * apply IH in Hc. destruct Hc as (n & x & -> & Hn & Hd & Hi).
        exists (S n), x. rewrite Nat.add_succ_r. auto.
    + intros (n & x & -> & Hn & Hd & Hi). destruct n as [|n].
      * simpl in Hn. inversion Hn; subst. rewrite Nat.add_0_r in *. rewrite Hd, Hi. left. reflexivity.
      * simpl in Hn.
        assert (Hc : In (i + S n) (cols_holding_from inp d (S i) es)).
        { apply IH. exists n, x. rewrite Nat.add_succ_r in *. auto. }
        destruct (dentry_eqb a d && inp i); [right|]; exact Hc.
Qed.

Lemma cols_In : forall d es j,
  In j (cols_holding inp d es) <->
  exists x, nth_error es j = Some x /\ dentry_eqb x d = true /\ inp j = true.
Proof.
  intros d es j. unfold cols_holding. rewrite cols_from_In. split.
  - intros (n & x & -> & H). exists x. exact H.
  - intros (x & H). exists j, x. auto.
Qed.

Lemma cols_memb : forall d es j,
  memb j (cols_holding inp d es) =
  match nth_error es j with Some x => dentry_eqb x d && inp j | None => false end.
Proof.
  intros d es j. destruct (memb j (cols_holding inp d es)) eqn:E.
  - apply memb_In, cols_In in E. destruct E as (x & -> & -> & ->). reflexivity.
  - destruct (nth_error es j) as [x|] eqn:En; [|reflexivity].
    destruct (dentry_eqb x d && inp j) eqn:Eb; [|reflexivity].
    apply andb_true_iff in Eb. destruct Eb as [Hd Hi].
    assert (H : memb j (cols_holding inp d es) = true).
    { apply memb_In, cols_In. exists x. auto. }
    congruence.
Qed.

Lemma cols_nil_iff : forall d es,
  cols_holding inp d es = [] <->
  forall n x, nth_error es n = Some x -> dentry_eqb x d && inp n = false.
Proof.
  intros d es. split.
  - intros H n x Hn. destruct (dentry_eqb x d && inp n) eqn:E; [|reflexivity].
    apply andb_true_iff in E. destruct E as [Hd Hi].
    assert (Hin : In n (cols_holding inp d es)) by (apply cols_In; exists x; auto).
    rewrite H in Hin. destruct Hin.
  - intro H. destruct (cols_holding inp d es) as [|j l] eqn:E; [reflexivity|].
    assert (Hin : In j (cols_holding inp d es)) by (rewrite E; left; reflexivity).
    apply cols_In in Hin. destruct Hin as (x & Hn & Hd & Hi).
    specialize (H _ _ Hn). rewrite Hd, Hi in H. discriminate.
Qed.

Lemma cols_from_mapi_aux_ext : forall d f es i,
  (forall n x, nth_error es n = Some x ->
     dentry_eqb (f (i + n) x) d && inp (i + n) = dentry_eqb x d && inp (i + n)) ->
  cols_holding_from inp d i (mapi_aux f i es) = cols_holding_from inp d i es.
Proof.
  induction es as [|a es IH]; intros i H; [reflexivity|].
  cbn [mapi_aux cols_holding_from].
  pose proof (H 0 a eq_refl) as H0. rewrite Nat.add_0_r in H0. rewrite H0.
  rewrite IH; [reflexivity|].
  intros n x Hn. specialize (H (S n) x Hn). rewrite Nat.add_succ_r in H. exact H.
Qed.

Lemma cols_mapi_ext : forall d f es,
  (forall n x, nth_error es n = Some x ->
     dentry_eqb (f n x) d && inp n = dentry_eqb x d && inp n) ->
  cols_holding inp d (mapi f es) = cols_holding inp d es.
Proof.
  intros d f es H. unfold cols_holding, mapi. apply cols_from_mapi_aux_ext. exact H.
Qed.

Lemma cols_from_length_le : forall d es i, length (cols_holding_from inp d i es) <= length es.
Proof.
  induction es as [|a es IH]; intro i; cbn [cols_holding_from length]; [lia|].
  specialize (IH (S i)). destruct (dentry_eqb a d && inp i); cbn [length]; lia.
Qed.

(* c_indices is the spec's list of clock columns *)
Lemma c_indices_from : forall es i,
  flat_map (fun x => x)
    (mapi_aux (fun i d => if dentry_eqb d DC && inp i then [i] else []) i es) =
  cols_holding_from inp DC i es.
Proof.
  induction es as [|a es IH]; intro i; [reflexivity|].
  cbn [mapi_aux flat_map cols_holding_from]. rewrite IH.
  destruct (dentry_eqb a DC && inp i); reflexivity.
Qed.

Lemma c_indices_cols : forall es, c_indices tc es = cols_holding inp DC es.
Proof. intro es. unfold c_indices, mapi, cols_holding. apply c_indices_from. Qed.

(* ---------- find_x_from finds the last X input column *)

Lemma find_x_from_spec : forall es i,
  match find_x_from tc i es with
  | None => cols_holding_from inp DX i es = []
  | Some j => exists n, j = i + n /\
      forall v, dentry_eqb v DX = false ->
        cols_holding_from inp DX i (list_set es n v) ++ [j] = cols_holding_from inp DX i es
  end.
Proof.
  induction es as [|a es IH]; intro i; [reflexivity|].
  cbn [find_x_from cols_holding_from]. specialize (IH (S i)).
  destruct (find_x_from tc (S i) es) as [j|].
  - destruct IH as (n & -> & IH). exists (S n). split; [lia|].
    intros v Hv. cbn [list_set cols_holding_from]. specialize (IH v Hv).
    destruct (dentry_eqb a DX && inp i).
    + rewrite <- IH. reflexivity.
    + exact IH.
  - destruct (dentry_eqb a DX && inp i).
    + exists 0. split; [lia|]. intros v Hv. cbn [list_set cols_holding_from].
      rewrite Hv. simpl. rewrite IH. reflexivity.
    + exact IH.
Qed.

(* ---------- blank_expected is the spec's blank *)

Lemma blank_expected_gen : forall L es,
  fold_left (fun es idx =>
               match idx with
               | EIEntry entry_index _ =>
                   if inp entry_index then es else list_set es entry_index DX
               | EIDefault _ => es
               end) L es =
  mapi (fun i e => if existsb (fun e0 => ei_indexes e0 i) L && negb (inp i) then DX else e) es.
Proof.
  induction L as [|a L IH]; intro es.
  - simpl. symmetry. apply mapi_id.
  - cbn [fold_left]. rewrite IH. destruct a as [j s|s].
    + destruct (inp j) eqn:Ej.
      * apply mapi_ext. intros n x. cbn [existsb ei_indexes].
        destruct (Nat.eqb_spec j n) as [->|Hne]; [|reflexivity].
        rewrite Ej. rewrite !andb_false_r. reflexivity.
      * rewrite list_set_mapi, mapi_mapi. apply mapi_ext. intros n x. cbn [existsb ei_indexes].
        rewrite (Nat.eqb_sym j n).
        destruct (Nat.eqb_spec n j) as [->|Hne]; [|reflexivity].
        rewrite Ej. simpl. destruct (existsb (fun e0 => ei_indexes e0 j) L); reflexivity.
    + apply mapi_ext. intros n x. reflexivity.
Qed.

Lemma blank_expected_blank : forall es, blank_expected tc es = blank pure_expected_col es.
Proof. intro es. unfold blank_expected, blank, pure_expected_col. apply blank_expected_gen. Qed.

(* ---------- rows that expand to themselves *)

Definition settled (es : list dentry) : Prop :=
  cols_holding inp DX es = [] /\ cols_holding inp DC es = [].

Lemma gen_no_x : forall row,
  cols_holding inp DX (de_entries row) = [] ->
  spec_rows_gen row =
  map (fun p => {| de_entries := fst p; de_line := de_line row;
                   de_update_output := snd p && de_update_output row |})
      (phases inp pure_expected_col (de_entries row)).
Proof.
  intros row H. unfold spec_rows_gen, expand_spec. rewrite H. simpl. rewrite app_nil_r. reflexivity.
Qed.

Lemma gen_settled : forall row, settled (de_entries row) -> spec_rows_gen row = [row].
Proof.
  intros row [Hx Hc]. rewrite (gen_no_x _ Hx). unfold phases. rewrite Hc.
  destruct row as [es l u]. reflexivity.
Qed.

Lemma settled_mapi : forall es F,
  cols_holding inp DX es = [] ->
  (forall n x, nth_error es n = Some x -> inp n = true ->
     (exists z, F n x = DNum z) \/ (F n x = x /\ dentry_eqb x DC = false)) ->
  settled (mapi F es).
Proof.
  intros es F Hx HF.
  assert (Hx' := proj1 (cols_nil_iff DX es) Hx).
  split; apply cols_nil_iff; intros n y Hn; rewrite mapi_nth in Hn;
    destruct (nth_error es n) as [x|] eqn:En; try discriminate; simpl in Hn;
    inversion Hn; subst y; clear Hn;
    (destruct (inp n) eqn:Ei; [|apply andb_false_r]); rewrite andb_true_r;
    destruct (HF n x En Ei) as [[z Hz]|[Hz Hd]]; rewrite Hz; try reflexivity.
  - specialize (Hx' n x En). rewrite Ei, andb_true_r in Hx'. exact Hx'.
  - exact Hd.
Qed.

(* ---------- expand_x *)

Lemma gen_split : forall row j,
  (forall v, dentry_eqb v DX = false ->
     cols_holding inp DX (list_set (de_entries row) j v) ++ [j] =
     cols_holding inp DX (de_entries row)) ->
  spec_rows_gen row =
  spec_rows_gen (set_entry row j (DNum 0)) ++ spec_rows_gen (set_entry row j (DNum 1)).
Proof.
  intros row j H. unfold spec_rows_gen, expand_spec. cbn [set_entry de_entries de_line de_update_output].
  pose proof (H (DNum 0) eq_refl) as H0. pose proof (H (DNum 1) eq_refl) as H1.
  assert (E : cols_holding inp DX (list_set (de_entries row) j (DNum 1)) =
              cols_holding inp DX (list_set (de_entries row) j (DNum 0))).
  { rewrite <- H0 in H1. apply app_inv_tail in H1. exact H1. }
  rewrite E. rewrite <- H0 at 1. rewrite assignments_snoc, flat_map_app, map_app. reflexivity.
Qed.

Lemma expand_x_spec : forall f row rest,
  length (cols_holding inp DX (de_entries row)) < f ->
  exists top mid,
    expand_x tc f (row :: rest) = Ok (top :: mid ++ rest) /\
    spec_rows_gen row = spec_rows_gen top ++ flat_map spec_rows_gen mid /\
    cols_holding inp DX (de_entries top) = [] /\
    length (de_entries top) = length (de_entries row).
Proof.
  induction f as [|f IH]; intros row rest Hlt; [lia|].
  rewrite expand_x_S_cons.
  pose proof (find_x_from_spec (de_entries row) 0) as Hf.
  destruct (find_x_from tc 0 (de_entries row)) as [j|].
  - destruct Hf as (n & Hj & Hf). simpl in Hj. subst n.
    fold (cols_holding inp DX (de_entries row)) in Hf.
    assert (Hf' : forall v, dentry_eqb v DX = false ->
              cols_holding inp DX (list_set (de_entries row) j v) ++ [j] =
              cols_holding inp DX (de_entries row)) by exact Hf.
    pose proof (Hf' (DNum 0) eq_refl) as H0.
    assert (Hlen : length (cols_holding inp DX (de_entries (set_entry row j (DNum 0)))) < f).
    { cbn [set_entry de_entries]. rewrite <- H0, app_length in Hlt. simpl in Hlt. lia. }
    destruct (IH (set_entry row j (DNum 0)) (set_entry row j (DNum 1) :: rest) Hlen)
      as (top & mid & He & Hg & Hx & Hl).
    exists top, (mid ++ [set_entry row j (DNum 1)]). split; [|split; [|split]].
    + rewrite He. rewrite <- app_assoc. reflexivity.
    + rewrite (gen_split row j Hf'), Hg, flat_map_app. simpl. rewrite app_nil_r, app_assoc. reflexivity.
    + exact Hx.
    + rewrite Hl. cbn [set_entry de_entries]. apply list_set_length.
  - exists row, []. split; [reflexivity|]. split; [|split; [exact Hf|reflexivity]].
    simpl. rewrite app_nil_r. reflexivity.
Qed.

(* the fuel the code model uses always suffices *)
Lemma expand_x_never_oof : forall row rest,
  expand_x tc (S (length (de_entries row))) (row :: rest) <> OOF.
Proof.
  intros row rest.
  destruct (expand_x_spec (S (length (de_entries row))) row rest) as (top & mid & He & _).
  - pose proof (cols_from_length_le DX (de_entries row) 0). unfold cols_holding. lia.
  - rewrite He. discriminate.
Qed.

(* ---------- expand_c *)

Lemma clock_cols_not_pure : forall es j,
  memb j (cols_holding inp DC es) = true -> pure_expected_col j = false.
Proof.
  intros es j H. apply memb_In, cols_In in H. destruct H as (x & _ & _ & Hi).
  unfold pure_expected_col. rewrite Hi. apply andb_false_r.
Qed.

Lemma expand_c_spec : forall top rest,
  cols_holding inp DX (de_entries top) = [] ->
  exists first mid,
    expand_c tc (top :: rest) = Ok (first :: mid ++ rest) /\
    spec_rows_gen top = first :: flat_map spec_rows_gen mid.
Proof.
  intros top rest Hx. unfold expand_c. rewrite c_indices_cols.
  rewrite (gen_no_x _ Hx). unfold phases.
  set (es := de_entries top) in *.
  destruct (cols_holding inp DC es) as [|c0 cs0] eqn:Ec.
  - exists top, []. split; [reflexivity|]. destruct top as [es' l u]. reflexivity.
  - rewrite <- Ec. set (cs := cols_holding inp DC es) in *.
    assert (Hpure : forall j, memb j cs = true -> pure_expected_col j = false)
      by (intros j Hj; exact (clock_cols_not_pure es j Hj)).
    assert (Hmem : forall j x, nth_error es j = Some x -> inp j = true -> memb j cs = false ->
                               dentry_eqb x DC = false).
    { intros j x Hn Hi Hm. unfold cs in Hm. rewrite cols_memb, Hn, Hi, andb_true_r in Hm. exact Hm. }
    assert (Hinp_pure : forall j, inp j = true -> pure_expected_col j = false).
    { intros j Hi. unfold pure_expected_col. rewrite Hi. apply andb_false_r. }
    eexists. eexists [_; _]. split; [reflexivity|].
    cbn [map fst snd flat_map andb].
    rewrite !set_cols_set_all, !blank_expected_blank. unfold blank.
    rewrite !set_all_mapi, !mapi_mapi.
    rewrite !gen_settled.
    + cbn [app]. f_equal; [|f_equal].
      * f_equal. apply mapi_ext. intros j x.
        destruct (memb j cs) eqn:Em; [rewrite (Hpure j Em)|]; reflexivity.
      * f_equal. apply mapi_ext. intros j x.
        destruct (memb j cs) eqn:Em; [rewrite (Hpure j Em)|]; reflexivity.
    + cbn [de_entries]. apply settled_mapi; [exact Hx|]. intros n x Hn Hi.
      destruct (memb n cs) eqn:Em; [left; eexists; reflexivity|].
      right. split; [reflexivity|]. exact (Hmem n x Hn Hi Em).
    + cbn [de_entries]. apply settled_mapi; [exact Hx|]. intros n x Hn Hi.
      destruct (memb n cs) eqn:Em; [left; eexists; reflexivity|].
      right. rewrite (Hinp_pure n Hi). split; [reflexivity|]. exact (Hmem n x Hn Hi Em).
Qed.

(* ---------- one call of prepare_cache *)

Lemma prepare_step : forall row rest,
  exists top mid,
    prepare_cache tc (row :: rest) = Ok (top :: mid ++ rest) /\
    spec_rows_gen row = top :: flat_map spec_rows_gen mid.
Proof.
  intros row rest. unfold prepare_cache.
  destruct (expand_x_spec (S (length (de_entries row))) row rest) as (t & m & He & Hg & Hx & _).
  - pose proof (cols_from_length_le DX (de_entries row) 0). unfold cols_holding. lia.
  - rewrite He. cbn [rbind].
    destruct (expand_c_spec t (m ++ rest) Hx) as (first & mid & Hc & Hg').
    exists first, (mid ++ m). split.
    + rewrite Hc, app_assoc. reflexivity.
    + rewrite Hg, Hg', flat_map_app. reflexivity.
Qed.

(* ---------- the whole stack *)

Lemma pops_stack : forall f stack,
  f = S (length (flat_map spec_rows_gen stack)) ->
  pops f stack = Ok (flat_map spec_rows_gen stack).
Proof.
  induction f as [|f IH]; intros stack Hf; [discriminate|].
  destruct stack as [|row rest]; [reflexivity|].
  rewrite pops_S_cons.
  destruct (prepare_step row rest) as (top & mid & Hp & Hg).
  rewrite Hp. cbn [rbind flat_map]. cbn [flat_map] in Hf.
  rewrite Hg in *. cbn [app length] in *.
  rewrite <- flat_map_app in *.
  rewrite IH; [reflexivity|]. lia.
Qed.

Lemma C05_fuel_bound : forall row,
  de_update_output row = true ->
  pops (S (length (spec_rows row))) [row] = Ok (spec_rows row).
Proof.
  intros row H. rewrite <- (spec_rows_gen_checked row H).
  rewrite (pops_stack (S (length (spec_rows_gen row))) [row]); simpl; rewrite app_nil_r; reflexivity.
Qed.

Theorem C05_expansion :
  forall row, de_update_output row = true ->
    exists fuel, pops fuel [row] = Ok (spec_rows row).
Proof.
  intros row H. exists (S (length (spec_rows row))). apply C05_fuel_bound. exact H.
Qed.

(* ---------- X / Z / C in non-input columns never multiply rows *)

Definition count_input_cols (d : dentry) (es : list dentry) : nat :=
  length (filter (fun b : bool => b)
                 (mapi (fun i e => dentry_eqb e d && entry_is_input tc i) es)).

Lemma cols_from_count : forall d es i,
  length (cols_holding_from inp d i es) =
  length (filter (fun b : bool => b) (mapi_aux (fun i e => dentry_eqb e d && inp i) i es)).
Proof.
  induction es as [|a es IH]; intro i; [reflexivity|].
  cbn [cols_holding_from mapi_aux filter].
  destruct (dentry_eqb a d && inp i); cbn [length]; rewrite IH; reflexivity.
Qed.

Lemma cols_count : forall d es, length (cols_holding inp d es) = count_input_cols d es.
Proof. intros. apply cols_from_count. Qed.

(* every assignment is the source row with numbers in (some of) its X input columns *)
Lemma assignments_shape : forall cols es es',
  (forall i x, In i cols -> nth_error es i = Some x -> dentry_eqb x DX = true /\ inp i = true) ->
  In es' (assignments cols es) ->
  exists f, es' = mapi f es /\
    forall n x, nth_error es n = Some x ->
      f n x = x \/ (dentry_eqb x DX = true /\ inp n = true /\ exists b, f n x = DNum b).
Proof.
  induction cols as [|c cols IH]; intros es es' Hc Hin.
  - destruct Hin as [<-|[]]. exists (fun _ x => x). split; [symmetry; apply mapi_id|]. auto.
  - cbn [assignments] in Hin. apply in_flat_map in Hin. destruct Hin as (es'' & Hin & Hes').
    destruct (IH es es'') as (f & -> & Hf).
    + intros i x Hi. apply Hc. right. exact Hi.
    + exact Hin.
    + assert (Hb : exists b, es' = list_set (mapi f es) c (DNum b)).
      { destruct Hes' as [<-|[<-|[]]]; eexists; reflexivity. }
      destruct Hb as [b ->].
      exists (fun j x => if Nat.eqb j c then DNum b else f j x). split.
      * rewrite list_set_mapi, mapi_mapi. reflexivity.
      * intros n x Hn. destruct (Nat.eqb_spec n c) as [->|Hne]; [|apply Hf; exact Hn].
        right. destruct (Hc c x (or_introl eq_refl) Hn) as [Hd Hi]. eauto.
Qed.

Lemma expand_spec_assignment_shape : forall es es',
  In es' (assignments (cols_holding inp DX es) es) ->
  exists f, es' = mapi f es /\
    forall n x, nth_error es n = Some x ->
      f n x = x \/ (dentry_eqb x DX = true /\ inp n = true /\ exists b, f n x = DNum b).
Proof.
  intros es es' H. apply (assignments_shape (cols_holding inp DX es)); [|exact H].
  intros i x Hi Hn. apply cols_In in Hi. destruct Hi as (y & Hy & Hd & Hi).
  rewrite Hn in Hy. inversion Hy; subst. auto.
Qed.

Lemma assignment_clock_cols : forall es es',
  In es' (assignments (cols_holding inp DX es) es) ->
  cols_holding inp DC es' = cols_holding inp DC es.
Proof.
  intros es es' H. destruct (expand_spec_assignment_shape es es' H) as (f & -> & Hf).
  apply cols_mapi_ext. intros n x Hn.
  destruct (Hf n x Hn) as [->|(Hd & _ & b & ->)]; [reflexivity|].
  destruct x; try discriminate. reflexivity.
Qed.

Theorem C05_row_count : forall row,
  length (spec_rows row) =
  2 ^ count_input_cols DX (de_entries row) *
  (if Nat.eqb (count_input_cols DC (de_entries row)) 0 then 1 else 3).
Proof.
  intro row. unfold spec_rows, expand_spec. rewrite map_length.
  rewrite (length_flat_map_const _ _ _
             (if Nat.eqb (count_input_cols DC (de_entries row)) 0 then 1 else 3)).
  - rewrite assignments_length, cols_count. reflexivity.
  - intros es' Hin. unfold phases. rewrite (assignment_clock_cols _ _ Hin).
    rewrite <- cols_count. destruct (cols_holding inp DC (de_entries row)); reflexivity.
Qed.

(* in a column that is not an input column every row produced holds the source entry,
   or (unchecked rows of a clock triple, pure expected columns) X; and every row produced
   is as wide as the source row *)
Theorem C05_expected_never_expanded : forall row r i,
  In r (spec_rows row) -> entry_is_input tc i = false ->
  length (de_entries r) = length (de_entries row) /\
  (nth_error (de_entries r) i = nth_error (de_entries row) i \/
   (de_update_output r = false /\ pure_expected_col i = true /\
    i < length (de_entries row) /\ nth_error (de_entries r) i = Some DX)).
Proof.
  intros row r i Hin Hi. unfold spec_rows in Hin. apply in_map_iff in Hin.
  destruct Hin as ([es1 chk] & <- & Hin). cbn [de_entries de_update_output fst snd].
  unfold expand_spec in Hin. apply in_flat_map in Hin. destruct Hin as (es' & Hin & Hph).
  destruct (expand_spec_assignment_shape _ _ Hin) as (f & -> & Hf).
  set (es := de_entries row) in *.
  assert (Hkeep : forall x, nth_error es i = Some x -> f i x = x).
  { intros x Hn. destruct (Hf i x Hn) as [H|(_ & H & _)]; [exact H|congruence]. }
  assert (Hnomem : forall cs, (forall j, In j cs -> inp j = true) -> memb i cs = false).
  { intros cs Hcs. destruct (memb i cs) eqn:Em; [|reflexivity].
    apply memb_In, Hcs in Em. congruence. }
  unfold phases in Hph.
  assert (Hcs : forall j, In j (cols_holding inp DC (mapi f es)) -> inp j = true).
  { intros j Hj. apply cols_In in Hj. destruct Hj as (x & _ & _ & H). exact H. }
  assert (Hlen : forall g : nat -> dentry -> dentry, length (mapi g es) = length es)
    by (intro g; apply mapi_length).
  pose proof (Hnomem _ Hcs) as Hm.
  destruct (cols_holding inp DC (mapi f es)) as [|c0 cs0] eqn:Ec.
  - destruct Hph as [Hp|[]]. inversion Hp; subst. split; [apply Hlen|]. left.
    rewrite mapi_nth. destruct (nth_error es i) as [x|] eqn:En; [|reflexivity].
    simpl. rewrite (Hkeep x eq_refl). reflexivity.
  - rewrite <- Ec in Hph, Hm. set (cs := cols_holding inp DC (mapi f es)) in *.
    rewrite !set_cols_set_all in Hph. unfold blank in Hph.
    rewrite !set_all_mapi, !mapi_mapi in Hph.
    destruct Hph as [Hp|[Hp|[Hp|[]]]]; inversion Hp; subst es1 chk; clear Hp;
      (split; [apply Hlen|]); rewrite mapi_nth;
      destruct (nth_error es i) as [x|] eqn:En; try (left; reflexivity);
      simpl; rewrite Hm, (Hkeep x eq_refl).
    + destruct (pure_expected_col i) eqn:Ep; [right|left; reflexivity].
      repeat split. apply nth_error_Some. congruence.
    + destruct (pure_expected_col i) eqn:Ep; [right|left; reflexivity].
      repeat split. apply nth_error_Some. congruence.
    + left. reflexivity.
Qed.

End EXPAND.

(* ------------------------------------------------------------------ non-vacuity *)

Definition ex_tc : testcase :=
  {| tc_stmts := []; tc_signals := [];
     tc_input_indices := [EIEntry 0 0; EIEntry 2 1];
     tc_expected_indices := [EIEntry 1 2; EIEntry 3 3];
     tc_read_outputs := [] |}.

Definition ex_row : dentries :=
  {| de_entries := [DX; DNum 5; DC; DX]; de_line := 7%N; de_update_output := true |}.

Example C05_example :
  pops ex_tc 7 [ex_row] = Ok (spec_rows ex_tc ex_row) /\
  map (fun r => (de_entries r, de_update_output r)) (spec_rows ex_tc ex_row) =
  [ ([DNum 0; DX; DNum 0; DX], false);
    ([DNum 0; DX; DNum 1; DX], false);
    ([DNum 0; DNum 5; DNum 0; DX], true);
    ([DNum 1; DX; DNum 0; DX], false);
    ([DNum 1; DX; DNum 1; DX], false);
    ([DNum 1; DNum 5; DNum 0; DX], true) ].
Proof. split; vm_compute; reflexivity. Qed.

(* a hostile test case: duplicate, default and out-of-range index vectors; a column that is
   both input and expected (3); X, Z, C and an unevaluated entry in non-input columns *)
Definition ex_tc2 : testcase :=
  {| tc_stmts := []; tc_signals := [];
     tc_input_indices := [EIEntry 0 0; EIEntry 2 1; EIEntry 3 3; EIEntry 3 3; EIDefault 4; EIEntry 9 9];
     tc_expected_indices := [EIEntry 1 2; EIEntry 3 3; EIDefault 1; EIEntry 12 0; EIEntry 5 0; EIEntry 5 1];
     tc_read_outputs := [] |}.

Example C05_example2 :
  let row := {| de_entries := [DX; DC; DC; DX; DZ; DC; DX; DExpr (ENum 3)]; de_line := 1%N;
                de_update_output := true |} in
  pops ex_tc2 13 [row] = Ok (spec_rows ex_tc2 row) /\ length (spec_rows ex_tc2 row) = 12.
Proof. split; vm_compute; reflexivity. Qed.

Print Assumptions C05_expansion.
Print Assumptions C05_fuel_bound.
Print Assumptions C05_row_count.
Print Assumptions C05_expected_never_expanded.
