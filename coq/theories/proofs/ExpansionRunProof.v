(* C05 lifted to the RUN, through error items: the X / C expansion of every evaluated source row is
   served COMPLETELY and IN ORDER by the calls of next() that follow its evaluation, whatever comes
   of each call (row item, failed call, refused answer, failing declared signal).

   props/C05.v speaks about ONE source row in isolation (`pops`: prepare_cache + pop until the cache
   is empty = ExpandSpec.expand_spec).  Here: along any run of a caller that keeps calling next()
   after error items (VarsRunProof.steps_e = the calls of RunRefineE.collect_e, each with the state
   it was made on and the state it left), from try_new or from any other state.

   THE RULE (read off Iter.get_row / Iter.inext):
     - a call that finds the cache empty (LinesRunProof.refill_call = true) asks the statement
       iterator; `NYield w l` puts the one row (w, l, checked) into the cache;
     - EVERY call that has a row in the cache runs prepare_cache (expand_x, expand_c) on the whole
       stack and pops the top: ExpandProof.prepare_step says that this pops the head of
       `flat_map spec_rows_gen cache` and leaves its tail;
     - the popped row is evaluated against i_prev into the evaluated_row that handle_io gets
       (get_row = GRRow er _), i_prev becomes its entries, and exactly one driver call
       (call_kind er, er_inputs er) is appended to the log - BEFORE the outcome of the call is
       known; a failed call, a refused answer and a failing declared signal only change what item
       the caller gets: with_ctx_log keeps i_cache and i_prev.
   Hence the invariant-free statement: the ghost list
       pending st = flat_map (spec_rows_gen tc) (i_cache st)
   loses exactly its head at every call that hands a row to handle_io, and is
   `spec_rows tc (w, l, true)` right after a refill.  No reachability hypothesis is needed: a marked
   call starts from the empty cache.

   A GROUP = a marked call on which the statement iterator yields (w, l), and the maximal run of
   unmarked calls after it (LinesRunProof.source_row_group_reports_its_line).
     1. group_is_the_expansion        the rows handed to handle_io in the group are the evaluation
                                      (against the running i_prev) of a prefix `rows` of
                                      spec_rows tc (w, l), one per call, in order; the log grows by
                                      exactly their calls; the rest of spec_rows is still pending;
                                      the group is complete (rest = []) iff the state it leaves has
                                      an empty cache, i.e. iff the next call (if the run has one) is
                                      marked.
     2. calls_of_a_group              the update_output flags / the kinds of the calls follow
                                      group_flags: [true] per assignment without clock,
                                      [false; false; true] with (spec_rows_flags, group_flags_spec).
     3. number_of_items_of_a_group    a complete group has length (spec_rows ..) =
                                      2^k * (1 or 3) calls (C05_row_count).
     4. static_*                      the same for the static iterator (= the dynamic one over
                                      static_driver with the trait's default write_input).
   No well-formedness hypothesis anywhere: every generator, driver, test case, fuel, state. *)
From Coq Require Import String.
From DTR Require Import Prelude I64 Ast FramedMap Lexer Parser Bind Eval Stmt Iter ExpandSpec Script Static.
From DTR.proofs Require Import StmtRefine IterLogProof ExpandProof RunRefine RunRefineE WidthProof VectorProof
  OutputsRunProof VarsRunProof LinesRunProof.
Local Open Scope nat_scope.

Local Arguments NYield {C F W} w line it c.
Local Arguments NDone {C F W} it c.
Local Arguments NErr {C F W} f it c.
Local Arguments NPanic {C F W} site.
Local Arguments NOOF {C F W}.
Local Arguments ItNone {DE} st.
Local Arguments ItRow {DE} row st.
Local Arguments ItErr {DE} e st.
Local Arguments ItPanic {DE} s.
Local Arguments ItOOF {DE}.
Local Arguments NewOk {DE} st.
Local Arguments NewErr {DE} e log.
Local Arguments NewPanic {DE} s.

(* ------------------------------------------------------------------ lists *)

Lemma flat_map_const_concat : forall A B (f : A -> list B) c l,
  (forall x, In x l -> f x = c) -> flat_map f l = concat (repeat c (length l)).
Proof.
  intros A B f c l. induction l as [|a l IH]; intro H; [reflexivity|].
  cbn [flat_map length repeat concat]. rewrite (H a (or_introl eq_refl)), IH; [reflexivity|].
  intros x Hx. apply H. right. exact Hx.
Qed.

Lemma map_flat_map : forall A B C (g : B -> C) (f : A -> list B) l,
  map g (flat_map f l) = flat_map (fun x => map g (f x)) l.
Proof.
  intros A B C g f l. induction l as [|a l IH]; [reflexivity|].
  cbn [flat_map]. rewrite map_app, IH. reflexivity.
Qed.

Lemma map_prefix_firstn : forall A B (f : A -> B) (rows rest L : list A),
  L = rows ++ rest -> map f rows = firstn (length rows) (map f L).
Proof.
  intros A B f rows rest L H. subst L. rewrite map_app, <- (map_length f rows).
  rewrite firstn_app, Nat.sub_diag, firstn_all. cbn [firstn]. rewrite app_nil_r. reflexivity.
Qed.

Lemma map_Some_length : forall A B (f : A -> option B) l ys, map f l = map Some ys -> length ys = length l.
Proof. intros A B f l ys H. apply (f_equal (@length _)) in H. rewrite !map_length in H. auto. Qed.

(* ------------------------------------------------------------------ *)
(* the flags of the documented sequence *)

Section FLAGS.
Variable tc : testcase.

(* one assignment of the X entries: one checked row, or a clock triple whose third row is checked *)
Definition triple_flags (w : list dentry) : list bool :=
  if count_input_cols tc DC w =? 0 then [true] else [false; false; true].

(* ... for each of the 2^k assignments *)
Definition group_flags (w : list dentry) : list bool :=
  concat (repeat (triple_flags w) (2 ^ count_input_cols tc DX w)).

Theorem spec_rows_flags : forall row,
  map de_update_output (spec_rows tc row) = group_flags (de_entries row).
Proof.
  intro row. unfold spec_rows. rewrite map_map. cbn [de_update_output].
  change (map (fun x : list dentry * bool => snd x)
              (expand_spec (entry_is_input tc) (pure_expected_col tc) (de_entries row)) =
          group_flags (de_entries row)).
  unfold expand_spec. rewrite map_flat_map.
  rewrite (flat_map_const_concat _ _ _ (triple_flags (de_entries row))).
  - rewrite assignments_length, cols_count. reflexivity.
  - intros es Hin. unfold phases. rewrite (assignment_clock_cols tc _ _ Hin).
    unfold triple_flags. rewrite <- cols_count.
    destruct (cols_holding (entry_is_input tc) DC (de_entries row)); reflexivity.
Qed.

Lemma group_flags_length : forall w,
  length (group_flags w) =
  2 ^ count_input_cols tc DX w * (if count_input_cols tc DC w =? 0 then 1 else 3).
Proof.
  intro w.
  pose proof (spec_rows_flags {| de_entries := w; de_line := 0%N; de_update_output := true |}) as H.
  cbn [de_entries] in H. rewrite <- H, map_length, C05_row_count. reflexivity.
Qed.

Lemma concat_repeat_true_nth : forall k i b,
  nth_error (concat (repeat [true] k)) i = Some b -> b = true.
Proof.
  induction k as [|k IH]; intros i b H; cbn [repeat concat app] in H.
  - destruct i; discriminate H.
  - destruct i as [|i]; cbn [nth_error] in H; [inversion H; reflexivity|]. eapply IH; exact H.
Qed.

Lemma concat_repeat_triple_nth : forall k i b,
  nth_error (concat (repeat [false; false; true] k)) i = Some b -> b = (i mod 3 =? 2).
Proof.
  induction k as [|k IH]; intros i b H; cbn [repeat concat app] in H.
  - destruct i; discriminate H.
  - destruct i as [|[|[|j]]]; cbn [nth_error] in H; try (inversion H; reflexivity).
    rewrite (IH j b H). replace (S (S (S j))) with (j + 1 * 3) by lia.
    rewrite Nat.mod_add by lia. reflexivity.
Qed.

(* "exactly the third call of each clock triple, and every row without C, reads the outputs" *)
Theorem group_flags_spec : forall w i b,
  nth_error (group_flags w) i = Some b ->
  b = if count_input_cols tc DC w =? 0 then true else (i mod 3 =? 2).
Proof.
  intros w i b H. unfold group_flags, triple_flags in H.
  destruct (count_input_cols tc DC w =? 0).
  - eapply concat_repeat_true_nth; exact H.
  - eapply concat_repeat_triple_nth; exact H.
Qed.

End FLAGS.

(* ------------------------------------------------------------------ *)
(* one next() *)

Section EXP_RUN.
Variable G : gen.
Variable DE : Type.
Variable D : driver DE.
Variable w_default : bool.
Variable tc : testcase.

Local Notation snext := (Iter.snext G).
Local Notation get_row := (Iter.get_row G tc).
Local Notation inext := (Iter.inext G DE D w_default tc).
Local Notation try_new := (Iter.try_new DE D tc).
Local Notation next_state := (VectorProof.next_state DE).
Local Notation steps_e := (VarsRunProof.steps_e G DE D w_default tc).
Local Notation step := (VarsRunProof.step DE).
Local Notation step_pre := (VarsRunProof.step_pre DE).
Local Notation step_item := (VarsRunProof.step_item DE).
Local Notation step_post := (VarsRunProof.step_post DE).
Local Notation call_kind := (VarsRunProof.call_kind w_default).
Local Notation wkind := (OutputsRunProof.wkind w_default).

(* the row that a refill puts into the cache *)
Definition source_row (w : list dentry) (l : N) : dentries :=
  {| de_entries := w; de_line := l; de_update_output := true |}.

(* GHOST: the rows that the cache still stands for, in the order in which they will be served *)
Definition pending (st : istate) : list dentries := flat_map (spec_rows_gen tc) (i_cache st).

(* `er` is what get_row makes of the cache row `r` when the row handed out before had entries `prev` *)
Definition evaluates (prev : option (list dentry)) (r : dentries) (er : evaluated_row) : Prop :=
  er_line er = de_line r /\ er_update_output er = de_update_output r /\
  generate_input_entries tc (de_entries r) (check_changed_entries prev (de_entries r)) = Ok (er_inputs er) /\
  generate_expected_entries tc (de_entries r) = Ok (er_expected er).

(* ... row after row, each compared with the one before it *)
Fixpoint evaluated_seq (prev : option (list dentry)) (rows : list dentries) (ers : list evaluated_row) : Prop :=
  match rows, ers with
  | [], [] => True
  | r :: rows', er :: ers' => evaluates prev r er /\ evaluated_seq (Some (de_entries r)) rows' ers'
  | _, _ => False
  end.

(* the evaluated row that this call of next() hands to handle_io (None: it hands none) *)
Definition handed (fuel : nat) (st : istate) : option evaluated_row :=
  match get_row fuel st with GRRow er _ => Some er | _ => None end.

(* the rows this call can serve from: what the cache stands for, or, after a refill, the expansion
   of the row that the statement iterator yields *)
Definition offered (fuel : nat) (st : istate) : list dentries :=
  match i_cache st with
  | [] => match snext fuel (i_iter st) (i_ctx st) with
          | NYield w l _ _ => spec_rows tc (source_row w l)
          | _ => []
          end
  | _ :: _ => pending st
  end.

(* the driver call made for an evaluated row, as it is logged *)
Definition call_of (er : evaluated_row) : call := (call_kind er, er_inputs er).

Definition flag_kind (b : bool) : callkind := if b then RW else wkind.

Lemma call_kind_flag : forall er, call_kind er = flag_kind (er_update_output er).
Proof. intro er. reflexivity. Qed.

Lemma spec_rows_gen_nonempty : forall row, spec_rows_gen tc row <> [].
Proof.
  intros row H. destruct (prepare_step tc row []) as (top & mid & _ & Hg). rewrite Hg in H. discriminate H.
Qed.

Lemma spec_rows_nonempty : forall w l, spec_rows tc (source_row w l) <> [].
Proof.
  intros w l. rewrite <- (spec_rows_gen_checked tc (source_row w l) eq_refl). apply spec_rows_gen_nonempty.
Qed.

(* nothing pending = nothing in the cache = the next call is marked *)
Lemma pending_nil : forall st, pending st = [] <-> refill_call st = true.
Proof.
  intro st. unfold pending, refill_call. destruct (i_cache st) as [|r0 rest0]; split; intro H;
    try reflexivity; try discriminate H.
  cbn [flat_map] in H. apply app_eq_nil in H. destruct H as [H _].
  exfalso. exact (spec_rows_gen_nonempty r0 H).
Qed.

(* the part of get_row after the refill pops the head of `pending` *)
Lemma finish_row_expansion : forall st1 er st2,
  finish_row tc st1 = GRRow er st2 ->
  exists top, pending st1 = top :: pending st2 /\ evaluates (i_prev st1) top er /\
              i_prev st2 = Some (de_entries top).
Proof.
  intros st1 er st2 H. unfold finish_row in H. unfold pending at 1.
  destruct (i_cache st1) as [|r0 rest0] eqn:Hc; [discriminate H|].
  destruct (prepare_step tc r0 rest0) as (top & mid & Hp & Hg). rewrite Hp in H. cbv zeta in H.
  destruct (generate_input_entries tc (de_entries top)
              (check_changed_entries (i_prev st1) (de_entries top))) as [inputs|e|s|] eqn:Hi; try discriminate H.
  destruct (generate_expected_entries tc (de_entries top)) as [expected|e|s|] eqn:Hx; try discriminate H.
  inversion H; subst er st2. exists top. unfold pending, evaluates.
  cbn [i_cache i_prev er_line er_inputs er_expected er_update_output flat_map].
  rewrite Hg, flat_map_app. auto 10.
Qed.

Lemma get_row_expansion : forall fuel st,
  match get_row fuel st with
  | GRRow er st1 =>
      exists top, offered fuel st = top :: pending st1 /\ evaluates (i_prev st) top er /\
                  i_prev st1 = Some (de_entries top)
  | GRNone st1 | GRErr _ st1 => refill_call st = true /\ offered fuel st = [] /\ i_cache st1 = []
  | _ => True
  end.
Proof.
  intros fuel st. rewrite get_row_unfold. unfold offered, refill_call.
  destruct (i_cache st) as [|r0 rest0] eqn:Hc.
  - destruct (snext fuel (i_iter st) (i_ctx st)) as [w l it' c'|it' c'|[x|s] it' c'|s|]; try exact I.
    + match goal with |- context [finish_row tc ?sx] =>
        pose proof (finish_row_inv tc sx) as Hf; pose proof (finish_row_expansion sx) as He;
        destruct (finish_row tc sx) as [st2|er st2|x st2|s0|] end; try contradiction; try exact I.
      destruct (He er st2 eq_refl) as [top [H1 [H2 H3]]]. exists top.
      unfold pending at 1 in H1. cbn [with_iter_ctx i_cache i_prev flat_map] in H1, H2.
      rewrite app_nil_r in H1. fold (source_row w l) in H1.
      rewrite (spec_rows_gen_checked tc (source_row w l) eq_refl) in H1. auto.
    + cbn [with_iter_ctx i_cache]. auto.
    + cbn [with_iter_ctx i_cache]. auto.
  - pose proof (finish_row_inv tc st) as Hf. pose proof (finish_row_expansion st) as He.
    destruct (finish_row tc st) as [st2|er st2|x st2|s0|]; try contradiction; try exact I.
    exact (He er st2 eq_refl).
Qed.

(* whatever comes of the call, the state handed back has the cache and the i_prev that get_row left,
   and the call is in the log *)
Lemma inext_after_row : forall fuel st er st1 st',
  get_row fuel st = GRRow er st1 -> next_state (inext fuel st) = Some st' ->
  i_cache st' = i_cache st1 /\ i_prev st' = i_prev st1 /\ i_log st' = i_log st ++ [call_of er].
Proof.
  intros fuel st er st1 st' Hg Hn.
  destruct (VarsRunProof.vars_unchanged_when_called G DE D w_default tc fuel st er st1 st' Hg Hn)
    as [_ [_ [_ Hl]]].
  pose proof (inext_inv G DE D w_default tc fuel st) as H.
  assert (K : i_cache st' = i_cache st1 /\ i_prev st' = i_prev st1).
  { destruct (inext fuel st) as [s1|row s1|[e|r] s1|s|]; cbn [VectorProof.next_state] in Hn;
      try discriminate Hn; inversion Hn; subst s1.
    - rewrite Hg in H. discriminate H.
    - destruct H as [er' [st1' [Hg' [[_ [outs [c2 [vals [_ [_ [_ Hs]]]]]]]|[_ [outs [_ [_ Hs]]]]]]]];
        rewrite Hg in Hg'; inversion Hg'; subst er' st1' st'; cbn [with_ctx_log i_cache i_prev]; auto.
    - destruct H as [er' [st1' [Hg' [_ Hs]]]]. rewrite Hg in Hg'; inversion Hg'; subst er' st1' st'.
      cbn [with_ctx_log i_cache i_prev]. auto.
    - destruct H as [[x [_ Hg']]|[er' [st1' [outs [c2 [Hg' [_ [_ [_ Hs]]]]]]]]]; rewrite Hg in Hg';
        [discriminate Hg'|]. inversion Hg'; subst er' st1' st'. cbn [with_ctx_log i_cache i_prev]. auto. }
  destruct K as [K1 K2]. auto.
Qed.

(* THE CASE TABLE for the expansion.  Every outcome of next() that hands a state back: a call that
   hands a row to handle_io serves the HEAD of what it was offered and leaves the tail pending -
   whether the item is a row or an error item; a call that hands no row (None, an evaluation error of
   the program) is a marked call that was offered nothing and leaves the cache empty. *)
Theorem inext_expansion : forall fuel st st',
  next_state (inext fuel st) = Some st' ->
  match handed fuel st with
  | Some er =>
      exists top, offered fuel st = top :: pending st' /\ evaluates (i_prev st) top er /\
                  i_prev st' = Some (de_entries top) /\ i_log st' = i_log st ++ [call_of er]
  | None => refill_call st = true /\ offered fuel st = [] /\ i_cache st' = [] /\ i_log st' = i_log st
  end.
Proof.
  intros fuel st st' Hn. unfold handed. pose proof (get_row_expansion fuel st) as Hx.
  destruct (get_row fuel st) as [st1|er st1|x st1|s|] eqn:Hg.
  2:{ destruct Hx as [top [H1 [H2 H3]]].
      destruct (inext_after_row fuel st er st1 st' Hg Hn) as [K1 [K2 K3]].
      exists top. unfold pending in *. rewrite K1, K2. auto. }
  all: assert (Hno : forall er0 s0, get_row fuel st <> GRRow er0 s0)
         by (intros er0 s0 E; rewrite Hg in E; discriminate E);
       destruct (VarsRunProof.no_call_no_io G DE D w_default tc fuel st st' Hno Hn) as [[E|[x' E]] Hl];
       rewrite Hg in E; try discriminate E; inversion E; subst; tauto.
Qed.

(* a row item shows the row that was handed to handle_io *)
Theorem row_item_shows_the_handed_row : forall fuel st row st',
  inext fuel st = ItRow row st' ->
  exists er, handed fuel st = Some er /\ dr_inputs row = er_inputs er /\ dr_line row = er_line er /\
             (er_update_output er = false -> dr_outputs row = []).
Proof.
  intros fuel st row st' Hi. pose proof (inext_calls G DE D w_default tc fuel st) as H. rewrite Hi in H.
  destruct H as [er [st1 [Hg [H1 [H2 [_ [_ H3]]]]]]]. exists er. unfold handed. rewrite Hg. auto.
Qed.

(* ------------------------------------------------------------------ the run *)

(* the state that a list of consecutive steps leaves *)
Definition end_state (st : istate) (l : list step) : istate := last (map step_post l) st.

Lemma end_state_cons : forall st s l, end_state st (s :: l) = end_state (step_post s) l.
Proof. intros st s l. unfold end_state. cbn [map]. apply last_cons. Qed.

Lemma steps_e_cons_inv : forall fuel n st s l,
  steps_e fuel n st = s :: l ->
  exists n', step_pre s = st /\ next_state (inext fuel st) = Some (step_post s) /\
             l = steps_e fuel n' (step_post s).
Proof.
  intros fuel n st s l H. destruct n as [|n]; [discriminate H|]. cbn [VarsRunProof.steps_e] in H.
  destruct (inext fuel st) as [st'|row st'|e st'|x|]; try discriminate H; inversion H; subst s l.
  - exists 0. auto.
  - exists n. auto.
  - exists n. auto.
Qed.

Lemma steps_e_suffix : forall fuel pre n st0 x rest,
  steps_e fuel n st0 = pre ++ x :: rest -> exists n', steps_e fuel n' (step_pre x) = x :: rest.
Proof.
  intros fuel pre. induction pre as [|y pre IH]; intros n st0 x rest H.
  - cbn [app] in H. destruct (steps_e_cons_inv _ _ _ _ _ H) as [n' [Hp _]]. rewrite Hp. exists n. exact H.
  - cbn [app] in H. destruct (steps_e_cons_inv _ _ _ _ _ H) as [n' [_ [_ Hl]]].
    eapply IH. symmetry. exact Hl.
Qed.

(* the step after a list of steps is made on the state they leave *)
Lemma steps_e_next_pre : forall fuel mid n st y post,
  steps_e fuel n st = mid ++ y :: post -> step_pre y = end_state st mid.
Proof.
  intros fuel mid. induction mid as [|s mid IH]; intros n st y post H.
  - cbn [app] in H. destruct (steps_e_cons_inv _ _ _ _ _ H) as [n' [Hp _]]. exact Hp.
  - cbn [app] in H. destruct (steps_e_cons_inv _ _ _ _ _ H) as [n' [_ [_ Hl]]].
    rewrite end_state_cons. eapply IH. symmetry. exact Hl.
Qed.

(* the marks of LinesRunProof.collect_e_tagged are the marks of the states of the steps *)
Theorem tagged_is_steps : forall fuel n st,
  LinesRunProof.collect_e_tagged G DE D w_default tc fuel n st =
  map (fun s => (refill_call (step_pre s), step_item s)) (steps_e fuel n st).
Proof.
  intros fuel n. induction n as [|n IH]; intro st; [reflexivity|].
  rewrite collect_e_tagged_S. cbn [VarsRunProof.steps_e].
  destruct (inext fuel st) as [st'|row st'|e st'|x|]; try reflexivity; cbn [map]; rewrite IH; reflexivity.
Qed.

Lemma evaluated_seq_flags : forall rows prev ers,
  evaluated_seq prev rows ers ->
  length ers = length rows /\ map er_update_output ers = map de_update_output rows /\
  map er_line ers = map de_line rows.
Proof.
  induction rows as [|r rows IH]; intros prev [|er ers] H; cbn [evaluated_seq] in H; try contradiction.
  - auto.
  - destruct H as [[H1 [H2 _]] H]. destruct (IH _ _ H) as [K1 [K2 K3]].
    cbn [length map]. rewrite K1, K2, K3, H1, H2. auto.
Qed.

(* from any state, as long as the calls are unmarked: every call hands a row to handle_io, the rows
   are the evaluation of the first rows of `pending`, in order, and the others are still pending *)
Lemma unmarked_run_expansion : forall fuel mid n st post,
  steps_e fuel n st = mid ++ post ->
  Forall (fun x => refill_call (step_pre x) = false) mid ->
  exists ers rows,
    map (fun x => handed fuel (step_pre x)) mid = map Some ers /\
    pending st = rows ++ pending (end_state st mid) /\
    evaluated_seq (i_prev st) rows ers /\
    i_log (end_state st mid) = i_log st ++ map call_of ers.
Proof.
  intros fuel mid. induction mid as [|s mid IH]; intros n st post H Hm.
  - exists [], []. cbn [map app evaluated_seq end_state last]. rewrite app_nil_r. auto.
  - inversion Hm as [|? ? Hs Hm']; subst. cbn [app] in H.
    destruct (steps_e_cons_inv _ _ _ _ _ H) as [n' [Hpre [Hn Hl]]]. rewrite Hpre in Hs.
    pose proof (inext_expansion fuel st _ Hn) as Hx.
    destruct (handed fuel st) as [er|] eqn:Hh.
    + destruct Hx as [top [Ho [He [Hp Hlog]]]].
      assert (Hoff : offered fuel st = pending st).
      { unfold offered, refill_call in *. destruct (i_cache st); [discriminate Hs|reflexivity]. }
      destruct (IH n' (step_post s) post (eq_sym Hl) Hm') as [ers [rows [H1 [H2 [H3 H4]]]]].
      exists (er :: ers), (top :: rows). rewrite end_state_cons. cbn [map]. rewrite Hpre, Hh, H1.
      split; [reflexivity|]. split; [rewrite <- Hoff, Ho, H2; reflexivity|].
      split; [cbn [evaluated_seq]; split; [exact He|rewrite <- Hp; exact H3]|].
      rewrite H4, Hlog, <- app_assoc. reflexivity.
    + destruct Hx as [Hr _]. congruence.
Qed.

(* THE GROUP, from the state `st` of its marked call *)
Lemma group_from : forall fuel n st s mid post w l it' c',
  steps_e fuel n st = s :: mid ++ post ->
  refill_call st = true ->
  Forall (fun x => refill_call (step_pre x) = false) mid ->
  snext fuel (i_iter st) (i_ctx st) = NYield w l it' c' ->
  exists ers rows,
    map (fun x => handed fuel (step_pre x)) (s :: mid) = map Some ers /\
    spec_rows tc (source_row w l) = rows ++ pending (end_state st (s :: mid)) /\
    evaluated_seq (i_prev st) rows ers /\
    i_log (end_state st (s :: mid)) = i_log st ++ map call_of ers.
Proof.
  intros fuel n st s mid post w l it' c' H Hr Hm Hs.
  destruct (steps_e_cons_inv _ _ _ _ _ H) as [n' [Hpre [Hn Hl]]].
  pose proof (inext_expansion fuel st _ Hn) as Hx.
  assert (Hoff : offered fuel st = spec_rows tc (source_row w l)).
  { unfold offered, refill_call in *. destruct (i_cache st); [|discriminate Hr]. rewrite Hs. reflexivity. }
  destruct (handed fuel st) as [er|] eqn:Hh.
  - destruct Hx as [top [Ho [He [Hp Hlog]]]].
    destruct (unmarked_run_expansion fuel mid n' (step_post s) post (eq_sym Hl) Hm)
      as [ers [rows [H1 [H2 [H3 H4]]]]].
    exists (er :: ers), (top :: rows). rewrite end_state_cons. cbn [map]. rewrite Hpre, Hh, H1.
    split; [reflexivity|]. split; [rewrite <- Hoff, Ho, H2; reflexivity|].
    split; [cbn [evaluated_seq]; split; [exact He|rewrite <- Hp; exact H3]|].
    rewrite H4, Hlog, <- app_assoc. reflexivity.
  - destruct Hx as [_ [Hx _]]. rewrite Hoff in Hx. exfalso. exact (spec_rows_nonempty w l Hx).
Qed.

(* ---------------------------------------------------------------- 1. *)

(* THE THEOREM (1).  Anywhere in a run of the continuing caller (steps_e fuel n st0: the first n
   calls of next() from st0 - the state of try_new, or any other), a call `s` that found the cache
   empty and obtained the evaluated source row (w, l) from the statement iterator, followed by
   unmarked calls `mid`.  Then
     - every call of s :: mid handed a row to handle_io (`ers`, one per call, in order);
     - these are the evaluation, each against the entries of the one before it (the first against
       the i_prev of the state of s), of `rows`, a PREFIX of the documented sequence
       spec_rows tc (w, l): each row once, in order - whatever the items were;
     - the log grew by exactly the calls of these rows (kind and input vector), in order;
     - `rest` is what the cache of the state after the group still stands for; the group is COMPLETE
       (rest = []) iff that state has an empty cache; when the run goes on (post = y :: _) the next
       call y is made on that state, so: iff y is marked.  If the run is cut (post = []: the n calls
       are used up, or next() panicked / ran out of fuel) the group is this prefix. *)
Theorem group_is_the_expansion_from_any_state : forall fuel n st0 pre s mid post w l it' c',
  steps_e fuel n st0 = pre ++ s :: mid ++ post ->
  refill_call (step_pre s) = true ->
  Forall (fun x => refill_call (step_pre x) = false) mid ->
  snext fuel (i_iter (step_pre s)) (i_ctx (step_pre s)) = NYield w l it' c' ->
  exists ers rows rest,
    spec_rows tc (source_row w l) = rows ++ rest /\
    map (fun x => handed fuel (step_pre x)) (s :: mid) = map Some ers /\
    evaluated_seq (i_prev (step_pre s)) rows ers /\
    i_log (end_state (step_pre s) (s :: mid)) = i_log (step_pre s) ++ map call_of ers /\
    pending (end_state (step_pre s) (s :: mid)) = rest /\
    (rest = [] <-> refill_call (end_state (step_pre s) (s :: mid)) = true) /\
    (forall y post', post = y :: post' -> step_pre y = end_state (step_pre s) (s :: mid)).
Proof.
  intros fuel n st0 pre s mid post w l it' c' H Hr Hm Hs.
  destruct (steps_e_suffix _ _ _ _ _ _ H) as [n' H'].
  destruct (group_from fuel n' (step_pre s) s mid post w l it' c' H' Hr Hm Hs) as [ers [rows [H1 [H2 [H3 H4]]]]].
  exists ers, rows, (pending (end_state (step_pre s) (s :: mid))).
  split; [exact H2|]. split; [exact H1|]. split; [exact H3|]. split; [exact H4|]. split; [reflexivity|].
  split; [apply pending_nil|].
  intros y post' Hp. subst post.
  change (s :: mid ++ y :: post') with ((s :: mid) ++ y :: post') in H'.
  eapply steps_e_next_pre. exact H'.
Qed.

Theorem group_is_the_expansion : forall fuel n st0 pre s mid post w l it' c',
  try_new = NewOk st0 ->
  steps_e fuel n st0 = pre ++ s :: mid ++ post ->
  refill_call (step_pre s) = true ->
  Forall (fun x => refill_call (step_pre x) = false) mid ->
  snext fuel (i_iter (step_pre s)) (i_ctx (step_pre s)) = NYield w l it' c' ->
  exists ers rows rest,
    spec_rows tc (source_row w l) = rows ++ rest /\
    map (fun x => handed fuel (step_pre x)) (s :: mid) = map Some ers /\
    evaluated_seq (i_prev (step_pre s)) rows ers /\
    i_log (end_state (step_pre s) (s :: mid)) = i_log (step_pre s) ++ map call_of ers /\
    pending (end_state (step_pre s) (s :: mid)) = rest /\
    (rest = [] <-> refill_call (end_state (step_pre s) (s :: mid)) = true) /\
    (forall y post', post = y :: post' -> step_pre y = end_state (step_pre s) (s :: mid)).
Proof. intros fuel n st0 pre s mid post w l it' c' _. apply group_is_the_expansion_from_any_state. Qed.

(* the maximal group inside a run that goes on: the call after it is marked, so it is complete *)
Corollary maximal_group_is_the_whole_expansion : forall fuel n st0 pre s mid y post' w l it' c',
  steps_e fuel n st0 = pre ++ s :: mid ++ y :: post' ->
  refill_call (step_pre s) = true ->
  Forall (fun x => refill_call (step_pre x) = false) mid ->
  refill_call (step_pre y) = true ->
  snext fuel (i_iter (step_pre s)) (i_ctx (step_pre s)) = NYield w l it' c' ->
  exists ers,
    map (fun x => handed fuel (step_pre x)) (s :: mid) = map Some ers /\
    evaluated_seq (i_prev (step_pre s)) (spec_rows tc (source_row w l)) ers /\
    i_log (step_pre y) = i_log (step_pre s) ++ map call_of ers.
Proof.
  intros fuel n st0 pre s mid y post' w l it' c' H Hr Hm Hy Hs.
  destruct (group_is_the_expansion_from_any_state fuel n st0 pre s mid (y :: post') w l it' c' H Hr Hm Hs)
    as [ers [rows [rest [H1 [H2 [H3 [H4 [_ [H6 H7]]]]]]]]].
  rewrite <- (H7 y post' eq_refl) in H4, H6.
  rewrite (proj2 H6 Hy), app_nil_r in H1. subst rows. exists ers. auto.
Qed.

(* an unmarked call never sees None or an evaluation error of the program: inside a group every
   item is a row item or the error item of a call that was made *)
Theorem unmarked_call_hands_a_row : forall fuel st st',
  refill_call st = false -> next_state (inext fuel st) = Some st' -> exists er, handed fuel st = Some er.
Proof.
  intros fuel st st' Hr Hn. pose proof (inext_expansion fuel st st' Hn) as H.
  destruct (handed fuel st) as [er|]; [eauto|]. destruct H as [H _]. congruence.
Qed.

(* ---------------------------------------------------------------- 2. *)

(* THE THEOREM (2): the calls that the group adds to the log are as many as its calls of next(), and
   their kinds follow the flags of the documented sequence: RW where the flag is set (the third
   call of each clock triple, every row without C), the kind of write_input elsewhere (WO, or RW
   again under the trait's default write_input: OutputsRunProof.wkind); the flag is also the
   er_update_output of the row handed to handle_io, i.e. "this call's answer is read" *)
Theorem calls_of_a_group : forall fuel n st0 pre s mid post w l it' c',
  steps_e fuel n st0 = pre ++ s :: mid ++ post ->
  refill_call (step_pre s) = true ->
  Forall (fun x => refill_call (step_pre x) = false) mid ->
  snext fuel (i_iter (step_pre s)) (i_ctx (step_pre s)) = NYield w l it' c' ->
  exists ers calls,
    map (fun x => handed fuel (step_pre x)) (s :: mid) = map Some ers /\
    i_log (end_state (step_pre s) (s :: mid)) = i_log (step_pre s) ++ calls /\
    length calls = length (s :: mid) /\
    map snd calls = map er_inputs ers /\
    map er_update_output ers = firstn (length (s :: mid)) (group_flags tc w) /\
    map fst calls = map flag_kind (firstn (length (s :: mid)) (group_flags tc w)) /\
    Forall (fun er => er_line er = l) ers.
Proof.
  intros fuel n st0 pre s mid post w l it' c' H Hr Hm Hs.
  destruct (group_is_the_expansion_from_any_state fuel n st0 pre s mid post w l it' c' H Hr Hm Hs)
    as [ers [rows [rest [H1 [H2 [H3 [H4 _]]]]]]].
  destruct (evaluated_seq_flags _ _ _ H3) as [K1 [K2 K3]].
  pose proof (map_Some_length _ _ _ _ _ H2) as K4.
  assert (Kf : map er_update_output ers = firstn (length (s :: mid)) (group_flags tc w)).
  { rewrite K2, (map_prefix_firstn _ _ de_update_output rows rest _ H1), spec_rows_flags.
    cbn [source_row de_entries]. rewrite <- K1, K4. reflexivity. }
  exists ers, (map call_of ers). split; [exact H2|]. split; [exact H4|].
  split; [rewrite map_length; exact K4|]. split; [rewrite map_map; reflexivity|]. split; [exact Kf|]. split.
  - rewrite <- Kf, !map_map. apply map_ext. intro er. reflexivity.
  - assert (Kl : Forall (fun r => de_line r = l) rows).
    { apply Forall_forall. intros r Hin.
      assert (Hin' : In r (spec_rows tc (source_row w l))) by (rewrite H1; apply in_or_app; left; exact Hin).
      unfold spec_rows in Hin'. apply in_map_iff in Hin'. destruct Hin' as [p [<- _]]. reflexivity. }
    apply Forall_forall. intros er Hin. apply (in_map er_line) in Hin. rewrite K3 in Hin.
    apply in_map_iff in Hin. destruct Hin as [r [<- Hin]]. rewrite Forall_forall in Kl. exact (Kl r Hin).
Qed.

(* ---------------------------------------------------------------- 3. *)

(* THE THEOREM (3): a complete group - the state it leaves has an empty cache - has exactly
   length (spec_rows ..) = 2^k * (3 if the row has a C in an input column, else 1) calls of next(),
   i.e. items (row items and error items together) *)
Theorem number_of_items_of_a_group : forall fuel n st0 pre s mid post w l it' c',
  steps_e fuel n st0 = pre ++ s :: mid ++ post ->
  refill_call (step_pre s) = true ->
  Forall (fun x => refill_call (step_pre x) = false) mid ->
  snext fuel (i_iter (step_pre s)) (i_ctx (step_pre s)) = NYield w l it' c' ->
  refill_call (end_state (step_pre s) (s :: mid)) = true ->
  length (s :: mid) = length (spec_rows tc (source_row w l)) /\
  length (s :: mid) = 2 ^ count_input_cols tc DX w * (if count_input_cols tc DC w =? 0 then 1 else 3).
Proof.
  intros fuel n st0 pre s mid post w l it' c' H Hr Hm Hs Hc.
  destruct (group_is_the_expansion_from_any_state fuel n st0 pre s mid post w l it' c' H Hr Hm Hs)
    as [ers [rows [rest [H1 [H2 [H3 [_ [_ [H6 _]]]]]]]]].
  rewrite (proj2 H6 Hc), app_nil_r in H1. subst rows.
  destruct (evaluated_seq_flags _ _ _ H3) as [K1 _].
  pose proof (map_Some_length _ _ _ _ _ H2) as K4.
  assert (E : length (s :: mid) = length (spec_rows tc (source_row w l))) by congruence.
  split; [exact E|]. rewrite E, C05_row_count. reflexivity.
Qed.

(* ... in particular the maximal group of a run that goes on *)
Corollary number_of_items_of_a_maximal_group : forall fuel n st0 pre s mid y post' w l it' c',
  steps_e fuel n st0 = pre ++ s :: mid ++ y :: post' ->
  refill_call (step_pre s) = true ->
  Forall (fun x => refill_call (step_pre x) = false) mid ->
  refill_call (step_pre y) = true ->
  snext fuel (i_iter (step_pre s)) (i_ctx (step_pre s)) = NYield w l it' c' ->
  length (s :: mid) = 2 ^ count_input_cols tc DX w * (if count_input_cols tc DC w =? 0 then 1 else 3).
Proof.
  intros fuel n st0 pre s mid y post' w l it' c' H Hr Hm Hy Hs.
  refine (proj2 (number_of_items_of_a_group fuel n st0 pre s mid (y :: post') w l it' c' H Hr Hm Hs _)).
  assert (H' := H). destruct (steps_e_suffix _ _ _ _ _ _ H') as [n' H''].
  change (s :: mid ++ y :: post') with ((s :: mid) ++ y :: post') in H''.
  rewrite <- (steps_e_next_pre _ _ _ _ _ _ H''). exact Hy.
Qed.

(* a group never has more calls than the expansion has rows: an incomplete one is a proper prefix *)
Theorem group_never_longer_than_the_expansion : forall fuel n st0 pre s mid post w l it' c',
  steps_e fuel n st0 = pre ++ s :: mid ++ post ->
  refill_call (step_pre s) = true ->
  Forall (fun x => refill_call (step_pre x) = false) mid ->
  snext fuel (i_iter (step_pre s)) (i_ctx (step_pre s)) = NYield w l it' c' ->
  length (s :: mid) <= 2 ^ count_input_cols tc DX w * (if count_input_cols tc DC w =? 0 then 1 else 3).
Proof.
  intros fuel n st0 pre s mid post w l it' c' H Hr Hm Hs.
  destruct (group_is_the_expansion_from_any_state fuel n st0 pre s mid post w l it' c' H Hr Hm Hs)
    as [ers [rows [rest [H1 [H2 [H3 _]]]]]].
  destruct (evaluated_seq_flags _ _ _ H3) as [K1 _].
  pose proof (map_Some_length _ _ _ _ _ H2) as K4.
  pose proof (C05_row_count tc (source_row w l)) as Hc. cbn [source_row de_entries] in Hc.
  rewrite <- Hc. fold (source_row w l). rewrite H1, app_length. lia.
Qed.

End EXP_RUN.

(* ------------------------------------------------------------------ 4. the static iterator *)

(* StaticDataRowIterator::next is next() over static_driver with the trait's default write_input
   (LinesRunProof.static_collect_is_collect_e): its calls are steps_e G N static_driver true, and the
   theorems above apply as they are.  Every call is logged with kind RW. *)
Section STATIC_EXP.
Variable G : gen.

Local Notation ssteps := (VarsRunProof.steps_e G N static_driver true).
Local Notation spre := (VarsRunProof.step_pre N).

Theorem static_tagged_is_steps : forall tc fuel n st,
  static_collect_tagged G tc fuel n st =
  map (fun s => (refill_call (spre s), sview (VarsRunProof.step_item N s))) (ssteps tc fuel n st).
Proof.
  intros tc fuel n st. rewrite static_collect_tagged_is_tagged, tagged_is_steps, map_map. reflexivity.
Qed.

Theorem static_group_is_the_expansion : forall tc fuel n st0 pre s mid post w l it' c',
  try_iter_static tc = StaticOk st0 ->
  ssteps tc fuel n st0 = pre ++ s :: mid ++ post ->
  refill_call (spre s) = true ->
  Forall (fun x => refill_call (spre x) = false) mid ->
  Iter.snext G fuel (i_iter (spre s)) (i_ctx (spre s)) = NYield w l it' c' ->
  exists ers rows rest,
    spec_rows tc (source_row w l) = rows ++ rest /\
    map (fun x => handed G tc fuel (spre x)) (s :: mid) = map Some ers /\
    evaluated_seq tc (i_prev (spre s)) rows ers /\
    i_log (end_state N (spre s) (s :: mid)) = i_log (spre s) ++ map (call_of true) ers /\
    pending tc (end_state N (spre s) (s :: mid)) = rest /\
    (rest = [] <-> refill_call (end_state N (spre s) (s :: mid)) = true) /\
    (forall y post', post = y :: post' -> spre y = end_state N (spre s) (s :: mid)).
Proof.
  intros tc fuel n st0 pre s mid post w l it' c' Hs.
  apply (group_is_the_expansion G N static_driver true tc fuel n st0).
  apply try_iter_static_new. exact Hs.
Qed.

Theorem static_calls_of_a_group : forall tc fuel n st0 pre s mid post w l it' c',
  try_iter_static tc = StaticOk st0 ->
  ssteps tc fuel n st0 = pre ++ s :: mid ++ post ->
  refill_call (spre s) = true ->
  Forall (fun x => refill_call (spre x) = false) mid ->
  Iter.snext G fuel (i_iter (spre s)) (i_ctx (spre s)) = NYield w l it' c' ->
  exists ers calls,
    map (fun x => handed G tc fuel (spre x)) (s :: mid) = map Some ers /\
    i_log (end_state N (spre s) (s :: mid)) = i_log (spre s) ++ calls /\
    length calls = length (s :: mid) /\
    map snd calls = map er_inputs ers /\
    map er_update_output ers = firstn (length (s :: mid)) (group_flags tc w) /\
    Forall (fun c : call => fst c = RW) calls /\
    Forall (fun er => er_line er = l) ers.
Proof.
  intros tc fuel n st0 pre s mid post w l it' c' _ H Hr Hm Hs.
  destruct (calls_of_a_group G N static_driver true tc fuel n st0 pre s mid post w l it' c' H Hr Hm Hs)
    as [ers [calls [H1 [H2 [H3 [H4 [H5 [H6 H7]]]]]]]].
  exists ers, calls. repeat (split; [assumption|]). split; [|exact H7].
  apply Forall_forall. intros c Hin. apply (in_map fst) in Hin. rewrite H6 in Hin.
  apply in_map_iff in Hin. destruct Hin as [b [<- _]]. destruct b; reflexivity.
Qed.

Theorem static_number_of_items_of_a_group : forall tc fuel n st0 pre s mid post w l it' c',
  try_iter_static tc = StaticOk st0 ->
  ssteps tc fuel n st0 = pre ++ s :: mid ++ post ->
  refill_call (spre s) = true ->
  Forall (fun x => refill_call (spre x) = false) mid ->
  Iter.snext G fuel (i_iter (spre s)) (i_ctx (spre s)) = NYield w l it' c' ->
  refill_call (end_state N (spre s) (s :: mid)) = true ->
  length (s :: mid) = length (spec_rows tc (source_row w l)) /\
  length (s :: mid) = 2 ^ count_input_cols tc DX w * (if count_input_cols tc DC w =? 0 then 1 else 3).
Proof.
  intros tc fuel n st0 pre s mid post w l it' c' _.
  apply (number_of_items_of_a_group G N static_driver true tc fuel n st0).
Qed.

End STATIC_EXP.

(* ------------------------------------------------------------------ non-vacuity, and what was found *)

(* the test of RunRefine.Example_run: header `A B CK Y` (three inputs, one output), `let a = 1;`,
   `loop(i,2)`, the row `X (i+a) C X` on line 4 (an X and a C in input columns: 2 x 3 expansion rows
   per pass; the X in the column of Y is an expected value and is not expanded), `end loop`, the row
   `1 0 0 1` on line 6.  The scripted driver's call number 0 is the constructor's. *)
Module Example_expansion.
  Import Coq.Strings.String.
  Import RunRefine.Example_run.

  Inductive outcome := ORow | OErr | ONone.
  Definition outcome_of {DE} (v : item_view DE) : outcome :=
    match v with VRow _ => ORow | VErr _ => OErr | VNone => ONone end.
  (* of the row handed to handle_io: the values of A, B, CK and the update_output flag *)
  Definition short_er (er : evaluated_row) : list inval * bool := (map ie_val (er_inputs er), er_update_output er).
  Definition short_call (c : call) := (fst c, map ie_val (snd c)).

  Definition on_test (src : string) {A} (f : testcase -> option A) : option A :=
    match Parser.parse (s2n src) with
    | Ok p => match with_signals p sigs with Ok tc => f tc | _ => None end
    | _ => None
    end.

  (* the first n calls of next() of the continuing caller: (mark, row handed to handle_io, kind of
     item), and the driver log at the end *)
  Definition observed_src (src : string) (faults : list (nat * Script.fault)) (wd : bool) (n : nat) :=
    on_test src (fun tc =>
      let D := Script.script_driver sigs (sc faults) in
      match Iter.try_new N D tc with
      | NewOk st0 =>
          let ss := VarsRunProof.steps_e G N D wd tc 50 n st0 in
          Some (map (fun s => (refill_call (VarsRunProof.step_pre N s),
                               option_map short_er (handed G tc 50 (VarsRunProof.step_pre N s)),
                               outcome_of (VarsRunProof.step_item N s))) ss,
                map short_call (i_log (end_state N st0 ss)))
      | _ => None
      end).
  Definition observed := observed_src src.

  Definition observed_static (n : nat) :=
    on_test src (fun tc =>
      match try_iter_static tc with
      | StaticOk st0 =>
          let ss := VarsRunProof.steps_e G N static_driver true tc 50 n st0 in
          Some (map (fun s => (refill_call (VarsRunProof.step_pre N s),
                               option_map short_er (handed G tc 50 (VarsRunProof.step_pre N s)),
                               outcome_of (VarsRunProof.step_item N s))) ss,
                map short_call (i_log (end_state N st0 ss)))
      | _ => None
      end).

  (* the documented sequence for the evaluated row of the first pass (i = 0: B = 1), and its flags *)
  Example the_documented_sequence :
    on_test src (fun tc => Some (map (fun r => (de_entries r, de_update_output r))
                                     (spec_rows tc (source_row [DX; DNum 1; DC; DX] 4%N)),
                                 group_flags tc [DX; DNum 1; DC; DX])) =
    Some ([ ([DNum 0; DNum 1; DNum 0; DX], false);
            ([DNum 0; DNum 1; DNum 1; DX], false);
            ([DNum 0; DNum 1; DNum 0; DX], true);
            ([DNum 1; DNum 1; DNum 0; DX], false);
            ([DNum 1; DNum 1; DNum 1; DX], false);
            ([DNum 1; DNum 1; DNum 0; DX], true) ],
          [false; false; true; false; false; true]).
  Proof. vm_compute. reflexivity. Qed.

  (* no fault: one marked call and five unmarked ones per pass; the input vectors (A, B, CK) of the
     calls 1..6 of the log are the documented sequence, the third of each triple is RW *)
  Example a_group_of_a_run :
    observed [] false 8 = Some
      ([(true, Some ([IVal 0; IVal 1; IVal 0], false), ORow);
        (false, Some ([IVal 0; IVal 1; IVal 1], false), ORow);
        (false, Some ([IVal 0; IVal 1; IVal 0], true), ORow);
        (false, Some ([IVal 1; IVal 1; IVal 0], false), ORow);
        (false, Some ([IVal 1; IVal 1; IVal 1], false), ORow);
        (false, Some ([IVal 1; IVal 1; IVal 0], true), ORow);
        (true, Some ([IVal 0; IVal 2; IVal 0], false), ORow);
        (false, Some ([IVal 0; IVal 2; IVal 1], false), ORow)],
       [(RW, [IVal 0; IVal 0; IVal 0]); (WO, [IVal 0; IVal 1; IVal 0]);
        (WO, [IVal 0; IVal 1; IVal 1]); (RW, [IVal 0; IVal 1; IVal 0]);
        (WO, [IVal 1; IVal 1; IVal 0]); (WO, [IVal 1; IVal 1; IVal 1]);
        (RW, [IVal 1; IVal 1; IVal 0]); (WO, [IVal 0; IVal 2; IVal 0]);
        (WO, [IVal 0; IVal 2; IVal 1])]).
  Proof. vm_compute. reflexivity. Qed.

  (* FOUND (1).  Both write-only calls of the first clock triple FAIL (calls number 1 and 2: clock
     low, clock high), and the answer to the last checked call (number 6) is refused.  Each error
     item consumes its row of the expansion and nothing else: the rows handed to handle_io and the
     log are those of the run without faults.  In particular the checked call of the first triple
     (number 3) is still made and comes back as a ROW item: the caller gets a checked row for a
     clock pulse neither half of which the driver performed. *)
  Example a_group_through_error_items :
    observed [(1, Script.FErr 7%N); (2, Script.FErr 8%N); (6, Script.FDrop 0)] false 8 = Some
      ([(true, Some ([IVal 0; IVal 1; IVal 0], false), OErr);
        (false, Some ([IVal 0; IVal 1; IVal 1], false), OErr);
        (false, Some ([IVal 0; IVal 1; IVal 0], true), ORow);
        (false, Some ([IVal 1; IVal 1; IVal 0], false), ORow);
        (false, Some ([IVal 1; IVal 1; IVal 1], false), ORow);
        (false, Some ([IVal 1; IVal 1; IVal 0], true), OErr);
        (true, Some ([IVal 0; IVal 2; IVal 0], false), ORow);
        (false, Some ([IVal 0; IVal 2; IVal 1], false), ORow)],
       [(RW, [IVal 0; IVal 0; IVal 0]); (WO, [IVal 0; IVal 1; IVal 0]);
        (WO, [IVal 0; IVal 1; IVal 1]); (RW, [IVal 0; IVal 1; IVal 0]);
        (WO, [IVal 1; IVal 1; IVal 0]); (WO, [IVal 1; IVal 1; IVal 1]);
        (RW, [IVal 1; IVal 1; IVal 0]); (WO, [IVal 0; IVal 2; IVal 0]);
        (WO, [IVal 0; IVal 2; IVal 1])]).
  Proof. vm_compute. reflexivity. Qed.

  Example same_rows_and_log_with_and_without_faults :
    option_map (fun o => (map (fun x => (fst (fst x), snd (fst x))) (fst o), snd o))
      (observed [(1, Script.FErr 7%N); (2, Script.FErr 8%N); (6, Script.FDrop 0)] false 8) =
    option_map (fun o => (map (fun x => (fst (fst x), snd (fst x))) (fst o), snd o))
      (observed [] false 8).
  Proof. vm_compute. reflexivity. Qed.

  (* under the trait's default write_input every call is logged RW; the flags of the handed rows
     still tell the reading calls *)
  Example default_write_input_logs_RW :
    observed [(1, Script.FErr 7%N)] true 7 = Some
      ([(true, Some ([IVal 0; IVal 1; IVal 0], false), OErr);
        (false, Some ([IVal 0; IVal 1; IVal 1], false), ORow);
        (false, Some ([IVal 0; IVal 1; IVal 0], true), ORow);
        (false, Some ([IVal 1; IVal 1; IVal 0], false), ORow);
        (false, Some ([IVal 1; IVal 1; IVal 1], false), ORow);
        (false, Some ([IVal 1; IVal 1; IVal 0], true), ORow);
        (true, Some ([IVal 0; IVal 2; IVal 0], false), ORow)],
       [(RW, [IVal 0; IVal 0; IVal 0]); (RW, [IVal 0; IVal 1; IVal 0]);
        (RW, [IVal 0; IVal 1; IVal 1]); (RW, [IVal 0; IVal 1; IVal 0]);
        (RW, [IVal 1; IVal 1; IVal 0]); (RW, [IVal 1; IVal 1; IVal 1]);
        (RW, [IVal 1; IVal 1; IVal 0]); (RW, [IVal 0; IVal 2; IVal 0])]).
  Proof. vm_compute. reflexivity. Qed.

  (* the run is cut after 4 calls: the group is the prefix of length 4 *)
  Example a_cut_group_is_a_prefix :
    option_map (fun o => map (fun x => snd (fst x)) (fst o)) (observed [] false 4) = Some
      [Some ([IVal 0; IVal 1; IVal 0], false); Some ([IVal 0; IVal 1; IVal 1], false);
       Some ([IVal 0; IVal 1; IVal 0], true); Some ([IVal 1; IVal 1; IVal 0], false)].
  Proof. vm_compute. reflexivity. Qed.

  (* the static iterator over the same test *)
  Example a_group_of_a_static_run :
    observed_static 7 = Some
      ([(true, Some ([IVal 0; IVal 1; IVal 0], false), ORow);
        (false, Some ([IVal 0; IVal 1; IVal 1], false), ORow);
        (false, Some ([IVal 0; IVal 1; IVal 0], true), ORow);
        (false, Some ([IVal 1; IVal 1; IVal 0], false), ORow);
        (false, Some ([IVal 1; IVal 1; IVal 1], false), ORow);
        (false, Some ([IVal 1; IVal 1; IVal 0], true), ORow);
        (true, Some ([IVal 0; IVal 2; IVal 0], false), ORow)],
       [(RW, [IVal 0; IVal 0; IVal 0]); (RW, [IVal 0; IVal 1; IVal 0]);
        (RW, [IVal 0; IVal 1; IVal 1]); (RW, [IVal 0; IVal 1; IVal 0]);
        (RW, [IVal 1; IVal 1; IVal 0]); (RW, [IVal 1; IVal 1; IVal 1]);
        (RW, [IVal 1; IVal 1; IVal 0]); (RW, [IVal 0; IVal 2; IVal 0])]).
  Proof. vm_compute. reflexivity. Qed.

  (* FOUND (2).  A marked call is not always the start of a group: when the evaluation of the source
     row fails (here: the division by zero in the row `X (1/0) C X`, 2 x 3 rows had it evaluated) the
     statement iterator yields no row, the call hands nothing to handle_io, makes no driver call and
     leaves the cache empty: the row costs ONE error item, not six, and the next call is marked
     again.  This is why the theorems ask for `snext .. = NYield w l ..` at the marked call. *)
  Definition src_bad : string :=
    ("A B CK Y" ++ nl ++ "X (1/0) C X" ++ nl ++ "1 0 0 1" ++ nl)%string.
  Example a_failing_source_row_has_no_group :
    observed_src src_bad [] false 5 = Some
      ([(true, None, OErr); (true, Some ([IVal 1; IVal 0; IVal 0], true), ORow); (true, None, ONone)],
       [(RW, [IVal 0; IVal 0; IVal 0]); (RW, [IVal 1; IVal 0; IVal 0])]).
  Proof. vm_compute. reflexivity. Qed.
End Example_expansion.

Check group_is_the_expansion.
Check group_is_the_expansion_from_any_state.
Check maximal_group_is_the_whole_expansion.
Check calls_of_a_group.
Check number_of_items_of_a_group.
Check number_of_items_of_a_maximal_group.
Check group_never_longer_than_the_expansion.
Check inext_expansion.
Check unmarked_call_hands_a_row.
Check row_item_shows_the_handed_row.
Check spec_rows_flags.
Check group_flags_spec.
Check group_flags_length.
Check pending_nil.
Check tagged_is_steps.
Check static_tagged_is_steps.
Check static_group_is_the_expansion.
Check static_calls_of_a_group.
Check static_number_of_items_of_a_group.

Print Assumptions group_is_the_expansion.
Print Assumptions group_is_the_expansion_from_any_state.
Print Assumptions maximal_group_is_the_whole_expansion.
Print Assumptions calls_of_a_group.
Print Assumptions number_of_items_of_a_group.
Print Assumptions number_of_items_of_a_maximal_group.
Print Assumptions group_never_longer_than_the_expansion.
Print Assumptions inext_expansion.
Print Assumptions unmarked_call_hands_a_row.
Print Assumptions row_item_shows_the_handed_row.
Print Assumptions spec_rows_flags.
Print Assumptions group_flags_spec.
Print Assumptions group_flags_length.
Print Assumptions pending_nil.
Print Assumptions tagged_is_steps.
Print Assumptions static_tagged_is_steps.
Print Assumptions static_group_is_the_expansion.
Print Assumptions static_calls_of_a_group.
Print Assumptions static_number_of_items_of_a_group.
Print Assumptions Example_expansion.the_documented_sequence.
Print Assumptions Example_expansion.a_group_of_a_run.
Print Assumptions Example_expansion.a_group_through_error_items.
Print Assumptions Example_expansion.same_rows_and_log_with_and_without_faults.
Print Assumptions Example_expansion.default_write_input_logs_RW.
Print Assumptions Example_expansion.a_cut_group_is_a_prefix.
Print Assumptions Example_expansion.a_group_of_a_static_run.
Print Assumptions Example_expansion.a_failing_source_row_has_no_group.
