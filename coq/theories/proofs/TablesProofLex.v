(* Pins between the lexer tables regenerated from src/lexer/token.rs (GeneratedTables.v) and the hand-written scanner
   of Lexer.v: keywords and punctuation.  (The regular expressions are tied SEMANTICALLY, by LexSpec.v / LexSpecProof.v:
   the scanner is the longest-match lexer of the rule table computed from them, whatever their spelling.)  Kept apart
   from TablesProof.v so that a change to the lexer tables concerns only the properties about the lexer (C09, C20). *)
From DTR Require Import Prelude I64 Ast Generated GeneratedTables FramedMap Lexer Parser Eval.
From Coq Require Import String Ascii.
Local Open Scope string_scope.

(* every punctuation token declared in the source is what the scanner produces for that text ... *)
Lemma punct_tokens_lexed : forallb (fun p =>
    match lex_one ((s2n (fst p) ++ [32%N])%list) with
    | Some (Some k, w, r) => tk_beq k (snd p) && name_eqb w (s2n (fst p)) && name_eqb r [32%N]
    | _ => false
    end) gen_punct = true.
Proof. vm_compute. reflexivity. Qed.

(* ... and the scanner knows no other punctuation *)
Lemma punct_tokens_complete : forall c d k, (punct2 c d = Some k \/ punct1 c = Some k) ->
  existsb (fun p => tk_beq (snd p) k) gen_punct = true.
Proof.
  intros c d k [H|H].
  - unfold punct2 in H. repeat match type of H with (if ?b then _ else _) = _ => destruct b end;
      inversion H; subst; reflexivity.
  - unfold punct1 in H. repeat match type of H with (if ?b then _ else _) = _ => destruct b end;
      inversion H; subst; reflexivity.
Qed.

(* every keyword declared in the source lexes as that keyword, and only identifiers spelled like one do *)
Lemma keywords_lexed : forallb (fun p =>
    match lex_one ((fst p ++ [32%N])%list) with
    | Some (Some k, w, r) => tk_beq k (snd p) && name_eqb w (fst p)
    | _ => false
    end) gen_keywords = true.
Proof. vm_compute. reflexivity. Qed.

Lemma keyword_count : List.length gen_keywords = 13%nat /\ List.length gen_punct = 23%nat.
Proof. repeat split. Qed.


(* the scanner's keyword table holds exactly the keywords of the source (in any order) *)
Lemma keywords_pinned : incl keywords gen_keywords /\ incl gen_keywords keywords.
Proof.
  split; intros x H; vm_compute in H; repeat (destruct H as [<-|H]; [vm_compute; tauto|]); destruct H.
Qed.
