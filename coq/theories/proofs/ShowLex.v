(* The token view of the printed texts of Show.v.

   tok_expr / tok_dentry / tok_row / tok_stmt / tok_lines: the (kind, text) tokens one expects the
   lexer to make of show_expr / show_dentry / show_row / show_stmt / show_lines, and the proofs that
   it does (Lex_show_expr, Lex_show_row, Lex_show_stmt, Lex_show_lines, lex_view_show_prog):
   every lexeme of the printed text is a maximal munch, the single blanks are skipped.

   The printed trees must be printable: literals in 0 .. 2^63-1 (a negative literal prints like
   the unary minus of its magnitude), names that lex as identifiers and are not keywords, calls
   of the three functions with the right number of arguments (ExprRoundTrip.printable for
   expressions; printable_entry / printable_stmt below for entries and statements). *)
From Coq Require Import String.
From DTR Require Import Prelude Ast FramedMap Lexer Parser Show.
From DTR Require Import I64 Bind Eval Stmt Iter WfSpec.
From DTR Require Import RadixProof LexerProof ParserProof BinOpTreeProof Grammar GrammarProof ExprRoundTrip.
Open Scope N_scope.

(* ================================================================== numbers *)

Lemma digits_fuel : forall f1 f2 n acc,
  n < 10 ^ N.of_nat (S f1) -> n < 10 ^ N.of_nat (S f2) -> digits f1 n acc = dec_digits f2 n acc.
Proof.
  induction f1 as [|f1 IH]; intros f2 n acc H1 H2.
  - change (10 ^ N.of_nat 1) with 10 in H1. cbn [digits].
    destruct f2 as [|f2]; cbn [dec_digits]; [reflexivity|].
    destruct (N.ltb_spec n 10); [reflexivity | timeout 20 lia].
  - cbn [digits]. destruct (N.ltb_spec n 10) as [Hlt|Hge].
    + destruct f2 as [|f2]; cbn [dec_digits]; [reflexivity|].
      destruct (N.ltb_spec n 10); [reflexivity | timeout 20 lia].
    + destruct f2 as [|f2].
      * change (10 ^ N.of_nat 1) with 10 in H2. timeout 20 lia.
      * cbn [dec_digits]. destruct (N.ltb_spec n 10); [timeout 20 lia|].
        apply IH; (apply N.div_lt_upper_bound; [discriminate|]).
        -- rewrite Nat2N.inj_succ, N.pow_succ_r' in H1. exact H1.
        -- rewrite Nat2N.inj_succ, N.pow_succ_r' in H2. exact H2.
Qed.

Lemma show_n_dec_text : forall n, n < 2 ^ 63 -> show_n n = dec_text n.
Proof.
  intros n Hn. unfold show_n, dec_text. f_equal. apply digits_fuel; [apply log2_fuel|].
  eapply N.lt_trans; [exact Hn | reflexivity].
Qed.

(* the printed literal is the text of the token pp_min writes *)
Lemma show_z_num_tok : forall n, (0 <= n < 2 ^ 63)%Z -> show_z n = snd (num_tok n).
Proof.
  intros n Hn. unfold num_tok. destruct (Z.eqb_spec n 0) as [->|Hne]; [reflexivity|].
  cbn [snd]. rewrite show_z_nonneg by (timeout 20 lia). apply show_n_dec_text.
  change (2 ^ 63) with (Z.to_N (2 ^ 63)). apply Z2N.inj_lt; timeout 20 lia.
Qed.

Lemma show_n_head : forall n, exists d r, show_n n = (48 + d) :: r /\ d < 10.
Proof.
  intros n. unfold show_n. pose proof (show_n_digits_small n) as Hs.
  pose proof (digits_nonempty (N.to_nat (N.log2 n)) n []) as Hne.
  destruct (digits (N.to_nat (N.log2 n)) n []) as [|d r]; [timeout 20 congruence|].
  inversion Hs; subst. exists d, (map (fun d => 48 + d) r). split; [reflexivity | assumption].
Qed.

(* ================================================================== the expected tokens *)

Fixpoint tok_expr (e : expr) : list tok :=
  match e with
  | ENum n => [num_tok n]
  | EVar x => [(TIdent, x)]
  | EBin op l r => lp :: tok_expr l ++ binop_tok op :: tok_expr r ++ [rp]
  | EUn op a => unop_tok op :: tok_expr a
  | EFunc f args => (TIdent, f) :: lp :: join (map tok_expr args) ++ [rp]
  end.

(* ================================================================== single lexemes *)

Lemma Lex_blank : forall v vs, Lex v vs -> Lex (32 :: v) vs.
Proof.
  intros v vs H. apply (Lsub_sym (32 :: v) v); [|exact H].
  apply (Lsub_blank_front [32] v). constructor; [reflexivity | constructor].
Qed.

Lemma Lex_nl : forall v vs, Lex v vs -> Lex (10 :: v) ((TEol, [10]) :: vs).
Proof. intros v vs H. eapply Lex_tok; [|exact H]. reflexivity. Qed.

Lemma Lex_lp : forall v vs, Lex v vs -> Lex (40 :: v) (lp :: vs).
Proof. intros v vs H. apply (Lex_tok (40 :: v) TLParen [40] v); [|exact H]. destruct v; reflexivity. Qed.

Lemma Lex_rp : forall v vs, Lex v vs -> Lex (41 :: v) (rp :: vs).
Proof. intros v vs H. apply (Lex_tok (41 :: v) TRParen [41] v); [|exact H]. destruct v; reflexivity. Qed.

Lemma Lex_comma : forall v vs, Lex v vs -> Lex (44 :: v) (comma :: vs).
Proof. intros v vs H. apply (Lex_tok (44 :: v) TComma [44] v); [|exact H]. destruct v; reflexivity. Qed.

Lemma Lex_semi : forall v vs, Lex v vs -> Lex (59 :: v) ((TSemi, [59]) :: vs).
Proof. intros v vs H. apply (Lex_tok (59 :: v) TSemi [59] v); [|exact H]. destruct v; reflexivity. Qed.

Lemma binop_tok_text : forall op, snd (binop_tok op) = binop_text op.
Proof. destruct op; reflexivity. Qed.

Lemma unop_tok_text : forall op, snd (unop_tok op) = unop_text op.
Proof. destruct op; reflexivity. Qed.

(* a binary operator between blanks *)
Lemma lex_binop : forall op r,
  lex_one (binop_text op ++ 32 :: r) = Some (Some (fst (binop_tok op)), binop_text op, 32 :: r).
Proof. intros op r. destruct op; reflexivity. Qed.

(* a unary operator in front of anything but '=' *)
Lemma lex_unop : forall op d r, d <> 61 ->
  lex_one (unop_text op ++ d :: r) = Some (Some (fst (unop_tok op)), unop_text op, d :: r).
Proof.
  intros op d r Hd. apply N.eqb_neq in Hd.
  destruct op; [reflexivity | | reflexivity].
  assert (P : punct2 33 d = None) by (unfold punct2; rewrite Hd; reflexivity).
  change (lex_one (unop_text ULogicalNot ++ d :: r))
    with (match punct2 33 d with
          | Some k => Some (Some k, [33; d], r)
          | None => Some (Some TLogicalNot, [33], d :: r)
          end).
  rewrite P. reflexivity.
Qed.

Lemma Lex_binop : forall op v vs, Lex v vs -> Lex (binop_text op ++ 32 :: v) (binop_tok op :: vs).
Proof.
  intros op v vs H. rewrite (surjective_pairing (binop_tok op)), binop_tok_text.
  eapply Lex_tok; [apply lex_binop|]. apply Lex_blank. exact H.
Qed.

Lemma Lex_unop : forall op d v vs, d <> 61 -> Lex (d :: v) vs ->
  Lex (unop_text op ++ d :: v) (unop_tok op :: vs).
Proof.
  intros op d v vs Hd H. rewrite (surjective_pairing (unop_tok op)), unop_tok_text.
  eapply Lex_tok; [apply lex_unop; exact Hd | exact H].
Qed.

(* a word (identifier or keyword) in front of an ASCII character that cannot continue it *)
Definition word_stop (stop : text) : Prop :=
  match stop with d :: _ => is_ident_cont d = false /\ d < 128 | [] => True end.

Lemma lex_word : forall c w stop, is_ident_start c = true -> forallb is_ident_cont w = true ->
  word_stop stop ->
  lex_one ((c :: w) ++ stop) = Some (Some (keyword_or_ident (c :: w)), c :: w, stop).
Proof.
  intros c w stop Hc Hw Hstop.
  assert (Hrange : (65 <= c <= 90) \/ (97 <= c <= 122) \/ c = 95).
  { unfold is_ident_start, in_range in Hc. revert Hc. cmp_cases; cbn [andb orb]; intros; try discriminate; timeout 20 lia. }
  assert (Hws : is_ws c = false) by (unfold is_ws; cmp_cases; try (timeout 20 lia); reflexivity).
  assert (Hh : (c =? 35) = false) by (apply N.eqb_neq; lia).
  assert (Hnl : is_nl c = false) by (apply N.eqb_neq; lia).
  assert (Hs : starts_with is_ident_cont stop = false).
  { destruct stop as [|d s]; [reflexivity | exact (proj1 Hstop)]. }
  cbn [app]. unfold lex_one. rewrite Hws, Hh, Hnl, Hc.
  rewrite (RadixProof.span_while_app _ _ _ Hw Hs).
  assert (Hk : ident_kind (c :: w) stop = keyword_or_ident (c :: w)).
  { unfold ident_kind. destruct stop as [|d s]; [reflexivity|].
    destruct Hstop as [_ Hd]. destruct (N.leb_spec 128 d); [timeout 20 lia | reflexivity]. }
  rewrite Hk. reflexivity.
Qed.

Lemma ident_ok_inv : forall x, ident_ok x = true ->
  exists c w, x = c :: w /\ is_ident_start c = true /\ forallb is_ident_cont w = true /\
              keyword_or_ident x = TIdent.
Proof.
  intros [|c w] H; [discriminate H|]. cbn [ident_ok] in H.
  apply andb_true_iff in H. destruct H as [H Hk]. apply andb_true_iff in H. destruct H as [Hc Hw].
  apply tk_beq_true in Hk. exists c, w. timeout 20 auto.
Qed.

Lemma Lex_ident : forall x v vs, ident_ok x = true -> word_stop v -> Lex v vs ->
  Lex (x ++ v) ((TIdent, x) :: vs).
Proof.
  intros x v vs Hx Hstop H. destruct (ident_ok_inv x Hx) as (c & w & -> & Hc & Hw & Hk).
  eapply Lex_tok; [|exact H]. rewrite <- Hk. apply lex_word; assumption.
Qed.

(* a keyword *)
Lemma Lex_keyword : forall (s : string) k v vs,
  match s2n s with
  | c :: w => is_ident_start c && forallb is_ident_cont w && tk_beq (keyword_or_ident (c :: w)) k
  | [] => false
  end = true ->
  word_stop v -> Lex v vs -> Lex (s2n s ++ v) ((k, s2n s) :: vs).
Proof.
  intros s k v vs Hs Hstop H. destruct (s2n s) as [|c w]; [discriminate Hs|].
  apply andb_true_iff in Hs. destruct Hs as [Hs Hk]. apply andb_true_iff in Hs. destruct Hs as [Hc Hw].
  apply tk_beq_true in Hk. eapply Lex_tok; [|exact H]. rewrite <- Hk. apply lex_word; assumption.
Qed.

(* what follows an expression in a printed text: blank ) , ; *)
Definition closer (rest : text) : Prop :=
  exists c r, rest = c :: r /\ (c = 32 \/ c = 41 \/ c = 44 \/ c = 59).

Lemma closer_word_stop : forall rest, closer rest -> word_stop rest.
Proof.
  intros rest (c & r & -> & Hc). cbn [word_stop].
  destruct Hc as [->|[->|[->| ->]]]; (split; [vm_compute; reflexivity | reflexivity]).
Qed.

Lemma closer_num_stop : forall rest, closer rest ->
  starts_with is_dec_digit rest = false /\ radix_prefix_follows rest = false.
Proof.
  intros rest (c & r & -> & Hc).
  destruct Hc as [->|[->|[->| ->]]]; (split; reflexivity).
Qed.

Lemma Lex_num : forall n v vs, (0 <= n < 2 ^ 63)%Z -> closer v -> Lex v vs ->
  Lex (show_z n ++ v) (num_tok n :: vs).
Proof.
  intros n v vs Hn Hv H. destruct (closer_num_stop v Hv) as [H1 H2].
  rewrite (surjective_pairing (num_tok n)), (show_z_num_tok n Hn).
  eapply Lex_tok; [|exact H]. apply lex_num_tok; assumption.
Qed.

(* ================================================================== the first character of a printed expression *)

Lemma func_arity_cases : forall f n, func_arity f = Some n ->
  f = s2n "random" \/ f = s2n "ite" \/ f = s2n "signExt".
Proof.
  intros f n H. unfold func_arity, func_table in H. cbn [find fst] in H.
  destruct (name_eqb (s2n "random") f) eqn:E1; [left; apply name_eqb_eq in E1; timeout 20 auto|].
  destruct (name_eqb (s2n "ite") f) eqn:E2; [right; left; apply name_eqb_eq in E2; timeout 20 auto|].
  destruct (name_eqb (s2n "signExt") f) eqn:E3; [right; right; apply name_eqb_eq in E3; timeout 20 auto|].
  discriminate H.
Qed.

Lemma func_ident_ok : forall f n, func_arity f = Some n -> ident_ok f = true.
Proof. intros f n H. destruct (func_arity_cases f n H) as [->|[->| ->]]; vm_compute; reflexivity. Qed.

Lemma ident_start_not_eq : forall c, is_ident_start c = true -> c <> 61.
Proof. intros c H ->. vm_compute in H. discriminate H. Qed.

(* it is never '=' (which would glue to a preceding '!') *)
Lemma show_expr_head : forall e, printable e -> exists c r, show_expr e = c :: r /\ c <> 61.
Proof.
  intros e Hp. destruct e as [n|x|op l r|op a|f args].
  - cbn [printable] in Hp. cbn [show_expr]. rewrite show_z_nonneg by (timeout 20 lia).
    destruct (show_n_head (Z.to_N n)) as (d & r & -> & Hd). exists (48 + d), r. split; [reflexivity | timeout 20 lia].
  - cbn [printable] in Hp. destruct (ident_ok_inv x Hp) as (c & w & -> & Hc & _ & _).
    exists c, w. split; [reflexivity | apply ident_start_not_eq; exact Hc].
  - cbn [show_expr app]. eexists. eexists. split; [reflexivity | discriminate].
  - destruct op; cbn [show_expr unop_text]; eexists; eexists; (split; [reflexivity | discriminate]).
  - apply printable_func in Hp. destruct Hp as (_ & Har & _).
    destruct (ident_ok_inv f (func_ident_ok f _ Har)) as (c & w & -> & Hc & _ & _).
    cbn [show_expr app]. exists c. eexists. split; [reflexivity | apply ident_start_not_eq; exact Hc].
Qed.

(* ================================================================== expressions *)

Ltac napp := repeat (progress (try rewrite <- !app_assoc; cbn [app])).

Definition Lex_expr_at (e : expr) : Prop :=
  printable e -> forall rest vs, closer rest -> Lex rest vs ->
  Lex (show_expr e ++ rest) (tok_expr e ++ vs).

Lemma closer_cons : forall c r, c = 32 \/ c = 41 \/ c = 44 \/ c = 59 -> closer (c :: r).
Proof. intros c r H. exists c, r. timeout 20 auto. Qed.

Lemma Lex_show_args : forall args, args <> [] -> Forall Lex_expr_at args -> Forall printable args ->
  forall rest vs, Lex rest vs ->
  Lex (join_with [44] (map show_expr args) ++ 41 :: rest)
      (join (map tok_expr args) ++ rp :: vs).
Proof.
  induction args as [|a args IH]; intros Hne HF HP rest vs H; [contradiction|].
  inversion HF as [|? ? Ha HF']; subst. inversion HP as [|? ? Hpa HP']; subst.
  destruct args as [|b args].
  - cbn [map join_with join]. apply Ha; [exact Hpa | apply closer_cons; timeout 20 auto | apply Lex_rp; exact H].
  - change (join_with [44] (map show_expr (a :: b :: args)))
      with (show_expr a ++ [44] ++ join_with [44] (map show_expr (b :: args))).
    change (join (map tok_expr (a :: b :: args)))
      with (tok_expr a ++ comma :: join (map tok_expr (b :: args))).
    napp.
    apply Ha; [exact Hpa | apply closer_cons; timeout 20 auto |]. apply Lex_comma.
    apply IH; [discriminate | exact HF' | exact HP' | exact H].
Qed.

Theorem Lex_show_expr : forall e, Lex_expr_at e.
Proof.
  induction e as [n|x|op l r IHl IHr|op a IHa|f args IHargs] using expr_ind_nested;
    intros Hp rest vs Hc H.
  - cbn [show_expr tok_expr app]. apply Lex_num; assumption.
  - cbn [show_expr tok_expr app]. apply Lex_ident; [exact Hp | apply closer_word_stop; exact Hc | exact H].
  - destruct Hp as [Hpl Hpr]. cbn [show_expr tok_expr]. napp.
    apply Lex_lp.
    apply IHl; [exact Hpl | apply closer_cons; timeout 20 auto |].
    apply Lex_blank. apply Lex_binop.
    apply IHr; [exact Hpr | apply closer_cons; timeout 20 auto |]. apply Lex_rp. exact H.
  - cbn [printable] in Hp. cbn [show_expr tok_expr]. napp.
    destruct (show_expr_head a Hp) as (c & r & Hhd & Hne).
    pose proof (IHa Hp rest vs Hc H) as HL. rewrite Hhd in *. cbn [app] in *.
    apply Lex_unop; assumption.
  - pose proof Hp as Hp'. apply printable_func in Hp'. destruct Hp' as (Hne & Har & Hall).
    cbn [show_expr tok_expr]. napp.
    apply Lex_ident; [eapply func_ident_ok; exact Har | cbn [word_stop]; split; [vm_compute; reflexivity | reflexivity] |].
    apply Lex_lp.
    apply Lex_show_args; assumption.
Qed.

(* ================================================================== printable entries, rows, statements *)

Definition printable_entry (d : dentry) : Prop :=
  match d with
  | DNum n => (0 <= n < 2 ^ 63)%Z
  | DExpr e => printable e
  | DBits k e => k <= 64 /\ printable e
  | DX | DZ | DC => True
  end.

(* a row is not empty and fills exactly w columns *)
Definition printable_row (w : nat) (data : list dentry) : Prop :=
  data <> [] /\ Forall printable_entry data /\ row_width data = w.

Fixpoint printable_stmt (w : nat) (s : stmt) : Prop :=
  match s with
  | SLet x e => ident_ok x = true /\ printable e
  | SRow data _ => printable_row w data
  | SLoop v max body =>
      ident_ok v = true /\ printable max /\
      (fix all (l : list stmt) : Prop :=
         match l with [] => True | s :: r => printable_stmt w s /\ all r end) body
  | SWhile c body =>
      printable c /\
      (fix all (l : list stmt) : Prop :=
         match l with [] => True | s :: r => printable_stmt w s /\ all r end) body
  | SReset => True
  end.

Definition printable_prog (w : nat) (ss : list stmt) : Prop := Forall (printable_stmt w) ss.

Lemma printable_all : forall w l,
  (fix all (l : list stmt) : Prop :=
     match l with [] => True | s :: r => printable_stmt w s /\ all r end) l <-> Forall (printable_stmt w) l.
Proof.
  intros w. induction l as [|a l IH]; split; intros H.
  - constructor.
  - exact I.
  - destruct H as [Ha Hl]. constructor; [exact Ha | apply IH; exact Hl].
  - inversion H; subst. split; [assumption | apply IH; assumption].
Qed.

Lemma printable_loop : forall w v max body, printable_stmt w (SLoop v max body) <->
  ident_ok v = true /\ printable max /\ Forall (printable_stmt w) body.
Proof. intros w v max body. cbn [printable_stmt]. rewrite printable_all. reflexivity. Qed.

Lemma printable_while : forall w c body, printable_stmt w (SWhile c body) <->
  printable c /\ Forall (printable_stmt w) body.
Proof. intros w c body. cbn [printable_stmt]. rewrite printable_all. reflexivity. Qed.

Section STMT_IND.
Variable Q : stmt -> Prop.
Hypothesis Hlet : forall x e, Q (SLet x e).
Hypothesis Hrow : forall data ln, Q (SRow data ln).
Hypothesis Hloop : forall v max body, Forall Q body -> Q (SLoop v max body).
Hypothesis Hwhile : forall c body, Forall Q body -> Q (SWhile c body).
Hypothesis Hreset : Q SReset.
Fixpoint stmt_ind_nested (s : stmt) : Q s :=
  match s with
  | SLet x e => Hlet x e
  | SRow data ln => Hrow data ln
  | SLoop v max body =>
      Hloop v max body ((fix go (l : list stmt) : Forall Q l :=
                           match l with
                           | [] => Forall_nil Q
                           | x :: r => Forall_cons x (stmt_ind_nested x) (go r)
                           end) body)
  | SWhile c body =>
      Hwhile c body ((fix go (l : list stmt) : Forall Q l :=
                        match l with
                        | [] => Forall_nil Q
                        | x :: r => Forall_cons x (stmt_ind_nested x) (go r)
                        end) body)
  | SReset => Hreset
  end.
End STMT_IND.

(* ================================================================== the expected tokens, continued *)

Definition eol : tok := (TEol, [10]).
Definition semi : tok := (TSemi, [59]).
Definition kw (k : tk) (s : string) : tok := (k, s2n s).

Definition tok_dentry (d : dentry) : list tok :=
  match d with
  | DNum n => [num_tok n]
  | DExpr e => lp :: tok_expr e ++ [rp]
  | DBits k e => kw TBits "bits" :: lp :: num_tok (Z.of_N k) :: comma :: tok_expr e ++ [rp]
  | DX => [(TIdent, s2n "X")]
  | DZ => [(TIdent, s2n "Z")]
  | DC => [(TIdent, s2n "C")]
  end.

Definition tok_row (data : list dentry) : list tok := flat_map tok_dentry data.

Fixpoint tok_stmt (s : stmt) : list tok :=
  match s with
  | SLet x e => kw TLet "let" :: (TIdent, x) :: binop_tok Equal :: tok_expr e ++ [semi]
  | SRow data _ => tok_row data
  | SLoop v max body =>
      kw TLoop "loop" :: lp :: (TIdent, v) :: comma :: tok_expr max ++ rp :: eol ::
      List.concat (map (fun s => tok_stmt s ++ [eol]) body) ++ [kw TEnd "end"; kw TLoop "loop"]
  | SWhile c body =>
      kw TWhile "while" :: lp :: tok_expr c ++ rp :: eol ::
      List.concat (map (fun s => tok_stmt s ++ [eol]) body) ++ [kw TEnd "end"; kw TWhile "while"]
  | SReset => [kw TResetRandom "resetRandom"; semi]
  end.

Definition tok_lines (ss : list stmt) : list tok := List.concat (map (fun s => tok_stmt s ++ [eol]) ss).

(* the tokens of a printed program, with the final Eof *)
Definition tok_prog (ss : list stmt) : list tok := tok_lines ss ++ [(TEof, [])].

Lemma tok_stmt_loop : forall v max body,
  tok_stmt (SLoop v max body) =
  kw TLoop "loop" :: lp :: (TIdent, v) :: comma :: tok_expr max ++ rp :: eol ::
  tok_lines body ++ [kw TEnd "end"; kw TLoop "loop"].
Proof. reflexivity. Qed.

Lemma tok_stmt_while : forall c body,
  tok_stmt (SWhile c body) =
  kw TWhile "while" :: lp :: tok_expr c ++ rp :: eol :: tok_lines body ++ [kw TEnd "end"; kw TWhile "while"].
Proof. reflexivity. Qed.

Lemma tok_lines_cons : forall s ss, tok_lines (s :: ss) = tok_stmt s ++ eol :: tok_lines ss.
Proof. intros s ss. unfold tok_lines. cbn [map List.concat]. rewrite <- app_assoc. reflexivity. Qed.

Lemma tok_row_cons : forall d r, tok_row (d :: r) = tok_dentry d ++ tok_row r.
Proof. reflexivity. Qed.

(* ================================================================== entries and rows *)

Lemma word_stop_ascii : forall c r, is_ident_cont c = false -> c < 128 -> word_stop (c :: r).
Proof. intros c r H1 H2. split; assumption. Qed.

Ltac ws_tac := apply word_stop_ascii; [vm_compute; reflexivity | reflexivity].

Lemma show_z_of_N : forall k, show_z (Z.of_N k) = show_n k.
Proof. intros k. rewrite show_z_nonneg by (timeout 20 lia). rewrite N2Z.id. reflexivity. Qed.

(* every entry is followed by a blank *)
Lemma Lex_show_entry : forall d v vs, printable_entry d -> Lex v vs ->
  Lex (show_dentry d ++ 32 :: v) (tok_dentry d ++ vs).
Proof.
  intros d v vs Hp H. pose proof (Lex_blank v vs H) as HB.
  destruct d as [n|e|k e| | |]; cbn [show_dentry tok_dentry printable_entry] in *.
  - cbn [app]. apply Lex_num; [exact Hp | apply closer_cons; timeout 20 auto | exact HB].
  - napp. apply Lex_lp. apply Lex_show_expr; [exact Hp | apply closer_cons; timeout 20 auto |].
    apply Lex_rp. exact HB.
  - destruct Hp as [Hk Hp]. change (s2n "bits(") with (s2n "bits" ++ [40]). napp.
    apply (Lex_keyword "bits" TBits); [reflexivity | ws_tac |].
    apply Lex_lp. rewrite <- show_z_of_N.
    apply Lex_num; [timeout 20 lia | apply closer_cons; timeout 20 auto |]. apply Lex_comma.
    apply Lex_show_expr; [exact Hp | apply closer_cons; timeout 20 auto |]. apply Lex_rp. exact HB.
  - apply (Lex_ident (s2n "X")); [reflexivity | ws_tac | exact HB].
  - apply (Lex_ident (s2n "Z")); [reflexivity | ws_tac | exact HB].
  - apply (Lex_ident (s2n "C")); [reflexivity | ws_tac | exact HB].
Qed.

Theorem Lex_show_row : forall data v vs, Forall printable_entry data -> Lex v vs ->
  Lex (show_row data ++ v) (tok_row data ++ vs).
Proof.
  induction data as [|d data IH]; intros v vs HF H; [exact H|].
  inversion HF as [|? ? Hd HF']; subst. rewrite show_row_cons, tok_row_cons. napp.
  apply Lex_show_entry; [exact Hd|]. apply IH; assumption.
Qed.

(* ================================================================== statements and programs *)

Definition Lex_stmt_at (w : nat) (s : stmt) : Prop :=
  printable_stmt w s -> forall r vs, Lex (10 :: r) vs ->
  Lex (show_stmt s ++ 10 :: r) (tok_stmt s ++ vs).

Lemma Lex_show_lines_aux : forall w body, Forall (Lex_stmt_at w) body -> Forall (printable_stmt w) body ->
  forall v vs, Lex v vs -> Lex (show_lines body ++ v) (tok_lines body ++ vs).
Proof.
  intros w. induction body as [|s body IH]; intros HF HP v vs H; [exact H|].
  inversion HF as [|? ? Hs HF']; subst. inversion HP as [|? ? Hps HP']; subst.
  rewrite show_lines_cons, tok_lines_cons. napp.
  apply Hs; [exact Hps|]. apply Lex_nl. apply IH; assumption.
Qed.

Theorem Lex_show_stmt : forall w s, Lex_stmt_at w s.
Proof.
  intros w. induction s as [x e|data ln|v max body IH|c body IH|] using stmt_ind_nested;
    intros Hp r vs H.
  - destruct Hp as [Hx He]. cbn [show_stmt tok_stmt].
    change (s2n "let ") with (s2n "let" ++ [32]). change (s2n " = ") with (32 :: binop_text Equal ++ [32]).
    napp. apply (Lex_keyword "let" TLet); [reflexivity | ws_tac |]. apply Lex_blank.
    apply Lex_ident; [exact Hx | ws_tac |]. apply Lex_blank. apply Lex_binop.
    apply Lex_show_expr; [exact He | apply closer_cons; timeout 20 auto |]. apply Lex_semi. exact H.
  - destruct Hp as (_ & HF & _). cbn [show_stmt tok_stmt]. apply Lex_show_row; assumption.
  - apply printable_loop in Hp. destruct Hp as (Hv & Hm & Hb).
    rewrite show_stmt_loop, tok_stmt_loop.
    change (s2n "loop(") with (s2n "loop" ++ [40]). change (s2n "end loop") with (s2n "end" ++ 32 :: s2n "loop").
    napp. apply (Lex_keyword "loop" TLoop); [reflexivity | ws_tac |]. apply Lex_lp.
    apply Lex_ident; [exact Hv | ws_tac |]. apply Lex_comma.
    apply Lex_show_expr; [exact Hm | apply closer_cons; timeout 20 auto |]. apply Lex_rp. apply Lex_nl.
    apply (Lex_show_lines_aux w); [exact IH | exact Hb |].
    apply (Lex_keyword "end" TEnd); [reflexivity | ws_tac |]. apply Lex_blank.
    apply (Lex_keyword "loop" TLoop); [reflexivity | ws_tac | exact H].
  - apply printable_while in Hp. destruct Hp as (Hc & Hb).
    rewrite show_stmt_while, tok_stmt_while.
    change (s2n "while(") with (s2n "while" ++ [40]).
    change (s2n "end while") with (s2n "end" ++ 32 :: s2n "while").
    napp. apply (Lex_keyword "while" TWhile); [reflexivity | ws_tac |]. apply Lex_lp.
    apply Lex_show_expr; [exact Hc | apply closer_cons; timeout 20 auto |]. apply Lex_rp. apply Lex_nl.
    apply (Lex_show_lines_aux w); [exact IH | exact Hb |].
    apply (Lex_keyword "end" TEnd); [reflexivity | ws_tac |]. apply Lex_blank.
    apply (Lex_keyword "while" TWhile); [reflexivity | ws_tac | exact H].
  - cbn [show_stmt tok_stmt]. change (s2n "resetRandom;") with (s2n "resetRandom" ++ [59]). napp.
    apply (Lex_keyword "resetRandom" TResetRandom); [reflexivity | ws_tac |]. apply Lex_semi. exact H.
Qed.

Theorem Lex_show_lines : forall w ss v vs, printable_prog w ss -> Lex v vs ->
  Lex (show_lines ss ++ v) (tok_lines ss ++ vs).
Proof.
  intros w ss v vs Hp H. apply (Lex_show_lines_aux w); [|exact Hp | exact H].
  apply Forall_forall. intros s _. apply Lex_show_stmt.
Qed.

Lemma Lex_lex_view : forall s vs, Lex s vs -> lex_view s = vs.
Proof.
  intros s vs H. destruct (lex_body_total 0 s) as [ts Hts].
  rewrite <- (lex_view_spec _ _ _ Hts). apply (Lex_det s); [apply lex_body_Lex in Hts; exact Hts | exact H].
Qed.

Lemma Lex_of_lex_view : forall s, Lex s (lex_view s).
Proof.
  intros s. destruct (lex_body_total 0 s) as [ts Hts].
  rewrite <- (lex_view_spec _ _ _ Hts). eapply lex_body_Lex. exact Hts.
Qed.

(* the lexer on a printed program: exactly the expected tokens *)
Theorem lex_view_show_prog : forall w ss, printable_prog w ss -> lex_view (show_prog ss) = tok_prog ss.
Proof.
  intros w ss Hp. apply Lex_lex_view. unfold show_prog, tok_prog.
  rewrite <- (app_nil_r (show_lines ss)). apply (Lex_show_lines w); [exact Hp | apply Lex_eof].
Qed.

Theorem lex_body_show_prog : forall w ss pos ts, printable_prog w ss ->
  lex_body pos (show_prog ss) = Some ts -> view ts = tok_prog ss.
Proof.
  intros w ss pos ts Hp H. rewrite (lex_view_spec _ _ _ H). eapply lex_view_show_prog. exact Hp.
Qed.

Check Lex_show_expr.
Check Lex_show_row.
Check Lex_show_stmt.
Check Lex_show_lines.
Check lex_view_show_prog.
Check lex_body_show_prog.
Print Assumptions Lex_show_expr.
Print Assumptions lex_view_show_prog.
Print Assumptions lex_body_show_prog.
