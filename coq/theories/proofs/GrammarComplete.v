(* Completeness of the parser with respect to the grammar of Grammar.v (the converse of
   GrammarProof.C12_accepted_implies_grammatical).

   Part 1  every G_expr token list is a printing (ExprRoundTrip.Prints) of some tree, hence
           parse_expr accepts it (C08_unparse_parse) and stops right behind it.
   Part 2  entries and rows: parse_row_loop consumes exactly a G_row k and counts k columns.
   Part 3  declared_names: the names x of the `declare x` statements of a token list; the ONLY
           thing beyond the context-free grammar that the parser checks is that they are distinct.
   Part 4  statements, blocks and programs.  The induction over G_stmt / G_block / G_program
           proves a VERDICT, not just success: on a grammatical token list the parser returns Ok
           iff the names declared so far together with the declared names of the list are
           distinct, and returns the error DuplicateVirtualSignal otherwise; it never panics and
           never runs out of fuel (fuel 2 + 4 * number of tokens).
   Part 5  the theorems: grammatical_implies_accepted (token level), grammatical_text_accepted,
           accepted_iff_grammatical (texts), and the refutations that show which hypotheses
           are necessary. *)
From Coq Require Import String.
From DTR Require Import Prelude Ast FramedMap Lexer Parser.
From DTR Require Import RadixProof LexerProof ParserProof BinOpTreeProof Grammar GrammarProof ExprRoundTrip.
Open Scope N_scope.

(* ================================================================== part 1: expressions *)

Lemma binop_of_binary : forall k, is_binary_op k = true -> exists op, binop_of_token k = Some op.
Proof.
  intros k H. destruct (binop_of_token k) as [op|] eqn:E; [exists op; reflexivity|].
  exfalso. eapply binop_of_is_binary; eassumption.
Qed.

Lemma unop_of_unary_ops : forall k, In k unary_ops -> exists op, unop_of_token k = Some op.
Proof. intros k [<-|[<-|[<-|[]]]]; eexists; reflexivity. Qed.

Definition pr_expr (ts : list tok) : Prop :=
  exists a0 ts0 l tsl, ts = ts0 ++ tsl /\ Prints_factor a0 ts0 /\ Prints_chain l tsl.
Definition pr_factor (ts : list tok) : Prop := exists e, Prints_factor e ts.
Definition pr_args (n : nat) (ts : list tok) : Prop :=
  exists args, Prints_args args ts /\ length args = n.

Lemma pr_expr_Prints : forall ts, pr_expr ts -> exists e, Prints e ts.
Proof.
  intros ts (a0 & ts0 & l & tsl & -> & Hf & Hl). exists (parse_flat a0 l). apply P_chain; assumption.
Qed.

Lemma G_Prints :
  (forall e, G_expr e -> pr_expr e) /\ (forall f, G_factor f -> pr_factor f) /\
  (forall n a, G_args n a -> pr_args n a).
Proof.
  apply G_expr_mutind.
  - intros f _ [e He]. exists e, f, [], []. rewrite app_nil_r.
    split; [reflexivity|]. split; [exact He | apply PC_nil].
  - intros e k x f _ (a0 & ts0 & l & tsl & -> & Hf0 & Hl) Hk _ [a Ha].
    destruct (binop_of_binary _ Hk) as [op Hop].
    exists a0, ts0, (l ++ [(op, a)]), (tsl ++ (k, x) :: f).
    split; [rewrite app_assoc; reflexivity|]. split; [exact Hf0|].
    apply Prints_chain_app; [exact Hl|].
    pose proof (PC_cons k x op a f [] [] Hop Ha PC_nil) as H. rewrite app_nil_r in H. exact H.
  - intros t v H. exists (ENum v). apply PF_num. exact H.
  - intros x. exists (EVar x). apply PF_var.
  - intros fn a args b n Har _ (es & Hes & Hlen). exists (EFunc fn es).
    apply PF_call; [|exact Hes]. unfold Nlen. rewrite Hlen. exact Har.
  - intros k x f Hk _ [e He]. destruct (unop_of_unary_ops _ Hk) as [op Hop].
    exists (EUn op e). apply PF_un; assumption.
  - intros a e b _ He. destruct (pr_expr_Prints _ He) as [e' He'].
    exists e'. apply PF_paren. exact He'.
  - intros e _ He. destruct (pr_expr_Prints _ He) as [e' He'].
    exists [e']. split; [apply PA_one; exact He' | reflexivity].
  - intros e c n args _ He _ (es & Hes & Hlen). destruct (pr_expr_Prints _ He) as [e' He'].
    exists (e' :: es). split; [apply PA_more; assumption | cbn [length]; rewrite Hlen; reflexivity].
Qed.

(* every grammatical expression is the printing of a tree *)
Theorem G_expr_Prints : forall ts, G_expr ts -> exists e, Prints e ts.
Proof. intros ts H. apply pr_expr_Prints. apply (proj1 G_Prints). exact H. Qed.

(* what the lemmas below keep track of: the tokens left and the table of declared names *)
Definition nx (st : pstate) (rest : list token) (st' : pstate) : Prop :=
  toks st' = rest /\ pvirtuals st' = pvirtuals st.

Lemma nx_trans : forall a b c r1 r2, nx a r1 b -> nx b r2 c -> nx a r2 c.
Proof. intros a b c r1 r2 [_ V1] [T2 V2]. split; [exact T2 | timeout 20 congruence]. Qed.

(* completeness for expressions: parse_expr accepts a grammatical expression that is followed by
   a token which cannot continue it, and stops in front of that token *)
Theorem G_expr_accepted : forall input_len e c st rest fuel,
  G_expr e -> view c = e -> toks st = c ++ rest -> stop_expr rest ->
  (2 * length c + 2 <= fuel)%nat ->
  exists x st', parse_expr input_len fuel st = Ok (x, st') /\ nx st rest st'.
Proof.
  intros il e c st rest fuel He Hv Ht Hstop Hfuel.
  destruct (G_expr_Prints _ He) as [x Hx].
  assert (Hf : (2 * length e + 2 <= fuel)%nat) by (rewrite <- Hv, view_length; exact Hfuel).
  destruct (C08_unparse_parse il x e c rest st fuel Hx Hv Ht Hstop Hf)
    as (st' & Hrun & Htk & _ & _ & Hvirt & _).
  exists x, st'. split; [exact Hrun|]. split; assumption.
Qed.

(* ================================================================== the primitives, run *)

Section PRIM.
Variable input_len : N.
Notation il := input_len.

Lemma get_nx : forall st t r, toks st = t :: r ->
  exists st', get il st = Ok (t, st') /\ nx st r st'.
Proof. intros st t r H. unfold get. rewrite H. eexists. split; [reflexivity|]. split; reflexivity. Qed.

Lemma skip_nx : forall st t r, toks st = t :: r ->
  exists st', skip il st = Ok (tt, st') /\ nx st r st'.
Proof. intros st t r H. unfold skip, get. rewrite H. eexists. split; [reflexivity|]. split; reflexivity. Qed.

Lemma expect_nx : forall k st t r, toks st = t :: r -> tkind t = k ->
  exists st', expect il k st = Ok (t, st') /\ nx st r st'.
Proof.
  intros k st t r H Hk. unfold expect, bind, get. rewrite H, Hk, tk_beq_refl.
  eexists. split; [reflexivity|]. split; reflexivity.
Qed.

Lemma peek_span_cons : forall st t r, toks st = t :: r -> peek_span st = Ok (tspan t, st).
Proof. intros st t r H. unfold peek_span. rewrite H. reflexivity. Qed.

Lemma number_nx : forall st t r v, toks st = t :: r -> number_value (tv t) = Some v ->
  exists st', parse_number il st = Ok (v, st') /\ nx st r st'.
Proof.
  intros st t r v H Hv. rewrite number_value_literal in Hv.
  pose proof (literal_value_kind _ _ Hv) as Hk.
  rewrite (parse_number_literal_value il _ _ _ H Hk), Hv.
  eexists. split; [reflexivity|]. split; reflexivity.
Qed.

Lemma modify_vars_run : forall A g (k : unit -> P A) st,
  bind (modify_vars g) k st = k tt (set_vars st (g (pvars st))).
Proof. reflexivity. Qed.

Lemma nx_set_vars : forall st v, nx st (toks st) (set_vars st v).
Proof. intros st v. split; reflexivity. Qed.

End PRIM.

(* run a deterministic step: [L] proves  exists st', m st = Ok (a, st') /\ nx st r st' *)
Ltac run_as L st' X :=
  let E := fresh "E" in
  destruct L as (st' & E & X); rewrite (bind_ok _ _ _ _ _ _ _ E); clear E.

Ltac peek_with Ht := rewrite (bind_ok _ _ _ _ _ _ _ (peek_cons _ _ _ Ht)).

Lemma tv_view_cons : forall c x l, view c = x :: l ->
  exists t c', c = t :: c' /\ tv t = x /\ tkind t = fst x /\ ttext t = snd x /\ view c' = l.
Proof.
  intros c x l H. destruct (view_cons_inv _ _ _ H) as (t & c' & -> & Hk & Hx & Hv).
  exists t, c'. split; [reflexivity|]. split; [|timeout 20 auto].
  unfold tv. rewrite Hk, Hx. destruct x; reflexivity.
Qed.

(* ================================================================== part 2: entries and rows *)

Definition follows (rest : list token) : Prop :=
  exists t r, rest = t :: r /\ (tkind t = TEol \/ tkind t = TEof).

Lemma stop_rparen : forall t r, tkind t = TRParen -> stop_expr (t :: r).
Proof. intros t r H. apply stop_expr_closer. rewrite H. cbn. timeout 20 tauto. Qed.
Lemma stop_comma : forall t r, tkind t = TComma -> stop_expr (t :: r).
Proof. intros t r H. apply stop_expr_closer. rewrite H. cbn. timeout 20 tauto. Qed.
Lemma stop_semi : forall t r, tkind t = TSemi -> stop_expr (t :: r).
Proof. intros t r H. apply stop_expr_closer. rewrite H. cbn. timeout 20 tauto. Qed.

Ltac len_all := repeat (progress (cbn [length] in *; rewrite ?app_length in * )).

Section ROWS.
Variable input_len : N.
Variable hdr : list name.
Notation il := input_len.

Lemma row_number_step : forall f data idx st t r v, toks st = t :: r ->
  number_value (tv t) = Some v ->
  exists st', parse_row_loop il hdr (S f) data idx st =
              parse_row_loop il hdr f (data ++ [DNum v]) (idx + 1) st' /\ nx st r st'.
Proof.
  intros f data idx st t r v Ht Hv.
  pose proof Hv as Hk. rewrite number_value_literal in Hk. apply literal_value_kind in Hk.
  rewrite parse_row_loop_S. peek_with Ht.
  assert (E : exists st', (n <- parse_number il ;; parse_row_loop il hdr f (data ++ [DNum n]) (idx + 1)) st =
              parse_row_loop il hdr f (data ++ [DNum v]) (idx + 1) st' /\ nx st r st').
  { run_as (number_nx il st t r v Ht Hv) st1 X1. exists st1. split; [reflexivity | exact X1]. }
  destruct (tkind t); try discriminate Hk; exact E.
Qed.

Lemma is_cxz_in : forall x, In x cxz_names ->
  is_cxz x 99 67 = true \/ (is_cxz x 99 67 = false /\ is_cxz x 120 88 = true) \/
  (is_cxz x 99 67 = false /\ is_cxz x 120 88 = false /\ is_cxz x 122 90 = true).
Proof.
  intros x H. unfold cxz_names in H. cbn [map In] in H.
  repeat (destruct H as [<-|H]; [vm_compute; timeout 20 tauto|]). contradiction.
Qed.

Lemma row_cxz_step : forall f data idx st t r, toks st = t :: r -> tkind t = TIdent ->
  In (ttext t) cxz_names ->
  exists data' st', parse_row_loop il hdr (S f) data idx st =
                    parse_row_loop il hdr f data' (idx + 1) st' /\ nx st r st'.
Proof.
  intros f data idx st t r Ht Hk Hin.
  rewrite parse_row_loop_S. peek_with Ht. rewrite Hk.
  run_as (get_nx il st t r Ht) st1 X1. cbv zeta.
  destruct (is_cxz_in _ Hin) as [Hc|[[Hc Hx]|[Hc [Hx Hz]]]].
  - rewrite Hc. destruct (nth_error hdr (N.to_nat idx)) as [sig|].
    + eexists. eexists. split; [reflexivity|]. destruct X1 as [T1 V1]. split; [exact T1 | exact V1].
    + eexists. exists st1. split; [reflexivity | exact X1].
  - rewrite Hc, Hx. eexists. exists st1. split; [reflexivity | exact X1].
  - rewrite Hc, Hx, Hz. eexists. exists st1. split; [reflexivity | exact X1].
Qed.

Lemma entry_step : forall k e, G_entry k e -> forall c st rest f data idx,
  view c = e -> toks st = c ++ rest -> (1 + 4 * length (toks st) <= S f)%nat ->
  exists data' st', parse_row_loop il hdr (S f) data idx st =
                    parse_row_loop il hdr f data' (idx + N.of_nat k) st' /\ nx st rest st'.
Proof.
  intros k e H. destruct H as [t v Hv|x Hx|a e b He|a b t v c0 e d Hv Hle He];
    intros c st rest f data idx Hview Ht Hfuel.
  - destruct (tv_view_cons _ _ _ Hview) as (t1 & c' & -> & Htv & _ & _ & Hv').
    apply view_nil_inv in Hv'. subst c'. cbn [app] in Ht. rewrite <- Htv in Hv.
    destruct (row_number_step f data idx st t1 rest v Ht Hv) as (st' & E & X).
    exists (data ++ [DNum v]), st'. split; [exact E | exact X].
  - destruct (tv_view_cons _ _ _ Hview) as (t1 & c' & -> & _ & Hk & Hx' & Hv').
    apply view_nil_inv in Hv'. subst c'. cbn [app] in Ht. cbn [fst snd] in Hk, Hx'.
    rewrite <- Hx' in Hx. exact (row_cxz_step f data idx st t1 rest Ht Hk Hx).
  - destruct (tv_view_cons _ _ _ Hview) as (t1 & c' & -> & _ & Hk1 & _ & Hv').
    destruct (view_app_inv _ _ _ Hv') as (c1 & c2 & -> & Hv1 & Hv2).
    destruct (tv_view_cons _ _ _ Hv2) as (t2 & c3 & -> & _ & Hk2 & _ & Hv3).
    apply view_nil_inv in Hv3. subst c3. cbn [fst] in Hk1, Hk2.
    cbn [app] in Ht. rewrite <- app_assoc in Ht. cbn [app] in Ht.
    rewrite Ht in Hfuel. len_all.
    rewrite parse_row_loop_S. peek_with Ht. rewrite Hk1.
    run_as (skip_nx il st t1 _ Ht) st1 X1.
    destruct (G_expr_accepted il e c1 st1 (t2 :: rest) f He Hv1 (proj1 X1) (stop_rparen _ _ Hk2))
      as (x & st2 & E2 & X2); [timeout 20 lia|].
    rewrite (bind_ok _ _ _ _ _ _ _ E2).
    run_as (expect_nx il TRParen st2 t2 rest (proj1 X2) Hk2) st3 X3.
    exists (data ++ [DExpr x]), st3. split; [reflexivity|].
    eapply nx_trans; [exact X1|]. eapply nx_trans; [exact X2 | exact X3].
  - destruct (tv_view_cons _ _ _ Hview) as (t1 & c' & -> & _ & Hk1 & _ & Hv').
    destruct (tv_view_cons _ _ _ Hv') as (t2 & c'' & -> & _ & Hk2 & _ & Hv'').
    destruct (tv_view_cons _ _ _ Hv'') as (t3 & c3 & -> & Htv3 & _ & _ & Hv3).
    destruct (tv_view_cons _ _ _ Hv3) as (t4 & c4 & -> & _ & Hk4 & _ & Hv4).
    destruct (view_app_inv _ _ _ Hv4) as (c5 & c6 & -> & Hv5 & Hv6).
    destruct (tv_view_cons _ _ _ Hv6) as (t7 & c7 & -> & _ & Hk7 & _ & Hv7).
    apply view_nil_inv in Hv7. subst c7. cbn [fst] in Hk1, Hk2, Hk4, Hk7.
    cbn [app] in Ht. rewrite <- app_assoc in Ht. cbn [app] in Ht.
    rewrite Ht in Hfuel. len_all. rewrite <- Htv3 in Hv.
    rewrite parse_row_loop_S. peek_with Ht. rewrite Hk1.
    run_as (skip_nx il st t1 _ Ht) st1 X1.
    run_as (expect_nx il TLParen st1 t2 _ (proj1 X1) Hk2) st2 X2.
    rewrite (bind_ok _ _ _ _ _ _ _ (peek_span_cons _ _ _ (proj1 X2))).
    run_as (number_nx il st2 t3 _ v (proj1 X2) Hv) st3 X3.
    replace (64 <? v)%Z with false by (symmetry; apply Z.ltb_ge; exact Hle).
    run_as (expect_nx il TComma st3 t4 _ (proj1 X3) Hk4) st4 X4.
    destruct (G_expr_accepted il e c5 st4 (t7 :: rest) f He Hv5 (proj1 X4) (stop_rparen _ _ Hk7))
      as (x & st5 & E5 & X5); [timeout 20 lia|].
    rewrite (bind_ok _ _ _ _ _ _ _ E5).
    run_as (expect_nx il TRParen st5 t7 rest (proj1 X5) Hk7) st6 X6.
    exists (data ++ [DBits (Z.to_N v) x]), st6. split; [rewrite Z_nat_N; reflexivity|].
    eapply nx_trans; [exact X1|]. eapply nx_trans; [exact X2|]. eapply nx_trans; [exact X3|].
    eapply nx_trans; [exact X4|]. eapply nx_trans; [exact X5 | exact X6].
Qed.

Lemma row_stop : forall f data idx st, follows (toks st) ->
  parse_row_loop il hdr (S f) data idx st = Ok ((data, idx), st).
Proof.
  intros f data idx st (t & r & Ht & Hk). rewrite parse_row_loop_S. peek_with Ht.
  destruct Hk as [Hk|Hk]; rewrite Hk; reflexivity.
Qed.

Lemma G_entry_nonempty : forall k e, G_entry k e -> e <> [].
Proof. intros k e H. inversion H; discriminate. Qed.

Lemma view_nonempty_length : forall c e, view c = e -> e <> [] -> (1 <= length c)%nat.
Proof.
  intros [|t c] e H Hne; [exfalso; apply Hne; rewrite <- H; reflexivity | cbn [length]; timeout 20 lia].
Qed.

(* parse_row_loop consumes exactly a G_row k and advances the column counter by k *)
Lemma row_complete : forall k r, G_row k r -> forall c st rest f data idx,
  view c = r -> toks st = c ++ rest -> follows rest -> (1 + 4 * length (toks st) <= f)%nat ->
  exists data' st', parse_row_loop il hdr f data idx st = Ok ((data', idx + N.of_nat k), st') /\
                    nx st rest st'.
Proof.
  intros k r H. induction H as [k e He|k e m r He Hr IH];
    intros c st rest f data idx Hview Ht Hfol Hfuel.
  - destruct f as [|f]; [timeout 20 lia|].
    destruct (entry_step k e He c st rest f data idx Hview Ht Hfuel) as (data' & st' & E & X).
    pose proof (view_nonempty_length _ _ Hview (G_entry_nonempty _ _ He)) as Hlen.
    rewrite Ht in Hfuel. len_all.
    destruct f as [|f]; [timeout 20 lia|].
    rewrite E, row_stop; [|rewrite (proj1 X); exact Hfol].
    exists data', st'. split; [reflexivity | exact X].
  - destruct (view_app_inv _ _ _ Hview) as (c1 & c2 & -> & Hv1 & Hv2).
    rewrite <- app_assoc in Ht. destruct f as [|f]; [timeout 20 lia|].
    destruct (entry_step k e He c1 st (c2 ++ rest) f data idx Hv1 Ht Hfuel) as (data' & st' & E & X).
    pose proof (view_nonempty_length _ _ Hv1 (G_entry_nonempty _ _ He)) as Hlen.
    rewrite Ht in Hfuel. len_all.
    destruct (IH c2 st' rest f data' (idx + N.of_nat k) Hv2 (proj1 X) Hfol) as (data'' & st'' & E' & X').
    { rewrite (proj1 X). len_all. timeout 20 lia. }
    rewrite E, E'. exists data'', st''. split; [|eapply nx_trans; eassumption].
    rewrite Nat2N.inj_add, N.add_assoc. reflexivity.
Qed.

(* parse_data_row accepts a row of the header's width *)
Lemma data_row_complete : forall r c st rest f,
  G_row (length hdr) r -> view c = r -> toks st = c ++ rest -> follows rest ->
  (1 + 4 * length (toks st) <= f)%nat ->
  exists data st', parse_data_row il hdr f st = Ok (data, st') /\ nx st rest st'.
Proof.
  intros r c st rest f Hr Hview Ht Hfol Hfuel.
  destruct (row_complete _ _ Hr c st rest f [] 0 Hview Ht Hfol Hfuel) as (data & st' & E & X).
  rewrite parse_data_row_eq.
  assert (Hne : exists t0 r0, toks st = t0 :: r0).
  { rewrite Ht. destruct c as [|t0 c]; [|exists t0, (c ++ rest); reflexivity].
    destruct Hfol as (t & r0 & -> & _). exists t, r0. reflexivity. }
  destruct Hne as (t0 & r0 & Ht0).
  rewrite (bind_ok _ _ _ _ _ _ _ (peek_span_cons _ _ _ Ht0)).
  rewrite (bind_ok _ _ _ _ _ _ _ E).
  destruct Hfol as (t & r1 & Hrest & _). rewrite Hrest in X.
  rewrite (bind_ok _ _ _ _ _ _ _ (peek_span_cons _ _ _ (proj1 X))).
  cbv beta iota. rewrite N.add_0_l. unfold Nlen. rewrite N.eqb_refl. cbn [negb].
  exists data, st'. split; [reflexivity|]. rewrite Hrest. exact X.
Qed.

End ROWS.

(* ================================================================== part 3: declared names *)

(* the names x of the `declare x = ...` statements: the text of the token after each `declare` *)
Fixpoint declared_names (l : list tok) : list name :=
  match l with
  | [] => []
  | t :: r =>
      if tk_beq (fst t) TDeclare
      then match r with t' :: _ => snd t' :: declared_names r | [] => [] end
      else declared_names r
  end.

Definition nodecl (l : list tok) : Prop := Forall (fun t => fst t <> TDeclare) l.

Lemma declared_cons_other : forall t r, fst t <> TDeclare -> declared_names (t :: r) = declared_names r.
Proof.
  intros t r H. cbn [declared_names].
  destruct (tk_beq (fst t) TDeclare) eqn:E; [apply tk_beq_true in E; contradiction | reflexivity].
Qed.

Lemma declared_nodecl_app : forall a r, nodecl a -> declared_names (a ++ r) = declared_names r.
Proof.
  induction a as [|t a IH]; intros r H; [reflexivity|]. inversion H; subst. cbn [app].
  rewrite declared_cons_other by assumption. apply IH. assumption.
Qed.

Lemma declared_nodecl : forall a, nodecl a -> declared_names a = [].
Proof. intros a H. rewrite <- (app_nil_r a). rewrite declared_nodecl_app by exact H. reflexivity. Qed.

Lemma declared_declare : forall a x r,
  declared_names ((TDeclare, a) :: (TIdent, x) :: r) = x :: declared_names r.
Proof. reflexivity. Qed.

Lemma nodecl_number : forall t v, number_value t = Some v -> fst t <> TDeclare.
Proof. intros t v H E. apply number_value_kind in H. rewrite E in H. discriminate H. Qed.

Lemma nodecl_flat : forall k (x : name), flat_kind k = true -> fst (k, x) <> TDeclare.
Proof. intros k x H E. cbn [fst] in E. subst k. discriminate H. Qed.

Lemma G_expr_nodecl : forall e, G_expr e -> nodecl e.
Proof. apply (G_expr_Forall (fun t => fst t <> TDeclare) nodecl_number nodecl_flat). Qed.

Lemma G_row_nodecl : forall k r, G_row k r -> nodecl r.
Proof. apply (G_row_Forall (fun t => fst t <> TDeclare) nodecl_number nodecl_flat). Qed.

Ltac nd :=
  repeat first [ apply Forall_nil | (apply G_expr_nodecl; assumption) | (eapply G_row_nodecl; eassumption)
               | (apply Forall_cons; [cbn [fst]; discriminate|]) | (apply Forall_app; split) ].

Definition splits (s : list tok) : Prop :=
  forall r, declared_names (s ++ r) = declared_names s ++ declared_names r.

Lemma splits_nodecl : forall s, nodecl s -> splits s.
Proof. intros s H r. rewrite (declared_nodecl_app s r H), (declared_nodecl s H). reflexivity. Qed.

Lemma declared_block_stmt : forall head body tail, nodecl head -> nodecl tail -> splits body ->
  declared_names (head ++ body ++ tail) = declared_names body /\ splits (head ++ body ++ tail).
Proof.
  intros head body tail Hh Ht Hb.
  assert (E : declared_names (head ++ body ++ tail) = declared_names body).
  { rewrite declared_nodecl_app by exact Hh. rewrite Hb, (declared_nodecl _ Ht). apply app_nil_r. }
  split; [exact E|]. intros r. rewrite E. rewrite <- !app_assoc.
  rewrite declared_nodecl_app by exact Hh. rewrite Hb. rewrite declared_nodecl_app by exact Ht. reflexivity.
Qed.

Lemma loop_shape : forall a b x c e d n body y z,
  (TLoop, a) :: (TLParen, b) :: (TIdent, x) :: (TComma, c) :: e ++
    (TRParen, d) :: (TEol, n) :: body ++ [(TEnd, y); (TLoop, z)] =
  ((TLoop, a) :: (TLParen, b) :: (TIdent, x) :: (TComma, c) :: e ++ [(TRParen, d); (TEol, n)])
    ++ body ++ [(TEnd, y); (TLoop, z)] :> list tok.
Proof. intros. cbn [app]. rewrite <- app_assoc. reflexivity. Qed.

Lemma while_shape : forall a b e d n body y z,
  (TWhile, a) :: (TLParen, b) :: e ++ (TRParen, d) :: (TEol, n) :: body ++ [(TEnd, y); (TWhile, z)] =
  ((TWhile, a) :: (TLParen, b) :: e ++ [(TRParen, d); (TEol, n)]) ++ body ++ [(TEnd, y); (TWhile, z)]
  :> list tok.
Proof. intros. cbn [app]. rewrite <- app_assoc. reflexivity. Qed.

Lemma declared_loop : forall a b x c e d n body y z, G_expr e -> splits body ->
  declared_names ((TLoop, a) :: (TLParen, b) :: (TIdent, x) :: (TComma, c) :: e ++
    (TRParen, d) :: (TEol, n) :: body ++ [(TEnd, y); (TLoop, z)]) = declared_names body.
Proof. intros. rewrite loop_shape. apply declared_block_stmt; [nd | nd | assumption]. Qed.

Lemma declared_while : forall a b e d n body y z, G_expr e -> splits body ->
  declared_names ((TWhile, a) :: (TLParen, b) :: e ++
    (TRParen, d) :: (TEol, n) :: body ++ [(TEnd, y); (TWhile, z)]) = declared_names body.
Proof. intros. rewrite while_shape. apply declared_block_stmt; [nd | nd | assumption]. Qed.

Lemma declared_decl_stmt : forall a x b e c, G_expr e ->
  declared_names ((TDeclare, a) :: (TIdent, x) :: (TEqual, b) :: e ++ [(TSemi, c)]) = [x].
Proof. intros. rewrite declared_declare. rewrite declared_nodecl by nd. reflexivity. Qed.

(* a statement never ends in `declare`, so the declared names of a sequence are those of its parts *)
Lemma declared_splits : forall w,
  (forall s, G_stmt w s -> splits s) /\ (forall b, G_block w b -> splits b).
Proof.
  intro w. apply G_stmt_mutind.
  - intros r Hr. apply splits_nodecl. nd.
  - intros a x b e c He. apply splits_nodecl. nd.
  - intros a b. apply splits_nodecl. nd.
  - intros a x b e c He r. rewrite declared_decl_stmt by exact He. cbn [app].
    rewrite declared_declare. f_equal.
    change ((TEqual, b) :: (e ++ [(TSemi, c)]) ++ r) with (((TEqual, b) :: e ++ [(TSemi, c)]) ++ r).
    apply declared_nodecl_app. nd.
  - intros a b e c r He Hr. apply splits_nodecl. nd.
  - intros a b x c e d n body y z He _ Hb. rewrite loop_shape.
    apply declared_block_stmt; [nd | nd | exact Hb].
  - intros a b e d n body y z He _ Hb. rewrite while_shape.
    apply declared_block_stmt; [nd | nd | exact Hb].
  - intros r. reflexivity.
  - intros n b _ Hb r. cbn [app]. rewrite !declared_cons_other by (cbn [fst]; discriminate). apply Hb.
  - intros s n b _ Hs _ Hb r. rewrite <- app_assoc. cbn [app]. rewrite !Hs.
    rewrite !declared_cons_other by (cbn [fst]; discriminate). rewrite Hb. apply app_assoc.
Qed.

Lemma declared_line : forall w s n p, G_stmt w s ->
  declared_names (s ++ (TEol, n) :: p) = declared_names s ++ declared_names p.
Proof.
  intros w s n p Hs. rewrite (proj1 (declared_splits w) s Hs).
  rewrite declared_cons_other by (cbn [fst]; discriminate). reflexivity.
Qed.

(* ================================================================== part 4: the verdict *)

Definition vnames (st : pstate) : list name := map fst (pvirtuals st).

Definition is_dup_error (e : perr) : Prop := exists n, pe_kind e = PE_DuplicateVirtualSignal n.

(* [names]: declared before; [decl]: declared by the tokens the computation consumes *)
Definition verdict {A} (r : R perr (A * pstate)) (names decl : list name)
  (Q : A -> pstate -> Prop) : Prop :=
  match r with
  | Ok (a, st') => NoDup (names ++ decl) /\ vnames st' = names ++ decl /\ Q a st'
  | Err e => ~ NoDup (names ++ decl) /\ is_dup_error e
  | Panic _ => False
  | OOF => False
  end.

Lemma NoDup_app_l : forall A (l l' : list A), NoDup (l ++ l') -> NoDup l.
Proof.
  induction l as [|x l IH]; intros l' H; [constructor|]. cbn [app] in H. inversion H; subst.
  constructor; [intro Hin; apply H2; apply in_or_app; left; exact Hin | eapply IH; eassumption].
Qed.

Lemma verdict_bind : forall A B (m : P A) (k : A -> P B) st names d1 d2 d
  (Q1 : A -> pstate -> Prop) (Q2 : B -> pstate -> Prop),
  d = d1 ++ d2 ->
  verdict (m st) names d1 Q1 ->
  (forall a st', NoDup (names ++ d1) -> vnames st' = names ++ d1 -> Q1 a st' ->
     verdict (k a st') (names ++ d1) d2 Q2) ->
  verdict (bind m k st) names d Q2.
Proof.
  intros A B m k st names d1 d2 d Q1 Q2 -> Hm Hk. unfold bind.
  destruct (m st) as [[a st']|e|s|]; cbn [verdict] in Hm; try contradiction.
  - destruct Hm as (Hn & Hv & HQ). specialize (Hk a st' Hn Hv HQ).
    destruct (k a st') as [[b st'']|e|s|]; cbn [verdict] in *; try rewrite <- app_assoc in Hk; exact Hk.
  - destruct Hm as [Hn He]. split; [|exact He]. intro H. apply Hn.
    rewrite app_assoc in H. eapply NoDup_app_l. exact H.
Qed.

Lemma verdict_ret : forall A (a : A) st' names (Q : A -> pstate -> Prop),
  NoDup names -> vnames st' = names -> Q a st' -> verdict (Ok (a, st')) names [] Q.
Proof. intros A a st' names Q Hn Hv HQ. cbn [verdict]. rewrite app_nil_r. timeout 20 auto. Qed.

Lemma verdict_conseq : forall A (r : R perr (A * pstate)) names d (Q1 Q2 : A -> pstate -> Prop),
  verdict r names d Q1 -> (forall a st', Q1 a st' -> Q2 a st') -> verdict r names d Q2.
Proof.
  intros A r names d Q1 Q2 H HQ. destruct r as [[a st']|e|s|]; cbn [verdict] in *; try exact H.
  destruct H as (H1 & H2 & H3). timeout 20 auto.
Qed.

Lemma nx_vnames : forall st0 r st, nx st0 r st -> vnames st = vnames st0.
Proof. intros st0 r st [_ V]. unfold vnames. rewrite V. reflexivity. Qed.

Lemma assoc_get_Some_In : forall B k (l : list (name * B)) v, assoc_get k l = Some v -> In k (map fst l).
Proof.
  intros B k l v H. unfold assoc_get in H.
  destruct (find (fun e => name_eqb (fst e) k) l) as [p|] eqn:E; [|discriminate H].
  apply find_some in E. destruct E as [Hin Hk]. apply name_eqb_eq in Hk. subst k.
  apply in_map. exact Hin.
Qed.

(* the one place where a grammatical program can be rejected *)
Lemma add_virtual_verdict : forall st0 st r nm sp e, NoDup (vnames st0) -> nx st0 r st ->
  verdict (add_virtual nm sp e st) (vnames st0) [nm] (fun _ st' => toks st' = r).
Proof.
  intros st0 st r nm sp e Hn [T V]. unfold add_virtual. rewrite V.
  destruct (assoc_get nm (pvirtuals st0)) as [[ps pe]|] eqn:E; cbn [verdict].
  - split; [|exists nm; reflexivity]. intro H. apply NoDup_remove_2 in H. apply H.
    rewrite app_nil_r. eapply assoc_get_Some_In. exact E.
  - split; [apply NoDup_snoc; [exact Hn | apply assoc_get_None; exact E]|].
    split; [|exact T]. unfold vnames. cbn [pvirtuals]. rewrite map_app. reflexivity.
Qed.

(* ------------------------------------------------------------------ primitives, relative to an origin *)

Section AT.
Variable input_len : N.
Notation il := input_len.

Lemma skip_at : forall st0 st t r, nx st0 (t :: r) st ->
  exists st', skip il st = Ok (tt, st') /\ nx st0 r st'.
Proof.
  intros st0 st t r X. destruct (skip_nx il st t r (proj1 X)) as (st' & E & X').
  exists st'. split; [exact E | eapply nx_trans; eassumption].
Qed.

Lemma get_at : forall st0 st t r, nx st0 (t :: r) st ->
  exists st', get il st = Ok (t, st') /\ nx st0 r st'.
Proof.
  intros st0 st t r X. destruct (get_nx il st t r (proj1 X)) as (st' & E & X').
  exists st'. split; [exact E | eapply nx_trans; eassumption].
Qed.

Lemma expect_at : forall k st0 st t r, nx st0 (t :: r) st -> tkind t = k ->
  exists st', expect il k st = Ok (t, st') /\ nx st0 r st'.
Proof.
  intros k st0 st t r X Hk. destruct (expect_nx il k st t r (proj1 X) Hk) as (st' & E & X').
  exists st'. split; [exact E | eapply nx_trans; eassumption].
Qed.

Lemma peek_span_at : forall st0 st t r, nx st0 (t :: r) st -> peek_span st = Ok (tspan t, st).
Proof. intros st0 st t r X. eapply peek_span_cons. exact (proj1 X). Qed.

Lemma at_at : forall k st0 st t r, nx st0 (t :: r) st -> at_ k st = Ok (tk_beq (tkind t) k, st).
Proof. intros k st0 st t r X. eapply at_cons. exact (proj1 X). Qed.

Lemma vars_at : forall st0 st r v, nx st0 r st -> nx st0 r (set_vars st v).
Proof. intros st0 st r v [T V]. split; [exact T | exact V]. Qed.

Lemma put_vars_at : forall st0 st r v, nx st0 r st ->
  exists st', put_vars v st = Ok (tt, st') /\ nx st0 r st'.
Proof. intros st0 st r v X. eexists. split; [reflexivity | apply vars_at; exact X]. Qed.

Lemma modify_vars_at : forall st0 st r g, nx st0 r st ->
  exists st', modify_vars g st = Ok (tt, st') /\ nx st0 r st'.
Proof. intros st0 st r g X. eexists. split; [reflexivity | apply vars_at; exact X]. Qed.

Lemma get_vars_at : forall st, get_vars st = Ok (pvars st, st).
Proof. reflexivity. Qed.

Lemma get_line_at : forall st, get_line st = Ok (pline st, st).
Proof. reflexivity. Qed.

Lemma expr_at : forall st0 e c st rest f, G_expr e -> view c = e -> nx st0 (c ++ rest) st ->
  stop_expr rest -> (2 * length c + 2 <= f)%nat ->
  exists x st', parse_expr il f st = Ok (x, st') /\ nx st0 rest st'.
Proof.
  intros st0 e c st rest f He Hv X Hstop Hf.
  destruct (G_expr_accepted il e c st rest f He Hv (proj1 X) Hstop Hf) as (x & st' & E & X').
  exists x, st'. split; [exact E | eapply nx_trans; eassumption].
Qed.

Lemma data_row_at : forall hdr st0 r c st rest f,
  G_row (length hdr) r -> view c = r -> nx st0 (c ++ rest) st -> follows rest ->
  (1 + 4 * length (c ++ rest) <= f)%nat ->
  exists data st', parse_data_row il hdr f st = Ok (data, st') /\ nx st0 rest st'.
Proof.
  intros hdr st0 r c st rest f Hr Hv X Hfol Hf.
  destruct (data_row_complete il hdr r c st rest f Hr Hv (proj1 X) Hfol) as (data & st' & E & X').
  { rewrite (proj1 X). exact Hf. }
  exists data, st'. split; [exact E | eapply nx_trans; eassumption].
Qed.

End AT.

Lemma nx_start : forall st l, toks st = l -> nx st l st.
Proof. intros st l H. split; [exact H | reflexivity]. Qed.

(* ------------------------------------------------------------------ tactics *)

(* split a hypothesis [view c = <shape>] along the shape *)
Ltac vdes H :=
  lazymatch type of H with
  | view ?c = [] => apply view_nil_inv in H; subst c
  | view ?c = _ :: _ =>
      let t := fresh "t" in let c' := fresh "c" in let Hk := fresh "Hk" in
      let Hx := fresh "Hx" in let Hv := fresh "Hv" in
      destruct (view_cons_inv _ _ _ H) as (t & c' & -> & Hk & Hx & Hv);
      cbn [fst snd] in Hk, Hx; clear H; vdes Hv
  | view ?c = _ ++ _ =>
      let c1 := fresh "c" in let c2 := fresh "c" in let H1 := fresh "Hv" in let H2 := fresh "Hv" in
      destruct (view_app_inv _ _ _ H) as (c1 & c2 & -> & H1 & H2); clear H; vdes H2
  | _ => idtac
  end.

Ltac norm_app H := repeat first [ progress cbn [app] in H | rewrite <- app_assoc in H ].

Ltac stop_tac :=
  first [apply stop_rparen; assumption | apply stop_comma; assumption | apply stop_semi; assumption].

(* one step of symbolic execution of a goal  verdict (bind m k st) ...  where the context holds
   X : nx st0 <tokens left> st *)
Ltac sx il :=
  cbv beta zeta;
  lazymatch goal with
  | |- verdict (bind (skip _) _ ?st) _ _ _ =>
      match goal with X : nx ?st0 (?t :: ?r) st |- _ =>
        let st' := fresh "st" in let X' := fresh "X" in
        run_as (skip_at il st0 st t r X) st' X' end
  | |- verdict (bind (expect _ ?k) _ ?st) _ _ _ =>
      match goal with X : nx ?st0 (?t :: ?r) st |- _ =>
        let st' := fresh "st" in let X' := fresh "X" in
        run_as (expect_at il k st0 st t r X ltac:(assumption)) st' X' end
  | |- verdict (bind peek_span _ ?st) _ _ _ =>
      match goal with X : nx ?st0 (?t :: ?r) st |- _ =>
        rewrite (bind_ok _ _ _ _ _ _ _ (peek_span_at st0 st t r X)) end
  | |- verdict (bind get_vars _ ?st) _ _ _ =>
      rewrite (bind_ok _ _ _ _ _ _ _ (get_vars_at st))
  | |- verdict (bind get_line _ ?st) _ _ _ =>
      rewrite (bind_ok _ _ _ _ _ _ _ (get_line_at st))
  | |- verdict (bind (put_vars ?v) _ ?st) _ _ _ =>
      match goal with X : nx ?st0 ?r st |- _ =>
        let st' := fresh "st" in let X' := fresh "X" in
        run_as (put_vars_at st0 st r v X) st' X' end
  | |- verdict (bind (modify_vars ?g) _ ?st) _ _ _ =>
      match goal with X : nx ?st0 ?r st |- _ =>
        let st' := fresh "st" in let X' := fresh "X" in
        run_as (modify_vars_at st0 st r g X) st' X' end
  | |- verdict (bind (parse_expr _ ?f) _ ?st) _ _ _ =>
      match goal with X : nx ?st0 (?c ++ ?rest) st, Hv : view ?c = ?e, He : G_expr ?e |- _ =>
        let x := fresh "x" in let st' := fresh "st" in let E := fresh "E" in let X' := fresh "X" in
        destruct (expr_at il st0 e c st rest f He Hv X) as (x & st' & E & X');
        [ stop_tac | timeout 20 lia | rewrite (bind_ok _ _ _ _ _ _ _ E); clear E ] end
  | |- verdict (bind (parse_data_row _ ?h ?f) _ ?st) _ _ _ =>
      match goal with X : nx ?st0 (?c ++ ?rest) st, Hv : view ?c = ?r, Hr : G_row _ ?r |- _ =>
        let x := fresh "data" in let st' := fresh "st" in let E := fresh "E" in let X' := fresh "X" in
        destruct (data_row_at il h st0 r c st rest f Hr Hv X) as (x & st' & E & X');
        [ assumption | len_all; timeout 20 lia | rewrite (bind_ok _ _ _ _ _ _ _ E); clear E ] end
  end.

Ltac arm_done :=
  unfold ret; apply verdict_ret;
  [ assumption | eapply nx_vnames; eassumption
  | split; [eexists; reflexivity | match goal with X : nx _ _ ?st |- toks ?st = _ => exact (proj1 X) end] ].

(* ------------------------------------------------------------------ statements *)

Lemma G_entry_start : forall k e, G_entry k e -> exists t l, e = t :: l /\ is_row_start (fst t) = true.
Proof.
  intros k e H. destruct H as [t v Hv| | |]; eexists; eexists; (split; [reflexivity|]); try reflexivity.
  apply number_value_kind in Hv. destruct (fst t); try discriminate Hv; reflexivity.
Qed.

Lemma G_row_start : forall k r, G_row k r -> exists t l, r = t :: l /\ is_row_start (fst t) = true.
Proof.
  intros k r H. destruct H as [k e He|k e m r He _].
  - eapply G_entry_start; eassumption.
  - destruct (G_entry_start _ _ He) as (t & l & -> & Hs). exists t, (l ++ r). split; [reflexivity | exact Hs].
Qed.

Lemma G_stmt_nonempty : forall w s, G_stmt w s -> s <> [].
Proof. intros w s H. inversion H; subst; try discriminate. eapply G_row_nonempty; eassumption. Qed.

Section BLOCKS.
Variable input_len : N.
Variable hdr : list name.
Notation il := input_len.
Notation w := (length hdr).

Definition arm_ok (rest : list token) (a : arm_result) (st' : pstate) : Prop :=
  (exists b, a = ArmContinue b) /\ toks st' = rest.

Definition hd_kind (c : list token) : tk := match c with t :: _ => tkind t | [] => TEof end.

(* the arm of parse_stmt_block's match on a statement of the grammar, followed by Eol or Eof *)
Definition V_stmt (s : list tok) : Prop :=
  forall c st rest f et block,
  view c = s -> toks st = c ++ rest -> follows rest -> NoDup (vnames st) ->
  (1 + 4 * length (toks st) <= f)%nat ->
  verdict (block_arm il hdr f et block (hd_kind c) st) (vnames st) (declared_names s) (arm_ok rest).

(* the block loop on the body of a loop/while and its `end <kind>` *)
Definition V_block (b : list tok) : Prop :=
  forall c st tE tK rest fuel kind block,
  view c = b -> toks st = c ++ tE :: tK :: rest -> tkind tE = TEnd -> tkind tK = kind ->
  kind = TLoop \/ kind = TWhile -> NoDup (vnames st) ->
  (2 + 4 * length (toks st) <= fuel)%nat ->
  verdict (parse_block_loop il hdr fuel (Some kind) block st) (vnames st) (declared_names b)
          (fun _ st' => toks st' = rest).

Ltac arm_start Hview Ht Hfol Hfuel :=
  let Hfol' := fresh "Hfol" in pose proof Hfol as Hfol';
  let tf := fresh "tf" in let rf := fresh "rf" in let Hkf := fresh "Hkf" in
  destruct Hfol as (tf & rf & -> & Hkf);
  vdes Hview; norm_app Ht; rewrite Ht in Hfuel; len_all;
  let X0 := fresh "X" in pose proof (nx_start _ _ Ht) as X0;
  cbn [hd_kind];
  match goal with H : tkind ?t = _ |- context[block_arm _ _ _ _ _ (tkind ?t)] => rewrite H end;
  unfold block_arm; cbn [is_row_start].

Lemma arm_row_eq : forall f et block k, is_row_start k = true ->
  block_arm il hdr f et block k =
  (data <- parse_data_row il hdr f ;; ln <- get_line ;; ret (ArmContinue (block ++ [SRow data ln]))).
Proof. intros f et block k H. unfold block_arm. rewrite H. reflexivity. Qed.

Lemma case_row : forall r, G_row w r -> V_stmt r.
Proof.
  intros r Hr c st rest f et block Hview Ht Hfol Hn Hfuel.
  destruct (G_row_start _ _ Hr) as (t & l & Hr0 & Hstart).
  destruct c as [|t0 c']; [rewrite view_nil, Hr0 in Hview; discriminate Hview|].
  assert (Hs0 : is_row_start (tkind t0) = true).
  { rewrite view_cons, Hr0 in Hview. injection Hview as Ht0 _. rewrite <- Ht0 in Hstart. exact Hstart. }
  cbn [hd_kind]. rewrite arm_row_eq by exact Hs0.
  destruct (data_row_at il hdr st r (t0 :: c') st rest f Hr Hview (nx_start _ _ Ht) Hfol)
    as (data & st' & E & X); [rewrite <- Ht; exact Hfuel|].
  rewrite (bind_ok _ _ _ _ _ _ _ E). rewrite (bind_ok _ _ _ _ _ _ _ (get_line_at st')).
  rewrite (declared_nodecl r) by (eapply G_row_nodecl; eassumption). arm_done.
Qed.

Lemma case_let : forall a x b e c0, G_expr e ->
  V_stmt ((TLet, a) :: (TIdent, x) :: (TEqual, b) :: e ++ [(TSemi, c0)]).
Proof.
  intros a x b e c0 He c st rest f et block Hview Ht Hfol Hn Hfuel.
  rewrite declared_nodecl by nd.
  arm_start Hview Ht Hfol Hfuel. repeat sx il. arm_done.
Qed.

Lemma case_reset : forall a b, V_stmt [(TResetRandom, a); (TSemi, b)].
Proof.
  intros a b c st rest f et block Hview Ht Hfol Hn Hfuel.
  rewrite declared_nodecl by nd.
  arm_start Hview Ht Hfol Hfuel. repeat sx il. arm_done.
Qed.

Lemma case_declare : forall a x b e c0, G_expr e ->
  V_stmt ((TDeclare, a) :: (TIdent, x) :: (TEqual, b) :: e ++ [(TSemi, c0)]).
Proof.
  intros a x b e c0 He c st rest f et block Hview Ht Hfol Hn Hfuel.
  rewrite declared_decl_stmt by exact He.
  arm_start Hview Ht Hfol Hfuel. repeat sx il.
  match goal with H : ttext ?t = x |- _ => rewrite H end.
  eapply verdict_bind with (d1 := [x]) (d2 := []); [reflexivity | |].
  - apply add_virtual_verdict; [exact Hn | eassumption].
  - intros u st' Hn' Hv' HQ. unfold ret. apply verdict_ret; [exact Hn' | exact Hv' |].
    split; [eexists; reflexivity | exact HQ].
Qed.

Lemma case_repeat : forall a b e c0 r, G_expr e -> G_row w r ->
  V_stmt ((TRepeat, a) :: (TLParen, b) :: e ++ (TRParen, c0) :: r).
Proof.
  intros a b e c0 r He Hr c st rest f et block Hview Ht Hfol Hn Hfuel.
  rewrite declared_nodecl by nd.
  arm_start Hview Ht Hfol Hfuel. repeat sx il. arm_done.
Qed.

Lemma case_loop : forall a b x c0 e d n body y z, G_expr e -> G_block w body -> V_block body ->
  V_stmt ((TLoop, a) :: (TLParen, b) :: (TIdent, x) :: (TComma, c0) :: e ++
          (TRParen, d) :: (TEol, n) :: body ++ [(TEnd, y); (TLoop, z)]).
Proof.
  intros a b x c0 e d n body y z He Hbody IHb c st rest f et block Hview Ht Hfol Hn Hfuel.
  rewrite declared_loop by (first [exact He | apply (proj2 (declared_splits w)); exact Hbody]).
  arm_start Hview Ht Hfol Hfuel. repeat sx il.
  eapply verdict_bind with (d1 := declared_names body) (d2 := []); [symmetry; apply app_nil_r | |].
  - match goal with X : nx st _ ?s |- verdict (parse_block_loop _ _ _ _ _ ?s) _ _ _ =>
      rewrite <- (nx_vnames _ _ _ X); eapply IHb;
      [ eassumption | exact (proj1 X) | assumption | assumption | left; reflexivity
      | rewrite (nx_vnames _ _ _ X); exact Hn | rewrite (proj1 X); len_all; timeout 20 lia ] end.
  - intros inner st' Hn' Hv' HQ. cbv beta in HQ. rewrite modify_vars_run. unfold ret.
    apply verdict_ret; [exact Hn' | exact Hv' | split; [eexists; reflexivity | exact HQ]].
Qed.

Lemma case_while : forall a b e d n body y z, G_expr e -> G_block w body -> V_block body ->
  V_stmt ((TWhile, a) :: (TLParen, b) :: e ++
          (TRParen, d) :: (TEol, n) :: body ++ [(TEnd, y); (TWhile, z)]).
Proof.
  intros a b e d n body y z He Hbody IHb c st rest f et block Hview Ht Hfol Hn Hfuel.
  rewrite declared_while by (first [exact He | apply (proj2 (declared_splits w)); exact Hbody]).
  arm_start Hview Ht Hfol Hfuel. repeat sx il.
  eapply verdict_bind with (d1 := declared_names body) (d2 := []); [symmetry; apply app_nil_r | |].
  - match goal with X : nx st _ ?s |- verdict (parse_block_loop _ _ _ _ _ ?s) _ _ _ =>
      rewrite <- (nx_vnames _ _ _ X); eapply IHb;
      [ eassumption | exact (proj1 X) | assumption | assumption | right; reflexivity
      | rewrite (nx_vnames _ _ _ X); exact Hn | rewrite (proj1 X); len_all; timeout 20 lia ] end.
  - intros inner st' Hn' Hv' HQ. cbv beta in HQ. unfold ret.
    apply verdict_ret; [exact Hn' | exact Hv' | split; [eexists; reflexivity | exact HQ]].
Qed.

End BLOCKS.

(* ------------------------------------------------------------------ blocks and programs *)

Section LOOPS.
Variable input_len : N.
Variable hdr : list name.
Notation il := input_len.
Notation w := (length hdr).

(* after a statement or on an empty line: the line break is skipped and the loop goes round *)
Lemma post_eol : forall f et b st0 st t r, nx st0 (t :: r) st -> tkind t = TEol ->
  exists st', block_post il hdr f et (ArmContinue b) st = parse_block_loop il hdr f et b st' /\
              nx st0 r st'.
Proof.
  intros f et b st0 st t r X Hk. unfold block_post.
  rewrite (bind_ok _ _ _ _ _ _ _ (at_at TEof _ _ _ _ X)). rewrite Hk. cbn [tk_beq].
  rewrite (bind_ok _ _ _ _ _ _ _ (at_at TEol _ _ _ _ X)). rewrite Hk. cbn [tk_beq].
  run_as (skip_at il st0 st t r X) st' X'. exists st'. split; [reflexivity | exact X'].
Qed.

(* after the last statement, at top level: the loop returns in front of Eof *)
Lemma post_eof_top : forall f b st0 st t r, nx st0 (t :: r) st -> tkind t = TEof ->
  block_post il hdr f None (ArmContinue b) st = Ok (b, st).
Proof.
  intros f b st0 st t r X Hk. unfold block_post.
  rewrite (bind_ok _ _ _ _ _ _ _ (at_at TEof _ _ _ _ X)). rewrite Hk. reflexivity.
Qed.

Lemma arm_end : forall f kind block st tE tK rest,
  toks st = tE :: tK :: rest -> tkind tK = kind ->
  exists st', block_arm il hdr f (Some kind) block TEnd st = Ok (ArmBreak block, st') /\ nx st rest st'.
Proof.
  intros f kind block st tE tK rest Ht HkK. unfold block_arm. cbn [is_row_start].
  run_as (skip_at il st st tE _ (nx_start _ _ Ht)) st1 X1.
  run_as (expect_at il kind st st1 tK rest X1 HkK) st2 X2.
  exists st2. split; [reflexivity | exact X2].
Qed.

Lemma arm_eof_top : forall f block st t extra, toks st = t :: extra ->
  exists st', block_arm il hdr f None block TEof st = Ok (ArmBreak block, st') /\ nx st extra st'.
Proof.
  intros f block st t extra Ht. unfold block_arm. cbn [is_row_start].
  run_as (get_at il st st t extra (nx_start _ _ Ht)) st1 X1.
  exists st1. split; [reflexivity | exact X1].
Qed.

Lemma loop_line : forall s c1 tl more st f et block d2 (Q : list stmt -> pstate -> Prop),
  G_stmt w s -> V_stmt il hdr s -> view c1 = s -> toks st = c1 ++ tl :: more -> tkind tl = TEol ->
  NoDup (vnames st) -> (2 + 4 * length (toks st) <= S f)%nat ->
  (forall b st2, toks st2 = more -> NoDup (vnames st2) ->
     verdict (parse_block_loop il hdr f et b st2) (vnames st2) d2 Q) ->
  verdict (parse_block_loop il hdr (S f) et block st) (vnames st) (declared_names s ++ d2) Q.
Proof.
  intros s c1 tl more st f et block d2 Q Hs IHs Hview Ht Hk Hn Hfuel Hcont.
  destruct c1 as [|t0 c1'].
  { exfalso. eapply G_stmt_nonempty; [exact Hs | symmetry; exact Hview]. }
  rewrite parse_block_loop_S.
  assert (Ht0 : toks st = t0 :: (c1' ++ tl :: more)) by (rewrite Ht; reflexivity).
  peek_with Ht0.
  eapply verdict_bind; [reflexivity | |].
  - apply (IHs (t0 :: c1') st (tl :: more) f et block Hview Ht);
      [exists tl, more; timeout 20 auto | exact Hn | timeout 20 lia].
  - intros a st' Hn' Hv' [[b' ->] Ht'].
    destruct (post_eol f et b' st' st' tl more (nx_start _ _ Ht') Hk) as (st2 & E & X2).
    rewrite E. rewrite <- Hv'. rewrite <- (nx_vnames _ _ _ X2).
    apply Hcont; [exact (proj1 X2) | rewrite (nx_vnames _ _ _ X2), Hv'; exact Hn'].
Qed.

Lemma loop_blank : forall tl more st f et block d2 (Q : list stmt -> pstate -> Prop),
  toks st = tl :: more -> tkind tl = TEol -> NoDup (vnames st) ->
  (forall b st2, toks st2 = more -> NoDup (vnames st2) ->
     verdict (parse_block_loop il hdr f et b st2) (vnames st2) d2 Q) ->
  verdict (parse_block_loop il hdr (S f) et block st) (vnames st) d2 Q.
Proof.
  intros tl more st f et block d2 Q Ht Hk Hn Hcont.
  rewrite parse_block_loop_S. peek_with Ht. rewrite Hk.
  change (verdict (block_post il hdr f et (ArmContinue block) st) (vnames st) d2 Q).
  destruct (post_eol f et block st st tl more (nx_start _ _ Ht) Hk) as (st2 & E & X2).
  rewrite E. rewrite <- (nx_vnames _ _ _ X2).
  apply Hcont; [exact (proj1 X2) | rewrite (nx_vnames _ _ _ X2); exact Hn].
Qed.

Lemma loop_last : forall s c1 tf extra st f block,
  G_stmt w s -> V_stmt il hdr s -> view c1 = s -> toks st = c1 ++ tf :: extra -> tkind tf = TEof ->
  NoDup (vnames st) -> (2 + 4 * length (toks st) <= S f)%nat ->
  verdict (parse_block_loop il hdr (S f) None block st) (vnames st) (declared_names s) (fun _ _ => True).
Proof.
  intros s c1 tf extra st f block Hs IHs Hview Ht Hk Hn Hfuel.
  destruct c1 as [|t0 c1'].
  { exfalso. eapply G_stmt_nonempty; [exact Hs | symmetry; exact Hview]. }
  rewrite parse_block_loop_S.
  assert (Ht0 : toks st = t0 :: (c1' ++ tf :: extra)) by (rewrite Ht; reflexivity).
  peek_with Ht0.
  eapply verdict_bind with (d2 := []); [symmetry; apply app_nil_r | |].
  - apply (IHs (t0 :: c1') st (tf :: extra) f None block Hview Ht);
      [exists tf, extra; timeout 20 auto | exact Hn | timeout 20 lia].
  - intros a st' Hn' Hv' [[b' ->] Ht'].
    rewrite (post_eof_top f b' st' st' tf extra (nx_start _ _ Ht') Hk).
    apply verdict_ret; [exact Hn' | exact Hv' | exact I].
Qed.

Lemma case_block_nil : V_block il hdr [].
Proof.
  intros c st tE tK rest fuel kind block Hview Ht HkE HkK Hkind Hn Hfuel.
  vdes Hview. cbn [app] in Ht. destruct fuel as [|f]; [timeout 20 lia|].
  rewrite parse_block_loop_S. peek_with Ht. rewrite HkE.
  destruct (arm_end f kind block st tE tK rest Ht HkK) as (st' & E & X).
  rewrite (bind_ok _ _ _ _ _ _ _ E).
  change (verdict (Ok (block, st')) (vnames st) [] (fun (_ : list stmt) st'0 => toks st'0 = rest)).
  apply verdict_ret; [exact Hn | eapply nx_vnames; exact X | exact (proj1 X)].
Qed.

Lemma case_block_eol : forall n b, G_block w b -> V_block il hdr b -> V_block il hdr ((TEol, n) :: b).
Proof.
  intros n b Hb IHb c st tE tK rest fuel kind block Hview Ht HkE HkK Hkind Hn Hfuel.
  vdes Hview. cbn [app] in Ht. destruct fuel as [|f]; [timeout 20 lia|].
  rewrite declared_cons_other by (cbn [fst]; discriminate).
  eapply loop_blank; [exact Ht | assumption | exact Hn |].
  intros b' st2 Ht2 Hn2. eapply IHb; try eassumption.
  rewrite Ht2. rewrite Ht in Hfuel. len_all. timeout 20 lia.
Qed.

Lemma case_block_stmt : forall s n b, G_stmt w s -> V_stmt il hdr s -> G_block w b -> V_block il hdr b ->
  V_block il hdr (s ++ (TEol, n) :: b).
Proof.
  intros s n b Hs IHs Hb IHb c st tE tK rest fuel kind block Hview Ht HkE HkK Hkind Hn Hfuel.
  vdes Hview. norm_app Ht. destruct fuel as [|f]; [timeout 20 lia|].
  rewrite (declared_line w s n b Hs).
  eapply loop_line; [exact Hs | exact IHs | eassumption | exact Ht | assumption | exact Hn | exact Hfuel |].
  intros b' st2 Ht2 Hn2. eapply IHb; try eassumption.
  rewrite Ht2. rewrite Ht in Hfuel. len_all. timeout 20 lia.
Qed.

Theorem stmt_block_complete :
  (forall s, G_stmt w s -> V_stmt il hdr s) /\ (forall b, G_block w b -> V_block il hdr b).
Proof.
  apply G_stmt_mutind.
  - exact (case_row il hdr).
  - exact (case_let il hdr).
  - exact (case_reset il hdr).
  - exact (case_declare il hdr).
  - exact (case_repeat il hdr).
  - intros a b x c e d n body y z He Hb IHb. apply case_loop; assumption.
  - intros a b e d n body y z He Hb IHb. apply case_while; assumption.
  - exact case_block_nil.
  - exact case_block_eol.
  - exact case_block_stmt.
Qed.

(* the top-level loop on a whole program; what follows the Eof token is never looked at *)
Definition V_prog (p : list tok) : Prop :=
  forall c st extra fuel block,
  view c = p -> toks st = c ++ extra -> NoDup (vnames st) ->
  (2 + 4 * length (toks st) <= fuel)%nat ->
  verdict (parse_block_loop il hdr fuel None block st) (vnames st) (declared_names p) (fun _ _ => True).

Theorem program_complete : forall p, G_program w p -> V_prog p.
Proof.
  pose proof (proj1 stmt_block_complete) as Hstmt.
  intros p H. induction H as [x|s x Hs|n p Hp IH|s n p Hs Hp IH];
    intros c st extra fuel block Hview Ht Hn Hfuel.
  - vdes Hview. cbn [app] in Ht. destruct fuel as [|f]; [timeout 20 lia|].
    rewrite parse_block_loop_S. peek_with Ht.
    match goal with H : tkind _ = TEof |- _ => rewrite H end.
    destruct (arm_eof_top f block st _ extra Ht) as (st' & E & X).
    rewrite (bind_ok _ _ _ _ _ _ _ E).
    change (verdict (Ok (block, st')) (vnames st) [] (fun (_ : list stmt) (_ : pstate) => True)).
    apply verdict_ret; [exact Hn | eapply nx_vnames; exact X | exact I].
  - vdes Hview. norm_app Ht. destruct fuel as [|f]; [timeout 20 lia|].
    rewrite (proj1 (declared_splits w) s Hs).
    change (declared_names [(TEof, x)]) with (@nil name). rewrite app_nil_r.
    eapply loop_last; [exact Hs | apply Hstmt; exact Hs | eassumption | exact Ht | assumption | exact Hn | exact Hfuel].
  - vdes Hview. cbn [app] in Ht. destruct fuel as [|f]; [timeout 20 lia|].
    rewrite declared_cons_other by (cbn [fst]; discriminate).
    eapply loop_blank; [exact Ht | assumption | exact Hn |].
    intros b' st2 Ht2 Hn2. eapply IH; try eassumption.
    rewrite Ht2. rewrite Ht in Hfuel. len_all. timeout 20 lia.
  - vdes Hview. norm_app Ht. destruct fuel as [|f]; [timeout 20 lia|].
    rewrite (declared_line w s n p Hs).
    eapply loop_line; [exact Hs | apply Hstmt; exact Hs | eassumption | exact Ht | assumption | exact Hn | exact Hfuel |].
    intros b' st2 Ht2 Hn2. eapply IH; try eassumption.
    rewrite Ht2. rewrite Ht in Hfuel. len_all. timeout 20 lia.
Qed.

End LOOPS.

(* ================================================================== part 5: the theorems *)

(* The verdict of the body parser on a grammatical program.  [st] is any parser state whose
   tokens start with the program (what follows the Eof token is never looked at), whose table
   of virtual signals has distinct names; [fuel] at least 2 + 4 * number of tokens.  The parser
   returns Ok exactly if the names declared before and the declared names of the program are
   distinct, and the error DuplicateVirtualSignal otherwise. *)
Theorem grammatical_verdict : forall input_len hdr ts extra st fuel block,
  G_program (length hdr) (view ts) -> toks st = ts ++ extra -> NoDup (vnames st) ->
  (2 + 4 * length (toks st) <= fuel)%nat ->
  verdict (parse_block_loop input_len hdr fuel None block st) (vnames st)
          (declared_names (view ts)) (fun _ _ => True).
Proof.
  intros il hdr ts extra st fuel block HG Ht Hn Hfuel.
  exact (program_complete il hdr _ HG ts st extra fuel block eq_refl Ht Hn Hfuel).
Qed.

(* MAIN GOAL, token level *)
Theorem grammatical_implies_accepted : forall (w : nat) (ts : list token) input_len hdr st fuel block,
  G_program w (view ts) ->
  length hdr = w ->                                                     (* the header has w columns *)
  toks st = ts ->
  NoDup (map fst (pvirtuals st) ++ declared_names (view ts)) ->         (* no name is declared twice *)
  (2 + 4 * length ts <= fuel)%nat ->
  exists result, parse_block_loop input_len hdr fuel None block st = Ok result.
Proof.
  intros w ts il hdr st fuel block HG Hw Ht Hn Hfuel. subst w.
  assert (Ht' : toks st = ts ++ []) by (rewrite app_nil_r; exact Ht).
  assert (Hf' : (2 + 4 * length (toks st) <= fuel)%nat) by (rewrite Ht; exact Hfuel).
  pose proof (grammatical_verdict il hdr ts [] st fuel block HG Ht' (NoDup_app_l _ _ _ Hn) Hf') as V.
  destruct (parse_block_loop il hdr fuel None block st) as [[a0 st']|e|x|]; cbn [verdict] in V.
  - exists (a0, st'). reflexivity.
  - exfalso. apply (proj1 V). exact Hn.
  - contradiction.
  - contradiction.
Qed.

(* ... and the side condition is exact: on a grammatical program, accepted iff no name is declared
   twice; if rejected, then with the error DuplicateVirtualSignal *)
Theorem grammatical_accepted_iff : forall (ts : list token) input_len hdr st fuel block,
  G_program (length hdr) (view ts) -> toks st = ts -> NoDup (map fst (pvirtuals st)) ->
  (2 + 4 * length ts <= fuel)%nat ->
  ((exists result, parse_block_loop input_len hdr fuel None block st = Ok result) <->
   NoDup (map fst (pvirtuals st) ++ declared_names (view ts))) /\
  ((exists result, parse_block_loop input_len hdr fuel None block st = Ok result) \/
   (exists e n, parse_block_loop input_len hdr fuel None block st = Err e /\
                pe_kind e = PE_DuplicateVirtualSignal n)).
Proof.
  intros ts il hdr st fuel block HG Ht Hn Hfuel.
  assert (Ht' : toks st = ts ++ []) by (rewrite app_nil_r; exact Ht).
  assert (Hf' : (2 + 4 * length (toks st) <= fuel)%nat) by (rewrite Ht; exact Hfuel).
  pose proof (grammatical_verdict il hdr ts [] st fuel block HG Ht' Hn Hf') as V.
  destruct (parse_block_loop il hdr fuel None block st) as [[a0 st']|e|x|]; cbn [verdict] in V;
    try contradiction.
  - split; [|left; exists (a0, st'); reflexivity].
    split; [intros _; exact (proj1 V) | intros _; exists (a0, st'); reflexivity].
  - destruct V as [Hd [n Hk]]. split; [|right; exists e, n; split; [reflexivity | exact Hk]].
    split; [intros [r H]; discriminate H | intro H; contradiction].
Qed.

(* ------------------------------------------------------------------ texts *)

Definition body_state (h : header) (ts : list token) : pstate :=
  {| toks := ts; pline := h_line h; pvars := fm_new; pvirtuals := [];
     pexp_inputs := []; pexp_outputs := [] |}.

Definition body_run (s : text) (h : header) (ts : list token) : R perr (list stmt * pstate) :=
  parse_block_loop (text_bytes s) (h_names h) (parser_fuel (length ts)) None [] (body_state h ts).

Lemma parse_as_body_run : forall s h ts,
  parse_header s = Ok h -> lex_body (h_pos h) (h_rest h) = Some ts ->
  match body_run s h ts with
  | Ok _ => exists p, parse s = Ok p
  | Err e => parse s = Err e
  | Panic x => parse s = Panic x
  | OOF => parse s = OOF
  end.
Proof.
  intros s h ts Hh Hl. unfold parse. rewrite Hh, Hl. fold (body_state h ts). fold (body_run s h ts).
  destruct (body_run s h ts) as [[stmts st']|e|x|]; try reflexivity. eexists. reflexivity.
Qed.

Lemma body_run_verdict : forall s h ts, G_program (length (h_names h)) (view ts) ->
  verdict (body_run s h ts) [] (declared_names (view ts)) (fun _ _ => True).
Proof.
  intros s h ts HG. unfold body_run.
  apply (grammatical_verdict (text_bytes s) (h_names h) ts [] (body_state h ts) _ [] HG).
  - cbn [toks body_state]. rewrite app_nil_r. reflexivity.
  - constructor.
  - cbn [toks body_state]. unfold parser_fuel. timeout 20 lia.
Qed.

(* MAIN GOAL, lifted to texts: the fuel that [parse] picks suffices, the table of virtual signals
   starts empty, the Eof token is last *)
Theorem grammatical_text_accepted : forall s h ts,
  parse_header s = Ok h -> lex_body (h_pos h) (h_rest h) = Some ts ->
  G_program (length (h_names h)) (view ts) ->
  NoDup (declared_names (view ts)) ->
  exists p, parse s = Ok p.
Proof.
  intros s h ts Hh Hl HG Hn.
  pose proof (parse_as_body_run s h ts Hh Hl) as HP. pose proof (body_run_verdict s h ts HG) as V.
  destruct (body_run s h ts) as [[a0 st']|e|x|]; cbn [verdict] in V; try contradiction.
  - exact HP.
  - exfalso. apply (proj1 V). exact Hn.
Qed.

(* a grammatical text is rejected only for a repeated `declare`, and then with that error *)
Theorem grammatical_text_rejected : forall s h ts,
  parse_header s = Ok h -> lex_body (h_pos h) (h_rest h) = Some ts ->
  G_program (length (h_names h)) (view ts) ->
  ~ NoDup (declared_names (view ts)) ->
  exists e n, parse s = Err e /\ pe_kind e = PE_DuplicateVirtualSignal n.
Proof.
  intros s h ts Hh Hl HG Hn.
  pose proof (parse_as_body_run s h ts Hh Hl) as HP. pose proof (body_run_verdict s h ts HG) as V.
  destruct (body_run s h ts) as [[a0 st']|e|x|]; cbn [verdict] in V; try contradiction.
  - exfalso. apply Hn. exact (proj1 V).
  - destruct V as [_ [n Hk]]. exists e, n. split; [exact HP | exact Hk].
Qed.

(* with the soundness theorem C12: the accepted language, exactly *)
Theorem accepted_iff_grammatical : forall s h ts,
  parse_header s = Ok h -> lex_body (h_pos h) (h_rest h) = Some ts ->
  ((exists p, parse s = Ok p) <->
   G_program (length (h_names h)) (view ts) /\ NoDup (declared_names (view ts))).
Proof.
  intros s h ts Hh Hl. split.
  - intros [p H].
    pose proof (C12_accepted_implies_grammatical s p h ts H Hh Hl) as HG.
    split; [exact HG|].
    pose proof (parse_as_body_run s h ts Hh Hl) as HP. pose proof (body_run_verdict s h ts HG) as V.
    destruct (body_run s h ts) as [[a0 st']|e|x|]; cbn [verdict] in V; try contradiction.
    + exact (proj1 V).
    + rewrite HP in H. discriminate H.
  - intros [HG Hn]. eapply grammatical_text_accepted; eassumption.
Qed.

(* for every text: accepted iff the header parses and the body is a grammatical program that
   declares no name twice *)
Corollary accepted_language : forall s,
  (exists p, parse s = Ok p) <->
  exists h ts, parse_header s = Ok h /\ lex_body (h_pos h) (h_rest h) = Some ts /\
               G_program (length (h_names h)) (view ts) /\ NoDup (declared_names (view ts)).
Proof.
  intros s. split.
  - intros [p H]. destruct (parse_Ok_inv _ _ H) as (h & ts & Hh & Hl & _).
    exists h, ts. split; [exact Hh|]. split; [exact Hl|].
    apply (accepted_iff_grammatical s h ts Hh Hl). exists p. exact H.
  - intros (h & ts & Hh & Hl & HG & Hn). apply (accepted_iff_grammatical s h ts Hh Hl). split; assumption.
Qed.

(* ================================================================== which hypotheses are necessary *)

Definition nl : text := [10].

(* 1. NECESSARY: no name declared twice.  "A / declare x = 1; / declare x = 2;" is a program of the
      grammar, and the parser rejects it *)
Definition ex_dup : text :=
  s2n "A" ++ nl ++ s2n "declare x = 1;" ++ nl ++ s2n "declare x = 2;" ++ nl.

Ltac ex_declare :=
  apply (S_declare 1 _ _ _ [_] _); apply E_factor; eapply F_number; vm_compute; reflexivity.

Example duplicate_declare_grammatical_but_rejected :
  exists h ts, parse_header ex_dup = Ok h /\ lex_body (h_pos h) (h_rest h) = Some ts /\
    G_program (length (h_names h)) (view ts) /\
    declared_names (view ts) = [s2n "x"; s2n "x"] /\
    exists e, parse ex_dup = Err e /\ pe_kind e = PE_DuplicateVirtualSignal (s2n "x").
Proof.
  eexists. eexists. split; [vm_compute; reflexivity|]. split; [vm_compute; reflexivity|].
  split; [|split].
  - vm_compute.
    apply (P_stmt 1 [_; _; _; _; _]); [ex_declare|].
    apply (P_stmt 1 [_; _; _; _; _]); [ex_declare|].
    apply P_eof.
  - vm_compute. reflexivity.
  - eexists. split; vm_compute; reflexivity.
Qed.

(* the same at token level, with the name already in the table of the starting state *)
Definition mk (k : tk) (s : string) : token := {| tkind := k; tspan := (0, 0); ttext := s2n s |}.

Definition ex_decl_ts : list token :=
  [mk TDeclare "declare"; mk TIdent "x"; mk TEqual "="; mk TDecInt "1"; mk TSemi ";"; mk TEof ""].

Example declared_before_rejected :
  G_program 1 (view ex_decl_ts) /\ NoDup (declared_names (view ex_decl_ts)) /\
  exists e,
    parse_block_loop 0 [s2n "A"] 100 None []
      {| toks := ex_decl_ts; pline := 1; pvars := fm_new; pvirtuals := [(s2n "x", ((0, 0), ENum 0))];
         pexp_inputs := []; pexp_outputs := [] |} = Err e /\
    pe_kind e = PE_DuplicateVirtualSignal (s2n "x").
Proof.
  split; [|split].
  - vm_compute. apply (P_last 1 [_; _; _; _; _]). ex_declare.
  - vm_compute. constructor; [intros []|constructor].
  - eexists. split; vm_compute; reflexivity.
Qed.

(* 2. NECESSARY (token level): the header has exactly w columns *)
Definition ex_row_ts : list token := [mk TDecInt "1"; mk TEof ""].

Example width_mismatch_rejected :
  G_program 1 (view ex_row_ts) /\
  exists e,
    parse_block_loop 0 [s2n "A"; s2n "B"] 100 None []
      {| toks := ex_row_ts; pline := 1; pvars := fm_new; pvirtuals := [];
         pexp_inputs := []; pexp_outputs := [] |} = Err e /\
    pe_kind e = PE_DataRowWithWrongNumberOfSignals 2 1.
Proof.
  split.
  - vm_compute. apply (P_last 1 [_]). apply S_row. apply R_one. eapply N_number. vm_compute. reflexivity.
  - eexists. split; vm_compute; reflexivity.
Qed.

(* 3. NECESSARY (token level): enough fuel.  [parse] hands out 4 * tokens + 32, which is enough *)
Example too_little_fuel :
  parse_block_loop 0 [s2n "A"] 1 None []
    {| toks := ex_row_ts; pline := 1; pvars := fm_new; pvirtuals := [];
       pexp_inputs := []; pexp_outputs := [] |} = OOF.
Proof. vm_compute. reflexivity. Qed.

(* NOT needed: a declared name may be a header name, and `C` may stand in any column -- neither is
   checked while parsing *)
Definition ex_shadow : text := s2n "A B" ++ nl ++ s2n "declare A = 1;" ++ nl ++ s2n "C C" ++ nl.

Example declare_of_header_name_accepted : exists p, parse ex_shadow = Ok p.
Proof. vm_compute. eexists. reflexivity. Qed.

(* NOT needed: tokens after Eof are never looked at (grammatical_verdict allows any [extra]) *)

(* the theorems at work on a text with every kind of statement *)
Definition ex_all : text :=
  s2n "A B" ++ nl ++
  s2n "let a = 1 + 2 * 3;" ++ nl ++
  s2n "declare v = (A & ~B) = 1;" ++ nl ++ nl ++
  s2n "loop(i, 3)" ++ nl ++
  s2n "  while(!(i = 2))" ++ nl ++
  s2n "    bits(2, i - 1)" ++ nl ++
  s2n "  end while" ++ nl ++
  s2n "  repeat(2) (n) (ite(n, 1, -x))" ++ nl ++
  s2n "end loop" ++ nl ++
  s2n "resetRandom;" ++ nl ++
  s2n "0 0x1F".

Example ex_all_accepted : exists p, parse ex_all = Ok p.
Proof. vm_compute. eexists. reflexivity. Qed.

(* hence, by soundness and the characterisation, it is grammatical with distinct declared names *)
Example ex_all_grammatical :
  exists h ts, parse_header ex_all = Ok h /\ lex_body (h_pos h) (h_rest h) = Some ts /\
               G_program (length (h_names h)) (view ts) /\ NoDup (declared_names (view ts)).
Proof. apply accepted_language. exact ex_all_accepted. Qed.

(* ================================================================== summary *)

Check G_expr_Prints.
Check G_expr_accepted.
Check row_complete.
Check data_row_complete.
Check stmt_block_complete.
Check program_complete.
Check grammatical_verdict.
Check grammatical_implies_accepted.
Check grammatical_accepted_iff.
Check grammatical_text_accepted.
Check grammatical_text_rejected.
Check accepted_iff_grammatical.
Check accepted_language.
Check duplicate_declare_grammatical_but_rejected.
Check declared_before_rejected.
Check width_mismatch_rejected.
Check too_little_fuel.
Check declare_of_header_name_accepted.

Print Assumptions G_expr_Prints.
Print Assumptions G_expr_accepted.
Print Assumptions row_complete.
Print Assumptions data_row_complete.
Print Assumptions stmt_block_complete.
Print Assumptions program_complete.
Print Assumptions grammatical_verdict.
Print Assumptions grammatical_implies_accepted.
Print Assumptions grammatical_accepted_iff.
Print Assumptions grammatical_text_accepted.
Print Assumptions grammatical_text_rejected.
Print Assumptions accepted_iff_grammatical.
Print Assumptions accepted_language.
Print Assumptions duplicate_declare_grammatical_but_rejected.
Print Assumptions declared_before_rejected.
Print Assumptions width_mismatch_rejected.
Print Assumptions too_little_fuel.
Print Assumptions declare_of_header_name_accepted.
Print Assumptions ex_all_grammatical.
