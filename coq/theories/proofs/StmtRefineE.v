(* The statement iterator of Stmt.v (StmtIterator::next_with_context), driven by a caller
   that passes every yielded row to `handler`, every error item to `on_err`, and that calls
   the iterator AGAIN after an error item (with the iterator object as the failed call left
   it, Stmt.NErr) unless `on_err` stops, computes the sequential reading of StmtSpecE.v --
   for every program, every context, every handler, every error consumer.  Both directions:
     iterator_refines_sequential_reading_through_errors :
       whatever exec_e computes, drain_e computes;
     sequential_reading_refines_iterator_through_errors :
       whatever drain_e computes, exec_e computes.
   Also: exec_e never produces `Fail` (exec_e_never_fails), and a run of the reading of
   StmtSpec.v (which ends at the first error) that does not end in an error is the same run
   in the reading of StmtSpecE.v, for every error consumer (exec_e_agrees_unless_fail,
   exec_e_agrees_on_error_free_runs).
   The architecture is the one of StmtRefine.v, whose lemmas about `next` (next_S,
   next_mono) and about `bindo` are reused.  Fuel is only the recursion bound of the two
   models; a result other than OutOfFuel is stable under more fuel (drain_e_mono,
   exec_e_mono). *)
From DTR Require Import Prelude I64 Ast Stmt StmtSpec StmtSpecE.
From DTR.proofs Require Import StmtRefine.
Open Scope Z_scope.

Local Arguments NYield {C F W} w line it c.
Local Arguments NDone {C F W} it c.
Local Arguments NErr {C F W} f it c.
Local Arguments NPanic {C F W} site.
Local Arguments NOOF {C F W}.
Local Arguments bindo {C F H} a k.

Section REFINE_E.
Variables (C F W : Type).
Variable eval : C -> expr -> C * (Z + F).
Variable row_eval : C -> list dentry -> C * (W + F).
Variable setv : C -> name -> Z -> C.
Variable getv : C -> name -> option Z.
Variables push pop reset : C -> C.
Variable H : Type.
Variable handler : H -> W * N -> C -> (H * C) + H.
Variable on_err : H -> F -> C -> (H * C) + H.

Local Notation nres := (Stmt.nres C F W).
Local Notation outcome := (StmtSpec.outcome C F H).
Local Notation next := (Stmt.next C F W eval row_eval setv getv push pop reset).
Local Notation exec_e :=
  (StmtSpecE.exec_e C F W eval row_eval setv getv push pop reset H handler on_err).
Local Notation for_loop_e :=
  (StmtSpecE.for_loop_e C F W eval row_eval setv getv push pop reset H handler on_err).
Local Notation while_loop_e :=
  (StmtSpecE.while_loop_e C F W eval row_eval setv getv push pop reset H handler on_err).
Local Notation exec :=
  (StmtSpec.exec C F W eval row_eval setv getv push pop reset H handler).
Local Notation for_loop :=
  (StmtSpec.for_loop C F W eval row_eval setv getv push pop reset H handler).
Local Notation while_loop :=
  (StmtSpec.while_loop C F W eval row_eval setv getv push pop reset H handler).
(* reused from StmtRefine.v *)
Local Notation next_S := (StmtRefine.next_S C F W eval row_eval setv getv push pop reset).
Local Notation next_mono := (StmtRefine.next_mono C F W eval row_eval setv getv push pop reset).
Local Notation bindo_mono := (StmtRefine.bindo_mono C F H).

(* the caller's loop: pull items until the iterator is done, the handler stops at a row,
   or the error consumer stops at an error item; after an error item the iterator is
   called again, in the state the failed call left *)
Fixpoint drain_e (fuel : nat) (it : siter) (c : C) (h : H) {struct fuel} : outcome :=
  match fuel with O => OutOfFuel | S f =>
  match next f it c with
  | NYield w l it' c' =>
      match handler h (w, l) c' with
      | inl (h2, c2) => drain_e f it' c2 h2
      | inr h2 => Stop h2
      end
  | NDone _ c' => Fin c' h
  | NErr x it' c' =>
      match on_err h x c' with
      | inl (h2, c2) => drain_e f it' c2 h2
      | inr h2 => Stop h2
      end
  | NPanic s => Crash s
  | NOOF => OutOfFuel
  end end.

(* ------------------------------------------------------------------ *)
(* one-step unfoldings *)

Lemma drain_e_S : forall f it c h, drain_e (S f) it c h =
  match next f it c with
  | NYield w l it' c' =>
      match handler h (w, l) c' with
      | inl (h2, c2) => drain_e f it' c2 h2
      | inr h2 => Stop h2
      end
  | NDone _ c' => Fin c' h
  | NErr x it' c' =>
      match on_err h x c' with
      | inl (h2, c2) => drain_e f it' c2 h2
      | inr h2 => Stop h2
      end
  | NPanic s => Crash s
  | NOOF => OutOfFuel
  end.
Proof. reflexivity. Qed.

Lemma exec_e_O : forall ss c h, exec_e O ss c h = OutOfFuel.
Proof. reflexivity. Qed.
Lemma for_e_O : forall v m body c h, for_loop_e O v m body c h = OutOfFuel.
Proof. reflexivity. Qed.
Lemma while_e_O : forall e body c h, while_loop_e O e body c h = OutOfFuel.
Proof. reflexivity. Qed.

Lemma exec_e_S : forall f ss c h, exec_e (S f) ss c h =
  match ss with
  | [] => Fin c h
  | SLet n e :: r =>
      let (c1, v) := eval c e in
      match v with
      | inr x =>
        match on_err h x c1 with
        | inl (h2, c2) => exec_e f r c2 h2
        | inr h2 => Stop h2
        end
      | inl z => exec_e f r (setv c1 n z) h
      end
  | SRow d l :: r =>
      let (c1, v) := row_eval c d in
      match v with
      | inr x =>
        match on_err h x c1 with
        | inl (h2, c2) => exec_e f r c2 h2
        | inr h2 => Stop h2
        end
      | inl w =>
        match handler h (w, l) c1 with
        | inl (h2, c2) => exec_e f r c2 h2
        | inr h2 => Stop h2
        end
      end
  | SLoop v e body :: r =>
      let (c1, m) := eval c e in
      match m with
      | inr x =>
        match on_err h x c1 with
        | inl (h2, c2) => exec_e f r c2 h2
        | inr h2 => Stop h2
        end
      | inl m =>
        if 0 <? m then
          bindo (for_loop_e f v m body (setv (push c1) v 0) h)
                (fun c2 h2 => exec_e f r (pop c2) h2)
        else exec_e f r c1 h
      end
  | SWhile e body :: r =>
      bindo (while_loop_e f e body c h) (fun c2 h2 => exec_e f r c2 h2)
  | SReset :: r => exec_e f r (reset c) h
  end.
Proof. intros f ss c h. unfold bindo. reflexivity. Qed.

Lemma for_e_S : forall f v m body c h, for_loop_e (S f) v m body c h =
  bindo (exec_e f body c h) (fun c2 h2 =>
    match getv c2 v with
    | None => Crash 20%N
    | Some i => if wadd i 1 <? m then for_loop_e f v m body (setv c2 v (wadd i 1)) h2
                else Fin c2 h2
    end).
Proof. intros f v m body c h. unfold bindo. reflexivity. Qed.

Lemma while_e_S : forall f e body c h, while_loop_e (S f) e body c h =
  let (c1, v) := eval c e in
  match v with
  | inr x =>
    match on_err h x c1 with
    | inl (h2, c2) => while_loop_e f e body c2 h2
    | inr h2 => Stop h2
    end
  | inl z =>
    if z =? 0 then Fin c1 h
    else bindo (exec_e f body c1 h) (fun c2 h2 => while_loop_e f e body c2 h2)
  end.
Proof. intros f e body c h. unfold bindo. reflexivity. Qed.

(* ------------------------------------------------------------------ *)
(* monotonicity in fuel *)

Lemma drain_e_mono : forall f it c h o, drain_e f it c h = o -> o <> OutOfFuel ->
  forall f', (f <= f')%nat -> drain_e f' it c h = o.
Proof.
  induction f as [|f IH]; intros it c h o Hd Ho f' Hle; [simpl in Hd; congruence|].
  destruct f' as [|f']; [lia|]. assert (Hle' : (f <= f')%nat) by lia.
  rewrite drain_e_S in Hd. rewrite drain_e_S. destruct (next f it c) eqn:Hn.
  - erewrite (next_mono _ _ _ _ Hn); [| congruence | exact Hle'].
    destruct (handler h (w, line) c0) as [[h2 c2]|h2]; [|exact Hd]. eapply IH; eauto.
  - erewrite (next_mono _ _ _ _ Hn); [exact Hd | congruence | exact Hle'].
  - erewrite (next_mono _ _ _ _ Hn); [| congruence | exact Hle'].
    destruct (on_err h f0 c0) as [[h2 c2]|h2]; [|exact Hd]. eapply IH; eauto.
  - erewrite (next_mono _ _ _ _ Hn); [exact Hd | congruence | exact Hle'].
  - congruence.
Qed.

Definition M_exec_e f := forall ss c h o, exec_e f ss c h = o -> o <> OutOfFuel ->
  forall f', (f <= f')%nat -> exec_e f' ss c h = o.
Definition M_for_e f := forall v m body c h o, for_loop_e f v m body c h = o -> o <> OutOfFuel ->
  forall f', (f <= f')%nat -> for_loop_e f' v m body c h = o.
Definition M_while_e f := forall e body c h o, while_loop_e f e body c h = o -> o <> OutOfFuel ->
  forall f', (f <= f')%nat -> while_loop_e f' e body c h = o.

Lemma all_mono_e : forall f, M_exec_e f /\ M_for_e f /\ M_while_e f.
Proof.
  induction f as [|f [IHe [IHf IHw]]].
  - split; [|split].
    + intros ss c h o He Ho. rewrite exec_e_O in He. congruence.
    + intros v m body c h o He Ho. rewrite for_e_O in He. congruence.
    + intros e body c h o He Ho. rewrite while_e_O in He. congruence.
  - repeat split.
    + intros ss c h o He Ho f' Hle.
      destruct f' as [|f']; [lia|]. assert (Hle' : (f <= f')%nat) by lia.
      rewrite exec_e_S in He. rewrite exec_e_S.
      destruct ss as [|s r]; [exact He|]. destruct s as [n e|d l|v e body|e body|].
      * destruct (eval c e) as [c1 [z|x]]; [eapply IHe; eauto|].
        destruct (on_err h x c1) as [[h2 c2]|h2]; [|exact He]. eapply IHe; eauto.
      * destruct (row_eval c d) as [c1 [w|x]].
        -- destruct (handler h (w, l) c1) as [[h2 c2]|h2]; [|exact He]. eapply IHe; eauto.
        -- destruct (on_err h x c1) as [[h2 c2]|h2]; [|exact He]. eapply IHe; eauto.
      * destruct (eval c e) as [c1 [m|x]].
        -- destruct (0 <? m); [|eapply IHe; eauto].
           eapply bindo_mono; [exact He | exact Ho | |].
           ++ intro Hne. eapply IHf; eauto.
           ++ intros c2 h2 Hk. eapply IHe; eauto.
        -- destruct (on_err h x c1) as [[h2 c2]|h2]; [|exact He]. eapply IHe; eauto.
      * eapply bindo_mono; [exact He | exact Ho | |].
        -- intro Hne. eapply IHw; eauto.
        -- intros c2 h2 Hk. eapply IHe; eauto.
      * eapply IHe; eauto.
    + intros v m body c h o Hfl Ho f' Hle.
      destruct f' as [|f']; [lia|]. assert (Hle' : (f <= f')%nat) by lia.
      rewrite for_e_S in Hfl. rewrite for_e_S.
      eapply bindo_mono; [exact Hfl | exact Ho | |].
      * intro Hne. eapply IHe; eauto.
      * intros c2 h2 Hk. cbv beta in Hk. cbv beta.
        destruct (getv c2 v) as [i|]; [|exact Hk].
        destruct (wadd i 1 <? m); [|exact Hk]. eapply IHf; eauto.
    + intros e body c h o Hwl Ho f' Hle.
      destruct f' as [|f']; [lia|]. assert (Hle' : (f <= f')%nat) by lia.
      rewrite while_e_S in Hwl. rewrite while_e_S.
      destruct (eval c e) as [c1 [z|x]].
      * destruct (z =? 0); [exact Hwl|].
        eapply bindo_mono; [exact Hwl | exact Ho | |].
        -- intro Hne. eapply IHe; eauto.
        -- intros c2 h2 Hk. eapply IHw; eauto.
      * destruct (on_err h x c1) as [[h2 c2]|h2]; [|exact Hwl]. eapply IHw; eauto.
Qed.

Lemma exec_e_mono : forall f ss c h o, exec_e f ss c h = o -> o <> OutOfFuel ->
  forall f', (f <= f')%nat -> exec_e f' ss c h = o.
Proof. intro f. exact (proj1 (all_mono_e f)). Qed.

Lemma for_loop_e_mono : forall f v m body c h o, for_loop_e f v m body c h = o -> o <> OutOfFuel ->
  forall f', (f <= f')%nat -> for_loop_e f' v m body c h = o.
Proof. intro f. exact (proj1 (proj2 (all_mono_e f))). Qed.

Lemma while_loop_e_mono : forall f e body c h o, while_loop_e f e body c h = o -> o <> OutOfFuel ->
  forall f', (f <= f')%nat -> while_loop_e f' e body c h = o.
Proof. intro f. exact (proj2 (proj2 (all_mono_e f))). Qed.

(* ------------------------------------------------------------------ *)
(* the reading through errors never ends with a failure *)

Lemma bindo_not_fail : forall (a : outcome) (k : C -> H -> outcome) x c h,
  (forall x' c' h', a <> Fail x' c' h') -> (forall c1 h1, k c1 h1 <> Fail x c h) ->
  bindo a k <> Fail x c h.
Proof.
  intros a k x c h Ha Hk. destruct a as [c1 h1|h1|x1 c1 h1|s|]; simpl; try discriminate.
  - apply Hk.
  - exfalso. eapply Ha. reflexivity.
Qed.

Lemma never_fails_all : forall f,
  (forall ss c h x c' h', exec_e f ss c h <> Fail x c' h') /\
  (forall v m body c h x c' h', for_loop_e f v m body c h <> Fail x c' h') /\
  (forall e body c h x c' h', while_loop_e f e body c h <> Fail x c' h').
Proof.
  induction f as [|f [IHe [IHf IHw]]].
  - repeat split; intros; discriminate.
  - repeat split.
    + intros ss c h x c' h'. rewrite exec_e_S.
      destruct ss as [|s r]; [discriminate|]. destruct s as [n e|d l|v e body|e body|].
      * destruct (eval c e) as [c1 [z|y]]; [apply IHe|].
        destruct (on_err h y c1) as [[h2 c2]|h2]; [apply IHe|discriminate].
      * destruct (row_eval c d) as [c1 [w|y]].
        -- destruct (handler h (w, l) c1) as [[h2 c2]|h2]; [apply IHe|discriminate].
        -- destruct (on_err h y c1) as [[h2 c2]|h2]; [apply IHe|discriminate].
      * destruct (eval c e) as [c1 [m|y]].
        -- destruct (0 <? m); [|apply IHe].
           apply bindo_not_fail; [intros; apply IHf | intros; apply IHe].
        -- destruct (on_err h y c1) as [[h2 c2]|h2]; [apply IHe|discriminate].
      * apply bindo_not_fail; [intros; apply IHw | intros; apply IHe].
      * apply IHe.
    + intros v m body c h x c' h'. rewrite for_e_S.
      apply bindo_not_fail; [intros; apply IHe|]. intros c1 h1.
      destruct (getv c1 v) as [i|]; [|discriminate].
      destruct (wadd i 1 <? m); [apply IHf|discriminate].
    + intros e body c h x c' h'. rewrite while_e_S.
      destruct (eval c e) as [c1 [z|y]].
      * destruct (z =? 0); [discriminate|].
        apply bindo_not_fail; [intros; apply IHe | intros; apply IHw].
      * destruct (on_err h y c1) as [[h2 c2]|h2]; [apply IHw|discriminate].
Qed.

Lemma never_fails : forall f ss c h x c' h', exec_e f ss c h <> Fail x c' h'.
Proof. intro f. exact (proj1 (never_fails_all f)). Qed.

(* ------------------------------------------------------------------ *)
(* exec_e ==> drain_e *)

(* draining [it] from (c, h) converges to o *)
Definition Conv (it : siter) (c : C) (h : H) (o : outcome) : Prop :=
  exists f, drain_e f it c h = o /\ o <> OutOfFuel.

(* a silent transition of the iterator, valid for all fuel above a threshold *)
Lemma conv_silent : forall k it c it' c' h o,
  (forall f, (k <= f)%nat -> next (S f) it c = next f it' c') ->
  Conv it' c' h o -> Conv it c h o.
Proof.
  intros k it c it' c' h o Hs [f [Hd Ho]].
  destruct f as [|f]; [simpl in Hd; congruence|].
  exists (S (S (Nat.max k f))). split; [|exact Ho].
  assert (Hd' : drain_e (S (Nat.max k f)) it' c' h = o) by (eapply drain_e_mono; eauto; lia).
  rewrite drain_e_S in Hd'. rewrite drain_e_S. rewrite Hs by lia.
  destruct (next (Nat.max k f) it' c') as [w line it0 c0|it0 c0|x it0 c0|s|] eqn:Hn;
    try exact Hd'.
  - destruct (handler h (w, line) c0) as [[h2 c2]|h2]; [|exact Hd'].
    eapply drain_e_mono; eauto.
  - destruct (on_err h x c0) as [[h2 c2]|h2]; [|exact Hd'].
    eapply drain_e_mono; eauto.
Qed.

Lemma conv_yield : forall k it c w l it' c' h o,
  (forall f, (k <= f)%nat -> next (S f) it c = NYield w l it' c') ->
  match handler h (w, l) c' with
  | inl (h2, c2) => Conv it' c2 h2 o
  | inr h2 => o = Stop h2
  end -> Conv it c h o.
Proof.
  intros k it c w l it' c' h o Hs Hh.
  destruct (handler h (w, l) c') as [[h2 c2]|h2] eqn:Hhd.
  - destruct Hh as [f [Hd Ho]]. exists (S (S (Nat.max k f))). split; [|exact Ho].
    rewrite drain_e_S. rewrite Hs by lia. rewrite Hhd. eapply drain_e_mono; eauto. lia.
  - subst o. exists (S (S k)). split; [|congruence].
    rewrite drain_e_S. rewrite Hs by lia. rewrite Hhd. reflexivity.
Qed.

(* an error item: the caller goes on with the iterator the failed call left *)
Lemma conv_err : forall k it c x it' c' h o,
  (forall f, (k <= f)%nat -> next (S f) it c = NErr x it' c') ->
  match on_err h x c' with
  | inl (h2, c2) => Conv it' c2 h2 o
  | inr h2 => o = Stop h2
  end -> Conv it c h o.
Proof.
  intros k it c x it' c' h o Hs Hh.
  destruct (on_err h x c') as [[h2 c2]|h2] eqn:Hhd.
  - destruct Hh as [f [Hd Ho]]. exists (S (S (Nat.max k f))). split; [|exact Ho].
    rewrite drain_e_S. rewrite Hs by lia. rewrite Hhd. eapply drain_e_mono; eauto. lia.
  - subst o. exists (S (S k)). split; [|congruence].
    rewrite drain_e_S. rewrite Hs by lia. rewrite Hhd. reflexivity.
Qed.

Lemma conv_const : forall k it c h (r : nres) o,
  (forall f, (k <= f)%nat -> next (S f) it c = r) ->
  match r with
  | NDone _ c' => o = Fin c' h
  | NPanic s => o = Crash s
  | _ => False
  end ->
  Conv it c h o.
Proof.
  intros k it c h r o Hs Hr. exists (S (S k)). rewrite drain_e_S. rewrite Hs by lia.
  destruct r; try contradiction; subst; split; congruence.
Qed.

(* delegation to an inner iterator *)
Lemma conv_inner_gen : forall (wrap : siter -> siter) (after : siter),
  (forall f inner c, next (S f) (wrap inner) c =
     match next f inner c with
     | NYield w l inner' c' => NYield w l (wrap inner') c'
     | NDone _ c' => next f after c'
     | NErr x inner' c' => NErr x (wrap inner') c'
     | o => o end) ->
  forall f inner c h o, drain_e f inner c h = o -> o <> OutOfFuel ->
    match o with
    | Fin c' h' => forall o', Conv after c' h' o' -> Conv (wrap inner) c h o'
    | _ => Conv (wrap inner) c h o
    end.
Proof.
  intros wrap after Hw. induction f as [|f IH]; intros inner c h o Hd Ho; [simpl in Hd; congruence|].
  rewrite drain_e_S in Hd. destruct (next f inner c) as [w line it c0|it c0|x it c0|s|] eqn:Hn.
  - (* yield *)
    assert (Hy : forall f0, (f <= f0)%nat -> next (S f0) (wrap inner) c = NYield w line (wrap it) c0).
    { intros f0 Hf0. rewrite Hw. erewrite (next_mono _ _ _ _ Hn); [reflexivity|congruence|exact Hf0]. }
    destruct (handler h (w, line) c0) as [[h2 c2]|h2] eqn:Hh.
    + specialize (IH _ _ _ _ Hd Ho).
      destruct o; try (eapply conv_yield; [exact Hy| rewrite Hh; exact IH]).
      intros o' Ho'. eapply conv_yield; [exact Hy| rewrite Hh; eauto].
    + subst o. eapply conv_yield; [exact Hy| rewrite Hh; reflexivity].
  - (* done *)
    subst o. intros o' Ho'. eapply conv_silent with (k := f); [|exact Ho'].
    intros f0 Hf0. rewrite Hw. erewrite (next_mono _ _ _ _ Hn); [reflexivity|congruence|exact Hf0].
  - (* error item *)
    assert (Hy : forall f0, (f <= f0)%nat -> next (S f0) (wrap inner) c = NErr x (wrap it) c0).
    { intros f0 Hf0. rewrite Hw. erewrite (next_mono _ _ _ _ Hn); [reflexivity|congruence|exact Hf0]. }
    destruct (on_err h x c0) as [[h2 c2]|h2] eqn:Hh.
    + specialize (IH _ _ _ _ Hd Ho).
      destruct o; try (eapply conv_err; [exact Hy| rewrite Hh; exact IH]).
      intros o' Ho'. eapply conv_err; [exact Hy| rewrite Hh; eauto].
    + subst o. eapply conv_err; [exact Hy| rewrite Hh; reflexivity].
  - subst o. eapply conv_const with (k := f) (r := NPanic s); [|reflexivity].
    intros f0 Hf0. rewrite Hw. erewrite (next_mono _ _ _ _ Hn); [reflexivity|congruence|exact Hf0].
  - congruence.
Qed.

Lemma conv_loop_inner : forall rest ls f inner c h o, drain_e f inner c h = o -> o <> OutOfFuel ->
    match o with
    | Fin c' h' => forall o', Conv (SI rest (EndInner ls)) c' h' o' ->
                              Conv (SI rest (IterInner inner ls)) c h o'
    | _ => Conv (SI rest (IterInner inner ls)) c h o
    end.
Proof.
  intros rest ls.
  apply (conv_inner_gen (fun i => SI rest (IterInner i ls)) (SI rest (EndInner ls))).
  intros f inner c. rewrite next_S. reflexivity.
Qed.

Lemma conv_while_inner : forall rest ws f inner c h o, drain_e f inner c h = o -> o <> OutOfFuel ->
    match o with
    | Fin c' h' => forall o', Conv (SI rest (StartWhile ws)) c' h' o' ->
                              Conv (SI rest (WhileInner inner ws)) c h o'
    | _ => Conv (SI rest (WhileInner inner ws)) c h o
    end.
Proof.
  intros rest ws.
  apply (conv_inner_gen (fun i => SI rest (WhileInner i ws)) (SI rest (StartWhile ws))).
  intros f inner c. rewrite next_S. reflexivity.
Qed.

Ltac red_next := rewrite next_S; cbn [lvar lmax lbody wcond wbody].
Ltac silent := eapply conv_silent with (k := O); [intros ? _; red_next; try reflexivity|].

Definition P_exec f := forall ss c h o, exec_e f ss c h = o -> o <> OutOfFuel ->
  Conv (SI ss Iterate) c h o.
Definition P_for f := forall ls c h o r,
  for_loop_e f (lvar ls) (lmax ls) (lbody ls) c h = o -> o <> OutOfFuel ->
  match o with
  | Fin c2 h2 => forall o', Conv (SI r Iterate) (pop c2) h2 o' -> Conv (SI r (StartInner ls)) c h o'
  | _ => Conv (SI r (StartInner ls)) c h o
  end.
Definition P_while f := forall ws c h o r,
  while_loop_e f (wcond ws) (wbody ws) c h = o -> o <> OutOfFuel ->
  match o with
  | Fin c2 h2 => forall o', Conv (SI r Iterate) c2 h2 o' -> Conv (SI r (StartWhile ws)) c h o'
  | _ => Conv (SI r (StartWhile ws)) c h o
  end.

Lemma all_P : forall f, P_exec f /\ P_for f /\ P_while f.
Proof.
  induction f as [|f [IHe [IHf IHw]]].
  - split; [|split].
    + intros ss c h o He Ho. rewrite exec_e_O in He. congruence.
    + intros ls c h o r He Ho. rewrite for_e_O in He. congruence.
    + intros ws c h o r He Ho. rewrite while_e_O in He. congruence.
  - repeat split.
    + (* exec_e *)
      red. intros ss c h o He Ho. rewrite exec_e_S in He. destruct ss as [|s r].
      * subst o. eapply conv_const with (k := O) (r := NDone (SI [] Iterate) c);
          [intros; reflexivity|reflexivity].
      * destruct s as [n e|d line|v e body|e body|].
        -- (* SLet *) destruct (eval c e) as [c1 [z|x]] eqn:Hev.
           ++ silent. rewrite Hev. reflexivity. eapply IHe; eauto.
           ++ eapply conv_err with (k := O) (x := x) (it' := SI r Iterate) (c' := c1).
              { intros; red_next. rewrite Hev. reflexivity. }
              destruct (on_err h x c1) as [[h2 c2]|h2]; [eapply IHe; eauto | congruence].
        -- (* SRow *) destruct (row_eval c d) as [c1 [w|x]] eqn:Hev.
           ++ eapply conv_yield with (k := O) (w := w) (l := line) (it' := SI r Iterate) (c' := c1).
              { intros; red_next. rewrite Hev. reflexivity. }
              destruct (handler h (w, line) c1) as [[h2 c2]|h2]; [eapply IHe; eauto | congruence].
           ++ eapply conv_err with (k := O) (x := x) (it' := SI r Iterate) (c' := c1).
              { intros; red_next. rewrite Hev. reflexivity. }
              destruct (on_err h x c1) as [[h2 c2]|h2]; [eapply IHe; eauto | congruence].
        -- (* SLoop *) destruct (eval c e) as [c1 [m|x]] eqn:Hev.
           ++ silent. rewrite Hev. reflexivity.
              set (ls := {| lvar := v; lmax := m; lbody := body |}).
              destruct (0 <? m) eqn:Hm.
              ** silent. fold ls. change (lmax ls) with m. rewrite Hm. reflexivity.
                 unfold bindo in He.
                 destruct (for_loop_e f v m body (setv (push c1) v 0) h) eqn:Hfl.
                 { pose proof (IHf ls _ _ _ r Hfl ltac:(congruence)) as Hc. cbn beta iota in Hc.
                   apply Hc. eapply IHe; eauto. }
                 all: subst o; pose proof (IHf ls _ _ _ r Hfl ltac:(congruence)) as Hc;
                   cbn beta iota in Hc; try exact Hc; congruence.
              ** silent. change (lmax ls) with m. rewrite Hm. reflexivity. eapply IHe; eauto.
           ++ eapply conv_err with (k := O) (x := x) (it' := SI r Iterate) (c' := c1).
              { intros; red_next. rewrite Hev. reflexivity. }
              destruct (on_err h x c1) as [[h2 c2]|h2]; [eapply IHe; eauto | congruence].
        -- (* SWhile *) silent.
           set (ws := {| wcond := e; wbody := body |}).
           unfold bindo in He.
           destruct (while_loop_e f e body c h) eqn:Hwl.
           { pose proof (IHw ws _ _ _ r Hwl ltac:(congruence)) as Hc. cbn beta iota in Hc.
             apply Hc. eapply IHe; eauto. }
           all: subst o; pose proof (IHw ws _ _ _ r Hwl ltac:(congruence)) as Hc;
             cbn beta iota in Hc; try exact Hc; congruence.
        -- (* SReset *) silent. eapply IHe; eauto.
    + (* for *)
      unfold P_for. intros ls c h o r Hfl Ho. rewrite for_e_S in Hfl. unfold bindo in Hfl.
      assert (Hstart : forall o', Conv (SI r (IterInner (SI (lbody ls) Iterate) ls)) c h o' ->
                                  Conv (SI r (StartInner ls)) c h o').
      { intros o' Hc. silent. exact Hc. }
      destruct (exec_e f (lbody ls) c h) as [c0 h0|h0|x c0 h0|s|] eqn:Hex.
      * (* body finished *)
        destruct (IHe _ _ _ _ Hex ltac:(congruence)) as [fb [Hdb _]].
        pose proof (conv_loop_inner r ls _ _ _ _ _ Hdb ltac:(congruence)) as Hin.
        cbn beta iota in Hin.
        destruct (getv c0 (lvar ls)) as [i|] eqn:Hg.
        -- destruct (wadd i 1 <? lmax ls) eqn:Hlt.
           ++ (* iterate again *)
              pose proof (IHf _ _ _ _ r Hfl Ho) as Hrec.
              assert (Hend : forall o', Conv (SI r (StartInner ls)) (setv c0 (lvar ls) (wadd i 1)) h0 o' ->
                                        Conv (SI r (EndInner ls)) c0 h0 o').
              { intros o' Hc. silent. rewrite Hg. rewrite Hlt. reflexivity. exact Hc. }
              destruct o; try (apply Hstart, Hin, Hend, Hrec).
              intros o' Ho'. apply Hstart, Hin, Hend, Hrec, Ho'.
           ++ subst o. intros o' Ho'. apply Hstart, Hin. silent. rewrite Hg. rewrite Hlt. reflexivity.
              exact Ho'.
        -- subst o. apply Hstart, Hin. eapply conv_const with (k := O) (r := NPanic 20%N); [|reflexivity].
           intros; red_next. rewrite Hg. reflexivity.
      * subst o. apply Hstart. destruct (IHe _ _ _ _ Hex ltac:(congruence)) as [fb [Hdb _]].
        exact (conv_loop_inner r ls _ _ _ _ _ Hdb ltac:(congruence)).
      * subst o. apply Hstart. destruct (IHe _ _ _ _ Hex ltac:(congruence)) as [fb [Hdb _]].
        exact (conv_loop_inner r ls _ _ _ _ _ Hdb ltac:(congruence)).
      * subst o. apply Hstart. destruct (IHe _ _ _ _ Hex ltac:(congruence)) as [fb [Hdb _]].
        exact (conv_loop_inner r ls _ _ _ _ _ Hdb ltac:(congruence)).
      * congruence.
    + (* while *)
      unfold P_while. intros ws c h o r Hwl Ho. rewrite while_e_S in Hwl.
      destruct (eval c (wcond ws)) as [c1 [z|x]] eqn:Hev.
      * destruct (z =? 0) eqn:Hz.
        -- subst o. intros o' Ho'. silent. rewrite Hev. rewrite Hz. reflexivity. exact Ho'.
        -- assert (Hstart : forall o', Conv (SI r (WhileInner (SI (wbody ws) Iterate) ws)) c1 h o' ->
                                       Conv (SI r (StartWhile ws)) c h o').
           { intros o' Hc. silent. rewrite Hev. rewrite Hz. reflexivity. exact Hc. }
           unfold bindo in Hwl.
           destruct (exec_e f (wbody ws) c1 h) as [c0 h0|h0|x c0 h0|s|] eqn:Hex.
           ++ destruct (IHe _ _ _ _ Hex ltac:(congruence)) as [fb [Hdb _]].
              pose proof (conv_while_inner r ws _ _ _ _ _ Hdb ltac:(congruence)) as Hin.
              cbn beta iota in Hin.
              pose proof (IHw _ _ _ _ r Hwl Ho) as Hrec.
              destruct o; try (apply Hstart, Hin, Hrec).
              intros o' Ho'. apply Hstart, Hin, Hrec, Ho'.
           ++ subst o. apply Hstart. destruct (IHe _ _ _ _ Hex ltac:(congruence)) as [fb [Hdb _]].
              exact (conv_while_inner r ws _ _ _ _ _ Hdb ltac:(congruence)).
           ++ subst o. apply Hstart. destruct (IHe _ _ _ _ Hex ltac:(congruence)) as [fb [Hdb _]].
              exact (conv_while_inner r ws _ _ _ _ _ Hdb ltac:(congruence)).
           ++ subst o. apply Hstart. destruct (IHe _ _ _ _ Hex ltac:(congruence)) as [fb [Hdb _]].
              exact (conv_while_inner r ws _ _ _ _ _ Hdb ltac:(congruence)).
           ++ congruence.
      * (* the condition fails: an error item, and the iterator is again at StartWhile *)
        assert (Hy : forall f0, (O <= f0)%nat ->
                  next (S f0) (SI r (StartWhile ws)) c = NErr x (SI r (StartWhile ws)) c1).
        { intros; red_next. rewrite Hev. reflexivity. }
        destruct (on_err h x c1) as [[h2 c2]|h2] eqn:Hon.
        -- pose proof (IHw _ _ _ _ r Hwl Ho) as Hrec.
           destruct o; try (eapply conv_err; [exact Hy | rewrite Hon; exact Hrec]).
           intros o' Ho'. eapply conv_err; [exact Hy | rewrite Hon; apply Hrec, Ho'].
        -- subst o. eapply conv_err; [exact Hy | rewrite Hon; reflexivity].
Qed.

Lemma refines_forward_e : forall prog c h fuel o,
  exec_e fuel prog c h = o -> o <> OutOfFuel ->
  exists fuel', drain_e fuel' (SI prog Iterate) c h = o.
Proof.
  intros prog c h fuel o He Ho. destruct (all_P fuel) as [Pe _].
  destruct (Pe _ _ _ _ He Ho) as [f' [Hd _]]. eauto.
Qed.

(* ------------------------------------------------------------------ *)
(* drain_e ==> exec_e *)

(* The work that remains from an arbitrary iterator state, in terms of the sequential
   reading through errors.  loop_from: the loop variable is set, run this pass and the
   following ones, then the rest.  end_inner: a pass has just ended.  while_from: about
   to test the condition. *)
Definition loop_from (f : nat) (rest : list stmt) (ls : lstate) (c : C) (h : H) : outcome :=
  bindo (for_loop_e f (lvar ls) (lmax ls) (lbody ls) c h) (fun c2 h2 => exec_e f rest (pop c2) h2).

Definition end_inner (f : nat) (rest : list stmt) (ls : lstate) (c : C) (h : H) : outcome :=
  match getv c (lvar ls) with
  | None => Crash 20%N
  | Some i => if wadd i 1 <? lmax ls
              then loop_from f rest ls (setv c (lvar ls) (wadd i 1)) h
              else exec_e f rest (pop c) h
  end.

Definition while_from (f : nat) (rest : list stmt) (ws : wstate) (c : C) (h : H) : outcome :=
  bindo (while_loop_e f (wcond ws) (wbody ws) c h) (fun c2 h2 => exec_e f rest c2 h2).

Fixpoint run (f : nat) (it : siter) (c : C) (h : H) {struct it} : outcome :=
  match it with SI rest st =>
  match st with
  | Iterate => exec_e f rest c h
  | StartLoop ls =>
      if 0 <? lmax ls then loop_from f rest ls (setv (push c) (lvar ls) 0) h
      else exec_e f rest c h
  | StartInner ls => loop_from f rest ls c h
  | IterInner inner ls => bindo (run f inner c h) (end_inner f rest ls)
  | EndInner ls => end_inner f rest ls c h
  | StartWhile ws => while_from f rest ws c h
  | WhileInner inner ws => bindo (run f inner c h) (while_from f rest ws)
  end end.

Lemma loop_from_mono : forall f rest ls c h o, loop_from f rest ls c h = o -> o <> OutOfFuel ->
  forall f', (f <= f')%nat -> loop_from f' rest ls c h = o.
Proof.
  intros f rest ls c h o Hl Ho f' Hle. unfold loop_from in *.
  eapply bindo_mono; [exact Hl | exact Ho | |].
  - intro Hne. eapply for_loop_e_mono; eauto.
  - intros c2 h2 Hk. cbv beta in Hk. eapply exec_e_mono; eauto.
Qed.

Lemma end_inner_mono : forall f rest ls c h o, end_inner f rest ls c h = o -> o <> OutOfFuel ->
  forall f', (f <= f')%nat -> end_inner f' rest ls c h = o.
Proof.
  intros f rest ls c h o Hl Ho f' Hle. unfold end_inner in *.
  destruct (getv c (lvar ls)) as [i|]; [|exact Hl].
  destruct (wadd i 1 <? lmax ls); [eapply loop_from_mono | eapply exec_e_mono]; eauto.
Qed.

Lemma while_from_mono : forall f rest ws c h o, while_from f rest ws c h = o -> o <> OutOfFuel ->
  forall f', (f <= f')%nat -> while_from f' rest ws c h = o.
Proof.
  intros f rest ws c h o Hl Ho f' Hle. unfold while_from in *.
  eapply bindo_mono; [exact Hl | exact Ho | |].
  - intro Hne. eapply while_loop_e_mono; eauto.
  - intros c2 h2 Hk. cbv beta in Hk. eapply exec_e_mono; eauto.
Qed.

Lemma run_mono : forall it f c h o, run f it c h = o -> o <> OutOfFuel ->
  forall f', (f <= f')%nat -> run f' it c h = o.
Proof.
  induction it using siter_mind with
    (P0 := fun st => forall rest f c h o, run f (SI rest st) c h = o -> o <> OutOfFuel ->
       forall f', (f <= f')%nat -> run f' (SI rest st) c h = o).
  - intros f c h o Hr Ho f' Hle. eapply IHit; eauto.
  - intros rest f c h o Hr Ho f' Hle. cbn [run] in *. eapply exec_e_mono; eauto.
  - intros rest f c h o Hr Ho f' Hle. cbn [run] in *.
    destruct (0 <? lmax ls); [eapply loop_from_mono | eapply exec_e_mono]; eauto.
  - intros rest f c h o Hr Ho f' Hle. cbn [run] in *. eapply loop_from_mono; eauto.
  - intros rest f c h o Hr Ho f' Hle. cbn [run] in *.
    eapply bindo_mono; [exact Hr | exact Ho | |].
    + intro Hne. eapply IHit; eauto.
    + intros c2 h2 Hk. eapply end_inner_mono; eauto.
  - intros rest f c h o Hr Ho f' Hle. cbn [run] in *. eapply end_inner_mono; eauto.
  - intros rest f c h o Hr Ho f' Hle. cbn [run] in *. eapply while_from_mono; eauto.
  - intros rest f c h o Hr Ho f' Hle. cbn [run] in *.
    eapply bindo_mono; [exact Hr | exact Ho | |].
    + intro Hne. eapply IHit; eauto.
    + intros c2 h2 Hk. eapply while_from_mono; eauto.
Qed.

(* the remaining work of [it] from (c, h) converges to o *)
Definition RConv (it : siter) (c : C) (h : H) (o : outcome) : Prop :=
  exists f, run f it c h = o /\ o <> OutOfFuel.

(* states that delegate to an inner iterator: run is a bind *)
Section WRAP.
Variable wrap : siter -> siter.
Variable after : siter.
Hypothesis Hw : forall f inner c h,
  run f (wrap inner) c h = bindo (run f inner c h) (run f after).

Lemma rconv_bind_fin : forall inner c h c' h' o,
  RConv inner c h (Fin c' h') -> RConv after c' h' o -> RConv (wrap inner) c h o.
Proof.
  intros inner c h c' h' o [f1 [H1 _]] [f2 [H2 Ho]].
  exists (Nat.max f1 f2). split; [|exact Ho]. rewrite Hw.
  rewrite (run_mono _ _ _ _ _ H1 ltac:(congruence) (Nat.max f1 f2)) by lia.
  unfold bindo. eapply run_mono; eauto. lia.
Qed.

Lemma rconv_bind_other : forall inner c h o,
  RConv inner c h o -> (forall c' h', o <> Fin c' h') -> RConv (wrap inner) c h o.
Proof.
  intros inner c h o [f1 [H1 Ho]] Hnf. exists f1. split; [|exact Ho]. rewrite Hw, H1.
  destruct o as [c' h'| | | |]; try reflexivity. exfalso. eapply Hnf. reflexivity.
Qed.

Lemma rconv_bind_inv : forall inner c h o, RConv (wrap inner) c h o ->
  (exists c' h', RConv inner c h (Fin c' h') /\ RConv after c' h' o) \/
  (RConv inner c h o /\ forall c' h', o <> Fin c' h').
Proof.
  intros inner c h o [f1 [H1 Ho]]. rewrite Hw in H1.
  destruct (run f1 inner c h) as [c0 h0|h0|x c0 h0|s|] eqn:Hi; unfold bindo in H1.
  - left. exists c0, h0. split; [exists f1; split; [exact Hi|congruence] | exists f1; split; assumption].
  - right. subst o. split; [exists f1; split; [exact Hi|congruence] | congruence].
  - right. subst o. split; [exists f1; split; [exact Hi|congruence] | congruence].
  - right. subst o. split; [exists f1; split; [exact Hi|congruence] | congruence].
  - congruence.
Qed.

Lemma rconv_wrap_back : forall inner c h inner' c2 h2,
  (forall o1, RConv inner' c2 h2 o1 -> RConv inner c h o1) ->
  forall o, RConv (wrap inner') c2 h2 o -> RConv (wrap inner) c h o.
Proof.
  intros inner c h inner' c2 h2 Hb o Hc.
  destruct (rconv_bind_inv _ _ _ _ Hc) as [[c' [h' [Hi Ha]]] | [Hi Hnf]].
  - eapply rconv_bind_fin; [apply Hb; exact Hi | exact Ha].
  - apply rconv_bind_other; [apply Hb; exact Hi | exact Hnf].
Qed.
End WRAP.

(* what a result of [next] on (it, c) says about the remaining work of it; for an error
   item: what is left to do from the iterator the failed call left, if on_err goes on *)
Definition Good (r : nres) (it : siter) (c : C) : Prop :=
  match r with
  | NYield w l it' c' => forall h,
      match handler h (w, l) c' with
      | inl (h2, c2) => forall o, RConv it' c2 h2 o -> RConv it c h o
      | inr h2 => RConv it c h (Stop h2)
      end
  | NDone _ c' => forall h, RConv it c h (Fin c' h)
  | NErr x it' c' => forall h,
      match on_err h x c' with
      | inl (h2, c2) => forall o, RConv it' c2 h2 o -> RConv it c h o
      | inr h2 => RConv it c h (Stop h2)
      end
  | NPanic s => forall h, RConv it c h (Crash s)
  | NOOF => True
  end.

Lemma good_silent : forall r it c it1 c1,
  (forall h o, RConv it1 c1 h o -> RConv it c h o) -> Good r it1 c1 -> Good r it c.
Proof.
  intros r it c it1 c1 Hs Hg. destruct r as [w l it' c'|it' c'|x it' c'|s|]; cbn [Good] in *.
  - intro h. specialize (Hg h). destruct (handler h (w, l) c') as [[h2 c2]|h2].
    + intros o Hc. apply Hs, Hg, Hc.
    + apply Hs, Hg.
  - intro h. apply Hs, Hg.
  - intro h. specialize (Hg h). destruct (on_err h x c') as [[h2 c2]|h2].
    + intros o Hc. apply Hs, Hg, Hc.
    + apply Hs, Hg.
  - intro h. apply Hs, Hg.
  - exact I.
Qed.

Lemma good_wrap : forall (wrap : siter -> siter) (after : siter),
  (forall f inner c h, run f (wrap inner) c h = bindo (run f inner c h) (run f after)) ->
  forall f inner c,
  Good (next f inner c) inner c ->
  (forall c', Good (next f after c') after c') ->
  Good (match next f inner c with
        | NYield w l inner' c' => NYield w l (wrap inner') c'
        | NDone _ c' => next f after c'
        | NErr x inner' c' => NErr x (wrap inner') c'
        | o => o end) (wrap inner) c.
Proof.
  intros wrap after Hw f inner c Hg Ha.
  destruct (next f inner c) as [w l it' c'|it' c'|x it' c'|s|]; cbn [Good] in Hg.
  - cbn [Good]. intro h. specialize (Hg h). destruct (handler h (w, l) c') as [[h2 c2]|h2].
    + apply (rconv_wrap_back wrap after Hw). exact Hg.
    + apply (rconv_bind_other wrap after Hw); [exact Hg | congruence].
  - eapply good_silent; [|apply Ha].
    intros h o Hc. eapply (rconv_bind_fin wrap after Hw); [apply Hg | exact Hc].
  - cbn [Good]. intro h. specialize (Hg h). destruct (on_err h x c') as [[h2 c2]|h2].
    + apply (rconv_wrap_back wrap after Hw). exact Hg.
    + apply (rconv_bind_other wrap after Hw); [exact Hg | congruence].
  - cbn [Good]. intro h. apply (rconv_bind_other wrap after Hw); [apply Hg | congruence].
  - exact I.
Qed.

(* backward steps of the remaining work along the silent transitions of next *)
Lemma back_start_inner : forall rest ls c h o,
  RConv (SI rest (IterInner (SI (lbody ls) Iterate) ls)) c h o ->
  RConv (SI rest (StartInner ls)) c h o.
Proof.
  intros rest ls c h o [f0 [Hr Ho]]. exists (S f0). split; [|exact Ho].
  cbn [run] in *. unfold loop_from. rewrite for_e_S.
  destruct (exec_e f0 (lbody ls) c h) as [c2 h2|h2|x c2 h2|s|]; unfold bindo in Hr; try exact Hr.
  unfold end_inner in Hr. unfold bindo at 2.
  destruct (getv c2 (lvar ls)) as [i|]; [|exact Hr].
  destruct (wadd i 1 <? lmax ls).
  - unfold loop_from in Hr. eapply bindo_mono; [exact Hr | exact Ho | auto |].
    intros c3 h3 Hk. cbv beta in Hk. eapply exec_e_mono; eauto.
  - unfold bindo. eapply exec_e_mono; eauto.
Qed.

Lemma back_start_while : forall rest ws c c1 z h o,
  eval c (wcond ws) = (c1, inl z) ->
  RConv (SI rest (if z =? 0 then Iterate else WhileInner (SI (wbody ws) Iterate) ws)) c1 h o ->
  RConv (SI rest (StartWhile ws)) c h o.
Proof.
  intros rest ws c c1 z h o Hev [f0 [Hr Ho]]. exists (S f0). split; [|exact Ho].
  cbn [run]. unfold while_from. rewrite while_e_S, Hev.
  destruct (z =? 0); cbn [run] in Hr.
  - unfold bindo. eapply exec_e_mono; eauto.
  - destruct (exec_e f0 (wbody ws) c1 h) as [c2 h2|h2|x c2 h2|s|]; unfold bindo in Hr; try exact Hr.
    unfold bindo at 2. unfold while_from in Hr.
    eapply bindo_mono; [exact Hr | exact Ho | auto |].
    intros c3 h3 Hk. cbv beta in Hk. eapply exec_e_mono; eauto.
Qed.

(* the condition failed and on_err goes on: the remaining work is the same while, from the
   context on_err returned *)
Lemma back_while_retry : forall rest ws c c1 x h h2 c2 o,
  eval c (wcond ws) = (c1, inr x) ->
  on_err h x c1 = inl (h2, c2) ->
  RConv (SI rest (StartWhile ws)) c2 h2 o ->
  RConv (SI rest (StartWhile ws)) c h o.
Proof.
  intros rest ws c c1 x h h2 c2 o Hev Hon [f0 [Hr Ho]]. exists (S f0). split; [|exact Ho].
  cbn [run] in *. unfold while_from in *. rewrite while_e_S, Hev, Hon.
  eapply bindo_mono; [exact Hr | exact Ho | auto |].
  intros c3 h3 Hk. cbv beta in Hk. eapply exec_e_mono; eauto.
Qed.

Lemma next_good : forall f it c, Good (next f it c) it c.
Proof.
  induction f as [|f IH]; intros it c; [exact I|].
  rewrite next_S. destruct it as [rest st].
  destruct st as [|ls|ls|inner ls|ls|ws|inner ws].
  - (* Iterate *)
    destruct rest as [|s r].
    { intro h. exists 1%nat. split; [reflexivity|congruence]. }
    destruct s as [n e|d l|v e body|e body|].
    + destruct (eval c e) as [c1 [z|x]] eqn:Hev.
      * eapply good_silent; [|apply IH]. intros h o [f0 [Hr Ho]].
        exists (S f0). split; [|exact Ho]. cbn [run] in *. rewrite exec_e_S, Hev. exact Hr.
      * intro h. destruct (on_err h x c1) as [[h2 c2]|h2] eqn:Hh.
        -- intros o [f0 [Hr Ho]]. exists (S f0). split; [|exact Ho].
           cbn [run] in *. rewrite exec_e_S, Hev, Hh. exact Hr.
        -- exists 1%nat. split; [|congruence]. cbn [run]. rewrite exec_e_S, Hev, Hh. reflexivity.
    + destruct (row_eval c d) as [c1 [w|x]] eqn:Hev.
      * intro h. destruct (handler h (w, l) c1) as [[h2 c2]|h2] eqn:Hh.
        -- intros o [f0 [Hr Ho]]. exists (S f0). split; [|exact Ho].
           cbn [run] in *. rewrite exec_e_S, Hev, Hh. exact Hr.
        -- exists 1%nat. split; [|congruence]. cbn [run]. rewrite exec_e_S, Hev, Hh. reflexivity.
      * intro h. destruct (on_err h x c1) as [[h2 c2]|h2] eqn:Hh.
        -- intros o [f0 [Hr Ho]]. exists (S f0). split; [|exact Ho].
           cbn [run] in *. rewrite exec_e_S, Hev, Hh. exact Hr.
        -- exists 1%nat. split; [|congruence]. cbn [run]. rewrite exec_e_S, Hev, Hh. reflexivity.
    + destruct (eval c e) as [c1 [m|x]] eqn:Hev.
      * eapply good_silent; [|apply IH]. intros h o [f0 [Hr Ho]].
        exists (S f0). split; [|exact Ho]. cbn [run] in *. rewrite exec_e_S, Hev. exact Hr.
      * intro h. destruct (on_err h x c1) as [[h2 c2]|h2] eqn:Hh.
        -- intros o [f0 [Hr Ho]]. exists (S f0). split; [|exact Ho].
           cbn [run] in *. rewrite exec_e_S, Hev, Hh. exact Hr.
        -- exists 1%nat. split; [|congruence]. cbn [run]. rewrite exec_e_S, Hev, Hh. reflexivity.
    + eapply good_silent; [|apply IH]. intros h o [f0 [Hr Ho]].
      exists (S f0). split; [|exact Ho]. cbn [run] in *. rewrite exec_e_S. exact Hr.
    + eapply good_silent; [|apply IH]. intros h o [f0 [Hr Ho]].
      exists (S f0). split; [|exact Ho]. cbn [run] in *. rewrite exec_e_S. exact Hr.
  - (* StartLoop *)
    destruct (0 <? lmax ls) eqn:Hm; (eapply good_silent; [|apply IH]);
      intros h o [f0 [Hr Ho]]; exists f0; (split; [|exact Ho]); cbn [run] in *; rewrite Hm; exact Hr.
  - (* StartInner *)
    eapply good_silent; [|apply IH]. intros h o. apply back_start_inner.
  - (* IterInner *)
    apply (good_wrap (fun i => SI rest (IterInner i ls)) (SI rest (EndInner ls))).
    + reflexivity.
    + apply IH.
    + intro c'. apply IH.
  - (* EndInner *)
    destruct (getv c (lvar ls)) as [i|] eqn:Hg.
    + destruct (wadd i 1 <? lmax ls) eqn:Hlt; (eapply good_silent; [|apply IH]);
        intros h o [f0 [Hr Ho]]; exists f0; (split; [|exact Ho]); cbn [run] in *;
        unfold end_inner; rewrite Hg, Hlt; exact Hr.
    + intro h. exists O. split; [|congruence]. cbn [run]. unfold end_inner. rewrite Hg. reflexivity.
  - (* StartWhile *)
    destruct (eval c (wcond ws)) as [c1 [z|x]] eqn:Hev.
    + destruct (z =? 0) eqn:Hz; (eapply good_silent; [|apply IH]);
        intros h o Hc; apply (back_start_while _ _ _ _ _ _ _ Hev); rewrite Hz; exact Hc.
    + intro h. destruct (on_err h x c1) as [[h2 c2]|h2] eqn:Hh.
      * intros o Hc. exact (back_while_retry _ _ _ _ _ _ _ _ _ Hev Hh Hc).
      * exists 1%nat. split; [|congruence]. cbn [run]. unfold while_from.
        rewrite while_e_S, Hev, Hh. reflexivity.
  - (* WhileInner *)
    apply (good_wrap (fun i => SI rest (WhileInner i ws)) (SI rest (StartWhile ws))).
    + reflexivity.
    + apply IH.
    + intro c'. apply IH.
Qed.

Lemma drain_e_rconv : forall f it c h o, drain_e f it c h = o -> o <> OutOfFuel -> RConv it c h o.
Proof.
  induction f as [|f IH]; intros it c h o Hd Ho; [simpl in Hd; congruence|].
  rewrite drain_e_S in Hd. pose proof (next_good f it c) as Hg.
  destruct (next f it c) as [w l it' c'|it' c'|x it' c'|s|]; cbn [Good] in Hg.
  - specialize (Hg h). destruct (handler h (w, l) c') as [[h2 c2]|h2].
    + apply Hg. eapply IH; eauto.
    + subst o. exact Hg.
  - subst o. apply Hg.
  - specialize (Hg h). destruct (on_err h x c') as [[h2 c2]|h2].
    + apply Hg. eapply IH; eauto.
    + subst o. exact Hg.
  - subst o. apply Hg.
  - congruence.
Qed.

Lemma refines_backward_e : forall prog c h fuel o,
  drain_e fuel (SI prog Iterate) c h = o -> o <> OutOfFuel ->
  exists fuel', exec_e fuel' prog c h = o.
Proof.
  intros prog c h fuel o Hd Ho.
  destruct (drain_e_rconv _ _ _ _ _ Hd Ho) as [f' [Hr _]]. exists f'. exact Hr.
Qed.

(* ------------------------------------------------------------------ *)
(* the reading of StmtSpec.v (end at the first error) against the reading through errors:
   a run that does not end in an error never consulted on_err, so it is the same run *)

Local Notation exec_S0 :=
  (StmtRefine.exec_S C F W eval row_eval setv getv push pop reset H handler).
Local Notation for_S0 :=
  (StmtRefine.for_S C F W eval row_eval setv getv push pop reset H handler).
Local Notation while_S0 :=
  (StmtRefine.while_S C F W eval row_eval setv getv push pop reset H handler).

Definition no_fail (o : outcome) : Prop := forall x c h, o <> Fail x c h.

Lemma bindo_agree : forall (a a' : outcome) (k k' : C -> H -> outcome) o,
  bindo a k = o -> no_fail o -> o <> OutOfFuel ->
  (no_fail a -> a <> OutOfFuel -> a' = a) ->
  (forall c h, k c h = o -> k' c h = o) ->
  bindo a' k' = o.
Proof.
  intros a a' k k' o Hb Hnf Ho Ha Hk.
  destruct a as [c1 h1|h1|x c1 h1|s|]; simpl in Hb.
  - rewrite Ha; [simpl; apply Hk; exact Hb | intros ? ? ?; discriminate | discriminate].
  - rewrite Ha; [exact Hb | intros ? ? ?; discriminate | discriminate].
  - subst o. exfalso. eapply Hnf. reflexivity.
  - rewrite Ha; [exact Hb | intros ? ? ?; discriminate | discriminate].
  - congruence.
Qed.

Definition A_exec f := forall ss c h o, exec f ss c h = o -> no_fail o -> o <> OutOfFuel ->
  exec_e f ss c h = o.
Definition A_for f := forall v m body c h o, for_loop f v m body c h = o -> no_fail o ->
  o <> OutOfFuel -> for_loop_e f v m body c h = o.
Definition A_while f := forall e body c h o, while_loop f e body c h = o -> no_fail o ->
  o <> OutOfFuel -> while_loop_e f e body c h = o.

Lemma all_agree : forall f, A_exec f /\ A_for f /\ A_while f.
Proof.
  induction f as [|f [IHe [IHf IHw]]].
  - split; [|split].
    + intros ss c h o He _ Ho. cbn in He. congruence.
    + intros v m body c h o He _ Ho. cbn in He. congruence.
    + intros e body c h o He _ Ho. cbn in He. congruence.
  - repeat split.
    + intros ss c h o He Hnf Ho. rewrite exec_S0 in He. rewrite exec_e_S.
      destruct ss as [|s r]; [exact He|]. destruct s as [n e|d l|v e body|e body|].
      * destruct (eval c e) as [c1 [z|x]]; [apply IHe; assumption|].
        subst o. exfalso. eapply Hnf. reflexivity.
      * destruct (row_eval c d) as [c1 [w|x]].
        -- destruct (handler h (w, l) c1) as [[h2 c2]|h2]; [apply IHe; assumption|exact He].
        -- subst o. exfalso. eapply Hnf. reflexivity.
      * destruct (eval c e) as [c1 [m|x]].
        -- destruct (0 <? m); [|apply IHe; assumption].
           eapply bindo_agree; [exact He | exact Hnf | exact Ho | |].
           ++ intros Hn1 Hn2. apply IHf; [reflexivity | exact Hn1 | exact Hn2].
           ++ intros c2 h2 Hk. apply IHe; assumption.
        -- subst o. exfalso. eapply Hnf. reflexivity.
      * eapply bindo_agree; [exact He | exact Hnf | exact Ho | |].
        -- intros Hn1 Hn2. apply IHw; [reflexivity | exact Hn1 | exact Hn2].
        -- intros c2 h2 Hk. apply IHe; assumption.
      * apply IHe; assumption.
    + intros v m body c h o Hfl Hnf Ho. rewrite for_S0 in Hfl. rewrite for_e_S.
      eapply bindo_agree; [exact Hfl | exact Hnf | exact Ho | |].
      * intros Hn1 Hn2. apply IHe; [reflexivity | exact Hn1 | exact Hn2].
      * intros c2 h2 Hk. cbv beta in Hk. cbv beta.
        destruct (getv c2 v) as [i|]; [|exact Hk].
        destruct (wadd i 1 <? m); [|exact Hk]. apply IHf; assumption.
    + intros e body c h o Hwl Hnf Ho. rewrite while_S0 in Hwl. rewrite while_e_S.
      destruct (eval c e) as [c1 [z|x]].
      * destruct (z =? 0); [exact Hwl|].
        eapply bindo_agree; [exact Hwl | exact Hnf | exact Ho | |].
        -- intros Hn1 Hn2. apply IHe; [reflexivity | exact Hn1 | exact Hn2].
        -- intros c2 h2 Hk. apply IHw; assumption.
      * subst o. exfalso. eapply Hnf. reflexivity.
Qed.

Lemma agree_unless_fail : forall f ss c h o,
  exec f ss c h = o -> (forall x c' h', o <> Fail x c' h') -> o <> OutOfFuel ->
  exec_e f ss c h = o.
Proof. intro f. exact (proj1 (all_agree f)). Qed.

End REFINE_E.

(* ------------------------------------------------------------------ *)
(* The results, for every context type, evaluator, row evaluator, row handler and error
   consumer. *)

Theorem iterator_refines_sequential_reading_through_errors :
  forall (C F W : Type)
         (eval : C -> expr -> C * (Z + F)) (row_eval : C -> list dentry -> C * (W + F))
         (setv : C -> name -> Z -> C) (getv : C -> name -> option Z) (push pop reset : C -> C)
         (H : Type) (handler : H -> W * N -> C -> (H * C) + H)
         (on_err : H -> F -> C -> (H * C) + H),
  forall prog c h fuel o,
    exec_e C F W eval row_eval setv getv push pop reset H handler on_err fuel prog c h = o ->
    o <> OutOfFuel ->
    exists fuel',
      drain_e C F W eval row_eval setv getv push pop reset H handler on_err
              fuel' (SI prog Iterate) c h = o.
Proof. intros until o. apply refines_forward_e. Qed.

Theorem sequential_reading_refines_iterator_through_errors :
  forall (C F W : Type)
         (eval : C -> expr -> C * (Z + F)) (row_eval : C -> list dentry -> C * (W + F))
         (setv : C -> name -> Z -> C) (getv : C -> name -> option Z) (push pop reset : C -> C)
         (H : Type) (handler : H -> W * N -> C -> (H * C) + H)
         (on_err : H -> F -> C -> (H * C) + H),
  forall prog c h fuel o,
    drain_e C F W eval row_eval setv getv push pop reset H handler on_err
            fuel (SI prog Iterate) c h = o ->
    o <> OutOfFuel ->
    exists fuel',
      exec_e C F W eval row_eval setv getv push pop reset H handler on_err fuel' prog c h = o.
Proof. intros until o. apply refines_backward_e. Qed.

(* `Fail` is not an outcome of the reading through errors *)
Theorem exec_e_never_fails :
  forall (C F W : Type)
         (eval : C -> expr -> C * (Z + F)) (row_eval : C -> list dentry -> C * (W + F))
         (setv : C -> name -> Z -> C) (getv : C -> name -> option Z) (push pop reset : C -> C)
         (H : Type) (handler : H -> W * N -> C -> (H * C) + H)
         (on_err : H -> F -> C -> (H * C) + H),
  forall fuel prog c h x c' h',
    exec_e C F W eval row_eval setv getv push pop reset H handler on_err fuel prog c h
    <> Fail x c' h'.
Proof. intros until h'. apply never_fails. Qed.

(* ... and so not an outcome of the caller that iterates through errors either *)
Corollary drain_e_never_fails :
  forall (C F W : Type)
         (eval : C -> expr -> C * (Z + F)) (row_eval : C -> list dentry -> C * (W + F))
         (setv : C -> name -> Z -> C) (getv : C -> name -> option Z) (push pop reset : C -> C)
         (H : Type) (handler : H -> W * N -> C -> (H * C) + H)
         (on_err : H -> F -> C -> (H * C) + H),
  forall fuel it c h x c' h',
    drain_e C F W eval row_eval setv getv push pop reset H handler on_err fuel it c h
    <> Fail x c' h'.
Proof.
  intros until on_err. induction fuel as [|f IH]; intros it c h x c' h'; [discriminate|].
  cbn [drain_e].
  destruct (next C F W eval row_eval setv getv push pop reset f it c)
    as [w l it1 c1|it1 c1|y it1 c1|s|]; try discriminate.
  - destruct (handler h (w, l) c1) as [[h2 c2]|h2]; [apply IH|discriminate].
  - destruct (on_err h y c1) as [[h2 c2]|h2]; [apply IH|discriminate].
Qed.

(* A run of the stop-at-the-first-error reading (StmtSpec.exec) that does not end in an
   error -- it ran to the end, the handler stopped it, or it panicked -- is the same run,
   with the same fuel, in the reading through errors, whatever the error consumer is. *)
Theorem exec_e_agrees_unless_fail :
  forall (C F W : Type)
         (eval : C -> expr -> C * (Z + F)) (row_eval : C -> list dentry -> C * (W + F))
         (setv : C -> name -> Z -> C) (getv : C -> name -> option Z) (push pop reset : C -> C)
         (H : Type) (handler : H -> W * N -> C -> (H * C) + H)
         (on_err : H -> F -> C -> (H * C) + H),
  forall prog c h fuel o,
    exec C F W eval row_eval setv getv push pop reset H handler fuel prog c h = o ->
    (forall x c' h', o <> Fail x c' h') -> o <> OutOfFuel ->
    exec_e C F W eval row_eval setv getv push pop reset H handler on_err fuel prog c h = o.
Proof. intros until o. apply agree_unless_fail. Qed.

(* error-free runs are the same in both readings (no hypothesis on on_err is needed: an
   error-free run never consults it) *)
Theorem exec_e_agrees_on_error_free_runs :
  forall (C F W : Type)
         (eval : C -> expr -> C * (Z + F)) (row_eval : C -> list dentry -> C * (W + F))
         (setv : C -> name -> Z -> C) (getv : C -> name -> option Z) (push pop reset : C -> C)
         (H : Type) (handler : H -> W * N -> C -> (H * C) + H)
         (on_err : H -> F -> C -> (H * C) + H),
  forall prog c h fuel c' h',
    exec C F W eval row_eval setv getv push pop reset H handler fuel prog c h = Fin c' h' ->
    exists fuel',
      exec_e C F W eval row_eval setv getv push pop reset H handler on_err fuel' prog c h
      = Fin c' h'.
Proof.
  intros until h'. intro He. exists fuel.
  apply exec_e_agrees_unless_fail; [exact He | discriminate | discriminate].
Qed.

(* ------------------------------------------------------------------ *)
(* non-vacuity, by computation *)

Section EXAMPLES_E.
(* the context: an association list, newest binding first; no frames *)
Let Cx := list (name * Z).
Fixpoint ex_lookup (c : list (name * Z)) (x : name) : option Z :=
  match c with
  | [] => None
  | (y, z) :: r => if name_eqb y x then Some z else ex_lookup r x
  end.
(* numbers and bound variables evaluate; an unbound variable x fails with x *)
Let ex_eval (c : Cx) (e : expr) : Cx * (Z + name) :=
  match e with
  | ENum z => (c, inl z)
  | EVar x => match ex_lookup c x with Some z => (c, inl z) | None => (c, inr x) end
  | _ => (c, inr [])
  end.
(* a row is one entry, a number or an expression *)
Let ex_row (c : Cx) (d : list dentry) : Cx * (Z + name) :=
  match d with
  | [DNum z] => (c, inl z)
  | [DExpr e] => ex_eval c e
  | _ => (c, inr [])
  end.
Let ex_setv (c : Cx) (x : name) (z : Z) : Cx := (x, z) :: c.
Let idc (c : Cx) : Cx := c.
(* the caller's state: the rows seen so far (newest first) and the errors seen so far *)
Let Hx := (list (Z * N) * list name)%type.
Let ex_handler (h : Hx) (r : Z * N) (c : Cx) : (Hx * Cx) + Hx :=
  inl ((r :: fst h, snd h), c).
(* go on after every error, at most [k] times *)
Let ex_on_err (k : nat) (h : Hx) (x : name) (c : Cx) : (Hx * Cx) + Hx :=
  if (length (snd h) <? k)%nat then inl ((fst h, x :: snd h), c) else inr (fst h, x :: snd h).
(* go on after every error, and bind the variable that was missing to 0 *)
Let ex_on_err_fix (h : Hx) (x : name) (c : Cx) : (Hx * Cx) + Hx :=
  inl ((fst h, x :: snd h), (x, 0) :: c).

Let x_ : name := [120%N].
Let y_ : name := [121%N].

Let ex_exec_e oe := exec_e Cx name Z ex_eval ex_row ex_setv ex_lookup idc idc idc Hx ex_handler oe.
Let ex_drain_e oe := drain_e Cx name Z ex_eval ex_row ex_setv ex_lookup idc idc idc Hx ex_handler oe.
Let ex_exec := exec Cx name Z ex_eval ex_row ex_setv ex_lookup idc idc idc Hx ex_handler.

(* row; let x = y (y unbound: fails); row; let x = 5; row x *)
Let prog_let : list stmt :=
  [SRow [DNum 1] 1%N; SLet x_ (EVar y_); SRow [DNum 2] 2%N; SLet x_ (ENum 5);
   SRow [DExpr (EVar x_)] 3%N].

(* the failing let is skipped; the rows behind it are still handed to the handler *)
Example ex_let_skipped_rows_go_on :
  ex_exec_e (ex_on_err 9) 20%nat prog_let [] ([], [])
    = Fin [(x_, 5)] ([(5, 3%N); (2, 2%N); (1, 1%N)], [y_]) /\
  ex_drain_e (ex_on_err 9) 20%nat (SI prog_let Iterate) [] ([], [])
    = Fin [(x_, 5)] ([(5, 3%N); (2, 2%N); (1, 1%N)], [y_]) /\
  (* the reading of StmtSpec.v ends at the let *)
  ex_exec 20%nat prog_let [] ([], []) = Fail y_ [] ([(1, 1%N)], []).
Proof. repeat split; vm_compute; reflexivity. Qed.

(* the old binding stays: let x = 5; let x = y (fails); row x *)
Example ex_let_skipped_old_binding_stays :
  ex_exec_e (ex_on_err 9) 20%nat
    [SLet x_ (ENum 5); SLet x_ (EVar y_); SRow [DExpr (EVar x_)] 1%N] [] ([], [])
    = Fin [(x_, 5)] ([(5, 1%N)], [y_]).
Proof. vm_compute. reflexivity. Qed.

(* row; while(y) { row 9 } with y unbound; row *)
Let prog_while : list stmt :=
  [SRow [DNum 1] 1%N; SWhile (EVar y_) [SRow [DNum 9] 9%N]; SRow [DNum 2] 2%N].

(* the failing condition is evaluated again and again, until on_err stops (here: at the
   third error); the body is never run and the loop is never left *)
Example ex_while_retried_until_stop :
  ex_exec_e (ex_on_err 2) 20%nat prog_while [] ([], [])
    = Stop ([(1, 1%N)], [y_; y_; y_]) /\
  ex_drain_e (ex_on_err 2) 20%nat (SI prog_while Iterate) [] ([], [])
    = Stop ([(1, 1%N)], [y_; y_; y_]).
Proof. split; vm_compute; reflexivity. Qed.

(* if on_err repairs the context (y := 0), the retried condition evaluates, the loop ends
   and the row behind it is handed to the handler *)
Example ex_while_retried_in_new_context :
  ex_exec_e ex_on_err_fix 20%nat prog_while [] ([], [])
    = Fin [(y_, 0)] ([(2, 2%N); (1, 1%N)], [y_]) /\
  ex_drain_e ex_on_err_fix 20%nat (SI prog_while Iterate) [] ([], [])
    = Fin [(y_, 0)] ([(2, 2%N); (1, 1%N)], [y_]).
Proof. split; vm_compute; reflexivity. Qed.

(* a failing row inside loop(v, 2): the pass goes on, the loop stays open, the frame too *)
Example ex_error_inside_loop_body :
  ex_drain_e (ex_on_err 9) 40%nat
    (SI [SLoop x_ (ENum 2) [SRow [DExpr (EVar y_)] 1%N; SRow [DExpr (EVar x_)] 2%N]] Iterate)
    [] ([], [])
    = Fin [(x_, 1); (x_, 0)] ([(1, 2%N); (0, 2%N)], [y_; y_]) /\
  ex_exec_e (ex_on_err 9) 40%nat
    [SLoop x_ (ENum 2) [SRow [DExpr (EVar y_)] 1%N; SRow [DExpr (EVar x_)] 2%N]]
    [] ([], [])
    = Fin [(x_, 1); (x_, 0)] ([(1, 2%N); (0, 2%N)], [y_; y_]).
Proof. split; vm_compute; reflexivity. Qed.
End EXAMPLES_E.

Print Assumptions iterator_refines_sequential_reading_through_errors.
Print Assumptions sequential_reading_refines_iterator_through_errors.
Print Assumptions exec_e_agrees_on_error_free_runs.
Print Assumptions exec_e_agrees_unless_fail.
Print Assumptions exec_e_never_fails.
Print Assumptions drain_e_never_fails.
