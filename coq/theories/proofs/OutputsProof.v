(* Output attribution (props C03, C04, C13, C14): the verdict table of ExpectedValue::check,
   the output-index table built by the constructor from the driver's FIRST answer, and
   extract_output_values on every later answer -- no assumption on the driver. *)
From DTR Require Import Prelude I64 Ast FramedMap Parser Bind Eval Stmt Iter.
From DTR.proofs Require Import EvalProof.
Local Open Scope nat_scope.

(* ------------------------------------------------------------------ (1) equality of signals *)

Lemma binop_beq_eq : forall a b, binop_beq a b = true <-> a = b.
Proof. intros a b; split; [apply internal_binop_dec_bl | apply internal_binop_dec_lb]. Qed.

Lemma unop_beq_eq : forall a b, unop_beq a b = true <-> a = b.
Proof. intros a b; split; [apply internal_unop_dec_bl | apply internal_unop_dec_lb]. Qed.

Lemma expr_eqb_func : forall f args f' args',
  expr_eqb (EFunc f args) (EFunc f' args') =
  name_eqb f f' && forallb (fun p => expr_eqb (fst p) (snd p)) (combine args args')
                && Nat.eqb (length args) (length args').
Proof.
  intros f args f' args'. simpl. destruct (name_eqb f f'); simpl; [|reflexivity].
  revert args'. induction args as [|x r IH]; destruct args' as [|y r']; simpl; try reflexivity.
  rewrite IH. destruct (expr_eqb x y); reflexivity.
Qed.

Theorem expr_eqb_eq : forall a b, expr_eqb a b = true <-> a = b.
Proof.
  induction a as [n|x|op l r IHl IHr|op a IHa|f args IHargs] using expr_ind2; intros b.
  - destruct b; simpl; split; intro H; try discriminate.
    + apply Z.eqb_eq in H. congruence.
    + inversion H; subst. apply Z.eqb_refl.
  - destruct b; simpl; split; intro H; try discriminate.
    + apply name_eqb_eq in H. congruence.
    + inversion H; subst. apply name_eqb_refl.
  - destruct b as [| |op' l' r'| |]; simpl; split; intro H; try discriminate.
    + apply andb_true_iff in H. destruct H as [H H3]. apply andb_true_iff in H. destruct H as [H1 H2].
      apply binop_beq_eq in H1. apply IHl in H2. apply IHr in H3. congruence.
    + inversion H; subst. rewrite (proj2 (binop_beq_eq _ _) eq_refl).
      rewrite (proj2 (IHl _) eq_refl), (proj2 (IHr _) eq_refl). reflexivity.
  - destruct b as [| | |op' a'|]; simpl; split; intro H; try discriminate.
    + apply andb_true_iff in H. destruct H as [H1 H2].
      apply unop_beq_eq in H1. apply IHa in H2. congruence.
    + inversion H; subst. rewrite (proj2 (unop_beq_eq _ _) eq_refl), (proj2 (IHa _) eq_refl). reflexivity.
  - destruct b as [| | | |f' args']; try (simpl; split; intro H; discriminate).
    rewrite expr_eqb_func. split; intro H.
    + apply andb_true_iff in H. destruct H as [H H3]. apply andb_true_iff in H. destruct H as [H1 H2].
      apply name_eqb_eq in H1. subst f'. f_equal.
      apply Nat.eqb_eq in H3. revert args' H2 H3.
      induction IHargs as [|x r Hx Hr IH]; intros [|y r'] H2 H3; simpl in *; try discriminate; [reflexivity|].
      apply andb_true_iff in H2. destruct H2 as [Hxy H2]. apply Hx in Hxy. subst y.
      f_equal. apply IH; [exact H2 | lia].
    + inversion H; subst f' args'. rewrite name_eqb_refl, Nat.eqb_refl. simpl. rewrite andb_true_r.
      clear H. induction IHargs as [|x r Hx Hr IH]; simpl; [reflexivity|].
      rewrite (proj2 (Hx _) eq_refl), IH. reflexivity.
Qed.

Theorem inval_eqb_eq : forall a b, inval_eqb a b = true <-> a = b.
Proof.
  intros [n|] [m|]; simpl; split; intro H; try discriminate; try reflexivity.
  - apply Z.eqb_eq in H. congruence.
  - inversion H; subst. apply Z.eqb_refl.
Qed.

Theorem outval_eqb_eq : forall a b, outval_eqb a b = true <-> a = b.
Proof.
  intros [n| |] [m| |]; simpl; split; intro H; try discriminate; try reflexivity.
  - apply Z.eqb_eq in H. congruence.
  - inversion H; subst. apply Z.eqb_refl.
Qed.

Theorem expval_eqb_eq : forall a b, expval_eqb a b = true <-> a = b.
Proof.
  intros [n| |] [m| |]; simpl; split; intro H; try discriminate; try reflexivity.
  - apply Z.eqb_eq in H. congruence.
  - inversion H; subst. apply Z.eqb_refl.
Qed.

Theorem sigtype_eqb_eq : forall a b, sigtype_eqb a b = true <-> a = b.
Proof.
  intros [d| |d|e] [d'| |d'|e']; simpl; split; intro H; try discriminate; try reflexivity.
  - apply inval_eqb_eq in H. congruence.
  - inversion H; subst. apply inval_eqb_eq. reflexivity.
  - apply inval_eqb_eq in H. congruence.
  - inversion H; subst. apply inval_eqb_eq. reflexivity.
  - apply expr_eqb_eq in H. congruence.
  - inversion H; subst. apply expr_eqb_eq. reflexivity.
Qed.

Theorem signal_eqb_eq : forall a b, signal_eqb a b = true <-> a = b.
Proof.
  intros [n1 b1 t1] [n2 b2 t2]. unfold signal_eqb. simpl. split; intro H.
  - apply andb_true_iff in H. destruct H as [H H3]. apply andb_true_iff in H. destruct H as [H1 H2].
    apply name_eqb_eq in H1. apply N.eqb_eq in H2. apply sigtype_eqb_eq in H3. congruence.
  - inversion H; subst. rewrite name_eqb_refl, N.eqb_refl. simpl. apply sigtype_eqb_eq. reflexivity.
Qed.

Lemma signal_eqb_refl : forall a, signal_eqb a a = true.
Proof. intros a. apply signal_eqb_eq. reflexivity. Qed.

Lemma signal_eqb_neq : forall a b, signal_eqb a b = false <-> a <> b.
Proof.
  intros a b. split; intro H.
  - intro E. apply signal_eqb_eq in E. congruence.
  - destruct (signal_eqb a b) eqn:E; [|reflexivity]. apply signal_eqb_eq in E. contradiction.
Qed.

(* ------------------------------------------------------------------ (2) C03: the verdict table *)

Theorem check_iff : forall e o, expected_check e o = true <->
  e = XX \/ (e = XZ /\ o = OZ) \/ (exists n, e = XVal n /\ o = OVal n).
Proof.
  intros e o. split.
  - destruct e as [n| |]; simpl; intro H.
    + destruct o as [m| |]; try discriminate. apply Z.eqb_eq in H. subst m.
      right. right. exists n. split; reflexivity.
    + destruct o; try discriminate. right. left. split; reflexivity.
    + left. reflexivity.
  - intros [H | [[H1 H2] | [n [H1 H2]]]]; subst; simpl; try reflexivity. apply Z.eqb_refl.
Qed.

(* the negative reading: exactly when a checked row entry fails *)
Corollary check_false_iff : forall e o, expected_check e o = false <->
  (e = XZ /\ o <> OZ) \/ (exists n, e = XVal n /\ o <> OVal n).
Proof.
  intros e o. split.
  - intro H. destruct e as [n| |]; simpl in H; [| |discriminate].
    + right. exists n. split; [reflexivity|]. intro E. subst o. rewrite Z.eqb_refl in H. discriminate.
    + left. split; [reflexivity|]. intro E. subst o. discriminate.
  - intro H. destruct (expected_check e o) eqn:E; [|reflexivity]. apply check_iff in E.
    destruct H as [[H1 H2] | [n [H1 H2]]]; subst;
      destruct E as [E | [[E1 E2] | [m [E1 E2]]]]; try discriminate; try contradiction.
    inversion E1; subst. contradiction.
Qed.

Theorem is_checked_iff : forall r, or_is_checked r = false <-> or_expected r = XX.
Proof.
  intros r. unfold or_is_checked. rewrite negb_false_iff. apply expval_eqb_eq.
Qed.

Theorem unchecked_always_passes : forall r, or_is_checked r = false -> or_check r = true.
Proof. intros r H. apply is_checked_iff in H. unfold or_check. rewrite H. reflexivity. Qed.

Theorem failing_outputs_spec : forall row r,
  In r (failing_outputs row) <-> In r (dr_outputs row) /\ or_check r = false.
Proof.
  intros row r. unfold failing_outputs. rewrite filter_In, negb_true_iff. reflexivity.
Qed.

Theorem failing_outputs_order : forall row,
  failing_outputs row = filter (fun r => negb (or_check r)) (dr_outputs row).
Proof. reflexivity. Qed.

(* ------------------------------------------------------------------ list helpers *)

Lemma position_None_all : forall A (p : A -> bool) l, position p l = None ->
  forall x, In x l -> p x = false.
Proof.
  induction l as [|y r IH]; simpl; intros H x Hx; [contradiction|].
  destruct (p y) eqn:Py; [discriminate|].
  destruct (position p r) eqn:E; [discriminate|].
  destruct Hx as [<- | Hx]; [exact Py | apply IH; auto].
Qed.

Lemma position_map : forall A B (f : A -> B) (q : B -> bool) l,
  position (fun x => q (f x)) l = position q (map f l).
Proof. induction l as [|y r IH]; simpl; [reflexivity|]. rewrite IH. reflexivity. Qed.

Lemma find_position : forall A (p : A -> bool) l,
  find p l = match position p l with Some n => nth_error l n | None => None end.
Proof.
  induction l as [|y r IH]; simpl; [reflexivity|].
  destruct (p y); [reflexivity|]. rewrite IH. destruct (position p r); reflexivity.
Qed.

Lemma nth_error_In_map : forall A B (f : A -> B) l n x,
  nth_error l n = Some x -> nth_error (map f l) n = Some (f x).
Proof. intros. apply map_nth_error. assumption. Qed.

Lemma nth_error_ext_eq : forall A (l l' : list A), length l = length l' ->
  (forall j, j < length l -> nth_error l j = nth_error l' j) -> l = l'.
Proof.
  induction l as [|x r IH]; destruct l' as [|y r']; simpl; intros Hl H; try discriminate; [reflexivity|].
  pose proof (H 0 ltac:(lia)) as H0. simpl in H0. inversion H0; subst. f_equal.
  apply IH; [lia|]. intros j Hj. apply (H (S j)). lia.
Qed.

Lemma map_r_Ok : forall A B (f : A -> R rterr B) l ys,
  map_r f l = Ok ys <-> Forall2 (fun x y => f x = Ok y) l ys.
Proof.
  induction l as [|x r IH]; simpl; intros ys; split; intro H.
  - inversion H; subst. constructor.
  - inversion H; subst. reflexivity.
  - destruct (f x) as [y| | |] eqn:Fx; simpl in H; try discriminate.
    destruct (map_r f r) as [ys'| | |] eqn:Fr; simpl in H; try discriminate.
    inversion H; subst. constructor; [exact Fx | apply IH; reflexivity].
  - inversion H as [|? y ? ys' Fx Fr]; subst. rewrite Fx. simpl.
    apply IH in Fr. rewrite Fr. reflexivity.
Qed.

Lemma Forall2_nth_error : forall A B (P : A -> B -> Prop) l l', Forall2 P l l' ->
  forall k x, nth_error l k = Some x -> exists y, nth_error l' k = Some y /\ P x y.
Proof.
  induction 1 as [|a b l l' Hab _ IH]; intros k x Hk.
  - destruct k; discriminate.
  - destruct k as [|k]; simpl in *.
    + inversion Hk; subst. exists b. auto.
    + apply IH. exact Hk.
Qed.

Lemma Forall2_nth_error_r : forall A B (P : A -> B -> Prop) l l', Forall2 P l l' ->
  forall k y, nth_error l' k = Some y -> exists x, nth_error l k = Some x /\ P x y.
Proof.
  induction 1 as [|a b l l' Hab _ IH]; intros k y Hk.
  - destruct k; discriminate.
  - destruct k as [|k]; simpl in *.
    + inversion Hk; subst. exists a. auto.
    + apply IH. exact Hk.
Qed.

Lemma combine_skipn : forall A B (l : list A) (l' : list B) k,
  skipn k (combine l l') = combine (skipn k l) (skipn k l').
Proof.
  induction l as [|x r IH]; intros l' k.
  - simpl. rewrite !skipn_nil. reflexivity.
  - destruct l' as [|y r'], k as [|k]; simpl; auto.
    destruct (skipn k r); reflexivity.
Qed.

Lemma nth_error_combine : forall A B (l : list A) (l' : list B) k a b,
  nth_error l k = Some a -> nth_error l' k = Some b -> nth_error (combine l l') k = Some (a, b).
Proof.
  induction l as [|x r IH]; intros l' k a b Ha Hb; destruct k; simpl in *; try discriminate;
    destruct l' as [|y r']; simpl in *; try discriminate.
  - congruence.
  - apply IH; assumption.
Qed.

Lemma filter_map_comm : forall A B (f : A -> B) (p : B -> bool) l,
  filter p (map f l) = map f (filter (fun x => p (f x)) l).
Proof.
  induction l as [|x r IH]; simpl; [reflexivity|]. destruct (p (f x)); simpl; rewrite IH; reflexivity.
Qed.

Lemma NoDup_map_inj_in : forall A B (f : A -> B) l,
  (forall x y, In x l -> In y l -> f x = f y -> x = y) -> NoDup l -> NoDup (map f l).
Proof.
  induction l as [|x r IH]; simpl; intros Hinj Hnd; [constructor|].
  inversion Hnd as [|? ? Hx Hr]; subst. constructor.
  - intro Hin. apply in_map_iff in Hin. destruct Hin as [y [Hy Hyin]].
    assert (y = x) by (apply Hinj; auto). subst y. contradiction.
  - apply IH; auto.
Qed.

Lemma map_r_total : forall A B (f : A -> R rterr B) l,
  (forall x, In x l -> exists y, f x = Ok y) -> exists ys, map_r f l = Ok ys.
Proof.
  induction l as [|x r IH]; intros H; simpl; [eauto|].
  destruct (H x (or_introl eq_refl)) as [y Hy]. rewrite Hy. simpl.
  destruct IH as [ys Hys]; [intros; apply H; right; assumption|]. rewrite Hys. simpl. eauto.
Qed.

Lemma Forall2_In_r : forall A B (P : A -> B -> Prop) l l', Forall2 P l l' ->
  forall y, In y l' -> exists x, In x l /\ P x y.
Proof.
  induction 1 as [|a b l l' Hab _ IH]; intros y Hy; [contradiction|].
  destruct Hy as [<- | Hy]; [exists a; simpl; auto|].
  destruct (IH _ Hy) as [x [Hx Px]]. exists x. simpl. auto.
Qed.

Lemma Forall2_In_l : forall A B (P : A -> B -> Prop) l l', Forall2 P l l' ->
  forall x, In x l -> exists y, In y l' /\ P x y.
Proof.
  induction 1 as [|a b l l' Hab _ IH]; intros x Hx; [contradiction|].
  destruct Hx as [<- | Hx]; [exists b; simpl; auto|].
  destruct (IH _ Hx) as [y [Hy Py]]. exists y. simpl. auto.
Qed.

Lemma Forall2_len : forall A B (P : A -> B -> Prop) l l', Forall2 P l l' -> length l = length l'.
Proof. induction 1; simpl; congruence. Qed.

Lemma Forall2_combine : forall A B C (P : A -> C -> Prop) (Q : A -> B -> Prop) (T : (A * B) -> C -> Prop) l l' vs,
  Forall2 Q l l' -> Forall2 T (combine l l') vs ->
  (forall a b c, Q a b -> T (a, b) c -> P a c) -> Forall2 P l vs.
Proof.
  intros A B C P Q T l l' vs HQ. revert vs. induction HQ as [|a b l l' Hab _ IH]; simpl; intros vs HT HP.
  - inversion HT; subst. constructor.
  - inversion HT; subst. constructor; [eapply HP; eauto | apply IH; auto].
Qed.

(* ------------------------------------------------------------------ eval looks at the context only through ctx_get *)

Theorem eval_blind_to : forall G c1 c2 e rng,
  (forall x, ctx_get c1 x = ctx_get c2 x) -> eval G c1 e rng = eval G c2 e rng.
Proof.
  intros G c1 c2 e rng Hget. revert rng.
  induction e as [n|x|op l r IHl IHr|op a IHa|f args IHargs] using expr_ind2; intros rng.
  - reflexivity.
  - simpl. rewrite Hget. reflexivity.
  - simpl. rewrite IHl. destruct (eval G c2 l rng) as [[lv| | |] rng1]; try reflexivity.
    rewrite IHr. reflexivity.
  - simpl. rewrite IHa. reflexivity.
  - rewrite !eval_func. destruct (func_arity f) as [arity|]; [|reflexivity].
    destruct (negb (Nlen args =? arity)%N); [reflexivity|].
    destruct (name_eqb f name_random).
    { destruct args as [|a [|? ?]]; try reflexivity.
      inversion IHargs as [|? ? IHa _]; subst. rewrite IHa. reflexivity. }
    destruct (name_eqb f name_ite); [|reflexivity].
    destruct args as [|t [|a [|b [|? ?]]]]; try reflexivity.
    inversion IHargs as [|? ? IHt IHr]; subst. inversion IHr as [|? ? IHa IHr2]; subst.
    inversion IHr2 as [|? ? IHb _]; subst.
    rewrite IHt. destruct (eval G c2 t rng) as [[tv| | |] rng1]; try reflexivity.
    rewrite IHa, IHb. reflexivity.
Qed.

(* in particular it looks neither at the alternate variable map nor at the context's own generator field *)
Corollary eval_ignores_alt_and_rng : forall G c e rng alt r,
  eval G {| cvars := cvars c; calt := alt; couts := couts c; crng := r |} e rng = eval G c e rng.
Proof. intros. apply eval_blind_to. intro x. reflexivity. Qed.

Theorem eval_var_ZX : forall G c x v rng, ctx_get c x = Some v -> v = OZ \/ v = OX ->
  eval G c (EVar x) rng = (Err (XE_UnexpectedValueForSignal x v), rng).
Proof. intros G c x v rng Hg [-> | ->]; simpl; rewrite Hg; reflexivity. Qed.

Theorem eval_var_unknown : forall G c x rng, ctx_get c x = None ->
  eval G c (EVar x) rng = (Err (XE_UnknownVariable x), rng).
Proof. intros G c x rng Hg. simpl. rewrite Hg. reflexivity. Qed.

Lemma ctx_eval_eq : forall G c e,
  ctx_eval G c e = (ctx_with_rng c (snd (eval G c e (crng c))), fst (eval G c e (crng c))).
Proof. intros. unfold ctx_eval. destruct (eval G c e (crng c)); reflexivity. Qed.

(* ------------------------------------------------------------------ the constructor's index table *)

Section OUT.
Variable G : gen.
Variable tc : testcase.

(* the entry of the index table for an expected signal s, given the FIRST answer outs0 *)
Definition out_index_for (outs0 : list out_entry) (s : signal) : out_index :=
  match styp s with
  | TyVirtual e => OIVirtual e
  | _ => match position (fun o => signal_eqb (oe_sig o) s) outs0 with
         | Some n => OIOutput n
         | None => OINone
         end
  end.

Definition sig_at (idx : entry_index) : option signal := nth_error (tc_signals tc) (ei_signal_index idx).

Lemma get_signal_Ok : forall i s, get_signal tc i = Ok s <-> nth_error (tc_signals tc) i = Some s.
Proof.
  intros i s. unfold get_signal, signals. destruct (nth_error (tc_signals tc) i); split; intro H;
    try discriminate; congruence.
Qed.

Lemma build_spec : forall outs0 oi, build_output_indices tc outs0 = Ok oi ->
  Forall2 (fun idx o => exists s, sig_at idx = Some s /\ o = out_index_for outs0 s)
          (tc_expected_indices tc) oi.
Proof.
  intros outs0 oi H. unfold build_output_indices in H.
  match type of H with rbind (map_r ?f ?l) _ = _ => destruct (map_r f l) as [l0| | |] eqn:E end;
    simpl in H; try discriminate.
  match type of H with rbind ?m _ = _ => destruct m as [miss| | |] end; simpl in H; try discriminate.
  destruct (concat miss); [|discriminate]. inversion H; subst oi. clear H.
  apply map_r_Ok in E. induction E as [|idx y l l' Hy _ IH]; simpl; constructor; [|exact IH].
  unfold sig_at. destruct (get_signal tc (ei_signal_index idx)) as [s| | |] eqn:Gs; simpl in Hy; try discriminate.
  apply get_signal_Ok in Gs. exists s. split; [exact Gs|].
  unfold out_index_for.
  destruct (styp s); try (inversion Hy; reflexivity);
    destruct (position (fun o => signal_eqb (oe_sig o) s) outs0); inversion Hy; reflexivity.
Qed.

Lemma build_length : forall outs0 oi, build_output_indices tc outs0 = Ok oi ->
  length oi = length (tc_expected_indices tc).
Proof. intros outs0 oi H. apply build_spec in H. symmetry. eapply Forall2_len; eauto. Qed.

(* which entries of the table are virtual: exactly those of the virtual expected signals *)
Theorem build_virtual_entries : forall outs0 oi k idx s, build_output_indices tc outs0 = Ok oi ->
  nth_error (tc_expected_indices tc) k = Some idx -> sig_at idx = Some s ->
  forall e, nth_error oi k = Some (OIVirtual e) <-> styp s = TyVirtual e.
Proof.
  intros outs0 oi k idx s H Hk Hs e. apply build_spec in H.
  destruct (Forall2_nth_error _ _ _ _ _ H _ _ Hk) as [o [Ho [s' [Hs' Eo]]]].
  rewrite Hs in Hs'. inversion Hs'; subst s'. rewrite Ho. subst o. unfold out_index_for.
  split; intro E.
  - destruct (styp s); try (destruct (position _ outs0); discriminate). inversion E; reflexivity.
  - rewrite E. reflexivity.
Qed.

(* ------------------------------------------------------------------ the loop of extract_output_values *)

Definition pair_ok (outs : list out_entry) (p : entry_index * out_index) (v : outval) : Prop :=
  match snd p with
  | OIOutput n => exists o, nth_error outs n = Some o /\ sig_at (fst p) = Some (oe_sig o) /\ v = oe_val o
  | OIVirtual e => exists n, v = OVal n
  | OINone => v = OX
  end.

Lemma extract_loop_cons : forall p r outs c,
  extract_loop G tc (p :: r) outs c =
  let step : ctx * R rterr outval :=
    match snd p with
    | OIOutput n =>
        match get_signal tc (ei_signal_index (fst p)) with
        | Ok expected_signal =>
            match nth_error outs n with
            | None => (c, Err RT_WrongOutputOrder)
            | Some o => if signal_eqb expected_signal (oe_sig o) then (c, Ok (oe_val o))
                        else (c, Err RT_WrongOutputOrder)
            end
        | Err e => (c, Err e) | Panic s => (c, Panic s) | OOF => (c, OOF)
        end
    | OIVirtual e =>
        (ctx_with_rng c (snd (eval G c e (crng c))),
         match fst (eval G c e (crng c)) with Ok n => Ok (OVal n) | Err x => Err (RT_Expr x)
                      | Panic s => Panic s | OOF => OOF end)
    | OINone => (c, Ok OX)
    end in
  match step with
  | (c1, Ok v) =>
      match extract_loop G tc r outs c1 with
      | (c2, Ok vs) => (c2, Ok (v :: vs))
      | other => other
      end
  | (c1, Err e) => (c1, Err e)
  | (c1, Panic s) => (c1, Panic s)
  | (c1, OOF) => (c1, OOF)
  end.
Proof.
  intros [idx o] r outs c. destruct o as [|n|e]; try reflexivity.
  simpl. unfold ctx_eval. destruct (eval G c e (crng c)); reflexivity.
Qed.

(* one step of the loop on an OIOutput entry *)
Lemma output_step : forall idx n outs (c : ctx),
  match get_signal tc (ei_signal_index idx) with
  | Ok expected_signal =>
      match nth_error outs n with
      | None => (c, Err RT_WrongOutputOrder)
      | Some o => if signal_eqb expected_signal (oe_sig o) then (c, Ok (oe_val o))
                  else (c, @Err rterr outval RT_WrongOutputOrder)
      end
  | Err e => (c, Err e) | Panic s => (c, Panic s) | OOF => (c, OOF)
  end =
  (c, match sig_at idx with
      | None => Panic 30%N
      | Some s => match nth_error outs n with
                  | None => Err RT_WrongOutputOrder
                  | Some o => if signal_eqb s (oe_sig o) then Ok (oe_val o) else Err RT_WrongOutputOrder
                  end
      end).
Proof.
  intros. unfold get_signal, sig_at, signals. destruct (nth_error (tc_signals tc) (ei_signal_index idx)); [|reflexivity].
  destruct (nth_error outs n); [|reflexivity]. destruct (signal_eqb _ _); reflexivity.
Qed.

Lemma extract_loop_Ok : forall pairs outs c c' vals,
  extract_loop G tc pairs outs c = (c', Ok vals) -> Forall2 (pair_ok outs) pairs vals.
Proof.
  induction pairs as [|[idx o] r IH]; intros outs c c' vals H.
  - simpl in H. inversion H; subst. constructor.
  - rewrite extract_loop_cons in H. cbv zeta in H. simpl snd in H. simpl fst in H.
    destruct o as [|n|e].
    + destruct (extract_loop G tc r outs c) as [c2 [vs| | |]] eqn:E; inversion H; subst.
      constructor; [reflexivity | eapply IH; eauto].
    + rewrite output_step in H. unfold pair_ok. simpl.
      destruct (sig_at idx) as [s|] eqn:Hs; [|discriminate].
      destruct (nth_error outs n) as [o|] eqn:Hn; [|discriminate].
      destruct (signal_eqb s (oe_sig o)) eqn:Es; [|discriminate].
      destruct (extract_loop G tc r outs c) as [c2 [vs| | |]] eqn:E; inversion H; subst.
      apply signal_eqb_eq in Es. subst s.
      constructor; [|eapply IH; eauto]. simpl. exists o. auto.
    + destruct (fst (eval G c e (crng c))) as [n| | |]; try discriminate.
      destruct (extract_loop G tc r outs _) as [c2 [vs| | |]] eqn:E; inversion H; subst.
      constructor; [exists n; reflexivity | eapply IH; eauto].
Qed.

(* the loop changes nothing in the context but the generator *)
Lemma extract_loop_frame : forall pairs outs c,
  let c' := fst (extract_loop G tc pairs outs c) in
  cvars c' = cvars c /\ calt c' = calt c /\ couts c' = couts c.
Proof.
  induction pairs as [|[idx o] r IH]; intros outs c; [simpl; auto|].
  cbv zeta. rewrite extract_loop_cons. cbv zeta. simpl snd. simpl fst.
  destruct o as [|n|e].
  - specialize (IH outs c). cbv zeta in IH.
    destruct (extract_loop G tc r outs c) as [c2 [vs| | |]]; simpl in *; auto.
  - rewrite output_step.
    destruct (match sig_at idx with Some _ => _ | None => _ end); simpl; auto.
    specialize (IH outs c). cbv zeta in IH.
    destruct (extract_loop G tc r outs c) as [c2 [vs| | |]]; simpl in *; auto.
  - destruct (fst (eval G c e (crng c))) as [n| | |]; simpl; auto.
    specialize (IH outs (ctx_with_rng c (snd (eval G c e (crng c))))). cbv zeta in IH.
    destruct (extract_loop G tc r outs _) as [c2 [vs| | |]]; simpl in *; auto.
Qed.

Lemma extract_unfold : forall nout oi outs c,
  extract_output_values G tc nout oi outs c =
  if negb (Nat.eqb (length outs) nout)
  then (c, Err (RT_WrongNumberOfOutputs (N.of_nat nout) (N.of_nat (length outs))))
  else (ctx_swap_vars (fst (extract_loop G tc (combine (tc_expected_indices tc) oi) outs (ctx_swap_vars c))),
        snd (extract_loop G tc (combine (tc_expected_indices tc) oi) outs (ctx_swap_vars c))).
Proof.
  intros. unfold extract_output_values. destruct (negb _); [reflexivity|].
  destruct (extract_loop G tc _ outs (ctx_swap_vars c)); reflexivity.
Qed.

Lemma extract_Ok_inv : forall nout oi outs c c' vals,
  extract_output_values G tc nout oi outs c = (c', Ok vals) ->
  length outs = nout /\
  exists c1, extract_loop G tc (combine (tc_expected_indices tc) oi) outs (ctx_swap_vars c) = (c1, Ok vals)
             /\ c' = ctx_swap_vars c1.
Proof.
  intros nout oi outs c c' vals H. rewrite extract_unfold in H.
  destruct (Nat.eqb (length outs) nout) eqn:E; simpl in H; [|discriminate].
  apply Nat.eqb_eq in E. split; [exact E|].
  destruct (extract_loop G tc _ outs (ctx_swap_vars c)) as [c1 r]. simpl in H. inversion H; subst.
  exists c1. auto.
Qed.

(* C14: the swap of the variable maps is undone on every path, and nothing else but the
   generator changes *)
Theorem extract_restores_vars : forall nout oi outs c c' r,
  extract_output_values G tc nout oi outs c = (c', r) ->
  cvars c' = cvars c /\ calt c' = calt c /\ couts c' = couts c.
Proof.
  intros nout oi outs c c' r H. rewrite extract_unfold in H. destruct (negb _).
  - inversion H; subst. auto.
  - inversion H; subst. clear H.
    destruct (extract_loop_frame (combine (tc_expected_indices tc) oi) outs (ctx_swap_vars c)) as [H1 [H2 H3]].
    simpl in *. auto.
Qed.

(* ------------------------------------------------------------------ (3) C13: no misattribution *)

Theorem no_misattribution : forall outs0 nout oi outs c c' vals,
  build_output_indices tc outs0 = Ok oi ->
  extract_output_values G tc nout oi outs c = (c', Ok vals) ->
  Forall2 (fun idx v =>
     match nth_error (tc_signals tc) (ei_signal_index idx) with
     | Some s => match styp s with
                 | TyVirtual _ => True
                 | _ => (v = OX /\ (forall o, In o outs0 -> oe_sig o <> s))
                        \/ (exists o, In o outs /\ oe_sig o = s /\ v = oe_val o)
                 end
     | None => True
     end) (tc_expected_indices tc) vals.
Proof.
  intros outs0 nout oi outs c c' vals Hb He.
  apply build_spec in Hb. apply extract_Ok_inv in He. destruct He as [_ [c1 [He _]]].
  apply extract_loop_Ok in He.
  eapply Forall2_combine; [exact Hb | exact He |].
  intros idx o v [s [Hs Eo]] Hp. unfold sig_at in Hs. rewrite Hs.
  unfold pair_ok in Hp. simpl in Hp. subst o. unfold out_index_for in Hp.
  assert (Hnv : (v = OX /\ (forall o, In o outs0 -> oe_sig o <> s))
                \/ (exists o, In o outs /\ oe_sig o = s /\ v = oe_val o) \/ exists e, styp s = TyVirtual e).
  { destruct (position (fun o => signal_eqb (oe_sig o) s) outs0) as [n|] eqn:Ep.
    - destruct (styp s) eqn:Et; try (right; right; eexists; reflexivity);
        destruct Hp as [o [Hn [Hso Hv]]]; right; left; exists o;
        (split; [eapply nth_error_In; eauto|]); unfold sig_at in Hso; split; congruence.
    - destruct (styp s) eqn:Et; try (right; right; eexists; reflexivity);
        left; (split; [exact Hp|]); intros o Ho; apply signal_eqb_neq;
        apply (position_None_all _ _ _ Ep o Ho). }
  destruct (styp s); try exact I; destruct Hnv as [H | [H | [e H]]]; auto; discriminate.
Qed.

(* ------------------------------------------------------------------ (6) C14: virtual signals *)

(* the generator state left by evaluating, in order, the virtual entries of an index table *)
Fixpoint virtual_rng (c : ctx) (ois : list out_index) (rng : rng_state) : rng_state :=
  match ois with
  | [] => rng
  | OIVirtual e :: r => virtual_rng c r (snd (eval G c e rng))
  | _ :: r => virtual_rng c r rng
  end.

Lemma virtual_rng_blind : forall c1 c2 ois rng, (forall x, ctx_get c1 x = ctx_get c2 x) ->
  virtual_rng c1 ois rng = virtual_rng c2 ois rng.
Proof.
  intros c1 c2 ois rng H. revert rng. induction ois as [|[|n|e] r IH]; intros rng; simpl; auto.
  rewrite (eval_blind_to G c1 c2 e rng H). apply IH.
Qed.

Fixpoint no_random_entries (ois : list out_index) : bool :=
  match ois with
  | [] => true
  | OIVirtual e :: r => negb (mentions_random e) && no_random_entries r
  | _ :: r => no_random_entries r
  end.

Lemma virtual_rng_no_random : forall c ois rng, no_random_entries ois = true -> virtual_rng c ois rng = rng.
Proof.
  intros c ois. induction ois as [|[|n|e] r IH]; intros rng H; simpl in *; auto.
  apply andb_true_iff in H. destruct H as [H1 H2]. apply negb_true_iff in H1.
  rewrite (eval_no_random_no_draw G e c rng H1). apply IH. exact H2.
Qed.

Lemma no_random_entries_firstn : forall ois k, no_random_entries ois = true -> no_random_entries (firstn k ois) = true.
Proof.
  induction ois as [|[|n|e] r IH]; intros [|k] H; simpl in *; auto.
  apply andb_true_iff in H. destruct H as [H1 H2]. rewrite H1. simpl. auto.
Qed.

Lemma ctx_get_with_rng : forall c r x, ctx_get (ctx_with_rng c r) x = ctx_get c x.
Proof. reflexivity. Qed.

Lemma extract_loop_virtual : forall pairs outs c c' vals,
  extract_loop G tc pairs outs c = (c', Ok vals) ->
  crng c' = virtual_rng c (map snd pairs) (crng c) /\
  forall k e, nth_error (map snd pairs) k = Some (OIVirtual e) ->
    exists n, nth_error vals k = Some (OVal n) /\
              fst (eval G c e (virtual_rng c (firstn k (map snd pairs)) (crng c))) = Ok n.
Proof.
  induction pairs as [|[idx o] r IH]; intros outs c c' vals H.
  - simpl in H. inversion H; subst. split; [reflexivity|]. intros [|k] e Hk; discriminate.
  - rewrite extract_loop_cons in H. cbv zeta in H. simpl snd in H. simpl fst in H.
    destruct o as [|n|e0].
    + destruct (extract_loop G tc r outs c) as [c2 [vs| | |]] eqn:E; inversion H; subst.
      destruct (IH _ _ _ _ E) as [IH1 IH2]. split; [exact IH1|].
      intros [|k] e Hk; simpl in Hk; [discriminate|]. simpl. apply IH2. exact Hk.
    + rewrite output_step in H.
      destruct (match sig_at idx with Some _ => _ | None => _ end); try discriminate.
      destruct (extract_loop G tc r outs c) as [c2 [vs| | |]] eqn:E; inversion H; subst.
      destruct (IH _ _ _ _ E) as [IH1 IH2]. split; [exact IH1|].
      intros [|k] e Hk; simpl in Hk; [discriminate|]. simpl. apply IH2. exact Hk.
    + destruct (fst (eval G c e0 (crng c))) as [n| | |] eqn:Ev; try discriminate.
      set (c1 := ctx_with_rng c (snd (eval G c e0 (crng c)))) in *.
      destruct (extract_loop G tc r outs c1) as [c2 [vs| | |]] eqn:E; inversion H; subst c2 vals.
      destruct (IH _ _ _ _ E) as [IH1 IH2].
      assert (Hb : forall x, ctx_get c1 x = ctx_get c x) by (intro x; reflexivity).
      split.
      * rewrite IH1. simpl. rewrite (virtual_rng_blind c1 c _ _ Hb). reflexivity.
      * intros [|k] e Hk; simpl in Hk.
        { inversion Hk; subst e0. exists n. split; [reflexivity | exact Ev]. }
        destruct (IH2 _ _ Hk) as [m [Hm1 Hm2]]. exists m. split; [exact Hm1|].
        simpl. rewrite (virtual_rng_blind c1 c _ _ Hb) in Hm2.
        rewrite (eval_blind_to G c1 c e _ Hb) in Hm2. exact Hm2.
Qed.

Lemma map_snd_combine : forall A B (l : list A) (l' : list B), length l = length l' -> map snd (combine l l') = l'.
Proof.
  induction l as [|x r IH]; destruct l' as [|y r']; simpl; intros H; try discriminate; [reflexivity|].
  f_equal. apply IH. lia.
Qed.

Lemma swap_get_outputs_only : forall c, calt c = fm_new ->
  forall x, ctx_get (ctx_swap_vars c) x = ctx_get (ctx_new (couts c)) x.
Proof. intros c H x. unfold ctx_get, ctx_swap_vars, ctx_new. simpl. rewrite H. reflexivity. Qed.

(* The value reported for a virtual signal is its expression evaluated over THIS call's
   outputs (couts c is the map built from this answer) with NO program variable visible;
   the generator state is the one left by the virtual entries before it. *)
Theorem virtual_value : forall outs0 nout oi outs c c' vals k e,
  build_output_indices tc outs0 = Ok oi ->
  extract_output_values G tc nout oi outs c = (c', Ok vals) ->
  calt c = fm_new ->
  nth_error oi k = Some (OIVirtual e) ->
  exists n, nth_error vals k = Some (OVal n) /\
    fst (eval G (ctx_new (couts c)) e (virtual_rng (ctx_new (couts c)) (firstn k oi) (crng c))) = Ok n.
Proof.
  intros outs0 nout oi outs c c' vals k e Hb He Halt Hk.
  apply build_length in Hb. apply extract_Ok_inv in He. destruct He as [_ [c1 [He _]]].
  apply extract_loop_virtual in He. destruct He as [_ He].
  rewrite map_snd_combine in He by (symmetry; exact Hb).
  destruct (He _ _ Hk) as [n [Hn1 Hn2]]. exists n. split; [exact Hn1|].
  pose proof (swap_get_outputs_only c Halt) as Hg.
  rewrite (virtual_rng_blind _ _ _ _ Hg) in Hn2. rewrite (eval_blind_to G _ _ e _ Hg) in Hn2. exact Hn2.
Qed.

(* the form of the task statement: an explicit context with an empty variable map *)
Corollary virtual_value_explicit : forall outs0 nout oi outs c c' vals k e,
  build_output_indices tc outs0 = Ok oi ->
  extract_output_values G tc nout oi outs c = (c', Ok vals) ->
  calt c = fm_new ->
  nth_error oi k = Some (OIVirtual e) ->
  exists rng n, nth_error vals k = Some (OVal n) /\
    fst (eval G {| cvars := fm_new; calt := cvars c; couts := couts c; crng := rng |} e rng) = Ok n.
Proof.
  intros outs0 nout oi outs c c' vals k e Hb He Halt Hk.
  destruct (virtual_value _ _ _ _ _ _ _ _ _ Hb He Halt Hk) as [n [H1 H2]].
  exists (virtual_rng (ctx_new (couts c)) (firstn k oi) (crng c)), n. split; [exact H1|]. rewrite <- H2.
  f_equal. apply eval_blind_to. intro x. reflexivity.
Qed.

(* no virtual expression draws random numbers: every one of them sees the generator of the call *)
Corollary virtual_value_no_random : forall outs0 nout oi outs c c' vals k e,
  build_output_indices tc outs0 = Ok oi ->
  extract_output_values G tc nout oi outs c = (c', Ok vals) ->
  calt c = fm_new ->
  no_random_entries oi = true ->
  nth_error oi k = Some (OIVirtual e) ->
  exists n, nth_error vals k = Some (OVal n) /\ eval G (ctx_new (couts c)) e (crng c) = (Ok n, crng c).
Proof.
  intros outs0 nout oi outs c c' vals k e Hb He Halt Hnr Hk.
  destruct (virtual_value _ _ _ _ _ _ _ _ _ Hb He Halt Hk) as [n [H1 H2]].
  rewrite virtual_rng_no_random in H2 by (apply no_random_entries_firstn; exact Hnr).
  exists n. split; [exact H1|].
  assert (Hm : mentions_random e = false).
  { clear - Hnr Hk. revert k Hk. induction oi as [|o r IH]; intros [|k] Hk; simpl in Hk; try discriminate.
    - inversion Hk; subst o. simpl in Hnr. apply andb_true_iff in Hnr. destruct Hnr as [H _].
      apply negb_true_iff in H. exact H.
    - apply (IH ltac:(destruct o; simpl in Hnr; auto; apply andb_true_iff in Hnr; tauto) k Hk). }
  pose proof (eval_no_random_no_draw G e (ctx_new (couts c)) (crng c) Hm) as Hs.
  destruct (eval G (ctx_new (couts c)) e (crng c)) as [r rng']. simpl in *. congruence.
Qed.

(* the generator after the call *)
Theorem extract_rng : forall outs0 nout oi outs c c' vals,
  build_output_indices tc outs0 = Ok oi ->
  extract_output_values G tc nout oi outs c = (c', Ok vals) ->
  calt c = fm_new ->
  crng c' = virtual_rng (ctx_new (couts c)) oi (crng c).
Proof.
  intros outs0 nout oi outs c c' vals Hb He Halt.
  apply build_length in Hb. apply extract_Ok_inv in He. destruct He as [_ [c1 [He Hc]]].
  apply extract_loop_virtual in He. destruct He as [He _].
  rewrite map_snd_combine in He by (symmetry; exact Hb). subst c'. simpl. rewrite He.
  apply virtual_rng_blind. apply swap_get_outputs_only. exact Halt.
Qed.

(* results do not depend on the program variables *)
Lemma extract_loop_blind : forall pairs outs c1 c2,
  (forall x, ctx_get c1 x = ctx_get c2 x) -> crng c1 = crng c2 ->
  snd (extract_loop G tc pairs outs c1) = snd (extract_loop G tc pairs outs c2) /\
  crng (fst (extract_loop G tc pairs outs c1)) = crng (fst (extract_loop G tc pairs outs c2)).
Proof.
  induction pairs as [|[idx o] r IH]; intros outs c1 c2 Hg Hr; [simpl; auto|].
  rewrite !extract_loop_cons. cbv zeta. simpl snd. simpl fst.
  destruct o as [|n|e].
  - destruct (IH outs c1 c2 Hg Hr) as [I1 I2].
    destruct (extract_loop G tc r outs c1) as [d1 [v1| | |]], (extract_loop G tc r outs c2) as [d2 [v2| | |]];
      simpl in *; try discriminate; split; congruence.
  - rewrite !output_step.
    destruct (match sig_at idx with Some _ => _ | None => _ end); simpl; auto.
    destruct (IH outs c1 c2 Hg Hr) as [I1 I2].
    destruct (extract_loop G tc r outs c1) as [d1 [v1| | |]], (extract_loop G tc r outs c2) as [d2 [v2| | |]];
      simpl in *; try discriminate; split; congruence.
  - rewrite (eval_blind_to G c1 c2 e _ Hg), Hr.
    destruct (fst (eval G c2 e (crng c2))) as [n| | |]; simpl; auto.
    set (d1 := ctx_with_rng c1 _). set (d2 := ctx_with_rng c2 _).
    assert (Hg' : forall x, ctx_get d1 x = ctx_get d2 x) by (intro x; unfold d1, d2; rewrite !ctx_get_with_rng; apply Hg).
    destruct (IH outs d1 d2 Hg' eq_refl) as [I1 I2].
    destruct (extract_loop G tc r outs d1) as [e1 [v1| | |]], (extract_loop G tc r outs d2) as [e2 [v2| | |]];
      simpl in *; try discriminate; split; congruence.
Qed.

Theorem virtual_blind_to_variables : forall nout oi outs c1 c2,
  calt c1 = calt c2 -> couts c1 = couts c2 -> crng c1 = crng c2 ->
  snd (extract_output_values G tc nout oi outs c1) = snd (extract_output_values G tc nout oi outs c2) /\
  crng (fst (extract_output_values G tc nout oi outs c1)) = crng (fst (extract_output_values G tc nout oi outs c2)).
Proof.
  intros nout oi outs c1 c2 Ha Ho Hr. rewrite !extract_unfold. destruct (negb _); simpl; [auto|].
  apply extract_loop_blind; [|exact Hr].
  intro x. unfold ctx_get, ctx_swap_vars. simpl. rewrite Ha, Ho. reflexivity.
Qed.

(* a failing virtual expression fails the row with that very error, provided the entries
   before it succeeded *)
Lemma extract_loop_app : forall p1 p2 outs c,
  extract_loop G tc (p1 ++ p2) outs c =
  match extract_loop G tc p1 outs c with
  | (c1, Ok v1) => match extract_loop G tc p2 outs c1 with
                   | (c2, Ok v2) => (c2, Ok (v1 ++ v2))
                   | other => other
                   end
  | other => other
  end.
Proof.
  induction p1 as [|p r IH]; intros p2 outs c.
  - simpl. destruct (extract_loop G tc p2 outs c) as [c2 [v| | |]]; reflexivity.
  - change ((p :: r) ++ p2) with (p :: (r ++ p2)). rewrite !extract_loop_cons. cbv zeta.
    match goal with |- context [match ?s with (_, _) => _ end] => destruct s as [c1 [v| | |]] end; try reflexivity.
    rewrite IH. destruct (extract_loop G tc r outs c1) as [c2 [vs| | |]]; try reflexivity.
    destruct (extract_loop G tc p2 outs c2) as [c3 [vs2| | |]]; reflexivity.
Qed.

Theorem virtual_error_is_row_error : forall outs0 nout oi outs c k e xe c1 vals1,
  build_output_indices tc outs0 = Ok oi ->
  length outs = nout ->
  calt c = fm_new ->
  nth_error oi k = Some (OIVirtual e) ->
  extract_loop G tc (combine (firstn k (tc_expected_indices tc)) (firstn k oi)) outs (ctx_swap_vars c)
    = (c1, Ok vals1) ->                                       (* the earlier entries succeed *)
  fst (eval G (ctx_new (couts c)) e (crng c1)) = Err xe ->
  snd (extract_output_values G tc nout oi outs c) = Err (RT_Expr xe).
Proof.
  intros outs0 nout oi outs c k e xe c1 vals1 Hb Hl Halt Hk Hpre Hev.
  rewrite extract_unfold, Hl, Nat.eqb_refl. simpl.
  apply build_length in Hb.
  assert (Hsplit : combine (tc_expected_indices tc) oi =
                   combine (firstn k (tc_expected_indices tc)) (firstn k oi) ++
                   combine (skipn k (tc_expected_indices tc)) (skipn k oi)).
  { rewrite <- combine_firstn, <- (firstn_skipn k (combine _ _)) at 1. f_equal.
    apply combine_skipn. }
  rewrite Hsplit, extract_loop_app, Hpre.
  assert (Hlt : k < length (tc_expected_indices tc)).
  { rewrite <- Hb. apply nth_error_Some. congruence. }
  destruct (skipn k (tc_expected_indices tc)) as [|idx rest] eqn:Es.
  { pose proof (skipn_length k (tc_expected_indices tc)) as Hs. rewrite Es in Hs. simpl in Hs. lia. }
  assert (Eo : exists rest', skipn k oi = OIVirtual e :: rest').
  { clear - Hk. revert k Hk. induction oi as [|o l IH]; intros [|k] Hk; simpl in *; try discriminate.
    - inversion Hk; subst. eauto.
    - apply IH. exact Hk. }
  destruct Eo as [rest' Eo]. rewrite Eo. simpl combine. rewrite extract_loop_cons. cbv zeta. simpl snd.
  assert (Hg : forall x, ctx_get c1 x = ctx_get (ctx_new (couts c)) x).
  { intro x. rewrite <- (swap_get_outputs_only c Halt).
    pose proof (extract_loop_frame (combine (firstn k (tc_expected_indices tc)) (firstn k oi)) outs (ctx_swap_vars c)) as F.
    cbv zeta in F. rewrite Hpre in F. simpl in F. destruct F as [F1 [F2 F3]].
    unfold ctx_get. rewrite F1, F3. reflexivity. }
  rewrite (eval_blind_to G c1 _ e _ Hg), Hev. reflexivity.
Qed.

(* the instance asked for: a virtual signal that is just another signal whose value is Z or X *)
Corollary virtual_ZX_is_error : forall outs0 nout oi outs c k x v c1 vals1,
  build_output_indices tc outs0 = Ok oi ->
  length outs = nout ->
  calt c = fm_new ->
  nth_error oi k = Some (OIVirtual (EVar x)) ->
  extract_loop G tc (combine (firstn k (tc_expected_indices tc)) (firstn k oi)) outs (ctx_swap_vars c)
    = (c1, Ok vals1) ->
  ctx_get (ctx_new (couts c)) x = Some v -> v = OZ \/ v = OX ->
  snd (extract_output_values G tc nout oi outs c) = Err (RT_Expr (XE_UnexpectedValueForSignal x v)).
Proof.
  intros outs0 nout oi outs c k x v c1 vals1 Hb Hl Halt Hk Hpre Hg Hv.
  eapply virtual_error_is_row_error; eauto. rewrite (eval_var_ZX G _ x v _ Hg Hv). reflexivity.
Qed.

(* ------------------------------------------------------------------ (4) C03: attribution under a stable layout *)

Lemma nonvirtual_match : forall s (P : Prop), (is_virtual s = false -> P) ->
  match styp s with TyVirtual _ => True | _ => P end.
Proof. intros s P H. unfold is_virtual in H. destruct (styp s); auto. Qed.

Lemma out_index_for_nonvirtual : forall outs0 s, is_virtual s = false ->
  out_index_for outs0 s = match position (fun o => signal_eqb (oe_sig o) s) outs0 with
                          | Some n => OIOutput n
                          | None => OINone
                          end.
Proof. intros outs0 s H. unfold out_index_for, is_virtual in *. destruct (styp s); try reflexivity. discriminate. Qed.

Lemma position_same_layout : forall (outs outs0 : list out_entry) s, map oe_sig outs = map oe_sig outs0 ->
  position (fun o => signal_eqb (oe_sig o) s) outs = position (fun o => signal_eqb (oe_sig o) s) outs0.
Proof.
  intros outs outs0 s H.
  rewrite (position_map _ _ oe_sig (fun x => signal_eqb x s) outs).
  rewrite (position_map _ _ oe_sig (fun x => signal_eqb x s) outs0). rewrite H. reflexivity.
Qed.

(* The answer has the layout of the first one: every non-virtual expected signal gets the
   value of THE (first) entry of this answer that carries the signal, X if there is none.
   (NoDup of the layout is not needed for this.) *)
Theorem stable_layout_attribution : forall outs0 nout oi outs c c' vals,
  build_output_indices tc outs0 = Ok oi ->
  extract_output_values G tc nout oi outs c = (c', Ok vals) ->
  map oe_sig outs = map oe_sig outs0 ->
  Forall2 (fun idx v =>
     match nth_error (tc_signals tc) (ei_signal_index idx) with
     | Some s => match styp s with
                 | TyVirtual _ => True
                 | _ => v = match find (fun o => signal_eqb (oe_sig o) s) outs with
                            | Some o => oe_val o
                            | None => OX
                            end
                 end
     | None => True
     end) (tc_expected_indices tc) vals.
Proof.
  intros outs0 nout oi outs c c' vals Hb He Hlay.
  apply build_spec in Hb. apply extract_Ok_inv in He. destruct He as [_ [c1 [He _]]].
  apply extract_loop_Ok in He.
  eapply Forall2_combine; [exact Hb | exact He |].
  intros idx o v [s [Hs Eo]] Hp. unfold sig_at in Hs. rewrite Hs.
  apply nonvirtual_match. intro Hnv. subst o. unfold pair_ok in Hp. simpl in Hp.
  rewrite (out_index_for_nonvirtual _ _ Hnv) in Hp.
  rewrite find_position, (position_same_layout _ _ s Hlay).
  destruct (position (fun o => signal_eqb (oe_sig o) s) outs0) as [n|]; [|exact Hp].
  destruct Hp as [o [Hn [_ Hv]]]. rewrite Hn. exact Hv.
Qed.

(* the expected signals of the test case, in order *)
Definition expected_signals : list signal :=
  flat_map (fun idx => match sig_at idx with Some s => [s] | None => [] end) (tc_expected_indices tc).

Lemma build_spec_sigs : forall outs0 oi, build_output_indices tc outs0 = Ok oi ->
  oi = map (out_index_for outs0) expected_signals /\
  Forall2 (fun idx s => sig_at idx = Some s) (tc_expected_indices tc) expected_signals.
Proof.
  intros outs0 oi H. apply build_spec in H. unfold expected_signals.
  induction H as [|idx o l l' [s [Hs Ho]] _ [IH1 IH2]]; simpl; [split; [reflexivity | constructor]|].
  rewrite Hs. simpl. split; [congruence | constructor; assumption].
Qed.

Lemma expected_signals_NoDup :
  NoDup (map ei_signal_index (tc_expected_indices tc)) -> NoDup (tc_signals tc) -> NoDup expected_signals.
Proof.
  unfold expected_signals, sig_at. intros H1 H2.
  induction (tc_expected_indices tc) as [|idx r IH]; simpl in *; [constructor|].
  inversion H1 as [|? ? Hni Hr]; subst. specialize (IH Hr).
  destruct (nth_error (tc_signals tc) (ei_signal_index idx)) as [s|] eqn:Es; simpl; [|exact IH].
  constructor; [|exact IH]. intro Hin. apply in_flat_map in Hin. destruct Hin as [idx' [Hin' Hs']].
  destruct (nth_error (tc_signals tc) (ei_signal_index idx')) as [s'|] eqn:Es'; [|contradiction].
  destruct Hs' as [<- | []].
  assert (ei_signal_index idx = ei_signal_index idx').
  { apply (proj1 (NoDup_nth_error (tc_signals tc)) H2); [|congruence].
    apply nth_error_Some. congruence. }
  apply Hni. apply in_map_iff. exists idx'. auto.
Qed.

Definition is_output_index (i : out_index) : bool := match i with OIOutput _ => true | _ => false end.

Lemma is_output_index_for : forall outs0 s,
  is_output_index (out_index_for outs0 s) = true <-> is_virtual s = false /\ In s (map oe_sig outs0).
Proof.
  intros outs0 s. unfold out_index_for, is_virtual.
  destruct (position (fun o => signal_eqb (oe_sig o) s) outs0) as [n|] eqn:Ep.
  - destruct (position_Some_nth _ _ _ _ Ep) as [o [Hn Ho]]. apply signal_eqb_eq in Ho.
    assert (In s (map oe_sig outs0)) by (subst s; apply in_map; eapply nth_error_In; eauto).
    destruct (styp s); simpl; split; intro H0; try discriminate; auto; destruct H0; discriminate.
  - assert (~ In s (map oe_sig outs0)).
    { intro Hin. apply in_map_iff in Hin. destruct Hin as [o [Ho Hin]].
      pose proof (position_None_all _ _ _ Ep o Hin) as F. simpl in F. rewrite Ho, signal_eqb_refl in F. discriminate. }
    destruct (styp s); simpl; split; intro H0; try discriminate; destruct H0; try discriminate; contradiction.
Qed.

(* num_outputs is no longer consulted by the iterator (it compares with the length of the first
   answer); under these hypotheses the two numbers agree *)
Theorem num_outputs_eq_length : forall outs0 oi,
  build_output_indices tc outs0 = Ok oi ->
  NoDup (map oe_sig outs0) ->
  (forall o, In o outs0 -> exists idx, In idx (tc_expected_indices tc) /\
      nth_error (tc_signals tc) (ei_signal_index idx) = Some (oe_sig o) /\ is_virtual (oe_sig o) = false) ->
  NoDup expected_signals ->
  num_outputs oi = length outs0.
Proof.
  intros outs0 oi Hb Hnd Hexp Hnds.
  destruct (build_spec_sigs _ _ Hb) as [-> Hsig]. unfold num_outputs.
  change (fun i => match i with OIOutput _ => true | _ => false end) with is_output_index.
  rewrite filter_map_comm, map_length, <- (map_length oe_sig outs0).
  set (F := filter (fun s => is_output_index (out_index_for outs0 s)) expected_signals).
  assert (HF : NoDup F) by (apply NoDup_filter; exact Hnds).
  assert (I1 : incl F (map oe_sig outs0)).
  { intros s Hs. apply filter_In in Hs. destruct Hs as [_ Hs]. apply is_output_index_for in Hs. tauto. }
  assert (I2 : incl (map oe_sig outs0) F).
  { intros s Hs. apply in_map_iff in Hs. destruct Hs as [o [<- Ho]].
    destruct (Hexp o Ho) as [idx [Hidx [Hs Hnv]]]. apply filter_In. split.
    - destruct (Forall2_In_l _ _ _ _ _ Hsig _ Hidx) as [s' [Hs' E]]. unfold sig_at in E. congruence.
    - apply is_output_index_for. split; [exact Hnv | apply in_map; exact Ho]. }
  pose proof (NoDup_incl_length HF I1). pose proof (NoDup_incl_length Hnd I2). lia.
Qed.

Corollary num_outputs_eq_length' : forall outs0 oi,
  build_output_indices tc outs0 = Ok oi ->
  NoDup (map oe_sig outs0) ->
  (forall o, In o outs0 -> exists idx, In idx (tc_expected_indices tc) /\
      nth_error (tc_signals tc) (ei_signal_index idx) = Some (oe_sig o) /\ is_virtual (oe_sig o) = false) ->
  NoDup (map ei_signal_index (tc_expected_indices tc)) -> NoDup (tc_signals tc) ->
  num_outputs oi = length outs0.
Proof. intros. eapply num_outputs_eq_length; eauto. apply expected_signals_NoDup; assumption. Qed.

(* ------------------------------------------------------------------ (5) C13: a deviating layout is an error *)

(* in a duplicate-free first answer the entry at position j gets index j *)
Lemma out_index_at : forall outs0 j o0, NoDup (map oe_sig outs0) -> nth_error outs0 j = Some o0 ->
  is_virtual (oe_sig o0) = false -> out_index_for outs0 (oe_sig o0) = OIOutput j.
Proof.
  intros outs0 j o0 Hnd Hj Hnv. rewrite (out_index_for_nonvirtual _ _ Hnv).
  destruct (position (fun o => signal_eqb (oe_sig o) (oe_sig o0)) outs0) as [n|] eqn:Ep.
  - destruct (position_Some_nth _ _ _ _ Ep) as [o [Hn Ho]]. apply signal_eqb_eq in Ho.
    f_equal. apply (proj1 (NoDup_nth_error _) Hnd).
    + rewrite map_length. apply nth_error_Some. congruence.
    + rewrite (map_nth_error oe_sig _ _ Hn), (map_nth_error oe_sig _ _ Hj). congruence.
  - pose proof (position_None_all _ _ _ Ep o0 (nth_error_In _ _ Hj)) as F. simpl in F.
    rewrite signal_eqb_refl in F. discriminate.
Qed.

(* a successful extraction proves that the answer has exactly the layout of the first one *)
(* What a successful extraction establishes about the answer, with NO hypothesis on the first
   answer: it is as long as the first one, and at every position the table tracks (the first
   occurrence in the first answer of an expected non-virtual signal) it carries that signal. *)
Theorem tracked_positions_preserved : forall outs0 oi outs c c' vals,
  build_output_indices tc outs0 = Ok oi ->
  extract_output_values G tc (length outs0) oi outs c = (c', Ok vals) ->
  length outs = length outs0 /\
  forall idx s n, In idx (tc_expected_indices tc) ->
    nth_error (tc_signals tc) (ei_signal_index idx) = Some s -> is_virtual s = false ->
    position (fun o => signal_eqb (oe_sig o) s) outs0 = Some n ->
    exists o, nth_error outs n = Some o /\ oe_sig o = s.
Proof.
  intros outs0 oi outs c c' vals Hb He.
  pose proof (build_spec _ _ Hb) as Hspec.
  apply extract_Ok_inv in He. destruct He as [Hl [c1 [He _]]]. apply extract_loop_Ok in He.
  split; [exact Hl|]. intros idx s n Hidx Hs Hnv Hp.
  destruct (In_nth_error _ _ Hidx) as [k Hk].
  destruct (Forall2_nth_error _ _ _ _ _ Hspec _ _ Hk) as [o [Ho [s' [Hs' Eo]]]].
  unfold sig_at in Hs'. rewrite Hs in Hs'. inversion Hs'; subst s'.
  rewrite (out_index_for_nonvirtual _ _ Hnv), Hp in Eo. subst o.
  pose proof (nth_error_combine _ _ _ _ _ _ _ Hk Ho) as Hc.
  destruct (Forall2_nth_error _ _ _ _ _ He _ _ Hc) as [v [_ Hpo]].
  unfold pair_ok in Hpo. simpl in Hpo. destruct Hpo as [o [Hn [Hso _]]].
  unfold sig_at in Hso. rewrite Hs in Hso. inversion Hso. exists o. auto.
Qed.

(* If the first answer is duplicate-free and consists of expected non-virtual signals, every
   position is tracked: a successful extraction proves that the answer has exactly the layout
   of the first one.  (Both hypotheses are needed, see LayoutHypothesesNeeded below.) *)
Theorem extract_Ok_same_layout : forall outs0 oi outs c c' vals,
  build_output_indices tc outs0 = Ok oi ->
  NoDup (map oe_sig outs0) ->
  (forall o, In o outs0 -> exists idx, In idx (tc_expected_indices tc) /\
      nth_error (tc_signals tc) (ei_signal_index idx) = Some (oe_sig o) /\ is_virtual (oe_sig o) = false) ->
  extract_output_values G tc (length outs0) oi outs c = (c', Ok vals) ->
  map oe_sig outs = map oe_sig outs0.
Proof.
  intros outs0 oi outs c c' vals Hb Hnd Hexp He.
  destruct (tracked_positions_preserved _ _ _ _ _ _ Hb He) as [Hl Ht].
  apply nth_error_ext_eq; [rewrite !map_length; exact Hl|].
  intros j Hj. rewrite map_length in Hj.
  destruct (nth_error outs0 j) as [o0|] eqn:Ej; [|apply nth_error_None in Ej; lia].
  destruct (Hexp o0 (nth_error_In _ _ Ej)) as [idx [Hidx [Hs Hnv]]].
  pose proof (out_index_at _ _ _ Hnd Ej Hnv) as Hat.
  rewrite (out_index_for_nonvirtual _ _ Hnv) in Hat.
  destruct (position (fun o => signal_eqb (oe_sig o) (oe_sig o0)) outs0) as [n|] eqn:Ep; [|discriminate].
  inversion Hat; subst n.
  destruct (Ht idx _ _ Hidx Hs Hnv Ep) as [o [Hn Ho]].
  rewrite (map_nth_error oe_sig _ _ Hn), (map_nth_error oe_sig _ _ Ej). congruence.
Qed.

Theorem layout_deviation_is_error : forall outs0 oi outs,
  build_output_indices tc outs0 = Ok oi ->
  NoDup (map oe_sig outs0) ->
  (forall o, In o outs0 -> exists idx, In idx (tc_expected_indices tc) /\
      nth_error (tc_signals tc) (ei_signal_index idx) = Some (oe_sig o) /\ is_virtual (oe_sig o) = false) ->
  map oe_sig outs <> map oe_sig outs0 ->
  forall c c' vals, extract_output_values G tc (length outs0) oi outs c <> (c', Ok vals).
Proof.
  intros outs0 oi outs Hb Hnd Hexp Hdev c c' vals He. apply Hdev.
  eapply extract_Ok_same_layout; eauto.
Qed.

(* a changed number of entries is reported as such *)
Theorem wrong_length_is_error : forall nout oi outs c, length outs <> nout ->
  extract_output_values G tc nout oi outs c =
  (c, Err (RT_WrongNumberOfOutputs (N.of_nat nout) (N.of_nat (length outs)))).
Proof.
  intros nout oi outs c H. rewrite extract_unfold. apply Nat.eqb_neq in H. rewrite H. reflexivity.
Qed.

(* ... in particular with respect to the first answer: NO hypothesis on either answer or on the table *)
Theorem length_deviation_is_error : forall (outs0 : list out_entry) oi outs c, length outs <> length outs0 ->
  extract_output_values G tc (length outs0) oi outs c =
  (c, Err (RT_WrongNumberOfOutputs (N.of_nat (length outs0)) (N.of_nat (length outs)))).
Proof. intros. apply wrong_length_is_error. assumption. Qed.

(* conversely an answer with the layout of the first one passes the length check *)
Theorem length_check_passes : forall outs0 oi outs c, map oe_sig outs = map oe_sig outs0 ->
  length outs = length outs0 /\
  extract_output_values G tc (length outs0) oi outs c =
  (ctx_swap_vars (fst (extract_loop G tc (combine (tc_expected_indices tc) oi) outs (ctx_swap_vars c))),
   snd (extract_loop G tc (combine (tc_expected_indices tc) oi) outs (ctx_swap_vars c))).
Proof.
  intros outs0 oi outs c H.
  assert (Hl : length outs = length outs0) by (rewrite <- (map_length oe_sig outs), H, map_length; reflexivity).
  split; [exact Hl|]. rewrite extract_unfold, Hl, Nat.eqb_refl. reflexivity.
Qed.

(* ------------------------------------------------------------------ which failures are possible at all *)

Lemma Forall2_combine_In : forall A B (P : A -> B -> Prop) l l', Forall2 P l l' ->
  forall a b, In (a, b) (combine l l') -> P a b.
Proof.
  induction 1 as [|x y l l' Hxy _ IH]; simpl; intros a b Hin; [contradiction|].
  destruct Hin as [E | Hin]; [inversion E; subst; exact Hxy | apply IH; exact Hin].
Qed.

Lemma extract_loop_kinds : forall pairs outs c,
  (forall idx n, In (idx, OIOutput n) pairs -> sig_at idx <> None) ->
  (forall idx e, In (idx, OIVirtual e) pairs -> wf_expr e) ->
  match snd (extract_loop G tc pairs outs c) with
  | Ok _ => True
  | Err e => e = RT_WrongOutputOrder \/ exists x, e = RT_Expr x
  | Panic _ | OOF => False
  end.
Proof.
  induction pairs as [|[idx o] r IH]; intros outs c Ho Hv; [exact I|].
  assert (IH' : forall c0, match snd (extract_loop G tc r outs c0) with
                           | Ok _ => True
                           | Err e => e = RT_WrongOutputOrder \/ exists x, e = RT_Expr x
                           | Panic _ | OOF => False
                           end).
  { intro c0. apply IH; intros; [eapply Ho | eapply Hv]; right; eauto. }
  rewrite extract_loop_cons. cbv zeta. simpl snd. simpl fst.
  destruct o as [|n|e].
  - specialize (IH' c). destruct (extract_loop G tc r outs c) as [c2 [vs| | |]]; simpl in *; auto.
  - rewrite output_step. pose proof (Ho idx n (or_introl eq_refl)) as Hs.
    destruct (sig_at idx) as [s|]; [|congruence].
    destruct (nth_error outs n) as [o|] eqn:En; [|simpl; auto].
    destruct (signal_eqb s (oe_sig o)); [|simpl; auto].
    specialize (IH' c). destruct (extract_loop G tc r outs c) as [c2 [vs| | |]]; simpl in *; auto.
  - pose proof (eval_never_panics G e (Hv idx e (or_introl eq_refl)) c (crng c)) as Hp.
    pose proof (eval_never_oof G e c (crng c)) as Hf.
    destruct (fst (eval G c e (crng c))) as [n| x | s |]; simpl.
    + specialize (IH' (ctx_with_rng c (snd (eval G c e (crng c))))).
      destruct (extract_loop G tc r outs _) as [c2 [vs| | |]]; simpl in *; auto.
    + right. exists x. reflexivity.
    + apply (Hp s). reflexivity.
    + apply Hf. reflexivity.
Qed.

Lemma build_output_lt : forall outs0 oi, build_output_indices tc outs0 = Ok oi ->
  forall idx n, In (idx, OIOutput n) (combine (tc_expected_indices tc) oi) ->
  n < length outs0 /\ sig_at idx <> None.
Proof.
  intros outs0 oi Hb idx n Hin. apply build_spec in Hb.
  destruct (Forall2_combine_In _ _ _ _ _ Hb _ _ Hin) as [s [Hs Eo]]. split; [|congruence].
  unfold out_index_for in Eo.
  destruct (position (fun o => signal_eqb (oe_sig o) s) outs0) as [m|] eqn:Ep.
  - apply position_Some_lt in Ep. destruct (styp s); inversion Eo; subst; exact Ep.
  - destruct (styp s); discriminate.
Qed.

(* Whatever the first answer was, NO later answer whatsoever makes extract_output_values
   panic: the three runtime errors are the only failures.  (An index of the table that lies
   beyond the end of a later answer is a WrongOutputOrder: outputs.get(n).) *)
Theorem extract_never_panics : forall outs0 nout oi outs c,
  build_output_indices tc outs0 = Ok oi ->
  (forall s e, In s (tc_signals tc) -> styp s = TyVirtual e -> wf_expr e) ->
  match snd (extract_output_values G tc nout oi outs c) with
  | Ok _ => True
  | Err e => e = RT_WrongNumberOfOutputs (N.of_nat nout) (N.of_nat (length outs))
             \/ e = RT_WrongOutputOrder \/ exists x, e = RT_Expr x
  | Panic _ | OOF => False
  end.
Proof.
  intros outs0 nout oi outs c Hb Hwf. rewrite extract_unfold.
  destruct (Nat.eqb (length outs) nout) eqn:El; simpl; [|auto].
  assert (K : match snd (extract_loop G tc (combine (tc_expected_indices tc) oi) outs (ctx_swap_vars c)) with
              | Ok _ => True
              | Err e => e = RT_WrongOutputOrder \/ exists x, e = RT_Expr x
              | Panic _ | OOF => False
              end).
  { apply extract_loop_kinds.
    - intros idx n Hin. destruct (build_output_lt _ _ Hb _ _ Hin). assumption.
    - intros idx e Hin. apply build_spec in Hb.
      destruct (Forall2_combine_In _ _ _ _ _ Hb _ _ Hin) as [s [Hs Eo]].
      apply (Hwf s e); [eapply nth_error_In; exact Hs|].
      unfold out_index_for in Eo. destruct (styp s); try (destruct (position _ outs0); discriminate). congruence. }
  destruct (snd (extract_loop G tc (combine (tc_expected_indices tc) oi) outs (ctx_swap_vars c))); auto.
Qed.

(* (5) sharpened: the deviation is reported as one of the three runtime errors *)
Theorem layout_deviation_error_kind : forall outs0 oi outs c,
  build_output_indices tc outs0 = Ok oi ->
  NoDup (map oe_sig outs0) ->
  (forall o, In o outs0 -> exists idx, In idx (tc_expected_indices tc) /\
      nth_error (tc_signals tc) (ei_signal_index idx) = Some (oe_sig o) /\ is_virtual (oe_sig o) = false) ->
  (forall s e, In s (tc_signals tc) -> styp s = TyVirtual e -> wf_expr e) ->
  map oe_sig outs <> map oe_sig outs0 ->
  exists e, snd (extract_output_values G tc (length outs0) oi outs c) = Err e /\
    (e = RT_WrongNumberOfOutputs (N.of_nat (length outs0)) (N.of_nat (length outs))
     \/ e = RT_WrongOutputOrder \/ exists x, e = RT_Expr x).
Proof.
  intros outs0 oi outs c Hb Hnd Hexp Hwf Hdev.
  pose proof (extract_never_panics outs0 (length outs0) oi outs c Hb Hwf) as K.
  pose proof (layout_deviation_is_error _ _ _ Hb Hnd Hexp Hdev c) as Hne.
  destruct (extract_output_values G tc (length outs0) oi outs c) as [c' [vals|e|s|]] eqn:E; simpl in *; try contradiction.
  - exfalso. apply (Hne c' vals). reflexivity.
  - exists e. split; [reflexivity | exact K].
Qed.

(* ------------------------------------------------------------------ (7) C04: reading an output the driver does not supply *)

Theorem missing_read_fails_constructor : forall outs0 r s,
  In r (tc_read_outputs tc) -> nth_error (tc_signals tc) r = Some s ->
  (forall o, In o outs0 -> oe_sig o <> s) -> is_virtual s = false ->
  (forall idx, In idx (tc_expected_indices tc) -> ei_signal_index idx < length (tc_signals tc)) ->
  (forall r', In r' (tc_read_outputs tc) -> r' < length (tc_signals tc)) ->
  exists names, build_output_indices tc outs0 = Err (RT_MissingOutputs names) /\ In (sname s) names.
Proof.
  intros outs0 r s Hr Hs Hmiss Hnv Hidx Hreads. unfold build_output_indices.
  match goal with |- context [map_r ?f (tc_expected_indices tc)] => set (f1 := f) end.
  assert (T1 : exists l, map_r f1 (tc_expected_indices tc) = Ok l).
  { apply map_r_total. intros idx Hin. unfold f1.
    destruct (nth_error (tc_signals tc) (ei_signal_index idx)) as [s'|] eqn:Es.
    - apply get_signal_Ok in Es. rewrite Es. simpl.
      destruct (styp s'); try (eexists; reflexivity);
        destruct (position (fun o => signal_eqb (oe_sig o) s') outs0); eexists; reflexivity.
    - apply nth_error_None in Es. specialize (Hidx _ Hin). lia. }
  destruct T1 as [l El]. rewrite El. simpl rbind at 1. cbv zeta.
  set (found := flat_map (fun x : out_index * option nat => match snd x with Some i => [i] | None => [] end) l).
  assert (Hnf : ~ In r found).
  { intro Hin. unfold found in Hin. apply in_flat_map in Hin. destruct Hin as [[o [i|]] [Hl Hi]]; [|contradiction].
    simpl in Hi. destruct Hi as [-> | []].
    apply map_r_Ok in El. destruct (Forall2_In_r _ _ _ _ _ El _ Hl) as [idx [_ Hf]]. unfold f1 in Hf.
    destruct (get_signal tc (ei_signal_index idx)) as [s'| | |] eqn:Gs; simpl in Hf; try discriminate.
    apply get_signal_Ok in Gs.
    assert (Hpos : exists n, position (fun o => signal_eqb (oe_sig o) s') outs0 = Some n /\ ei_signal_index idx = r).
    { destruct (styp s'); try discriminate;
        (destruct (position (fun o => signal_eqb (oe_sig o) s') outs0) as [n|]; [|discriminate]);
        inversion Hf; eauto. }
    destruct Hpos as [n [Hp Er]]. rewrite Er, Hs in Gs. inversion Gs; subst s'.
    destruct (position_Some_nth _ _ _ _ Hp) as [o0 [Hn Ho]]. apply signal_eqb_eq in Ho.
    apply (Hmiss o0); [eapply nth_error_In; eauto | exact Ho]. }
  match goal with |- context [map_r ?f (tc_read_outputs tc)] => set (f2 := f) end.
  assert (T2 : exists miss, map_r f2 (tc_read_outputs tc) = Ok miss).
  { apply map_r_total. intros r' Hin. unfold f2. destruct (existsb (Nat.eqb r') found); [eauto|].
    destruct (nth_error (tc_signals tc) r') as [s'|] eqn:Es.
    - apply get_signal_Ok in Es. rewrite Es. simpl. eauto.
    - apply nth_error_None in Es. specialize (Hreads _ Hin). lia. }
  destruct T2 as [miss Em]. rewrite Em. simpl rbind.
  assert (Hin : In (sname s) (concat miss)).
  { apply map_r_Ok in Em. destruct (Forall2_In_l _ _ _ _ _ Em _ Hr) as [m [Hm Hf]]. unfold f2 in Hf.
    destruct (existsb (Nat.eqb r) found) eqn:Ex.
    - exfalso. apply Hnf. apply existsb_exists in Ex. destruct Ex as [x [Hx Ex]].
      apply Nat.eqb_eq in Ex. subst x. exact Hx.
    - apply get_signal_Ok in Hs. rewrite Hs in Hf. simpl in Hf. inversion Hf; subst m.
      apply in_concat. exists [sname s]. split; [exact Hm | left; reflexivity]. }
  destruct (concat miss) as [|n0 ns] eqn:Ec; [contradiction|].
  exists (n0 :: ns). split; [reflexivity | exact Hin].
Qed.

End OUT.

(* hence the iterator is never built: the constructor returns the error after its one driver call *)
Theorem missing_read_fails_try_new : forall DE (D : driver DE) tc inputs outs0 r s,
  generate_default_input_entries tc = Ok inputs ->
  D [] (RW, inputs) = DrvOk outs0 ->
  In r (tc_read_outputs tc) -> nth_error (tc_signals tc) r = Some s ->
  (forall o, In o outs0 -> oe_sig o <> s) -> is_virtual s = false ->
  (forall idx, In idx (tc_expected_indices tc) -> ei_signal_index idx < length (tc_signals tc)) ->
  (forall r', In r' (tc_read_outputs tc) -> r' < length (tc_signals tc)) ->
  exists names, try_new DE D tc = NewErr DE (IE_Runtime (RT_MissingOutputs names)) [(RW, inputs)]
                /\ In (sname s) names.
Proof.
  intros DE D tc inputs outs0 r s Hg Hd Hr Hs Hmiss Hnv Hidx Hreads.
  destruct (missing_read_fails_constructor tc outs0 r s Hr Hs Hmiss Hnv Hidx Hreads) as [names [Hb Hin]].
  exists names. split; [|exact Hin]. unfold try_new. rewrite Hg, Hd, Hb. reflexivity.
Qed.

(* ------------------------------------------------------------------ the row handed to the user *)

Theorem into_data_row_outputs : forall row vals, length (er_expected row) = length vals ->
  map or_output (dr_outputs (into_data_row row vals)) = vals /\
  map or_sig (dr_outputs (into_data_row row vals)) = map xe_sig (er_expected row) /\
  map or_expected (dr_outputs (into_data_row row vals)) = map xe_val (er_expected row).
Proof.
  intros row vals. unfold into_data_row. simpl. generalize (er_expected row). clear row.
  intros l. revert vals. induction l as [|x r IH]; intros [|v vs] H; simpl in *; try discriminate; auto.
  destruct (IH vs ltac:(lia)) as [H1 [H2 H3]]. rewrite H1, H2, H3. auto.
Qed.

(* ------------------------------------------------------------------ the two hypotheses of (5) are needed *)

(* The table only tracks the FIRST occurrence of each EXPECTED signal in the first answer.  A
   first answer with a duplicated entry, or with an entry that is no expected signal, leaves a
   position untracked, and a later answer of the same length may put anything there. *)
Module LayoutHypothesesNeeded.
Definition sigA : signal := {| sname := [65%N]; sbits := 1%N; styp := TyOutput |}.
Definition sigB : signal := {| sname := [66%N]; sbits := 1%N; styp := TyOutput |}.
Definition sigJ : signal := {| sname := [74%N]; sbits := 1%N; styp := TyOutput |}.
Definition tcA : testcase :=
  {| tc_stmts := []; tc_signals := [sigA]; tc_input_indices := [];
     tc_expected_indices := [EIEntry 0 0]; tc_read_outputs := [] |}.
Definition oe (s : signal) : out_entry := {| oe_sig := s; oe_val := OVal 0 |}.

(* first answer [A; A]: position 1 is untracked, [A; B] is accepted *)
Theorem duplicate_in_first_answer : forall G,
  build_output_indices tcA [oe sigA; oe sigA] = Ok [OIOutput 0] /\
  extract_output_values G tcA 2 [OIOutput 0] [oe sigA; oe sigB] (ctx_new []) = (ctx_new [], Ok [OVal 0]).
Proof. intro G. split; reflexivity. Qed.

(* first answer [A; J] with J not expected: position 1 is untracked, [A; B] is accepted *)
Theorem unexpected_in_first_answer : forall G,
  build_output_indices tcA [oe sigA; oe sigJ] = Ok [OIOutput 0] /\
  extract_output_values G tcA 2 [OIOutput 0] [oe sigA; oe sigB] (ctx_new []) = (ctx_new [], Ok [OVal 0]).
Proof. intro G. split; reflexivity. Qed.
End LayoutHypothesesNeeded.

(* ------------------------------------------------------------------ assumptions *)

Print Assumptions signal_eqb_eq.
Print Assumptions check_iff.
Print Assumptions is_checked_iff.
Print Assumptions failing_outputs_spec.
Print Assumptions no_misattribution.
Print Assumptions stable_layout_attribution.
Print Assumptions num_outputs_eq_length'.
Print Assumptions tracked_positions_preserved.
Print Assumptions length_deviation_is_error.
Print Assumptions length_check_passes.
Print Assumptions extract_Ok_same_layout.
Print Assumptions layout_deviation_is_error.
Print Assumptions layout_deviation_error_kind.
Print Assumptions extract_never_panics.
Print Assumptions eval_blind_to.
Print Assumptions extract_restores_vars.
Print Assumptions virtual_value.
Print Assumptions virtual_value_explicit.
Print Assumptions virtual_value_no_random.
Print Assumptions extract_rng.
Print Assumptions virtual_blind_to_variables.
Print Assumptions virtual_error_is_row_error.
Print Assumptions virtual_ZX_is_error.
Print Assumptions missing_read_fails_constructor.
Print Assumptions missing_read_fails_try_new.
