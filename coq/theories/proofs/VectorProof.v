(* C06 at the level of the RUN, over the driver's call log.

   props/C06.v speaks about ONE generated row.  Here, for a test that with_signals accepted, from
   the state that try_new returns, for every state that calls of next() can reach (`reach`: the
   continuing caller collect_e, the caller collect that stops at the first error item, any other
   sequence of next() calls):
     (1) every_vector_complete      every call of the log - the constructor's, the rows', the calls
                                    behind error items - carries exactly one entry per input-capable
                                    signal, in signal-list order;
     (2) every_checked_row_complete every yielded row whose outputs were read has exactly one result
                                    per output-capable or virtual signal, in signal-list order (a
                                    mid-clock row, whose outputs are not read, has none);
     (3) unflagged_means_unchanged  for ANY two consecutive calls of the log, an entry of the later
                                    one that is not flagged carries the value of the entry at the same
                                    position (same signal) of the earlier one - THROUGH errors: the
                                    calls may belong to rows, to rows whose call failed, to answers
                                    that were unusable;
     (4) omitted_never_flagged      in every call, the entry of a signal without header column is
                                    unflagged and carries the declared default.

   THE INVARIANT for (3) (log_inv): the log is not empty, and its LAST call carries the vector of
   i_prev - generate_input_entries of the entries in i_prev (with some flags) when i_prev is Some,
   the default vector when i_prev is None - and all adjacent calls so far are related.  try_new
   establishes it (one call, i_prev = None); every next() preserves it: None and an evaluation
   error touch neither the log nor i_prev; a row, a failed call and an unusable answer append the
   call of the row AND have already set i_prev to that row's entries - which is why the flags stay
   truthful after an error item: the next row is compared with the vector the driver was handed
   last, also when the driver refused it.
   The call c_0 is the constructor's: the first row is flagged against "no previous row" (all its
   header columns are flagged: WidthProof.first_row_all_columns_changed), so (3) for the pair
   (c_0, c_1) only speaks about the signals the header omits, and those carry the default in both
   (C06_changed_sound_first).
   For (2) the invariant is that the index table has one index per expected signal
   (length (i_outidx st) = length (tc_expected_indices tc)): the constructor builds it so and
   next() never touches it. *)
From DTR Require Import Prelude I64 Ast FramedMap Parser Bind Eval Stmt Iter ByNameSpec Script.
From DTR.proofs Require Import ByNameProof IterLogProof OutputsProof RunRefine RunRefineE IterLogProofE WidthProof.
Local Open Scope nat_scope.

Local Arguments ItNone {DE} st.
Local Arguments ItRow {DE} row st.
Local Arguments ItErr {DE} e st.
Local Arguments ItPanic {DE} s.
Local Arguments ItOOF {DE}.
Local Arguments NewOk {DE} st.
Local Arguments NewErr {DE} e log.
Local Arguments NewPanic {DE} s.

(* ------------------------------------------------------------------ adjacent elements *)

Definition adjacent {A : Type} (R : A -> A -> Prop) (l : list A) : Prop :=
  forall l1 a b l2, l = l1 ++ a :: b :: l2 -> R a b.

Lemma adjacent_single : forall A (R : A -> A -> Prop) a, adjacent R [a].
Proof.
  intros A R a l1 x y l2 E. apply (f_equal (@length A)) in E.
  rewrite app_length in E. cbn [length] in E. lia.
Qed.

Lemma adjacent_snoc : forall A (R : A -> A -> Prop) l0 c c',
  adjacent R (l0 ++ [c]) -> R c c' -> adjacent R ((l0 ++ [c]) ++ [c']).
Proof.
  intros A R l0 c c' Hadj HR l1 a b l2 E.
  induction l2 as [|x l2 _] using rev_ind.
  - change (l1 ++ [a; b]) with (l1 ++ [a] ++ [b]) in E. rewrite app_assoc in E.
    apply app_inj_tail in E. destruct E as [E1 E2]. apply app_inj_tail in E1. destruct E1 as [_ E1].
    subst. exact HR.
  - replace (l1 ++ a :: b :: l2 ++ [x]) with ((l1 ++ a :: b :: l2) ++ [x]) in E
      by (rewrite <- app_assoc; reflexivity).
    apply app_inj_tail in E. destruct E as [E _]. eapply Hadj. exact E.
Qed.

Lemma map_combine_fst : forall A B C (g : A -> C) (l : list A) (l' : list B),
  length l = length l' -> map (fun p => g (fst p)) (combine l l') = map g l.
Proof.
  intros A B C g. induction l as [|x l IH]; intros [|y l'] H; cbn [length] in H; try discriminate;
    [reflexivity|]. cbn [combine map fst]. f_equal. apply IH. lia.
Qed.

(* ------------------------------------------------------------------ the relations on vectors *)

(* same signal; and the value is the same unless the later entry is flagged *)
Definition same_unless_flagged (e1 e2 : in_entry) : Prop :=
  ie_sig e1 = ie_sig e2 /\ (ie_changed e2 = false -> ie_val e1 = ie_val e2).

Definition calls_agree (c1 c2 : call) : Prop := Forall2 same_unless_flagged (snd c1) (snd c2).

Definition vector_complete (sigs : list signal) (ins : list in_entry) : Prop :=
  map ie_sig ins = filter is_input sigs.

Definition omitted_at_default (hdr : list name) (ins : list in_entry) : Prop :=
  forall e, In e ins -> column_named hdr (sname (ie_sig e)) = None -> is_default_entry e.

Definition outputs_complete (sigs : list signal) (r : data_row) : Prop :=
  map or_sig (dr_outputs r) = filter (fun s => is_output s || is_virtual s) sigs.

(* ------------------------------------------------------------------ next() as a step *)

Section VEC.
Variable G : gen.
Variable DE : Type.
Variable D : driver DE.
Variable w_default : bool.
Variable tc : testcase.

Local Notation inext := (Iter.inext G DE D w_default tc).
Local Notation collect_e := (RunRefineE.collect_e G DE D w_default tc).
Local Notation collect := (IterLogProof.collect G DE D w_default tc).

Definition next_state (i : item DE) : option istate :=
  match i with ItNone st' | ItRow _ st' | ItErr _ st' => Some st' | ItPanic _ | ItOOF => None end.

(* every state that calls of next() reach, whatever the caller does between them *)
Inductive reach (fuel : nat) : istate -> istate -> Prop :=
| reach_refl : forall st, reach fuel st st
| reach_step : forall st st1 st', next_state (inext fuel st) = Some st1 -> reach fuel st1 st' ->
                                  reach fuel st st'.

Lemma collect_e_reach : forall fuel n st0 items st',
  collect_e fuel n st0 = (items, Some st') -> reach fuel st0 st'.
Proof.
  intros fuel n. induction n as [|n IH]; intros st0 items st' H.
  - cbn [RunRefineE.collect_e] in H. inversion H; subst. constructor.
  - rewrite collect_e_S in H. destruct (inext fuel st0) as [st1|row st1|e st1|s|] eqn:Hn; try discriminate H.
    + inversion H; subst. eapply reach_step; [rewrite Hn; reflexivity|constructor].
    + destruct (collect_e fuel n st1) as [l s] eqn:Hc. inversion H; subst.
      eapply reach_step; [rewrite Hn; reflexivity|eapply IH; exact Hc].
    + destruct (collect_e fuel n st1) as [l s] eqn:Hc. inversion H; subst.
      eapply reach_step; [rewrite Hn; reflexivity|eapply IH; exact Hc].
Qed.

Lemma collect_reach : forall fuel n st0 items st',
  collect fuel n st0 = (items, Some st') -> reach fuel st0 st'.
Proof.
  intros fuel n. induction n as [|n IH]; intros st0 items st' H; cbn [IterLogProof.collect] in H.
  - inversion H; subst. constructor.
  - destruct (inext fuel st0) as [st1|row st1|e st1|s|] eqn:Hn; try discriminate H.
    + inversion H; subst. eapply reach_step; [rewrite Hn; reflexivity|constructor].
    + destruct (collect fuel n st1) as [l s] eqn:Hc. inversion H; subst.
      eapply reach_step; [rewrite Hn; reflexivity|eapply IH; exact Hc].
    + inversion H; subst. eapply reach_step; [rewrite Hn; reflexivity|constructor].
Qed.

(* everything one next() does to the log, to i_prev and to the index table, in all outcomes that
   leave a state: either nothing (None, an evaluation error of the program), or one call - the
   vector of the entries it has put into i_prev, flagged against the i_prev it found (a row, a
   row whose call failed, a row whose answer was unusable) *)
Lemma inext_step : forall fuel st st',
  next_state (inext fuel st) = Some st' ->
  i_outidx st' = i_outidx st /\
  ((i_log st' = i_log st /\ i_prev st' = i_prev st)
   \/ exists kind entries ins,
        i_log st' = i_log st ++ [(kind, ins)] /\ i_prev st' = Some entries /\
        generate_input_entries tc entries (check_changed_entries (i_prev st) entries) = Ok ins).
Proof.
  intros fuel st st' H.
  pose proof (inext_inv G DE D w_default tc fuel st) as Hinv.
  pose proof (get_row_inv G tc fuel st) as Hg.
  destruct (inext fuel st) as [s1|row s1|[e|r] s1|s|]; cbn [next_state] in H; try discriminate H;
    inversion H; subst s1; clear H.
  - rewrite Hinv in Hg. destruct Hg as [_ [c' [_ Hs]]]. subst st'.
    cbn [with_iter_ctx i_outidx i_log i_prev]. auto.
  - destruct Hinv as [er [st1 [Hr Hcase]]]. rewrite Hr in Hg. destruct Hg as [_ [_ [Ho _]]].
    destruct (get_row_row tc G _ _ _ _ Hr) as [entries [Hp Hi]]. destruct Hi as [Hi _].
    destruct Hcase as [[_ [outs [c2 [vals [_ [_ [_ Hs]]]]]]]|[_ [outs [_ [_ Hs]]]]]; subst st';
      cbn [with_ctx_log i_outidx i_log i_prev]; (split; [exact Ho|]); right;
      eexists _, entries, (er_inputs er); auto.
  - destruct Hinv as [er [st1 [Hr Hcase]]]. cbv zeta in Hcase. destruct Hcase as [_ Hs].
    rewrite Hr in Hg. destruct Hg as [_ [_ [Ho _]]].
    destruct (get_row_row tc G _ _ _ _ Hr) as [entries [Hp [Hi _]]]. subst st'.
    cbn [with_ctx_log i_outidx i_log i_prev]. split; [exact Ho|]. right.
    eexists _, entries, (er_inputs er). auto.
  - destruct Hinv as [[x [_ Hr]]|[er [st1 [outs [c2 [Hr [_ [_ [_ Hs]]]]]]]]].
    + rewrite Hr in Hg. destruct Hg as [_ [Hl [Ho [_ [_ [_ [_ Hp]]]]]]]. auto.
    + rewrite Hr in Hg. destruct Hg as [_ [_ [Ho _]]].
      destruct (get_row_row tc G _ _ _ _ Hr) as [entries [Hp [Hi _]]]. subst st'.
      cbn [with_ctx_log i_outidx i_log i_prev]. split; [exact Ho|]. right.
      eexists _, entries, (er_inputs er). auto.
Qed.

(* ------------------------------------------------------------------ properties of every call *)

(* what holds of every generated vector and of the log so far holds of the log of every
   reachable state *)
Lemma reach_log_forall : forall P : list in_entry -> Prop,
  (forall entries changed l, generate_input_entries tc entries changed = Ok l -> P l) ->
  forall fuel st st', reach fuel st st' ->
  Forall (fun c : call => P (snd c)) (i_log st) -> Forall (fun c : call => P (snd c)) (i_log st').
Proof.
  intros P HP fuel st st' Hr. induction Hr as [st|st st1 st' Hn _ IH]; intro Hl; [exact Hl|].
  apply IH. destruct (inext_step _ _ _ Hn) as [_ [[Hlog _]|[kind [entries [ins [Hlog [_ Hi]]]]]]];
    rewrite Hlog; [exact Hl|].
  apply Forall_app. split; [exact Hl|]. constructor; [|constructor]. cbn [snd]. eapply HP. exact Hi.
Qed.

(* ------------------------------------------------------------------ the invariant for (3) *)

(* the vector that belongs to a value of i_prev *)
Definition vector_of_prev (prev : option (list dentry)) (ins : list in_entry) : Prop :=
  match prev with
  | Some p => exists ch, generate_input_entries tc p ch = Ok ins
  | None => generate_default_input_entries tc = Ok ins
  end.

Definition log_inv (st : istate) : Prop :=
  (exists l0 c, i_log st = l0 ++ [c] /\ vector_of_prev (i_prev st) (snd c)) /\
  adjacent calls_agree (i_log st).

Theorem try_new_log_inv : forall st0, Iter.try_new DE D tc = NewOk st0 -> log_inv st0.
Proof.
  intros st0 H. pose proof (try_new_calls DE D tc) as Hc. rewrite H in Hc.
  destruct Hc as [ins [outs [Hg [Hl [_ [_ [_ Hp]]]]]]]. split.
  - exists [], (RW, ins). rewrite Hl, Hp. split; [reflexivity|exact Hg].
  - rewrite Hl. apply adjacent_single.
Qed.

Section BOUND.
Variable p : parsed.
Variable sigs0 : list signal.
Hypothesis Hws : with_signals p sigs0 = Ok tc.

(* C06_changed_sound / C06_changed_sound_first, on the model's vectors *)
Lemma next_vector_agrees : forall prev ins1 entries ins2,
  vector_of_prev prev ins1 ->
  generate_input_entries tc entries (check_changed_entries prev entries) = Ok ins2 ->
  Forall2 same_unless_flagged ins1 ins2.
Proof.
  intros prev ins1 entries ins2 H1 H2.
  apply (proj1 (C06_inputs_by_name _ _ _ _ _ _ Hws)) in H2.
  destruct prev as [pr|]; cbn [vector_of_prev] in H1.
  - destruct H1 as [ch H1]. apply (proj1 (C06_inputs_by_name _ _ _ _ _ _ Hws)) in H1.
    exact (C06_changed_sound _ _ _ _ _ _ _ H1 H2).
  - destruct (C06_defaults _ _ _ Hws) as [l [Hg Hs]]. rewrite Hg in H1. inversion H1; subst l.
    exact (C06_changed_sound_first _ _ _ _ _ Hs H2).
Qed.

(* next() preserves the invariant, in all five outcomes (a panic and the end of the fuel leave no
   state) *)
Theorem inext_log_inv : forall fuel st, log_inv st ->
  match inext fuel st with
  | ItNone st' => log_inv st'
  | ItRow _ st' => log_inv st'
  | ItErr _ st' => log_inv st'
  | ItPanic _ => True
  | ItOOF => True
  end.
Proof.
  intros fuel st [[l0 [c [Hl Hv]]] Hadj].
  assert (K : forall st', next_state (inext fuel st) = Some st' -> log_inv st').
  { intros st' Hn.
    destruct (inext_step _ _ _ Hn) as [_ [[Hlog Hp]|[kind [entries [ins [Hlog [Hp Hi]]]]]]].
    - split; [exists l0, c; rewrite Hlog, Hp; auto|rewrite Hlog; exact Hadj].
    - split.
      + exists (l0 ++ [c]), (kind, ins). rewrite Hlog, Hl, Hp. split; [reflexivity|].
        cbn [vector_of_prev snd]. eexists. exact Hi.
      + rewrite Hlog. rewrite Hl in Hadj |- *. apply adjacent_snoc; [exact Hadj|].
        unfold calls_agree. cbn [snd]. eapply next_vector_agrees; [exact Hv|exact Hi]. }
  destruct (inext fuel st) as [s1|row s1|e s1|s|]; try exact I; apply K; reflexivity.
Qed.

Lemma reach_log_inv : forall fuel st st', reach fuel st st' -> log_inv st -> log_inv st'.
Proof.
  intros fuel st st' Hr. induction Hr as [st|st st1 st' Hn _ IH]; intro Hi; [exact Hi|].
  apply IH. pose proof (inext_log_inv fuel st Hi) as K.
  destruct (inext fuel st) as [s1|row s1|e s1|s|]; cbn [next_state] in Hn; try discriminate Hn;
    inversion Hn; subst s1; exact K.
Qed.

(* ------------------------------------------------------------------ (1), (3), (4) for reachable states *)

Lemma generated_vector_complete : forall entries changed l,
  generate_input_entries tc entries changed = Ok l -> vector_complete (tc_signals tc) l.
Proof.
  intros entries changed l H. apply (proj1 (C06_inputs_by_name _ _ _ _ _ _ Hws)) in H.
  exact (C06_inputs_complete _ _ _ _ _ H).
Qed.

Lemma generated_vector_omitted : forall entries changed l,
  generate_input_entries tc entries changed = Ok l -> omitted_at_default (p_signals p) l.
Proof.
  intros entries changed l H. apply (proj1 (C06_inputs_by_name _ _ _ _ _ _ Hws)) in H.
  intros e Hin Hcol. exact (C06_omitted_never_changed _ _ _ _ _ H e Hin Hcol).
Qed.

(* the constructor's vector: complete, and EVERY entry is an unflagged default *)
Lemma constructor_vector : forall st0, Iter.try_new DE D tc = NewOk st0 ->
  exists ins, i_log st0 = [(RW, ins)] /\ generate_default_input_entries tc = Ok ins /\
    vector_complete (tc_signals tc) ins /\ Forall is_default_entry ins.
Proof.
  intros st0 H. pose proof (try_new_calls DE D tc) as Hc. rewrite H in Hc.
  destruct Hc as [ins [outs [Hg [Hl _]]]]. exists ins. split; [exact Hl|]. split; [exact Hg|].
  destruct (C06_defaults _ _ _ Hws) as [l [Hg' Hs]]. rewrite Hg in Hg'. inversion Hg'; subst l.
  exact (C06_defaults_complete _ _ Hs).
Qed.

Theorem every_vector_complete_reach : forall fuel st0 st',
  Iter.try_new DE D tc = NewOk st0 -> reach fuel st0 st' ->
  Forall (fun c : call => map ie_sig (snd c) = filter is_input (tc_signals tc)) (i_log st').
Proof.
  intros fuel st0 st' Hnew Hr.
  apply (reach_log_forall (vector_complete (tc_signals tc)) generated_vector_complete _ _ _ Hr).
  destruct (constructor_vector _ Hnew) as [ins [Hl [_ [Hc _]]]]. rewrite Hl.
  constructor; [exact Hc|constructor].
Qed.

Theorem omitted_never_flagged_reach : forall fuel st0 st',
  Iter.try_new DE D tc = NewOk st0 -> reach fuel st0 st' ->
  forall c e, In c (i_log st') -> In e (snd c) ->
    column_named (p_signals p) (sname (ie_sig e)) = None ->
    ie_changed e = false /\ default_value (ie_sig e) = Some (ie_val e).
Proof.
  intros fuel st0 st' Hnew Hr.
  assert (K : Forall (fun c : call => omitted_at_default (p_signals p) (snd c)) (i_log st')).
  { apply (reach_log_forall (omitted_at_default (p_signals p)) generated_vector_omitted _ _ _ Hr).
    destruct (constructor_vector _ Hnew) as [ins [Hl [_ [_ Hd]]]]. rewrite Hl.
    constructor; [|constructor]. cbn [snd]. intros e Hin _. rewrite Forall_forall in Hd. exact (Hd e Hin). }
  intros c e Hc He Hcol. rewrite Forall_forall in K. exact (K c Hc e He Hcol).
Qed.

Theorem unflagged_means_unchanged_reach : forall fuel st0 st',
  Iter.try_new DE D tc = NewOk st0 -> reach fuel st0 st' ->
  forall l1 c1 c2 l2, i_log st' = l1 ++ c1 :: c2 :: l2 ->
    Forall2 same_unless_flagged (snd c1) (snd c2).
Proof.
  intros fuel st0 st' Hnew Hr l1 c1 c2 l2 E.
  destruct (reach_log_inv _ _ _ Hr (try_new_log_inv _ Hnew)) as [_ Hadj]. exact (Hadj _ _ _ _ E).
Qed.

(* the log starts with the constructor's call *)
Lemma reach_log_prefix : forall fuel st st', reach fuel st st' -> exists calls, i_log st' = i_log st ++ calls.
Proof.
  intros fuel st st' Hr. induction Hr as [st|st st1 st' Hn _ [calls IH]].
  - exists []. rewrite app_nil_r. reflexivity.
  - destruct (inext_step _ _ _ Hn) as [_ [[Hlog _]|[kind [entries [ins [Hlog _]]]]]]; rewrite IH, Hlog.
    + exists calls. reflexivity.
    + eexists. rewrite <- app_assoc. reflexivity.
Qed.

(* ------------------------------------------------------------------ (2) the results of a row *)

Lemma build_output_indices_length : forall outs oi,
  build_output_indices tc outs = Ok oi -> length oi = length (tc_expected_indices tc).
Proof.
  intros outs oi H. unfold build_output_indices in H.
  match type of H with context [map_r ?f (tc_expected_indices tc)] =>
    destruct (map_r f (tc_expected_indices tc)) as [l| | |] eqn:Hl end; cbn [rbind] in H; try discriminate.
  match type of H with context [map_r ?g (tc_read_outputs tc)] =>
    destruct (map_r g (tc_read_outputs tc)) as [miss| | |] end; cbn [rbind] in H; try discriminate.
  destruct (concat miss); [|discriminate]. inversion H; subst oi. rewrite map_length.
  apply map_r_Ok in Hl. symmetry. eapply OutputsProof.Forall2_len. exact Hl.
Qed.

Definition outidx_inv (st : istate) : Prop := length (i_outidx st) = length (tc_expected_indices tc).

Theorem try_new_outidx_inv : forall st0, Iter.try_new DE D tc = NewOk st0 -> outidx_inv st0.
Proof.
  intros st0 H. unfold Iter.try_new in H.
  destruct (generate_default_input_entries tc) as [ins| | |]; try discriminate.
  destruct (D [] (RW, ins)) as [e|outs]; [discriminate|].
  destruct (build_output_indices tc outs) as [oi| | |] eqn:Hb; try discriminate.
  inversion H; subst st0. unfold outidx_inv. cbn [i_outidx]. eapply build_output_indices_length. exact Hb.
Qed.

Lemma inext_outidx_inv : forall fuel st st',
  outidx_inv st -> next_state (inext fuel st) = Some st' -> outidx_inv st'.
Proof.
  intros fuel st st' Hi Hn. destruct (inext_step _ _ _ Hn) as [Ho _]. unfold outidx_inv. rewrite Ho. exact Hi.
Qed.

Lemma extract_output_values_length : forall nout oi outs c c2 vals,
  extract_output_values G tc nout oi outs c = (c2, Ok vals) ->
  length vals = length (combine (tc_expected_indices tc) oi).
Proof.
  intros nout oi outs c c2 vals H. unfold extract_output_values in H.
  destruct (negb (Nat.eqb (length outs) nout)); [discriminate|].
  destruct (extract_loop G tc (combine (tc_expected_indices tc) oi) outs (ctx_swap_vars c)) as [c1 r] eqn:El.
  inversion H; subst. apply extract_loop_Ok in El. symmetry. eapply OutputsProof.Forall2_len. exact El.
Qed.

(* one next(): a row whose outputs are read has one result per expected signal; a mid-clock row
   (write-only call) has none *)
Theorem inext_row_outputs_complete : forall fuel st row st',
  outidx_inv st -> inext fuel st = ItRow row st' ->
  exists er st1, get_row G tc fuel st = GRRow er st1 /\
    (er_update_output er = true -> outputs_complete (tc_signals tc) row) /\
    (er_update_output er = false -> dr_outputs row = []).
Proof.
  intros fuel st row st' Hoi H.
  pose proof (inext_inv G DE D w_default tc fuel st) as Hinv. rewrite H in Hinv.
  destruct Hinv as [er [st1 [Hr Hcase]]]. exists er, st1. split; [exact Hr|].
  pose proof (get_row_inv G tc fuel st) as Hg. rewrite Hr in Hg. destruct Hg as [_ [_ [Ho _]]].
  destruct (get_row_row tc G _ _ _ _ Hr) as [entries [_ [_ Hx]]].
  destruct Hcase as [[Hu [outs [c2 [vals [_ [He [Hrow _]]]]]]]|[Hu [outs [_ [Hrow _]]]]]; subst row.
  - split; [|rewrite Hu; discriminate]. intros _.
    unfold outputs_complete, into_data_row. cbn [dr_outputs]. rewrite map_map. cbn [or_sig].
    apply extract_output_values_length in He. rewrite Ho, combine_length, Hoi, Nat.min_id in He.
    assert (Hlen : length (er_expected er) = length (tc_expected_indices tc)).
    { unfold generate_expected_entries in Hx. apply map_r_Ok in Hx. symmetry. eapply OutputsProof.Forall2_len. exact Hx. }
    rewrite map_combine_fst by lia.
    apply (proj1 (C06_expected_by_name _ _ _ _ _ Hws)) in Hx.
    exact (C06_expected_complete _ _ _ _ Hx).
  - split; [rewrite Hu; discriminate|]. intros _. unfold into_data_row. cbn [dr_outputs].
    rewrite combine_nil_r. reflexivity.
Qed.

Corollary inext_row_outputs_complete_or_empty : forall fuel st row st',
  outidx_inv st -> inext fuel st = ItRow row st' ->
  dr_outputs row <> [] -> outputs_complete (tc_signals tc) row.
Proof.
  intros fuel st row st' Hoi H Hne.
  destruct (inext_row_outputs_complete _ _ _ _ Hoi H) as [er [st1 [_ [Ht Hf]]]].
  destruct (er_update_output er); [apply Ht; reflexivity|]. exfalso. apply Hne. apply Hf. reflexivity.
Qed.

(* rows of a run, with an invariant of the states *)
Lemma collect_e_every_row_inv : forall (J : istate -> Prop) (P : data_row -> Prop),
  (forall fuel st st', J st -> next_state (inext fuel st) = Some st' -> J st') ->
  (forall fuel st row st', J st -> inext fuel st = ItRow row st' -> P row) ->
  forall fuel n st0, J st0 -> Forall (item_rows DE P) (fst (collect_e fuel n st0)).
Proof.
  intros J P HI HP fuel n. induction n as [|n IH]; intros st0 H0; [constructor|].
  rewrite collect_e_S. destruct (inext fuel st0) as [st'|row st'|e st'|s|] eqn:Hn; cbn [fst];
    try (constructor; fail).
  - constructor; [exact I|constructor].
  - assert (H1 : J st') by (apply (HI fuel st0 st' H0); rewrite Hn; reflexivity).
    specialize (IH st' H1). destruct (collect_e fuel n st') as [l s]. cbn [fst] in *.
    constructor; [|exact IH]. cbn [item_rows]. eapply HP; [exact H0|exact Hn].
  - assert (H1 : J st') by (apply (HI fuel st0 st' H0); rewrite Hn; reflexivity).
    specialize (IH st' H1). destruct (collect_e fuel n st') as [l s]. cbn [fst] in *.
    constructor; [exact I|exact IH].
Qed.

Lemma collect_every_row_inv : forall (J : istate -> Prop) (P : data_row -> Prop),
  (forall fuel st st', J st -> next_state (inext fuel st) = Some st' -> J st') ->
  (forall fuel st row st', J st -> inext fuel st = ItRow row st' -> P row) ->
  forall fuel n st0, J st0 -> Forall (item_rows DE P) (fst (collect fuel n st0)).
Proof.
  intros J P HI HP fuel n. induction n as [|n IH]; intros st0 H0; [constructor|].
  cbn [IterLogProof.collect]. destruct (inext fuel st0) as [st'|row st'|e st'|s|] eqn:Hn; cbn [fst];
    try (constructor; fail).
  - constructor; [exact I|constructor].
  - assert (H1 : J st') by (apply (HI fuel st0 st' H0); rewrite Hn; reflexivity).
    specialize (IH st' H1). destruct (collect fuel n st') as [l s]. cbn [fst] in *.
    constructor; [|exact IH]. cbn [item_rows]. eapply HP; [exact H0|exact Hn].
  - constructor; [exact I|constructor].
Qed.

End BOUND.
End VEC.

(* ------------------------------------------------------------------ the theorems of the task *)

Section RUN.
Variable G : gen.
Variable DE : Type.
Variable D : driver DE.
Variable w_default : bool.

Local Notation collect_e := (RunRefineE.collect_e G DE D w_default).
Local Notation collect := (IterLogProof.collect G DE D w_default).

(* (1) *)
Theorem every_vector_complete : forall p sigs0 tc fuel n st0 items st',
  with_signals p sigs0 = Ok tc -> Iter.try_new DE D tc = NewOk st0 ->
  collect_e tc fuel n st0 = (items, Some st') ->
  Forall (fun c : call => map ie_sig (snd c) = filter is_input (tc_signals tc)) (i_log st').
Proof.
  intros p sigs0 tc fuel n st0 items st' Hws Hnew H.
  eapply every_vector_complete_reach; [exact Hws|exact Hnew|eapply collect_e_reach; exact H].
Qed.

Theorem every_vector_complete_collect : forall p sigs0 tc fuel n st0 items st',
  with_signals p sigs0 = Ok tc -> Iter.try_new DE D tc = NewOk st0 ->
  collect tc fuel n st0 = (items, Some st') ->
  Forall (fun c : call => map ie_sig (snd c) = filter is_input (tc_signals tc)) (i_log st').
Proof.
  intros p sigs0 tc fuel n st0 items st' Hws Hnew H.
  eapply every_vector_complete_reach; [exact Hws|exact Hnew|eapply collect_reach; exact H].
Qed.

(* (2) *)
Theorem every_checked_row_complete : forall p sigs0 tc fuel n st0,
  with_signals p sigs0 = Ok tc -> Iter.try_new DE D tc = NewOk st0 ->
  Forall (fun item => match item with
                      | VRow r => dr_outputs r <> [] ->
                                  map or_sig (dr_outputs r) =
                                  filter (fun s => is_output s || is_virtual s) (tc_signals tc)
                      | _ => True
                      end) (fst (collect_e tc fuel n st0)).
Proof.
  intros p sigs0 tc fuel n st0 Hws Hnew.
  apply (collect_e_every_row_inv G DE D w_default tc (outidx_inv tc)
           (fun r => dr_outputs r <> [] -> outputs_complete (tc_signals tc) r)).
  - intros fuel' st st'. apply inext_outidx_inv.
  - intros fuel' st row st'. apply (inext_row_outputs_complete_or_empty G DE D w_default tc p sigs0 Hws).
  - apply (try_new_outidx_inv DE D tc). exact Hnew.
Qed.

Theorem every_checked_row_complete_collect : forall p sigs0 tc fuel n st0,
  with_signals p sigs0 = Ok tc -> Iter.try_new DE D tc = NewOk st0 ->
  Forall (fun item => match item with
                      | VRow r => dr_outputs r <> [] ->
                                  map or_sig (dr_outputs r) =
                                  filter (fun s => is_output s || is_virtual s) (tc_signals tc)
                      | _ => True
                      end) (fst (collect tc fuel n st0)).
Proof.
  intros p sigs0 tc fuel n st0 Hws Hnew.
  apply (collect_every_row_inv G DE D w_default tc (outidx_inv tc)
           (fun r => dr_outputs r <> [] -> outputs_complete (tc_signals tc) r)).
  - intros fuel' st st'. apply inext_outidx_inv.
  - intros fuel' st row st'. apply (inext_row_outputs_complete_or_empty G DE D w_default tc p sigs0 Hws).
  - apply (try_new_outidx_inv DE D tc). exact Hnew.
Qed.

(* (3) *)
Theorem unflagged_means_unchanged : forall p sigs0 tc fuel n st0 items st',
  with_signals p sigs0 = Ok tc -> Iter.try_new DE D tc = NewOk st0 ->
  collect_e tc fuel n st0 = (items, Some st') ->
  forall l1 c1 c2 l2, i_log st' = l1 ++ c1 :: c2 :: l2 ->
    Forall2 (fun e1 e2 => ie_sig e1 = ie_sig e2 /\ (ie_changed e2 = false -> ie_val e1 = ie_val e2))
            (snd c1) (snd c2).
Proof.
  intros p sigs0 tc fuel n st0 items st' Hws Hnew H.
  eapply unflagged_means_unchanged_reach; [exact Hws|exact Hnew|eapply collect_e_reach; exact H].
Qed.

Theorem unflagged_means_unchanged_collect : forall p sigs0 tc fuel n st0 items st',
  with_signals p sigs0 = Ok tc -> Iter.try_new DE D tc = NewOk st0 ->
  collect tc fuel n st0 = (items, Some st') ->
  forall l1 c1 c2 l2, i_log st' = l1 ++ c1 :: c2 :: l2 ->
    Forall2 (fun e1 e2 => ie_sig e1 = ie_sig e2 /\ (ie_changed e2 = false -> ie_val e1 = ie_val e2))
            (snd c1) (snd c2).
Proof.
  intros p sigs0 tc fuel n st0 items st' Hws Hnew H.
  eapply unflagged_means_unchanged_reach; [exact Hws|exact Hnew|eapply collect_reach; exact H].
Qed.

(* (3) position by position: the entry at position k of the later call, when unflagged, has the
   signal and the value of the entry at position k of the earlier call *)
Corollary unflagged_means_unchanged_at : forall p sigs0 tc fuel n st0 items st',
  with_signals p sigs0 = Ok tc -> Iter.try_new DE D tc = NewOk st0 ->
  collect_e tc fuel n st0 = (items, Some st') ->
  forall l1 c1 c2 l2, i_log st' = l1 ++ c1 :: c2 :: l2 ->
  forall k e2, nth_error (snd c2) k = Some e2 -> ie_changed e2 = false ->
    exists e1, nth_error (snd c1) k = Some e1 /\ ie_sig e1 = ie_sig e2 /\ ie_val e1 = ie_val e2.
Proof.
  intros p sigs0 tc fuel n st0 items st' Hws Hnew H l1 c1 c2 l2 E k e2 Hk Hf.
  pose proof (unflagged_means_unchanged _ _ _ _ _ _ _ _ Hws Hnew H _ _ _ _ E) as HF.
  destruct (Forall2_nth_error_r _ _ _ _ _ HF k e2 Hk) as [e1 [H1 [Hs Hv]]].
  exists e1. auto.
Qed.

(* the log starts with the constructor's call, whose entries are all unflagged defaults: this is
   the c_0 that the first row's call is compared with *)
Theorem log_starts_with_defaults : forall p sigs0 tc fuel n st0 items st',
  with_signals p sigs0 = Ok tc -> Iter.try_new DE D tc = NewOk st0 ->
  collect_e tc fuel n st0 = (items, Some st') ->
  exists ins calls, i_log st' = (RW, ins) :: calls /\ generate_default_input_entries tc = Ok ins /\
    defaults_spec (tc_signals tc) = Some ins /\ Forall is_default_entry ins /\
    length calls <= length items.
Proof.
  intros p sigs0 tc fuel n st0 items st' Hws Hnew H.
  destruct (constructor_vector DE D tc p sigs0 Hws _ Hnew) as [ins [Hl [Hg [_ Hd]]]].
  destruct (every_call_width tc G DE D w_default _ _ _ _ _ H) as [calls [Hlog [Hlen _]]].
  exists ins, calls. rewrite Hlog, Hl. split; [reflexivity|]. split; [exact Hg|]. split; [|auto].
  destruct (C06_defaults _ _ _ Hws) as [l [Hg' Hs]]. rewrite Hg in Hg'. inversion Hg'; subst l. exact Hs.
Qed.

(* (4) *)
Theorem omitted_never_flagged : forall p sigs0 tc fuel n st0 items st',
  with_signals p sigs0 = Ok tc -> Iter.try_new DE D tc = NewOk st0 ->
  collect_e tc fuel n st0 = (items, Some st') ->
  forall c e, In c (i_log st') -> In e (snd c) ->
    column_named (p_signals p) (sname (ie_sig e)) = None ->
    ie_changed e = false /\ default_value (ie_sig e) = Some (ie_val e).
Proof.
  intros p sigs0 tc fuel n st0 items st' Hws Hnew H.
  eapply omitted_never_flagged_reach; [exact Hws|exact Hnew|eapply collect_e_reach; exact H].
Qed.

Theorem omitted_never_flagged_collect : forall p sigs0 tc fuel n st0 items st',
  with_signals p sigs0 = Ok tc -> Iter.try_new DE D tc = NewOk st0 ->
  collect tc fuel n st0 = (items, Some st') ->
  forall c e, In c (i_log st') -> In e (snd c) ->
    column_named (p_signals p) (sname (ie_sig e)) = None ->
    ie_changed e = false /\ default_value (ie_sig e) = Some (ie_val e).
Proof.
  intros p sigs0 tc fuel n st0 items st' Hws Hnew H.
  eapply omitted_never_flagged_reach; [exact Hws|exact Hnew|eapply collect_reach; exact H].
Qed.

End RUN.

(* ------------------------------------------------------------------ non-vacuity: through an error *)

Module Example_vector.
  Import Coq.Strings.String.
  Import RunRefine.Example_run.

  Definition shape (ins : list in_entry) : list (inval * bool) := map (fun e => (ie_val e, ie_changed e)) ins.

  (* B is driven with 1, 2, 2, 2; the driver refuses its call number 2 (the row "0 2 0 X") *)
  Definition src_err : string :=
    ("A B CK Y" ++ nl ++ "0 1 0 X" ++ nl ++ "0 2 0 X" ++ nl ++ "0 2 0 X" ++ nl ++ "0 2 0 X" ++ nl)%string.

  Definition run (faults : list (nat * Script.fault)) (fuel n : nat)
    : option (list bool * list (list (inval * bool))) :=
    match Parser.parse (s2n src_err) with
    | Ok p =>
        match with_signals p sigs with
        | Ok tc =>
            let D := Script.script_driver sigs (sc faults) in
            match try_new N D tc with
            | NewOk st0 =>
                match collect_e G N D false tc fuel n st0 with
                | (items, Some st') =>
                    Some (map (fun v => match v with VErr _ => true | _ => false end) items,
                          map (fun c => shape (snd c)) (i_log st'))
                | _ => None
                end
            | _ => None
            end
        | _ => None
        end
    | _ => None
    end.

  (* items: row, ERROR, row, row, None.  The refused call (number 2) carried B = 2 flagged; the call
     after it carries B = 2 UNFLAGGED: it is compared with the refused vector, not with the last
     vector the driver accepted (B = 1) *)
  Example flags_through_a_refused_call :
    run [(2, Script.FErr 7%N)] 50 6 =
      Some ([false; true; false; false; false],
            [ [(IVal 0, false); (IVal 0, false); (IVal 0, false)];
              [(IVal 0, true); (IVal 1, true); (IVal 0, true)];
              [(IVal 0, false); (IVal 2, true); (IVal 0, false)];
              [(IVal 0, false); (IVal 2, false); (IVal 0, false)];
              [(IVal 0, false); (IVal 2, false); (IVal 0, false)] ]).
  Proof. vm_compute. reflexivity. Qed.
End Example_vector.

(* ------------------------------------------------------------------ delivered *)

Check inext_step.
Check try_new_log_inv.
Check inext_log_inv.
Check reach_log_inv.
Check try_new_outidx_inv.
Check inext_outidx_inv.
Check collect_e_reach.
Check collect_reach.
Check every_vector_complete_reach.
Check unflagged_means_unchanged_reach.
Check omitted_never_flagged_reach.
Check inext_row_outputs_complete.
Check every_vector_complete.
Check every_vector_complete_collect.
Check every_checked_row_complete.
Check every_checked_row_complete_collect.
Check unflagged_means_unchanged.
Check unflagged_means_unchanged_collect.
Check unflagged_means_unchanged_at.
Check log_starts_with_defaults.
Check omitted_never_flagged.
Check omitted_never_flagged_collect.
Check Example_vector.flags_through_a_refused_call.

Print Assumptions inext_step.
Print Assumptions try_new_log_inv.
Print Assumptions inext_log_inv.
Print Assumptions reach_log_inv.
Print Assumptions try_new_outidx_inv.
Print Assumptions inext_outidx_inv.
Print Assumptions every_vector_complete_reach.
Print Assumptions unflagged_means_unchanged_reach.
Print Assumptions omitted_never_flagged_reach.
Print Assumptions inext_row_outputs_complete.
Print Assumptions every_vector_complete.
Print Assumptions every_vector_complete_collect.
Print Assumptions every_checked_row_complete.
Print Assumptions every_checked_row_complete_collect.
Print Assumptions unflagged_means_unchanged.
Print Assumptions unflagged_means_unchanged_collect.
Print Assumptions unflagged_means_unchanged_at.
Print Assumptions log_starts_with_defaults.
Print Assumptions omitted_never_flagged.
Print Assumptions omitted_never_flagged_collect.
Print Assumptions Example_vector.flags_through_a_refused_call.
