(* The statement iterator of Stmt.v (StmtIterator::next_with_context), drained by a caller
   that passes every yielded row to a handler, computes the sequential reading of
   StmtSpec.v -- for every program, every context, every handler.  Both directions:
     iterator_refines_sequential_reading : whatever exec computes, drain computes;
     sequential_reading_refines_iterator : whatever drain computes, exec computes.
   Fuel is only the recursion bound of the two models; a result other than OutOfFuel
   is stable under more fuel (next_mono, drain_mono, exec_mono). *)
From DTR Require Import Prelude I64 Ast Stmt StmtSpec.
Open Scope Z_scope.

Local Arguments NYield {C F W} w line it c.
Local Arguments NDone {C F W} it c.
Local Arguments NErr {C F W} f it c.
Local Arguments NPanic {C F W} site.
Local Arguments NOOF {C F W}.

Scheme siter_mind := Induction for siter Sort Prop
  with sstate_mind := Induction for sstate Sort Prop.

Section REFINE.
Variables (C F W : Type).
Variable eval : C -> expr -> C * (Z + F).
Variable row_eval : C -> list dentry -> C * (W + F).
Variable setv : C -> name -> Z -> C.
Variable getv : C -> name -> option Z.
Variables push pop reset : C -> C.
Variable H : Type.
Variable handler : H -> W * N -> C -> (H * C) + H.

Local Notation nres := (Stmt.nres C F W).
Local Notation outcome := (StmtSpec.outcome C F H).
Local Notation next := (Stmt.next C F W eval row_eval setv getv push pop reset).
Local Notation exec :=
  (StmtSpec.exec C F W eval row_eval setv getv push pop reset H handler).
Local Notation for_loop :=
  (StmtSpec.for_loop C F W eval row_eval setv getv push pop reset H handler).
Local Notation while_loop :=
  (StmtSpec.while_loop C F W eval row_eval setv getv push pop reset H handler).

(* the caller's loop: pull rows until the iterator is done or the handler stops *)
Fixpoint drain (fuel : nat) (it : siter) (c : C) (h : H) {struct fuel} : outcome :=
  match fuel with O => OutOfFuel | S f =>
  match next f it c with
  | NYield w l it' c' =>
      match handler h (w, l) c' with
      | inl (h2, c2) => drain f it' c2 h2
      | inr h2 => Stop h2
      end
  | NDone _ c' => Fin c' h
  | NErr x _ c' => Fail x c' h
  | NPanic s => Crash s
  | NOOF => OutOfFuel
  end end.

(* ------------------------------------------------------------------ *)
(* one-step unfoldings *)

Definition bindo (a : outcome) (k : C -> H -> outcome) : outcome :=
  match a with
  | Fin c h => k c h
  | Stop h => Stop h
  | Fail x c h => Fail x c h
  | Crash s => Crash s
  | OutOfFuel => OutOfFuel
  end.

Lemma next_S : forall f it c, next (S f) it c =
  match it with SI rest st =>
  match st with
  | Iterate =>
      match rest with
      | [] => NDone it c
      | SLet n e :: r => let (c1, v) := eval c e in
          match v with inr x => NErr x (SI r Iterate) c1 | inl z => next f (SI r Iterate) (setv c1 n z) end
      | SRow d l :: r => let (c1, v) := row_eval c d in
          match v with inr x => NErr x (SI r Iterate) c1 | inl w => NYield w l (SI r Iterate) c1 end
      | SLoop v e body :: r => let (c1, m) := eval c e in
          match m with inr x => NErr x (SI r Iterate) c1
          | inl m => next f (SI r (StartLoop {| lvar := v; lmax := m; lbody := body |})) c1 end
      | SReset :: r => next f (SI r Iterate) (reset c)
      | SWhile e body :: r => next f (SI r (StartWhile {| wcond := e; wbody := body |})) c
      end
  | StartLoop ls =>
      if 0 <? lmax ls then next f (SI rest (StartInner ls)) (setv (push c) (lvar ls) 0)
      else next f (SI rest Iterate) c
  | StartInner ls => next f (SI rest (IterInner (SI (lbody ls) Iterate) ls)) c
  | IterInner inner ls =>
      match next f inner c with
      | NYield w l inner' c' => NYield w l (SI rest (IterInner inner' ls)) c'
      | NDone _ c' => next f (SI rest (EndInner ls)) c'
      | NErr x inner' c' => NErr x (SI rest (IterInner inner' ls)) c'
      | o => o
      end
  | EndInner ls =>
      match getv c (lvar ls) with
      | None => NPanic 20%N
      | Some i => if wadd i 1 <? lmax ls
                  then next f (SI rest (StartInner ls)) (setv c (lvar ls) (wadd i 1))
                  else next f (SI rest Iterate) (pop c)
      end
  | StartWhile ws => let (c1, v) := eval c (wcond ws) in
      match v with inr x => NErr x (SI rest (StartWhile ws)) c1 | inl z =>
        if z =? 0 then next f (SI rest Iterate) c1
        else next f (SI rest (WhileInner (SI (wbody ws) Iterate) ws)) c1 end
  | WhileInner inner ws =>
      match next f inner c with
      | NYield w l inner' c' => NYield w l (SI rest (WhileInner inner' ws)) c'
      | NDone _ c' => next f (SI rest (StartWhile ws)) c'
      | NErr x inner' c' => NErr x (SI rest (WhileInner inner' ws)) c'
      | o => o
      end
  end end.
Proof. reflexivity. Qed.

Lemma drain_S : forall f it c h, drain (S f) it c h =
  match next f it c with
  | NYield w l it' c' =>
      match handler h (w, l) c' with
      | inl (h2, c2) => drain f it' c2 h2
      | inr h2 => Stop h2
      end
  | NDone _ c' => Fin c' h
  | NErr x _ c' => Fail x c' h
  | NPanic s => Crash s
  | NOOF => OutOfFuel
  end.
Proof. reflexivity. Qed.

Lemma exec_O : forall ss c h, exec O ss c h = OutOfFuel.
Proof. reflexivity. Qed.
Lemma for_O : forall v m body c h, for_loop O v m body c h = OutOfFuel.
Proof. reflexivity. Qed.
Lemma while_O : forall e body c h, while_loop O e body c h = OutOfFuel.
Proof. reflexivity. Qed.

Lemma exec_S : forall f ss c h, exec (S f) ss c h =
  match ss with
  | [] => Fin c h
  | SLet n e :: r =>
      let (c1, v) := eval c e in
      match v with inr x => Fail x c1 h | inl z => exec f r (setv c1 n z) h end
  | SRow d l :: r =>
      let (c1, v) := row_eval c d in
      match v with inr x => Fail x c1 h | inl w =>
        match handler h (w, l) c1 with
        | inl (h2, c2) => exec f r c2 h2
        | inr h2 => Stop h2
        end end
  | SLoop v e body :: r =>
      let (c1, m) := eval c e in
      match m with inr x => Fail x c1 h | inl m =>
        if 0 <? m then
          bindo (for_loop f v m body (setv (push c1) v 0) h)
                (fun c2 h2 => exec f r (pop c2) h2)
        else exec f r c1 h
      end
  | SWhile e body :: r =>
      bindo (while_loop f e body c h) (fun c2 h2 => exec f r c2 h2)
  | SReset :: r => exec f r (reset c) h
  end.
Proof. intros f ss c h. unfold bindo. reflexivity. Qed.

Lemma for_S : forall f v m body c h, for_loop (S f) v m body c h =
  bindo (exec f body c h) (fun c2 h2 =>
    match getv c2 v with
    | None => Crash 20%N
    | Some i => if wadd i 1 <? m then for_loop f v m body (setv c2 v (wadd i 1)) h2
                else Fin c2 h2
    end).
Proof. intros f v m body c h. unfold bindo. reflexivity. Qed.

Lemma while_S : forall f e body c h, while_loop (S f) e body c h =
  let (c1, v) := eval c e in
  match v with inr x => Fail x c1 h | inl z =>
    if z =? 0 then Fin c1 h
    else bindo (exec f body c1 h) (fun c2 h2 => while_loop f e body c2 h2)
  end.
Proof. intros f e body c h. unfold bindo. reflexivity. Qed.

(* ------------------------------------------------------------------ *)
(* monotonicity in fuel *)

Lemma next_mono : forall f it c r, next f it c = r -> r <> NOOF ->
  forall f', (f <= f')%nat -> next f' it c = r.
Proof.
  induction f as [|f IH]; intros it c r Hn Hr f' Hle; [simpl in Hn; congruence|].
  destruct f' as [|f']; [lia|]. assert (Hle' : (f <= f')%nat) by lia.
  rewrite next_S in Hn. rewrite next_S.
  destruct it as [rest st]. destruct st as [|ls|ls|inner ls|ls|ws|inner ws].
  - destruct rest as [|s r0]; [exact Hn|]. destruct s as [n e|d l|v e body|e body|].
    + destruct (eval c e) as [c1 [z|x]]; [|exact Hn]. eapply IH; eauto.
    + exact Hn.
    + destruct (eval c e) as [c1 [z|x]]; [|exact Hn]. eapply IH; eauto.
    + eapply IH; eauto.
    + eapply IH; eauto.
  - destruct (0 <? lmax ls); eapply IH; eauto.
  - eapply IH; eauto.
  - destruct (next f inner c) eqn:Hi.
    + erewrite (IH _ _ _ Hi); [exact Hn | congruence | exact Hle'].
    + erewrite (IH _ _ _ Hi); [| congruence | exact Hle']. eapply IH; eauto.
    + erewrite (IH _ _ _ Hi); [exact Hn | congruence | exact Hle'].
    + erewrite (IH _ _ _ Hi); [exact Hn | congruence | exact Hle'].
    + congruence.
  - destruct (getv c (lvar ls)) as [i|]; [|exact Hn].
    destruct (wadd i 1 <? lmax ls); eapply IH; eauto.
  - destruct (eval c (wcond ws)) as [c1 [z|x]]; [|exact Hn]. destruct (z =? 0); eapply IH; eauto.
  - destruct (next f inner c) eqn:Hi.
    + erewrite (IH _ _ _ Hi); [exact Hn | congruence | exact Hle'].
    + erewrite (IH _ _ _ Hi); [| congruence | exact Hle']. eapply IH; eauto.
    + erewrite (IH _ _ _ Hi); [exact Hn | congruence | exact Hle'].
    + erewrite (IH _ _ _ Hi); [exact Hn | congruence | exact Hle'].
    + congruence.
Qed.

Lemma drain_mono : forall f it c h o, drain f it c h = o -> o <> OutOfFuel ->
  forall f', (f <= f')%nat -> drain f' it c h = o.
Proof.
  induction f as [|f IH]; intros it c h o Hd Ho f' Hle; [simpl in Hd; congruence|].
  destruct f' as [|f']; [lia|]. assert (Hle' : (f <= f')%nat) by lia.
  rewrite drain_S in Hd. rewrite drain_S. destruct (next f it c) eqn:Hn.
  - erewrite (next_mono _ _ _ _ Hn); [| congruence | exact Hle'].
    destruct (handler h (w, line) c0) as [[h2 c2]|h2]; [|exact Hd]. eapply IH; eauto.
  - erewrite (next_mono _ _ _ _ Hn); [exact Hd | congruence | exact Hle'].
  - erewrite (next_mono _ _ _ _ Hn); [exact Hd | congruence | exact Hle'].
  - erewrite (next_mono _ _ _ _ Hn); [exact Hd | congruence | exact Hle'].
  - congruence.
Qed.

Lemma bindo_mono : forall (a a' : outcome) (k k' : C -> H -> outcome) o,
  bindo a k = o -> o <> OutOfFuel ->
  (a <> OutOfFuel -> a' = a) ->
  (forall c h, k c h = o -> k' c h = o) ->
  bindo a' k' = o.
Proof.
  intros a a' k k' o Hb Ho Ha Hk.
  destruct a as [c1 h1|h1|x c1 h1|s|]; simpl in Hb; try (rewrite Ha by congruence; simpl).
  - apply Hk. exact Hb.
  - exact Hb.
  - exact Hb.
  - exact Hb.
  - congruence.
Qed.

Definition M_exec f := forall ss c h o, exec f ss c h = o -> o <> OutOfFuel ->
  forall f', (f <= f')%nat -> exec f' ss c h = o.
Definition M_for f := forall v m body c h o, for_loop f v m body c h = o -> o <> OutOfFuel ->
  forall f', (f <= f')%nat -> for_loop f' v m body c h = o.
Definition M_while f := forall e body c h o, while_loop f e body c h = o -> o <> OutOfFuel ->
  forall f', (f <= f')%nat -> while_loop f' e body c h = o.

Lemma all_mono : forall f, M_exec f /\ M_for f /\ M_while f.
Proof.
  induction f as [|f [IHe [IHf IHw]]].
  - split; [|split].
    + intros ss c h o He Ho. rewrite exec_O in He. congruence.
    + intros v m body c h o He Ho. rewrite for_O in He. congruence.
    + intros e body c h o He Ho. rewrite while_O in He. congruence.
  - repeat split.
    + intros ss c h o He Ho f' Hle.
      destruct f' as [|f']; [lia|]. assert (Hle' : (f <= f')%nat) by lia.
      rewrite exec_S in He. rewrite exec_S.
      destruct ss as [|s r]; [exact He|]. destruct s as [n e|d l|v e body|e body|].
      * destruct (eval c e) as [c1 [z|x]]; [|exact He]. eapply IHe; eauto.
      * destruct (row_eval c d) as [c1 [w|x]]; [|exact He].
        destruct (handler h (w, l) c1) as [[h2 c2]|h2]; [|exact He]. eapply IHe; eauto.
      * destruct (eval c e) as [c1 [m|x]]; [|exact He].
        destruct (0 <? m); [|eapply IHe; eauto].
        eapply bindo_mono; [exact He | exact Ho | |].
        -- intro Hne. eapply IHf; eauto.
        -- intros c2 h2 Hk. eapply IHe; eauto.
      * eapply bindo_mono; [exact He | exact Ho | |].
        -- intro Hne. eapply IHw; eauto.
        -- intros c2 h2 Hk. eapply IHe; eauto.
      * eapply IHe; eauto.
    + intros v m body c h o Hfl Ho f' Hle.
      destruct f' as [|f']; [lia|]. assert (Hle' : (f <= f')%nat) by lia.
      rewrite for_S in Hfl. rewrite for_S.
      eapply bindo_mono; [exact Hfl | exact Ho | |].
      * intro Hne. eapply IHe; eauto.
      * intros c2 h2 Hk. cbv beta in Hk. cbv beta.
        destruct (getv c2 v) as [i|]; [|exact Hk].
        destruct (wadd i 1 <? m); [|exact Hk]. eapply IHf; eauto.
    + intros e body c h o Hwl Ho f' Hle.
      destruct f' as [|f']; [lia|]. assert (Hle' : (f <= f')%nat) by lia.
      rewrite while_S in Hwl. rewrite while_S.
      destruct (eval c e) as [c1 [z|x]]; [|exact Hwl].
      destruct (z =? 0); [exact Hwl|].
      eapply bindo_mono; [exact Hwl | exact Ho | |].
      * intro Hne. eapply IHe; eauto.
      * intros c2 h2 Hk. eapply IHw; eauto.
Qed.

Lemma exec_mono : forall f ss c h o, exec f ss c h = o -> o <> OutOfFuel ->
  forall f', (f <= f')%nat -> exec f' ss c h = o.
Proof. intro f. exact (proj1 (all_mono f)). Qed.

Lemma for_loop_mono : forall f v m body c h o, for_loop f v m body c h = o -> o <> OutOfFuel ->
  forall f', (f <= f')%nat -> for_loop f' v m body c h = o.
Proof. intro f. exact (proj1 (proj2 (all_mono f))). Qed.

Lemma while_loop_mono : forall f e body c h o, while_loop f e body c h = o -> o <> OutOfFuel ->
  forall f', (f <= f')%nat -> while_loop f' e body c h = o.
Proof. intro f. exact (proj2 (proj2 (all_mono f))). Qed.

(* ------------------------------------------------------------------ *)
(* exec ==> drain *)

(* draining [it] from (c, h) converges to o *)
Definition Conv (it : siter) (c : C) (h : H) (o : outcome) : Prop :=
  exists f, drain f it c h = o /\ o <> OutOfFuel.

(* a silent transition of the iterator, valid for all fuel above a threshold *)
Lemma conv_silent : forall k it c it' c' h o,
  (forall f, (k <= f)%nat -> next (S f) it c = next f it' c') ->
  Conv it' c' h o -> Conv it c h o.
Proof.
  intros k it c it' c' h o Hs [f [Hd Ho]].
  destruct f as [|f]; [simpl in Hd; congruence|].
  exists (S (S (Nat.max k f))). split; [|exact Ho].
  assert (Hd' : drain (S (Nat.max k f)) it' c' h = o) by (eapply drain_mono; eauto; lia).
  rewrite drain_S in Hd'. rewrite drain_S. rewrite Hs by lia.
  destruct (next (Nat.max k f) it' c') eqn:Hn; try exact Hd'.
  destruct (handler h (w, line) c0) as [[h2 c2]|h2]; [|exact Hd'].
  eapply drain_mono; eauto.
Qed.

Lemma conv_yield : forall k it c w l it' c' h o,
  (forall f, (k <= f)%nat -> next (S f) it c = NYield w l it' c') ->
  match handler h (w, l) c' with
  | inl (h2, c2) => Conv it' c2 h2 o
  | inr h2 => o = Stop h2
  end -> Conv it c h o.
Proof.
  intros k it c w l it' c' h o Hs Hh.
  destruct (handler h (w, l) c') as [[h2 c2]|h2] eqn:Hhd.
  - destruct Hh as [f [Hd Ho]]. exists (S (S (Nat.max k f))). split; [|exact Ho].
    rewrite drain_S. rewrite Hs by lia. rewrite Hhd. eapply drain_mono; eauto. lia.
  - subst o. exists (S (S k)). split; [|congruence].
    rewrite drain_S. rewrite Hs by lia. rewrite Hhd. reflexivity.
Qed.

Lemma conv_const : forall k it c h (r : nres) o,
  (forall f, (k <= f)%nat -> next (S f) it c = r) ->
  match r with
  | NDone _ c' => o = Fin c' h
  | NErr x _ c' => o = Fail x c' h
  | NPanic s => o = Crash s
  | _ => False
  end ->
  Conv it c h o.
Proof.
  intros k it c h r o Hs Hr. exists (S (S k)). rewrite drain_S. rewrite Hs by lia.
  destruct r; try contradiction; subst; split; congruence.
Qed.

(* delegation to an inner iterator *)
Lemma conv_inner_gen : forall (wrap : siter -> siter) (after : siter),
  (forall f inner c, next (S f) (wrap inner) c =
     match next f inner c with
     | NYield w l inner' c' => NYield w l (wrap inner') c'
     | NDone _ c' => next f after c'
     | NErr x inner' c' => NErr x (wrap inner') c'
     | o => o end) ->
  forall f inner c h o, drain f inner c h = o -> o <> OutOfFuel ->
    match o with
    | Fin c' h' => forall o', Conv after c' h' o' -> Conv (wrap inner) c h o'
    | _ => Conv (wrap inner) c h o
    end.
Proof.
  intros wrap after Hw. induction f as [|f IH]; intros inner c h o Hd Ho; [simpl in Hd; congruence|].
  rewrite drain_S in Hd. destruct (next f inner c) as [w line it c0|it c0|x it c0|s|] eqn:Hn.
  - (* yield *)
    assert (Hy : forall f0, (f <= f0)%nat -> next (S f0) (wrap inner) c = NYield w line (wrap it) c0).
    { intros f0 Hf0. rewrite Hw. erewrite (next_mono _ _ _ _ Hn); [reflexivity|congruence|exact Hf0]. }
    destruct (handler h (w, line) c0) as [[h2 c2]|h2] eqn:Hh.
    + specialize (IH _ _ _ _ Hd Ho).
      destruct o; try (eapply conv_yield; [exact Hy| rewrite Hh; exact IH]).
      intros o' Ho'. eapply conv_yield; [exact Hy| rewrite Hh; eauto].
    + subst o. eapply conv_yield; [exact Hy| rewrite Hh; reflexivity].
  - (* done *)
    subst o. intros o' Ho'. eapply conv_silent with (k := f); [|exact Ho'].
    intros f0 Hf0. rewrite Hw. erewrite (next_mono _ _ _ _ Hn); [reflexivity|congruence|exact Hf0].
  - subst o. eapply conv_const with (k := f) (r := NErr x (wrap it) c0); [|reflexivity].
    intros f0 Hf0. rewrite Hw. erewrite (next_mono _ _ _ _ Hn); [reflexivity|congruence|exact Hf0].
  - subst o. eapply conv_const with (k := f) (r := NPanic s); [|reflexivity].
    intros f0 Hf0. rewrite Hw. erewrite (next_mono _ _ _ _ Hn); [reflexivity|congruence|exact Hf0].
  - congruence.
Qed.

Lemma conv_loop_inner : forall rest ls f inner c h o, drain f inner c h = o -> o <> OutOfFuel ->
    match o with
    | Fin c' h' => forall o', Conv (SI rest (EndInner ls)) c' h' o' ->
                              Conv (SI rest (IterInner inner ls)) c h o'
    | _ => Conv (SI rest (IterInner inner ls)) c h o
    end.
Proof.
  intros rest ls.
  apply (conv_inner_gen (fun i => SI rest (IterInner i ls)) (SI rest (EndInner ls))).
  intros f inner c. rewrite next_S. reflexivity.
Qed.

Lemma conv_while_inner : forall rest ws f inner c h o, drain f inner c h = o -> o <> OutOfFuel ->
    match o with
    | Fin c' h' => forall o', Conv (SI rest (StartWhile ws)) c' h' o' ->
                              Conv (SI rest (WhileInner inner ws)) c h o'
    | _ => Conv (SI rest (WhileInner inner ws)) c h o
    end.
Proof.
  intros rest ws.
  apply (conv_inner_gen (fun i => SI rest (WhileInner i ws)) (SI rest (StartWhile ws))).
  intros f inner c. rewrite next_S. reflexivity.
Qed.

Ltac red_next := rewrite next_S; cbn [lvar lmax lbody wcond wbody].
Ltac silent := eapply conv_silent with (k := O); [intros ? _; red_next; try reflexivity|].

Definition P_exec f := forall ss c h o, exec f ss c h = o -> o <> OutOfFuel ->
  Conv (SI ss Iterate) c h o.
Definition P_for f := forall ls c h o r,
  for_loop f (lvar ls) (lmax ls) (lbody ls) c h = o -> o <> OutOfFuel ->
  match o with
  | Fin c2 h2 => forall o', Conv (SI r Iterate) (pop c2) h2 o' -> Conv (SI r (StartInner ls)) c h o'
  | _ => Conv (SI r (StartInner ls)) c h o
  end.
Definition P_while f := forall ws c h o r,
  while_loop f (wcond ws) (wbody ws) c h = o -> o <> OutOfFuel ->
  match o with
  | Fin c2 h2 => forall o', Conv (SI r Iterate) c2 h2 o' -> Conv (SI r (StartWhile ws)) c h o'
  | _ => Conv (SI r (StartWhile ws)) c h o
  end.

Lemma all_P : forall f, P_exec f /\ P_for f /\ P_while f.
Proof.
  induction f as [|f [IHe [IHf IHw]]].
  - split; [|split].
    + intros ss c h o He Ho. rewrite exec_O in He. congruence.
    + intros ls c h o r He Ho. rewrite for_O in He. congruence.
    + intros ws c h o r He Ho. rewrite while_O in He. congruence.
  - repeat split.
    + (* exec *)
      red. intros ss c h o He Ho. rewrite exec_S in He. destruct ss as [|s r].
      * subst o. eapply conv_const with (k := O) (r := NDone (SI [] Iterate) c);
          [intros; reflexivity|reflexivity].
      * destruct s as [n e|d line|v e body|e body|].
        -- (* SLet *) destruct (eval c e) as [c1 [z|x]] eqn:Hev.
           ++ silent. rewrite Hev. reflexivity. eapply IHe; eauto.
           ++ subst o. eapply conv_const with (k := O) (r := NErr x (SI r Iterate) c1); [|reflexivity].
              intros; red_next. rewrite Hev. reflexivity.
        -- (* SRow *) destruct (row_eval c d) as [c1 [w|x]] eqn:Hev.
           ++ eapply conv_yield with (k := O) (w := w) (l := line) (it' := SI r Iterate) (c' := c1).
              { intros; red_next. rewrite Hev. reflexivity. }
              destruct (handler h (w, line) c1) as [[h2 c2]|h2]; [eapply IHe; eauto | congruence].
           ++ subst o. eapply conv_const with (k := O) (r := NErr x (SI r Iterate) c1); [|reflexivity].
              intros; red_next. rewrite Hev. reflexivity.
        -- (* SLoop *) destruct (eval c e) as [c1 [m|x]] eqn:Hev.
           ++ silent. rewrite Hev. reflexivity.
              set (ls := {| lvar := v; lmax := m; lbody := body |}).
              destruct (0 <? m) eqn:Hm.
              ** silent. fold ls. change (lmax ls) with m. rewrite Hm. reflexivity.
                 unfold bindo in He.
                 destruct (for_loop f v m body (setv (push c1) v 0) h) eqn:Hfl.
                 { pose proof (IHf ls _ _ _ r Hfl ltac:(congruence)) as Hc. cbn beta iota in Hc.
                   apply Hc. eapply IHe; eauto. }
                 all: subst o; pose proof (IHf ls _ _ _ r Hfl ltac:(congruence)) as Hc;
                   cbn beta iota in Hc; try exact Hc; congruence.
              ** silent. change (lmax ls) with m. rewrite Hm. reflexivity. eapply IHe; eauto.
           ++ subst o. eapply conv_const with (k := O) (r := NErr x (SI r Iterate) c1); [|reflexivity].
              intros; red_next. rewrite Hev. reflexivity.
        -- (* SWhile *) silent.
           set (ws := {| wcond := e; wbody := body |}).
           unfold bindo in He.
           destruct (while_loop f e body c h) eqn:Hwl.
           { pose proof (IHw ws _ _ _ r Hwl ltac:(congruence)) as Hc. cbn beta iota in Hc.
             apply Hc. eapply IHe; eauto. }
           all: subst o; pose proof (IHw ws _ _ _ r Hwl ltac:(congruence)) as Hc;
             cbn beta iota in Hc; try exact Hc; congruence.
        -- (* SReset *) silent. eapply IHe; eauto.
    + (* for *)
      unfold P_for. intros ls c h o r Hfl Ho. rewrite for_S in Hfl. unfold bindo in Hfl.
      assert (Hstart : forall o', Conv (SI r (IterInner (SI (lbody ls) Iterate) ls)) c h o' ->
                                  Conv (SI r (StartInner ls)) c h o').
      { intros o' Hc. silent. exact Hc. }
      destruct (exec f (lbody ls) c h) as [c0 h0|h0|x c0 h0|s|] eqn:Hex.
      * (* body finished *)
        destruct (IHe _ _ _ _ Hex ltac:(congruence)) as [fb [Hdb _]].
        pose proof (conv_loop_inner r ls _ _ _ _ _ Hdb ltac:(congruence)) as Hin.
        cbn beta iota in Hin.
        destruct (getv c0 (lvar ls)) as [i|] eqn:Hg.
        -- destruct (wadd i 1 <? lmax ls) eqn:Hlt.
           ++ (* iterate again *)
              pose proof (IHf _ _ _ _ r Hfl Ho) as Hrec.
              assert (Hend : forall o', Conv (SI r (StartInner ls)) (setv c0 (lvar ls) (wadd i 1)) h0 o' ->
                                        Conv (SI r (EndInner ls)) c0 h0 o').
              { intros o' Hc. silent. rewrite Hg. rewrite Hlt. reflexivity. exact Hc. }
              destruct o; try (apply Hstart, Hin, Hend, Hrec).
              intros o' Ho'. apply Hstart, Hin, Hend, Hrec, Ho'.
           ++ subst o. intros o' Ho'. apply Hstart, Hin. silent. rewrite Hg. rewrite Hlt. reflexivity.
              exact Ho'.
        -- subst o. apply Hstart, Hin. eapply conv_const with (k := O) (r := NPanic 20%N); [|reflexivity].
           intros; red_next. rewrite Hg. reflexivity.
      * subst o. apply Hstart. destruct (IHe _ _ _ _ Hex ltac:(congruence)) as [fb [Hdb _]].
        exact (conv_loop_inner r ls _ _ _ _ _ Hdb ltac:(congruence)).
      * subst o. apply Hstart. destruct (IHe _ _ _ _ Hex ltac:(congruence)) as [fb [Hdb _]].
        exact (conv_loop_inner r ls _ _ _ _ _ Hdb ltac:(congruence)).
      * subst o. apply Hstart. destruct (IHe _ _ _ _ Hex ltac:(congruence)) as [fb [Hdb _]].
        exact (conv_loop_inner r ls _ _ _ _ _ Hdb ltac:(congruence)).
      * congruence.
    + (* while *)
      unfold P_while. intros ws c h o r Hwl Ho. rewrite while_S in Hwl.
      destruct (eval c (wcond ws)) as [c1 [z|x]] eqn:Hev.
      * destruct (z =? 0) eqn:Hz.
        -- subst o. intros o' Ho'. silent. rewrite Hev. rewrite Hz. reflexivity. exact Ho'.
        -- assert (Hstart : forall o', Conv (SI r (WhileInner (SI (wbody ws) Iterate) ws)) c1 h o' ->
                                       Conv (SI r (StartWhile ws)) c h o').
           { intros o' Hc. silent. rewrite Hev. rewrite Hz. reflexivity. exact Hc. }
           unfold bindo in Hwl.
           destruct (exec f (wbody ws) c1 h) as [c0 h0|h0|x c0 h0|s|] eqn:Hex.
           ++ destruct (IHe _ _ _ _ Hex ltac:(congruence)) as [fb [Hdb _]].
              pose proof (conv_while_inner r ws _ _ _ _ _ Hdb ltac:(congruence)) as Hin.
              cbn beta iota in Hin.
              pose proof (IHw _ _ _ _ r Hwl Ho) as Hrec.
              destruct o; try (apply Hstart, Hin, Hrec).
              intros o' Ho'. apply Hstart, Hin, Hrec, Ho'.
           ++ subst o. apply Hstart. destruct (IHe _ _ _ _ Hex ltac:(congruence)) as [fb [Hdb _]].
              exact (conv_while_inner r ws _ _ _ _ _ Hdb ltac:(congruence)).
           ++ subst o. apply Hstart. destruct (IHe _ _ _ _ Hex ltac:(congruence)) as [fb [Hdb _]].
              exact (conv_while_inner r ws _ _ _ _ _ Hdb ltac:(congruence)).
           ++ subst o. apply Hstart. destruct (IHe _ _ _ _ Hex ltac:(congruence)) as [fb [Hdb _]].
              exact (conv_while_inner r ws _ _ _ _ _ Hdb ltac:(congruence)).
           ++ congruence.
      * subst o. eapply conv_const with (k := O) (r := NErr x (SI r (StartWhile ws)) c1); [|reflexivity].
        intros; red_next. rewrite Hev. reflexivity.
Qed.

Lemma refines_forward : forall prog c h fuel o,
  exec fuel prog c h = o -> o <> OutOfFuel ->
  exists fuel', drain fuel' (SI prog Iterate) c h = o.
Proof.
  intros prog c h fuel o He Ho. destruct (all_P fuel) as [Pe _].
  destruct (Pe _ _ _ _ He Ho) as [f' [Hd _]]. eauto.
Qed.

(* ------------------------------------------------------------------ *)
(* drain ==> exec *)

(* The work that remains from an arbitrary iterator state, in terms of the sequential
   reading.  loop_from: the loop variable is set, run this pass and the following ones,
   then the rest.  end_inner: a pass has just ended.  while_from: about to test the
   condition. *)
Definition loop_from (f : nat) (rest : list stmt) (ls : lstate) (c : C) (h : H) : outcome :=
  bindo (for_loop f (lvar ls) (lmax ls) (lbody ls) c h) (fun c2 h2 => exec f rest (pop c2) h2).

Definition end_inner (f : nat) (rest : list stmt) (ls : lstate) (c : C) (h : H) : outcome :=
  match getv c (lvar ls) with
  | None => Crash 20%N
  | Some i => if wadd i 1 <? lmax ls
              then loop_from f rest ls (setv c (lvar ls) (wadd i 1)) h
              else exec f rest (pop c) h
  end.

Definition while_from (f : nat) (rest : list stmt) (ws : wstate) (c : C) (h : H) : outcome :=
  bindo (while_loop f (wcond ws) (wbody ws) c h) (fun c2 h2 => exec f rest c2 h2).

Fixpoint run (f : nat) (it : siter) (c : C) (h : H) {struct it} : outcome :=
  match it with SI rest st =>
  match st with
  | Iterate => exec f rest c h
  | StartLoop ls =>
      if 0 <? lmax ls then loop_from f rest ls (setv (push c) (lvar ls) 0) h
      else exec f rest c h
  | StartInner ls => loop_from f rest ls c h
  | IterInner inner ls => bindo (run f inner c h) (end_inner f rest ls)
  | EndInner ls => end_inner f rest ls c h
  | StartWhile ws => while_from f rest ws c h
  | WhileInner inner ws => bindo (run f inner c h) (while_from f rest ws)
  end end.

Lemma loop_from_mono : forall f rest ls c h o, loop_from f rest ls c h = o -> o <> OutOfFuel ->
  forall f', (f <= f')%nat -> loop_from f' rest ls c h = o.
Proof.
  intros f rest ls c h o Hl Ho f' Hle. unfold loop_from in *.
  eapply bindo_mono; [exact Hl | exact Ho | |].
  - intro Hne. eapply for_loop_mono; eauto.
  - intros c2 h2 Hk. cbv beta in Hk. eapply exec_mono; eauto.
Qed.

Lemma end_inner_mono : forall f rest ls c h o, end_inner f rest ls c h = o -> o <> OutOfFuel ->
  forall f', (f <= f')%nat -> end_inner f' rest ls c h = o.
Proof.
  intros f rest ls c h o Hl Ho f' Hle. unfold end_inner in *.
  destruct (getv c (lvar ls)) as [i|]; [|exact Hl].
  destruct (wadd i 1 <? lmax ls); [eapply loop_from_mono | eapply exec_mono]; eauto.
Qed.

Lemma while_from_mono : forall f rest ws c h o, while_from f rest ws c h = o -> o <> OutOfFuel ->
  forall f', (f <= f')%nat -> while_from f' rest ws c h = o.
Proof.
  intros f rest ws c h o Hl Ho f' Hle. unfold while_from in *.
  eapply bindo_mono; [exact Hl | exact Ho | |].
  - intro Hne. eapply while_loop_mono; eauto.
  - intros c2 h2 Hk. cbv beta in Hk. eapply exec_mono; eauto.
Qed.

Lemma run_mono : forall it f c h o, run f it c h = o -> o <> OutOfFuel ->
  forall f', (f <= f')%nat -> run f' it c h = o.
Proof.
  induction it using siter_mind with
    (P0 := fun st => forall rest f c h o, run f (SI rest st) c h = o -> o <> OutOfFuel ->
       forall f', (f <= f')%nat -> run f' (SI rest st) c h = o).
  - intros f c h o Hr Ho f' Hle. eapply IHit; eauto.
  - intros rest f c h o Hr Ho f' Hle. cbn [run] in *. eapply exec_mono; eauto.
  - intros rest f c h o Hr Ho f' Hle. cbn [run] in *.
    destruct (0 <? lmax ls); [eapply loop_from_mono | eapply exec_mono]; eauto.
  - intros rest f c h o Hr Ho f' Hle. cbn [run] in *. eapply loop_from_mono; eauto.
  - intros rest f c h o Hr Ho f' Hle. cbn [run] in *.
    eapply bindo_mono; [exact Hr | exact Ho | |].
    + intro Hne. eapply IHit; eauto.
    + intros c2 h2 Hk. eapply end_inner_mono; eauto.
  - intros rest f c h o Hr Ho f' Hle. cbn [run] in *. eapply end_inner_mono; eauto.
  - intros rest f c h o Hr Ho f' Hle. cbn [run] in *. eapply while_from_mono; eauto.
  - intros rest f c h o Hr Ho f' Hle. cbn [run] in *.
    eapply bindo_mono; [exact Hr | exact Ho | |].
    + intro Hne. eapply IHit; eauto.
    + intros c2 h2 Hk. eapply while_from_mono; eauto.
Qed.

(* the remaining work of [it] from (c, h) converges to o *)
Definition RConv (it : siter) (c : C) (h : H) (o : outcome) : Prop :=
  exists f, run f it c h = o /\ o <> OutOfFuel.

(* states that delegate to an inner iterator: run is a bind *)
Section WRAP.
Variable wrap : siter -> siter.
Variable after : siter.
Hypothesis Hw : forall f inner c h,
  run f (wrap inner) c h = bindo (run f inner c h) (run f after).

Lemma rconv_bind_fin : forall inner c h c' h' o,
  RConv inner c h (Fin c' h') -> RConv after c' h' o -> RConv (wrap inner) c h o.
Proof.
  intros inner c h c' h' o [f1 [H1 _]] [f2 [H2 Ho]].
  exists (Nat.max f1 f2). split; [|exact Ho]. rewrite Hw.
  rewrite (run_mono _ _ _ _ _ H1 ltac:(congruence) (Nat.max f1 f2)) by lia.
  unfold bindo. eapply run_mono; eauto. lia.
Qed.

Lemma rconv_bind_other : forall inner c h o,
  RConv inner c h o -> (forall c' h', o <> Fin c' h') -> RConv (wrap inner) c h o.
Proof.
  intros inner c h o [f1 [H1 Ho]] Hnf. exists f1. split; [|exact Ho]. rewrite Hw, H1.
  destruct o as [c' h'| | | |]; try reflexivity. exfalso. eapply Hnf. reflexivity.
Qed.

Lemma rconv_bind_inv : forall inner c h o, RConv (wrap inner) c h o ->
  (exists c' h', RConv inner c h (Fin c' h') /\ RConv after c' h' o) \/
  (RConv inner c h o /\ forall c' h', o <> Fin c' h').
Proof.
  intros inner c h o [f1 [H1 Ho]]. rewrite Hw in H1.
  destruct (run f1 inner c h) as [c0 h0|h0|x c0 h0|s|] eqn:Hi; unfold bindo in H1.
  - left. exists c0, h0. split; [exists f1; split; [exact Hi|congruence] | exists f1; split; assumption].
  - right. subst o. split; [exists f1; split; [exact Hi|congruence] | congruence].
  - right. subst o. split; [exists f1; split; [exact Hi|congruence] | congruence].
  - right. subst o. split; [exists f1; split; [exact Hi|congruence] | congruence].
  - congruence.
Qed.

Lemma rconv_wrap_back : forall inner c h inner' c2 h2,
  (forall o1, RConv inner' c2 h2 o1 -> RConv inner c h o1) ->
  forall o, RConv (wrap inner') c2 h2 o -> RConv (wrap inner) c h o.
Proof.
  intros inner c h inner' c2 h2 Hb o Hc.
  destruct (rconv_bind_inv _ _ _ _ Hc) as [[c' [h' [Hi Ha]]] | [Hi Hnf]].
  - eapply rconv_bind_fin; [apply Hb; exact Hi | exact Ha].
  - apply rconv_bind_other; [apply Hb; exact Hi | exact Hnf].
Qed.
End WRAP.

(* what a result of [next] on (it, c) says about the remaining work of it *)
Definition Good (r : nres) (it : siter) (c : C) : Prop :=
  match r with
  | NYield w l it' c' => forall h,
      match handler h (w, l) c' with
      | inl (h2, c2) => forall o, RConv it' c2 h2 o -> RConv it c h o
      | inr h2 => RConv it c h (Stop h2)
      end
  | NDone _ c' => forall h, RConv it c h (Fin c' h)
  | NErr x _ c' => forall h, RConv it c h (Fail x c' h)
  | NPanic s => forall h, RConv it c h (Crash s)
  | NOOF => True
  end.

Lemma good_silent : forall r it c it1 c1,
  (forall h o, RConv it1 c1 h o -> RConv it c h o) -> Good r it1 c1 -> Good r it c.
Proof.
  intros r it c it1 c1 Hs Hg. destruct r as [w l it' c'|it' c'|x it' c'|s|]; cbn [Good] in *.
  - intro h. specialize (Hg h). destruct (handler h (w, l) c') as [[h2 c2]|h2].
    + intros o Hc. apply Hs, Hg, Hc.
    + apply Hs, Hg.
  - intro h. apply Hs, Hg.
  - intro h. apply Hs, Hg.
  - intro h. apply Hs, Hg.
  - exact I.
Qed.

Lemma good_wrap : forall (wrap : siter -> siter) (after : siter),
  (forall f inner c h, run f (wrap inner) c h = bindo (run f inner c h) (run f after)) ->
  forall f inner c,
  Good (next f inner c) inner c ->
  (forall c', Good (next f after c') after c') ->
  Good (match next f inner c with
        | NYield w l inner' c' => NYield w l (wrap inner') c'
        | NDone _ c' => next f after c'
        | NErr x inner' c' => NErr x (wrap inner') c'
        | o => o end) (wrap inner) c.
Proof.
  intros wrap after Hw f inner c Hg Ha.
  destruct (next f inner c) as [w l it' c'|it' c'|x it' c'|s|]; cbn [Good] in Hg.
  - cbn [Good]. intro h. specialize (Hg h). destruct (handler h (w, l) c') as [[h2 c2]|h2].
    + apply (rconv_wrap_back wrap after Hw). exact Hg.
    + apply (rconv_bind_other wrap after Hw); [exact Hg | congruence].
  - eapply good_silent; [|apply Ha].
    intros h o Hc. eapply (rconv_bind_fin wrap after Hw); [apply Hg | exact Hc].
  - cbn [Good]. intro h. apply (rconv_bind_other wrap after Hw); [apply Hg | congruence].
  - cbn [Good]. intro h. apply (rconv_bind_other wrap after Hw); [apply Hg | congruence].
  - exact I.
Qed.

(* backward steps of the remaining work along the silent transitions of next *)
Lemma back_start_inner : forall rest ls c h o,
  RConv (SI rest (IterInner (SI (lbody ls) Iterate) ls)) c h o ->
  RConv (SI rest (StartInner ls)) c h o.
Proof.
  intros rest ls c h o [f0 [Hr Ho]]. exists (S f0). split; [|exact Ho].
  cbn [run] in *. unfold loop_from. rewrite for_S.
  destruct (exec f0 (lbody ls) c h) as [c2 h2|h2|x c2 h2|s|]; unfold bindo in Hr; try exact Hr.
  unfold end_inner in Hr. unfold bindo at 2.
  destruct (getv c2 (lvar ls)) as [i|]; [|exact Hr].
  destruct (wadd i 1 <? lmax ls).
  - unfold loop_from in Hr. eapply bindo_mono; [exact Hr | exact Ho | auto |].
    intros c3 h3 Hk. cbv beta in Hk. eapply exec_mono; eauto.
  - unfold bindo. eapply exec_mono; eauto.
Qed.

Lemma back_start_while : forall rest ws c c1 z h o,
  eval c (wcond ws) = (c1, inl z) ->
  RConv (SI rest (if z =? 0 then Iterate else WhileInner (SI (wbody ws) Iterate) ws)) c1 h o ->
  RConv (SI rest (StartWhile ws)) c h o.
Proof.
  intros rest ws c c1 z h o Hev [f0 [Hr Ho]]. exists (S f0). split; [|exact Ho].
  cbn [run]. unfold while_from. rewrite while_S, Hev.
  destruct (z =? 0); cbn [run] in Hr.
  - unfold bindo. eapply exec_mono; eauto.
  - destruct (exec f0 (wbody ws) c1 h) as [c2 h2|h2|x c2 h2|s|]; unfold bindo in Hr; try exact Hr.
    unfold bindo at 2. unfold while_from in Hr.
    eapply bindo_mono; [exact Hr | exact Ho | auto |].
    intros c3 h3 Hk. cbv beta in Hk. eapply exec_mono; eauto.
Qed.

Lemma next_good : forall f it c, Good (next f it c) it c.
Proof.
  induction f as [|f IH]; intros it c; [exact I|].
  rewrite next_S. destruct it as [rest st].
  destruct st as [|ls|ls|inner ls|ls|ws|inner ws].
  - (* Iterate *)
    destruct rest as [|s r].
    { intro h. exists 1%nat. split; [reflexivity|congruence]. }
    destruct s as [n e|d l|v e body|e body|].
    + destruct (eval c e) as [c1 [z|x]] eqn:Hev.
      * eapply good_silent; [|apply IH]. intros h o [f0 [Hr Ho]].
        exists (S f0). split; [|exact Ho]. cbn [run] in *. rewrite exec_S, Hev. exact Hr.
      * intro h. exists 1%nat. split; [|congruence]. cbn [run]. rewrite exec_S, Hev. reflexivity.
    + destruct (row_eval c d) as [c1 [w|x]] eqn:Hev.
      * intro h. destruct (handler h (w, l) c1) as [[h2 c2]|h2] eqn:Hh.
        -- intros o [f0 [Hr Ho]]. exists (S f0). split; [|exact Ho].
           cbn [run] in *. rewrite exec_S, Hev, Hh. exact Hr.
        -- exists 1%nat. split; [|congruence]. cbn [run]. rewrite exec_S, Hev, Hh. reflexivity.
      * intro h. exists 1%nat. split; [|congruence]. cbn [run]. rewrite exec_S, Hev. reflexivity.
    + destruct (eval c e) as [c1 [m|x]] eqn:Hev.
      * eapply good_silent; [|apply IH]. intros h o [f0 [Hr Ho]].
        exists (S f0). split; [|exact Ho]. cbn [run] in *. rewrite exec_S, Hev. exact Hr.
      * intro h. exists 1%nat. split; [|congruence]. cbn [run]. rewrite exec_S, Hev. reflexivity.
    + eapply good_silent; [|apply IH]. intros h o [f0 [Hr Ho]].
      exists (S f0). split; [|exact Ho]. cbn [run] in *. rewrite exec_S. exact Hr.
    + eapply good_silent; [|apply IH]. intros h o [f0 [Hr Ho]].
      exists (S f0). split; [|exact Ho]. cbn [run] in *. rewrite exec_S. exact Hr.
  - (* StartLoop *)
    destruct (0 <? lmax ls) eqn:Hm; (eapply good_silent; [|apply IH]);
      intros h o [f0 [Hr Ho]]; exists f0; (split; [|exact Ho]); cbn [run] in *; rewrite Hm; exact Hr.
  - (* StartInner *)
    eapply good_silent; [|apply IH]. intros h o. apply back_start_inner.
  - (* IterInner *)
    apply (good_wrap (fun i => SI rest (IterInner i ls)) (SI rest (EndInner ls))).
    + reflexivity.
    + apply IH.
    + intro c'. apply IH.
  - (* EndInner *)
    destruct (getv c (lvar ls)) as [i|] eqn:Hg.
    + destruct (wadd i 1 <? lmax ls) eqn:Hlt; (eapply good_silent; [|apply IH]);
        intros h o [f0 [Hr Ho]]; exists f0; (split; [|exact Ho]); cbn [run] in *;
        unfold end_inner; rewrite Hg, Hlt; exact Hr.
    + intro h. exists O. split; [|congruence]. cbn [run]. unfold end_inner. rewrite Hg. reflexivity.
  - (* StartWhile *)
    destruct (eval c (wcond ws)) as [c1 [z|x]] eqn:Hev.
    + destruct (z =? 0) eqn:Hz; (eapply good_silent; [|apply IH]);
        intros h o Hc; apply (back_start_while _ _ _ _ _ _ _ Hev); rewrite Hz; exact Hc.
    + intro h. exists 1%nat. split; [|congruence]. cbn [run]. unfold while_from.
      rewrite while_S, Hev. reflexivity.
  - (* WhileInner *)
    apply (good_wrap (fun i => SI rest (WhileInner i ws)) (SI rest (StartWhile ws))).
    + reflexivity.
    + apply IH.
    + intro c'. apply IH.
Qed.

Lemma drain_rconv : forall f it c h o, drain f it c h = o -> o <> OutOfFuel -> RConv it c h o.
Proof.
  induction f as [|f IH]; intros it c h o Hd Ho; [simpl in Hd; congruence|].
  rewrite drain_S in Hd. pose proof (next_good f it c) as Hg.
  destruct (next f it c) as [w l it' c'|it' c'|x it' c'|s|]; cbn [Good] in Hg.
  - specialize (Hg h). destruct (handler h (w, l) c') as [[h2 c2]|h2].
    + apply Hg. eapply IH; eauto.
    + subst o. exact Hg.
  - subst o. apply Hg.
  - subst o. apply Hg.
  - subst o. apply Hg.
  - congruence.
Qed.

Lemma refines_backward : forall prog c h fuel o,
  drain fuel (SI prog Iterate) c h = o -> o <> OutOfFuel ->
  exists fuel', exec fuel' prog c h = o.
Proof.
  intros prog c h fuel o Hd Ho.
  destruct (drain_rconv _ _ _ _ _ Hd Ho) as [f' [Hr _]]. exists f'. exact Hr.
Qed.

End REFINE.

(* ------------------------------------------------------------------ *)
(* The results, for every context type, evaluator, row evaluator and row handler. *)

Theorem iterator_refines_sequential_reading :
  forall (C F W : Type)
         (eval : C -> expr -> C * (Z + F)) (row_eval : C -> list dentry -> C * (W + F))
         (setv : C -> name -> Z -> C) (getv : C -> name -> option Z) (push pop reset : C -> C)
         (H : Type) (handler : H -> W * N -> C -> (H * C) + H),
  forall prog c h fuel o,
    exec C F W eval row_eval setv getv push pop reset H handler fuel prog c h = o ->
    o <> OutOfFuel ->
    exists fuel',
      drain C F W eval row_eval setv getv push pop reset H handler fuel' (SI prog Iterate) c h = o.
Proof. intros until o. apply refines_forward. Qed.

Theorem sequential_reading_refines_iterator :
  forall (C F W : Type)
         (eval : C -> expr -> C * (Z + F)) (row_eval : C -> list dentry -> C * (W + F))
         (setv : C -> name -> Z -> C) (getv : C -> name -> option Z) (push pop reset : C -> C)
         (H : Type) (handler : H -> W * N -> C -> (H * C) + H),
  forall prog c h fuel o,
    drain C F W eval row_eval setv getv push pop reset H handler fuel (SI prog Iterate) c h = o ->
    o <> OutOfFuel ->
    exists fuel',
      exec C F W eval row_eval setv getv push pop reset H handler fuel' prog c h = o.
Proof. intros until o. apply refines_backward. Qed.

Print Assumptions sequential_reading_refines_iterator.
Print Assumptions iterator_refines_sequential_reading.
