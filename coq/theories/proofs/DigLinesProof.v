(* C19, last sentence: "for tests loaded from a .dig file the count is relative to the start of that test's own
   source text".  load_test(i) parses source i and binds it, and binding keeps the statements, so the theorem about
   the lines of a parsed text (ParserLinesProof.C19_row_line) applies to the test's own source. *)
From DTR Require Import Prelude I64 Ast FramedMap Lexer Parser Bind Eval Stmt Iter Dig.
From DTR.proofs Require Import LexerProof ParserProof ParserLinesProof.

Lemma with_signals_keeps_stmts : forall p sigs0 tc, with_signals p sigs0 = Ok tc -> tc_stmts tc = p_stmts p.
Proof.
  intros p sigs0 tc H. unfold with_signals in H.
  destruct (check_duplicate_signals p sigs0); cbn [rbind] in H; try discriminate.
  destruct (build_indices p (sigs0 ++ map virtual_signal (p_virtuals p))) as [ins exps].
  destruct (check_missing_signals p ins exps); cbn [rbind] in H; try discriminate.
  destruct (check_expected_inputs p _ _); cbn [rbind] in H; try discriminate.
  destruct (build_read_outputs p _ _); cbn [rbind] in H; try discriminate.
  inversion H; subst; reflexivity.
Qed.

Theorem load_test_row_lines : forall f n tc,
  load_test f n = Ok tc ->
  exists nm src, nth_error (df_tests f) n = Some (nm, src) /\
  Forall (fun line : N =>
            exists u v : list N, src = u ++ v /\ line = N.of_nat (1 + count_nl u) /\ row_starts_here v)
         (row_lines (tc_stmts tc)).
Proof.
  intros f n tc H. unfold load_test in H.
  destruct (List.length (df_tests f) <=? n)%nat; [discriminate|].
  destruct (nth_error (df_tests f) n) as [[nm src]|] eqn:En; [|discriminate].
  exists nm, src. split; [reflexivity|]. cbn [snd] in H.
  destruct (parse src) as [p| | |] eqn:Ep; cbn [rmap_err rbind] in H; try discriminate.
  destruct (with_signals p (df_signals f)) as [tc'| | |] eqn:Eb; cbn [rmap_err] in H; try discriminate.
  inversion H; subst tc'. rewrite (with_signals_keeps_stmts _ _ _ Eb).
  exact (C19_row_line src p Ep).
Qed.

Check load_test_row_lines.
Print Assumptions load_test_row_lines.
