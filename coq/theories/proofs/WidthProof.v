(* C07 at the level of the RUN: every row that any iteration ever yields carries only values
   reduced to the width of their signal.

   props/C07.v has the arithmetic of the mask, props/C06.v says that generate_input_entries /
   generate_expected_entries compute the by-name vector of ONE evaluated row.  Here:
     (1) in_width, mask_value_in_width (width 0: the only value is 0), in_width_iff_fixed;
     (2) one next(): every value taken from a data COLUMN of a yielded row - input or expected -
         is in_width of its signal; an input that the header omits carries the signal's DECLARED
         default verbatim (it is NOT reduced: default_unreduced_counterexample); the call made
         for the row carries exactly these entries (IterLogProof.inext_calls = C02_one_call_per_item);
     (3) the run: the same for every row of collect_e / collect and for every call of the log,
         from ANY state; the constructor's vector is the declared defaults, unreduced;
     (4) functional form: the numeric entry of a column is mask_value (sbits sig) n for the cell
         DNum n of the evaluated row, `changed` compares the UNREDUCED cells
         (changed_compares_unreduced_cells, Example changed_flag_not_on_reduced_values).

   THE INVARIANT.  None is needed: the mask is applied by generate_input_entries /
   generate_expected_entries to whatever row get_row takes from the cache, and i_prev only
   feeds the `changed` flags.  So all theorems hold for EVERY state (weakest invariant: True),
   and try_new / with_signals are needed only to speak about the header and the defaults.
   The only width hypothesis that is ever needed is about the test case, not the state:
   defaults_in_width (the declared defaults fit their signals).

   The OUTPUT values (or_output) are the driver's: they are handed on as received and are not
   reduced (see OutputsProof.v); nothing is claimed about them here. *)
From DTR Require Import Prelude I64 Ast FramedMap Parser Bind Eval Stmt Iter ByNameSpec Script.
From DTR.proofs Require Import I64Facts MaskProof ByNameProof IterLogProof OutputsProof RunRefine RunRefineE IterLogProofE.
Local Open Scope nat_scope.

Local Arguments ItNone {DE} st.
Local Arguments ItRow {DE} row st.
Local Arguments ItErr {DE} e st.
Local Arguments ItPanic {DE} s.
Local Arguments ItOOF {DE}.
Local Arguments NewOk {DE} st.
Local Arguments NewErr {DE} e log.
Local Arguments NewPanic {DE} s.

(* ------------------------------------------------------------------ (1) in_width *)

(* below 64 bits: an unsigned residue; from 64 bits on: no constraint (the value is an i64) *)
Definition in_width (bits : N) (v : Z) : Prop :=
  (bits < 64)%N -> (0 <= v < 2 ^ Z.of_N bits)%Z.

Theorem mask_value_in_width : forall bits n, in_width bits (mask_value bits n).
Proof.
  intros bits n H. rewrite mask_value_small by exact H.
  apply Z.mod_pos_bound. apply Z.pow_pos_nonneg; lia.
Qed.

(* a signal of 0 bits: the mask is 2^0 - 1 = 0, every value is reduced to 0 *)
Theorem mask_value_width0 : forall n, mask_value 0 n = 0%Z.
Proof. intro n. unfold mask_value. cbn [bit_mask N.ltb N.compare]. apply Z.land_0_r. Qed.

Theorem in_width_0 : forall v, in_width 0 v <-> v = 0%Z.
Proof.
  intro v. unfold in_width. cbn [Z.of_N]. rewrite Z.pow_0_r. split.
  - intro H. assert (0 < 64)%N by reflexivity. specialize (H H0). lia.
  - intros -> _. lia.
Qed.

Theorem mask_value_idempotent : forall bits n,
  mask_value bits (mask_value bits n) = mask_value bits n.
Proof. exact mask_value_idem. Qed.

(* the values in width are exactly the fixed points of the mask = exactly its results *)
Theorem in_width_iff_fixed : forall bits v, in_width bits v <-> mask_value bits v = v.
Proof.
  intros bits v. split.
  - intro H. destruct (N.ltb_spec bits 64) as [Hlt|Hge].
    + rewrite mask_value_small by exact Hlt. apply Z.mod_small. exact (H Hlt).
    + apply mask_value_wide. exact Hge.
  - intro H. rewrite <- H. apply mask_value_in_width.
Qed.

Corollary in_width_iff_masked : forall bits v, in_width bits v <-> exists n, v = mask_value bits n.
Proof.
  intros bits v. split.
  - intro H. exists v. symmetry. apply in_width_iff_fixed. exact H.
  - intros [n ->]. apply mask_value_in_width.
Qed.

(* ------------------------------------------------------------------ entries and rows *)

(* Z is not a number and is not reduced *)
Definition inval_in_width (s : signal) (v : inval) : Prop :=
  match v with IVal n => in_width (sbits s) n | IZ => True end.
(* neither are Z and X *)
Definition expval_in_width (s : signal) (v : expval) : Prop :=
  match v with XVal n => in_width (sbits s) n | XZ | XX => True end.

Definition input_entry_in_width (e : in_entry) : Prop := inval_in_width (ie_sig e) (ie_val e).
Definition exp_entry_in_width (x : exp_entry) : Prop := expval_in_width (xe_sig x) (xe_val x).
(* the EXPECTED value of a result; or_output is the driver's value and is not reduced *)
Definition out_result_in_width (r : out_result) : Prop := expval_in_width (or_sig r) (or_expected r).

(* the entry of an input-capable signal that the header omits: the declared default, verbatim,
   never flagged as changed *)
Definition is_default_entry (e : in_entry) : Prop :=
  ie_changed e = false /\ default_value (ie_sig e) = Some (ie_val e).

(* what holds of every input entry without any hypothesis *)
Definition input_entry_reduced_or_default (e : in_entry) : Prop :=
  input_entry_in_width e \/ is_default_entry e.

Definition row_in_width (r : data_row) : Prop :=
  Forall input_entry_in_width (dr_inputs r) /\ Forall out_result_in_width (dr_outputs r).
Definition row_reduced_or_default (r : data_row) : Prop :=
  Forall input_entry_reduced_or_default (dr_inputs r) /\ Forall out_result_in_width (dr_outputs r).

Definition call_in_width (c : call) : Prop := Forall input_entry_in_width (snd c).
Definition call_reduced_or_default (c : call) : Prop := Forall input_entry_reduced_or_default (snd c).

(* the hypothesis on the TEST CASE under which "or default" can be dropped *)
Definition defaults_in_width (sigs : list signal) : Prop :=
  forall s n, In s sigs -> default_value s = Some (IVal n) -> in_width (sbits s) n.

Lemma row_in_width_weaken : forall r, row_in_width r -> row_reduced_or_default r.
Proof.
  intros r [H1 H2]. split; [|exact H2].
  eapply Forall_impl; [|exact H1]. intros e He. left. exact He.
Qed.

(* ------------------------------------------------------------------ list helpers *)

Lemma map_r_Forall : forall A B (f : A -> R rterr B) (Q : B -> Prop) l ys,
  map_r f l = Ok ys -> (forall x y, In x l -> f x = Ok y -> Q y) -> Forall Q ys.
Proof.
  intros A B f Q l ys H HQ. apply map_r_Ok in H.
  induction H as [|x y l ys Hxy _ IH]; constructor.
  - apply (HQ x y); [left; reflexivity|exact Hxy].
  - apply IH. intros x' y' Hin. apply HQ. right. exact Hin.
Qed.

Lemma Forall_combine_fst : forall A B (Q : A -> Prop) (l : list A) (l' : list B),
  Forall Q l -> Forall (fun p => Q (fst p)) (combine l l').
Proof.
  intros A B Q l l' H. revert l'. induction H as [|x l Hx _ IH]; intros [|y l']; cbn [combine];
    constructor; [exact Hx|apply IH].
Qed.

Lemma Forall_snoc : forall A (Q : A -> Prop) l x, Forall Q l -> Q x -> Forall Q (l ++ [x]).
Proof. intros A Q l x Hl Hx. apply Forall_app. split; [exact Hl|constructor; [exact Hx|constructor]]. Qed.

(* ------------------------------------------------------------------ (2) one evaluated row *)

Section WIDTH.
Variable tc : testcase.

Lemma get_signal_In : forall i s, get_signal tc i = Ok s -> In s (tc_signals tc).
Proof.
  intros i s H. unfold get_signal, signals in H.
  destruct (nth_error (tc_signals tc) i) as [s'|] eqn:Hn; [|discriminate].
  inversion H; subst s'. eapply nth_error_In. exact Hn.
Qed.

Lemma default_entry_is_default : forall i e,
  default_entry tc i = Ok e -> is_default_entry e /\ In (ie_sig e) (tc_signals tc).
Proof.
  intros i e H. unfold default_entry in H.
  destruct (get_signal tc i) as [s| | |] eqn:Hs; cbn [rbind] in H; try discriminate.
  destruct (default_value s) as [v|] eqn:Hv; [|discriminate].
  inversion H; subst e. unfold is_default_entry. cbn [ie_changed ie_sig ie_val].
  split; [auto|]. eapply get_signal_In. exact Hs.
Qed.

Lemma default_entry_in_width : forall e, defaults_in_width (tc_signals tc) ->
  is_default_entry e -> In (ie_sig e) (tc_signals tc) -> input_entry_in_width e.
Proof.
  intros e Hd [_ Hv] Hin. unfold input_entry_in_width, inval_in_width.
  destruct (ie_val e) as [n|] eqn:Hval; [|exact I].
  apply (Hd (ie_sig e) n Hin). exact Hv.
Qed.

(* an input vector: every column entry is reduced, every other entry is the default *)
Theorem generate_input_entries_width : forall entries changed l,
  generate_input_entries tc entries changed = Ok l ->
  Forall (fun e => (input_entry_in_width e \/ is_default_entry e) /\ In (ie_sig e) (tc_signals tc)) l.
Proof.
  intros entries changed l H. unfold generate_input_entries in H.
  eapply map_r_Forall; [exact H|]. cbv beta. intros idx e _ He.
  destruct idx as [ei si|si].
  - destruct (get_signal tc si) as [s| | |] eqn:Hs; cbn [rbind] in He; try discriminate.
    destruct (nth_error entries ei) as [d|]; [|discriminate].
    destruct d as [n|x|k x| | |]; cbn [rbind] in He; try discriminate;
      (destruct (nth_error changed ei) as [ch|]; [|discriminate]); inversion He; subst e;
      cbn [ie_sig]; (split; [left|eapply get_signal_In; exact Hs]);
      unfold input_entry_in_width, inval_in_width; cbn [ie_sig ie_val].
    + apply mask_value_in_width.
    + exact I.
  - destruct (default_entry_is_default si e He) as [H1 H2]. split; [right; exact H1|exact H2].
Qed.

Corollary generate_input_entries_reduced_or_default : forall entries changed l,
  generate_input_entries tc entries changed = Ok l -> Forall input_entry_reduced_or_default l.
Proof.
  intros entries changed l H. eapply Forall_impl; [|eapply generate_input_entries_width; exact H].
  cbv beta. intros e [He _]. exact He.
Qed.

Corollary generate_input_entries_in_width : forall entries changed l,
  defaults_in_width (tc_signals tc) ->
  generate_input_entries tc entries changed = Ok l -> Forall input_entry_in_width l.
Proof.
  intros entries changed l Hd H. eapply Forall_impl; [|eapply generate_input_entries_width; exact H].
  cbv beta. intros e [[He|He] Hin]; [exact He|]. apply default_entry_in_width; assumption.
Qed.

(* an expected vector: every number is reduced (a column that the header omits is X) *)
Theorem generate_expected_entries_in_width : forall entries l,
  generate_expected_entries tc entries = Ok l -> Forall exp_entry_in_width l.
Proof.
  intros entries l H. unfold generate_expected_entries in H.
  eapply map_r_Forall; [exact H|]. cbv beta. intros idx x _ Hx.
  destruct idx as [ei si|si].
  - destruct (get_signal tc si) as [s| | |]; cbn [rbind] in Hx; try discriminate.
    destruct (nth_error entries ei) as [d|]; [|discriminate].
    destruct d as [n|y|k y| | |]; try discriminate; inversion Hx; subst x;
      unfold exp_entry_in_width, expval_in_width; cbn [xe_sig xe_val]; try exact I.
    apply mask_value_in_width.
  - destruct (get_signal tc si) as [s| | |]; cbn [rbind] in Hx; try discriminate.
    inversion Hx; subst x. exact I.
Qed.

(* the constructor's vector: the declared defaults, verbatim *)
Theorem generate_default_input_entries_defaults : forall l,
  generate_default_input_entries tc = Ok l ->
  Forall (fun e => is_default_entry e /\ In (ie_sig e) (tc_signals tc)) l.
Proof.
  intros l H. unfold generate_default_input_entries in H.
  eapply map_r_Forall; [exact H|]. cbv beta. intros idx e _ He.
  eapply default_entry_is_default. exact He.
Qed.

Corollary generate_default_input_entries_in_width : forall l,
  defaults_in_width (tc_signals tc) ->
  generate_default_input_entries tc = Ok l -> Forall input_entry_in_width l.
Proof.
  intros l Hd H. eapply Forall_impl; [|eapply generate_default_input_entries_defaults; exact H].
  cbv beta. intros e [He Hin]. apply default_entry_in_width; assumption.
Qed.

(* ---------------------------------------------------------------- get_row *)

(* the row that get_row hands out IS generate_*_entries of the entries it records in i_prev,
   with the flags of check_changed_entries against the i_prev it found *)
Lemma finish_row_row : forall st1 er st2,
  finish_row tc st1 = GRRow er st2 ->
  exists entries,
    i_prev st2 = Some entries /\
    generate_input_entries tc entries (check_changed_entries (i_prev st1) entries) = Ok (er_inputs er) /\
    generate_expected_entries tc entries = Ok (er_expected er).
Proof.
  intros st1 er st2 H. unfold finish_row in H.
  destruct (prepare_cache tc (i_cache st1)) as [[|row rest]|e|s|]; try discriminate.
  cbv zeta in H.
  destruct (generate_input_entries tc (de_entries row)
              (check_changed_entries (i_prev st1) (de_entries row))) as [inputs|e|s|] eqn:Hi;
    try discriminate.
  destruct (generate_expected_entries tc (de_entries row)) as [expected|e|s|] eqn:Hx; try discriminate.
  inversion H; subst er st2. exists (de_entries row). cbn [i_prev er_inputs er_expected]. auto.
Qed.

Section GETROW.
Variable G : gen.

Lemma get_row_row : forall fuel st er st1,
  get_row G tc fuel st = GRRow er st1 ->
  exists entries,
    i_prev st1 = Some entries /\
    generate_input_entries tc entries (check_changed_entries (i_prev st) entries) = Ok (er_inputs er) /\
    generate_expected_entries tc entries = Ok (er_expected er).
Proof.
  intros fuel st er st1 H. rewrite get_row_unfold in H.
  destruct (i_cache st) as [|d rest].
  - destruct (snext G fuel (i_iter st) (i_ctx st)) as [w l it' c'|it' c'|[x|s] it' c'|s|];
      try discriminate.
    apply finish_row_row in H. exact H.
  - apply finish_row_row in H. exact H.
Qed.

Lemma get_row_width : forall fuel st er st1,
  get_row G tc fuel st = GRRow er st1 ->
  Forall (fun e => (input_entry_in_width e \/ is_default_entry e) /\ In (ie_sig e) (tc_signals tc))
         (er_inputs er)
  /\ Forall exp_entry_in_width (er_expected er).
Proof.
  intros fuel st er st1 H. destruct (get_row_row _ _ _ _ H) as [entries [_ [Hi Hx]]]. split.
  - eapply generate_input_entries_width. exact Hi.
  - eapply generate_expected_entries_in_width. exact Hx.
Qed.

Lemma into_data_row_outputs_in_width : forall er vals,
  Forall exp_entry_in_width (er_expected er) ->
  Forall out_result_in_width (dr_outputs (into_data_row er vals)).
Proof.
  intros er vals H. unfold into_data_row. cbn [dr_outputs]. apply Forall_map.
  apply (Forall_combine_fst _ _ exp_entry_in_width _ vals) in H.
  eapply Forall_impl; [|exact H]. cbv beta. intros p Hp. exact Hp.
Qed.

(* ---------------------------------------------------------------- (2) one next() *)

Section NEXT.
Variable DE : Type.
Variable D : driver DE.
Variable w_default : bool.

Local Notation inext := (Iter.inext G DE D w_default tc).
Local Notation collect_e := (RunRefineE.collect_e G DE D w_default tc).
Local Notation collect := (IterLogProof.collect G DE D w_default tc).

(* the row-level statement: ANY state; the inputs are also the inputs of the one call made
   for this row (IterLogProof.inext_calls, which is props/C02.v's C02_one_call_per_item) *)
Theorem inext_row_width : forall fuel st row st',
  inext fuel st = ItRow row st' ->
  Forall (fun e => (input_entry_in_width e \/ is_default_entry e) /\ In (ie_sig e) (tc_signals tc))
         (dr_inputs row)
  /\ Forall out_result_in_width (dr_outputs row)
  /\ exists kind, i_log st' = i_log st ++ [(kind, dr_inputs row)].
Proof.
  intros fuel st row st' H.
  pose proof (inext_inv G DE D w_default tc fuel st) as Hinv.
  pose proof (inext_calls G DE D w_default tc fuel st) as Hcalls.
  rewrite H in Hinv, Hcalls.
  destruct Hcalls as [er [st1 [Hg [Hin [_ Hk]]]]]. cbv zeta in Hk. destruct Hk as [Hlog _].
  destruct (get_row_width _ _ _ _ Hg) as [Wi Wx].
  split; [rewrite Hin; exact Wi|]. split; [|eexists; exact Hlog].
  destruct Hinv as [er' [st1' [Hg' Hcase]]]. rewrite Hg in Hg'. inversion Hg'; subst er' st1'.
  destruct Hcase as [[_ [outs [c2 [vals [_ [_ [Hr _]]]]]]]|[_ [outs [_ [Hr _]]]]]; subst row;
    apply into_data_row_outputs_in_width; exact Wx.
Qed.

Theorem inext_row_reduced_or_default : forall fuel st row st',
  inext fuel st = ItRow row st' -> row_reduced_or_default row.
Proof.
  intros fuel st row st' H. destruct (inext_row_width _ _ _ _ H) as [Hi [Ho _]]. split; [|exact Ho].
  eapply Forall_impl; [|exact Hi]. cbv beta. intros e [He _]. exact He.
Qed.

Theorem inext_row_in_width : defaults_in_width (tc_signals tc) ->
  forall fuel st row st', inext fuel st = ItRow row st' -> row_in_width row.
Proof.
  intros Hd fuel st row st' H. destruct (inext_row_width _ _ _ _ H) as [Hi [Ho _]]. split; [|exact Ho].
  eapply Forall_impl; [|exact Hi]. cbv beta. intros e [[He|He] Hin]; [exact He|].
  apply default_entry_in_width; assumption.
Qed.

(* every call that one next() makes - for a row, for a row whose call fails, for a row whose
   answer is unusable - carries reduced values *)
Theorem inext_calls_width : forall fuel st,
  match inext fuel st with
  | ItNone st' | ItRow _ st' | ItErr _ st' =>
      exists calls, i_log st' = i_log st ++ calls /\ (length calls <= 1)%nat /\
        Forall (fun c => Forall (fun e => (input_entry_in_width e \/ is_default_entry e)
                                         /\ In (ie_sig e) (tc_signals tc)) (snd c)) calls
  | ItPanic _ | ItOOF => True
  end.
Proof.
  intros fuel st. pose proof (inext_calls G DE D w_default tc fuel st) as Hc.
  destruct (inext fuel st) as [st'|row st'|[e|r] st'|s|]; try exact I.
  - exists []. rewrite app_nil_r. split; [exact Hc|]. split; [cbn; lia|constructor].
  - destruct Hc as [er [st1 [Hg [Hin [_ Hk]]]]]. cbv zeta in Hk. destruct Hk as [Hlog _].
    eexists [_]. split; [exact Hlog|]. split; [cbn; lia|]. constructor; [|constructor].
    cbn [snd]. rewrite Hin. apply (get_row_width _ _ _ _ Hg).
  - destruct Hc as [er [st1 [kind [Hg [Hlog _]]]]].
    eexists [_]. split; [exact Hlog|]. split; [cbn; lia|]. constructor; [|constructor].
    cbn [snd]. apply (get_row_width _ _ _ _ Hg).
  - destruct Hc as [[Hlog _]|[er [st1 [outs [Hg [_ [Hlog _]]]]]]].
    + exists []. rewrite app_nil_r. split; [exact Hlog|]. split; [cbn; lia|constructor].
    + eexists [_]. split; [exact Hlog|]. split; [cbn; lia|]. constructor; [|constructor].
      cbn [snd]. apply (get_row_width _ _ _ _ Hg).
Qed.

(* ---------------------------------------------------------------- (3) the run *)

Definition item_rows (P : data_row -> Prop) (v : item_view DE) : Prop :=
  match v with VRow r => P r | _ => True end.

(* whatever holds of the row of every single next() holds of every row of every run, from ANY
   state, for any budget, also when the model stops short: the continuing caller ... *)
Lemma collect_e_every_row : forall P : data_row -> Prop,
  (forall fuel st row st', inext fuel st = ItRow row st' -> P row) ->
  forall fuel n st0, Forall (item_rows P) (fst (collect_e fuel n st0)).
Proof.
  intros P HP fuel n. induction n as [|n IH]; intros st0; [constructor|].
  rewrite collect_e_S. destruct (inext fuel st0) as [st'|row st'|e st'|s|] eqn:Hn; cbn [fst].
  - constructor; [exact I|constructor].
  - specialize (IH st'). destruct (collect_e fuel n st') as [l s]. cbn [fst] in *.
    constructor; [|exact IH]. cbn [item_rows]. eapply HP. exact Hn.
  - specialize (IH st'). destruct (collect_e fuel n st') as [l s]. cbn [fst] in *.
    constructor; [exact I|exact IH].
  - constructor.
  - constructor.
Qed.

(* ... and the caller that stops at the first error item *)
Lemma collect_every_row : forall P : data_row -> Prop,
  (forall fuel st row st', inext fuel st = ItRow row st' -> P row) ->
  forall fuel n st0, Forall (item_rows P) (fst (collect fuel n st0)).
Proof.
  intros P HP fuel n. induction n as [|n IH]; intros st0; [constructor|].
  cbn [IterLogProof.collect]. destruct (inext fuel st0) as [st'|row st'|e st'|s|] eqn:Hn; cbn [fst].
  - constructor; [exact I|constructor].
  - specialize (IH st'). destruct (collect fuel n st') as [l s]. cbn [fst] in *.
    constructor; [|exact IH]. cbn [item_rows]. eapply HP. exact Hn.
  - constructor; [exact I|constructor].
  - constructor.
  - constructor.
Qed.

Theorem every_row_reduced_or_default : forall fuel n st0,
  Forall (item_rows row_reduced_or_default) (fst (collect_e fuel n st0)).
Proof. apply collect_e_every_row. exact inext_row_reduced_or_default. Qed.

Theorem every_row_in_width_any_state : defaults_in_width (tc_signals tc) -> forall fuel n st0,
  Forall (item_rows row_in_width) (fst (collect_e fuel n st0)).
Proof. intro Hd. apply collect_e_every_row. exact (inext_row_in_width Hd). Qed.

Theorem every_row_reduced_or_default_collect : forall fuel n st0,
  Forall (item_rows row_reduced_or_default) (fst (collect fuel n st0)).
Proof. apply collect_every_row. exact inext_row_reduced_or_default. Qed.

Theorem every_row_in_width_collect_any_state : defaults_in_width (tc_signals tc) -> forall fuel n st0,
  Forall (item_rows row_in_width) (fst (collect fuel n st0)).
Proof. intro Hd. apply collect_every_row. exact (inext_row_in_width Hd). Qed.

(* the driver's side: every call after those already in the log carries reduced values - the
   calls of rows, and also the calls behind error items *)
Theorem every_call_width : forall fuel n st0 items st',
  collect_e fuel n st0 = (items, Some st') ->
  exists calls, i_log st' = i_log st0 ++ calls /\ (length calls <= length items)%nat /\
    Forall (fun c => Forall (fun e => (input_entry_in_width e \/ is_default_entry e)
                                     /\ In (ie_sig e) (tc_signals tc)) (snd c)) calls.
Proof.
  intros fuel n. induction n as [|n IH]; intros st0 items st' H.
  - cbn [RunRefineE.collect_e] in H. inversion H; subst. exists []. rewrite app_nil_r.
    split; [reflexivity|]. split; [cbn; lia|constructor].
  - rewrite collect_e_S in H. pose proof (inext_calls_width fuel st0) as Hc.
    destruct (inext fuel st0) as [st1|row st1|e st1|s|]; try discriminate H.
    + inversion H; subst. destruct Hc as [calls [Hl [Hn Hw]]]. exists calls.
      split; [exact Hl|]. split; [cbn [length]; lia|exact Hw].
    + destruct (collect_e fuel n st1) as [l s] eqn:Hcol. inversion H; subst.
      destruct Hc as [calls [Hl [Hn Hw]]]. destruct (IH _ _ _ Hcol) as [calls' [Hl' [Hn' Hw']]].
      exists (calls ++ calls'). split; [rewrite Hl', Hl, app_assoc; reflexivity|].
      split; [rewrite app_length; cbn [length]; lia|]. apply Forall_app. auto.
    + destruct (collect_e fuel n st1) as [l s] eqn:Hcol. inversion H; subst.
      destruct Hc as [calls [Hl [Hn Hw]]]. destruct (IH _ _ _ Hcol) as [calls' [Hl' [Hn' Hw']]].
      exists (calls ++ calls'). split; [rewrite Hl', Hl, app_assoc; reflexivity|].
      split; [rewrite app_length; cbn [length]; lia|]. apply Forall_app. auto.
Qed.

Corollary every_call_reduced_or_default : forall fuel n st0 items st',
  collect_e fuel n st0 = (items, Some st') ->
  exists calls, i_log st' = i_log st0 ++ calls /\ Forall call_reduced_or_default calls.
Proof.
  intros fuel n st0 items st' H. destruct (every_call_width _ _ _ _ _ H) as [calls [Hl [_ Hw]]].
  exists calls. split; [exact Hl|]. eapply Forall_impl; [|exact Hw]. cbv beta. intros c Hc.
  unfold call_reduced_or_default. eapply Forall_impl; [|exact Hc]. cbv beta. intros e [He _]. exact He.
Qed.

Corollary every_call_in_width : defaults_in_width (tc_signals tc) -> forall fuel n st0 items st',
  collect_e fuel n st0 = (items, Some st') ->
  exists calls, i_log st' = i_log st0 ++ calls /\ Forall call_in_width calls.
Proof.
  intros Hd fuel n st0 items st' H. destruct (every_call_width _ _ _ _ _ H) as [calls [Hl [_ Hw]]].
  exists calls. split; [exact Hl|]. eapply Forall_impl; [|exact Hw]. cbv beta. intros c Hc.
  unfold call_in_width. eapply Forall_impl; [|exact Hc]. cbv beta.
  intros e [[He|He] Hin]; [exact He|]. apply default_entry_in_width; assumption.
Qed.

(* a run of rows only: the calls ARE the rows' inputs (IterLogProofE.collect_e_log_rows, which is
   props/C02.v's C02_rows_verbatim_through_errors), so the driver has seen reduced values only *)
Corollary rows_verbatim_in_width : defaults_in_width (tc_signals tc) -> forall fuel n st0 rows st',
  collect_e fuel n st0 = (map VRow rows, Some st') ->
  exists calls, i_log st' = i_log st0 ++ calls /\ map snd calls = map dr_inputs rows /\
    Forall row_in_width rows /\ Forall call_in_width calls.
Proof.
  intros Hd fuel n st0 rows st' H.
  destruct (collect_e_log_rows G DE D w_default tc fuel n st0 rows st' H) as [calls [Hl Hm]].
  exists calls. split; [exact Hl|]. split; [exact Hm|].
  pose proof (every_row_in_width_any_state Hd fuel n st0) as Hr. rewrite H in Hr. cbn [fst] in Hr.
  assert (Hrows : Forall row_in_width rows).
  { clear -Hr. induction rows as [|r rows IH]; [constructor|].
    cbn [map] in Hr. inversion Hr; subst. constructor; [assumption|apply IH; assumption]. }
  split; [exact Hrows|].
  clear -Hm Hrows. revert calls Hm. induction Hrows as [|r rows Hrw _ IH]; intros [|c calls] Hm;
    cbn [map] in Hm; try discriminate; constructor.
  - inversion Hm. unfold call_in_width. rewrite H0. apply Hrw.
  - apply IH. inversion Hm. reflexivity.
Qed.

(* the constructor: its one call carries the declared defaults verbatim (IterLogProof.try_new_calls,
   which is props/C02.v's C02_constructor_call) *)
Theorem try_new_vector_is_defaults : forall st0,
  Iter.try_new DE D tc = NewOk st0 ->
  exists ins, i_log st0 = [(RW, ins)] /\ generate_default_input_entries tc = Ok ins /\
    Forall (fun e => is_default_entry e /\ In (ie_sig e) (tc_signals tc)) ins.
Proof.
  intros st0 H. pose proof (try_new_calls DE D tc) as Hc. rewrite H in Hc.
  destruct Hc as [ins [outs [Hg [Hl _]]]]. exists ins. split; [exact Hl|]. split; [exact Hg|].
  apply generate_default_input_entries_defaults. exact Hg.
Qed.

(* the whole log of a run that starts with the constructor *)
Theorem whole_log_in_width : defaults_in_width (tc_signals tc) -> forall fuel n st0 items st',
  Iter.try_new DE D tc = NewOk st0 ->
  collect_e fuel n st0 = (items, Some st') ->
  Forall call_in_width (i_log st').
Proof.
  intros Hd fuel n st0 items st' Hnew H.
  destruct (try_new_vector_is_defaults _ Hnew) as [ins [Hl0 [Hg _]]].
  destruct (every_call_in_width Hd _ _ _ _ _ H) as [calls [Hl Hw]].
  rewrite Hl, Hl0. constructor; [|exact Hw]. unfold call_in_width. cbn [snd].
  apply generate_default_input_entries_in_width; assumption.
Qed.

(* ---------------------------------------------------------------- (4) functional form *)

(* a yielded row IS the two vectors of the entries that next() leaves in i_prev (the evaluated
   row after X / C expansion: RunRefineE identifies them with the rows of the sequential reading),
   flagged against the i_prev it found; the outputs pair the expected vector with the values
   extracted from the driver's answer (none for a write-only row) *)
Theorem inext_row_functional : forall fuel st row st',
  inext fuel st = ItRow row st' ->
  exists entries expected vals,
    i_prev st' = Some entries /\
    generate_input_entries tc entries (check_changed_entries (i_prev st) entries) = Ok (dr_inputs row) /\
    generate_expected_entries tc entries = Ok expected /\
    dr_outputs row = map (fun p => {| or_sig := xe_sig (fst p); or_output := snd p;
                                      or_expected := xe_val (fst p) |}) (combine expected vals).
Proof.
  intros fuel st row st' H.
  pose proof (inext_inv G DE D w_default tc fuel st) as Hinv. rewrite H in Hinv.
  destruct Hinv as [er [st1 [Hg Hcase]]].
  destruct (get_row_row _ _ _ _ Hg) as [entries [Hp [Hi Hx]]].
  exists entries, (er_expected er).
  destruct Hcase as [[_ [outs [c2 [vals [_ [_ [Hr Hs]]]]]]]|[_ [outs [_ [Hr Hs]]]]]; subst row st'.
  - exists vals. cbn [with_ctx_log i_prev into_data_row dr_inputs dr_outputs]. auto.
  - exists []. cbn [with_ctx_log i_prev into_data_row dr_inputs dr_outputs]. auto.
Qed.

End NEXT.
End GETROW.
End WIDTH.

(* ------------------------------------------------------------------ by name *)

Lemma inputs_spec_entry : forall hdr entries changed sigs l,
  inputs_spec hdr entries changed sigs = Some l ->
  forall e, In e l -> In (ie_sig e) sigs /\ input_entry_spec hdr entries changed (ie_sig e) = Some e.
Proof.
  intros hdr entries changed. induction sigs as [|s r IH]; intros l H e Hin; cbn [inputs_spec] in H.
  - inversion H; subst l. destruct Hin.
  - destruct (is_input s).
    + destruct (input_entry_spec hdr entries changed s) as [e0|] eqn:He0; [|discriminate].
      destruct (inputs_spec hdr entries changed r) as [es|]; [|discriminate].
      inversion H; subst l. destruct Hin as [<-|Hin].
      * pose proof (input_entry_spec_sig _ _ _ _ _ He0) as Hs. rewrite Hs.
        split; [left; reflexivity|exact He0].
      * destruct (IH es eq_refl e Hin) as [H1 H2]. split; [right; exact H1|exact H2].
    + destruct (IH l H e Hin) as [H1 H2]. split; [right; exact H1|exact H2].
Qed.

Lemma expected_spec_entry : forall hdr entries sigs l,
  expected_spec hdr entries sigs = Some l ->
  forall x, In x l -> exists nm, expected_column_name (xe_sig x) = Some nm /\
                                 expected_entry_spec hdr entries (xe_sig x) nm = Some x.
Proof.
  intros hdr entries. induction sigs as [|s r IH]; intros l H x Hin; cbn [expected_spec] in H.
  - inversion H; subst l. destruct Hin.
  - destruct (expected_column_name s) as [nm|] eqn:Hnm.
    + destruct (expected_entry_spec hdr entries s nm) as [x0|] eqn:Hx0; [|discriminate].
      destruct (expected_spec hdr entries r) as [xs|]; [|discriminate].
      inversion H; subst l. destruct Hin as [<-|Hin].
      * pose proof (expected_entry_spec_sig _ _ _ _ _ Hx0) as Hs. rewrite Hs. exists nm. auto.
      * apply (IH xs eq_refl x Hin).
    + apply (IH l H x Hin).
Qed.

(* what a flag is: the cell of this row against the cell of the previous row, both UNREDUCED;
   every cell of the first row counts as changed *)
Lemma changed_compares_unreduced_cells : forall prev entries j ch,
  nth_error (check_changed_entries prev entries) j = Some ch ->
  exists d, nth_error entries j = Some d /\
    match prev with
    | Some p => exists d', nth_error p j = Some d' /\ ch = negb (dentry_eqb d d')
    | None => ch = true
    end.
Proof.
  intros prev entries j ch H. unfold check_changed_entries in H. destruct prev as [p|].
  - rewrite nth_error_map in H. destruct (nth_error (combine entries p) j) as [xy|] eqn:Hc; [|discriminate].
    cbn [option_map] in H. inversion H; subst ch.
    apply ByNameProof.nth_error_combine in Hc. destruct Hc as [H1 H2]. eauto.
  - rewrite nth_error_map in H. destruct (nth_error entries j) as [d|]; [|discriminate].
    cbn [option_map] in H. inversion H. eauto.
Qed.

Section BYNAME_RUN.
Variable G : gen.
Variable DE : Type.
Variable D : driver DE.
Variable w_default : bool.

(* one next() under binding: the input vector by NAME.  An entry of a signal that the header has
   as column j: Z for the cell Z, and mask_value (sbits sig) n for the cell DNum n - the number the
   cell was written as or evaluated to; its flag compares that cell with the previous row's cell,
   not the reduced values.  An entry of a signal that the header omits: the declared default. *)
Theorem inext_row_inputs_by_name : forall p sigs0 tc fuel st row st',
  with_signals p sigs0 = Ok tc ->
  Iter.inext G DE D w_default tc fuel st = ItRow row st' ->
  exists entries,
    i_prev st' = Some entries /\
    inputs_spec (p_signals p) entries (check_changed_entries (i_prev st) entries) (tc_signals tc)
      = Some (dr_inputs row) /\
    forall e, In e (dr_inputs row) ->
      match column_named (p_signals p) (sname (ie_sig e)) with
      | Some j =>
          exists d, nth_error entries j = Some d /\
            match d with
            | DNum n => ie_val e = IVal (mask_value (sbits (ie_sig e)) n)
            | DZ => ie_val e = IZ
            | _ => False
            end /\
            match i_prev st with
            | Some prev => exists d', nth_error prev j = Some d' /\ ie_changed e = negb (dentry_eqb d d')
            | None => ie_changed e = true
            end
      | None => is_default_entry e
      end.
Proof.
  intros p sigs0 tc fuel st row st' Hws H.
  destruct (inext_row_functional tc G DE D w_default _ _ _ _ H) as [entries [expected [vals [Hp [Hi _]]]]].
  exists entries. split; [exact Hp|].
  apply (proj1 (C06_inputs_by_name _ _ _ _ _ _ Hws)) in Hi. split; [exact Hi|].
  intros e Hin. destruct (inputs_spec_entry _ _ _ _ _ Hi e Hin) as [_ He].
  unfold input_entry_spec in He.
  destruct (column_named (p_signals p) (sname (ie_sig e))) as [j|].
  - destruct (nth_error entries j) as [d|] eqn:Hd; [|discriminate].
    destruct (nth_error (check_changed_entries (i_prev st) entries) j) as [ch|] eqn:Hch; [|discriminate].
    destruct (input_value_of (ie_sig e) d) as [v|] eqn:Hv; [|discriminate].
    assert (Hval : ie_val e = v) by (inversion He as [He']; rewrite <- He' at 1; reflexivity).
    assert (Hchg : ie_changed e = ch) by (inversion He as [He']; rewrite <- He' at 1; reflexivity).
    exists d. split; [reflexivity|]. split.
    + destruct d as [n|x|k x| | |]; cbn [input_value_of] in Hv; try discriminate; congruence.
    + destruct (changed_compares_unreduced_cells _ _ _ _ Hch) as [d0 [Hd0 Hc]].
      rewrite Hd in Hd0. inversion Hd0; subst d0. rewrite Hchg. exact Hc.
  - destruct (default_value (ie_sig e)) as [v|] eqn:Hv; [|discriminate].
    assert (Hval : ie_val e = v) by (inversion He as [He']; rewrite <- He' at 1; reflexivity).
    assert (Hchg : ie_changed e = false) by (inversion He as [He']; rewrite <- He' at 1; reflexivity).
    split; [exact Hchg|]. rewrite Hval. exact Hv.
Qed.

(* the same for the EXPECTED side: the result of a signal whose column the header has as column j
   expects X for the cell X, Z for the cell Z, and mask_value (sbits sig) n for the cell DNum n;
   a signal whose column the header omits expects X (is not checked) *)
Theorem inext_row_expected_by_name : forall p sigs0 tc fuel st row st',
  with_signals p sigs0 = Ok tc ->
  Iter.inext G DE D w_default tc fuel st = ItRow row st' ->
  exists entries expected vals,
    i_prev st' = Some entries /\
    expected_spec (p_signals p) entries (tc_signals tc) = Some expected /\
    dr_outputs row = map (fun q => {| or_sig := xe_sig (fst q); or_output := snd q;
                                      or_expected := xe_val (fst q) |}) (combine expected vals) /\
    forall x, In x expected ->
      exists nm, expected_column_name (xe_sig x) = Some nm /\
        match column_named (p_signals p) nm with
        | Some j =>
            exists d, nth_error entries j = Some d /\
              match d with
              | DNum n => xe_val x = XVal (mask_value (sbits (xe_sig x)) n)
              | DZ => xe_val x = XZ
              | DX => xe_val x = XX
              | _ => False
              end
        | None => xe_val x = XX
        end.
Proof.
  intros p sigs0 tc fuel st row st' Hws H.
  destruct (inext_row_functional tc G DE D w_default _ _ _ _ H) as [entries [expected [vals [Hp [_ [Hx Ho]]]]]].
  exists entries, expected, vals. split; [exact Hp|].
  apply (proj1 (C06_expected_by_name _ _ _ _ _ Hws)) in Hx. split; [exact Hx|]. split; [exact Ho|].
  intros x Hin. destruct (expected_spec_entry _ _ _ _ Hx x Hin) as [nm [Hnm He]].
  exists nm. split; [exact Hnm|]. unfold expected_entry_spec in He.
  destruct (column_named (p_signals p) nm) as [j|].
  - destruct (nth_error entries j) as [d|] eqn:Hd; [|discriminate].
    destruct (expected_value_of (xe_sig x) d) as [v|] eqn:Hv; [|discriminate].
    assert (Hval : xe_val x = v) by (inversion He as [He']; rewrite <- He' at 1; reflexivity).
    exists d. split; [reflexivity|].
    destruct d as [n|y|k y| | |]; cbn [expected_value_of] in Hv; try discriminate; congruence.
  - inversion He as [He']. rewrite <- He' at 1. reflexivity.
Qed.

(* the first next() after the constructor: there is no previous row, every column counts as changed *)
Corollary first_row_all_columns_changed : forall p sigs0 tc fuel st0 row st',
  with_signals p sigs0 = Ok tc ->
  Iter.try_new DE D tc = NewOk st0 ->
  Iter.inext G DE D w_default tc fuel st0 = ItRow row st' ->
  forall e, In e (dr_inputs row) ->
    ie_changed e = (match column_named (p_signals p) (sname (ie_sig e)) with Some _ => true | None => false end).
Proof.
  intros p sigs0 tc fuel st0 row st' Hws Hnew H e Hin.
  pose proof (try_new_calls DE D tc) as Hc. rewrite Hnew in Hc.
  destruct Hc as [ins [outs [_ [_ [_ [_ [_ Hprev]]]]]]].
  destruct (inext_row_inputs_by_name _ _ _ _ _ _ _ Hws H) as [entries [_ [_ He]]].
  specialize (He e Hin). rewrite Hprev in He.
  destruct (column_named (p_signals p) (sname (ie_sig e))) as [j|].
  - destruct He as [d [_ [_ Hch]]]. exact Hch.
  - apply He.
Qed.

(* (4) at the level of the run: every numeric input entry of every yielded row is the mask of the
   number in its cell of the evaluated row (or the declared default when the header omits it) *)
Definition inputs_masked_cells (hdr : list name) (r : data_row) : Prop :=
  exists entries, forall e, In e (dr_inputs r) ->
    match column_named hdr (sname (ie_sig e)) with
    | Some j =>
        exists d, nth_error entries j = Some d /\
          match d with
          | DNum n => ie_val e = IVal (mask_value (sbits (ie_sig e)) n)
          | DZ => ie_val e = IZ
          | _ => False
          end
    | None => is_default_entry e
    end.

Theorem every_row_inputs_masked_cells : forall p sigs0 tc fuel n st0,
  with_signals p sigs0 = Ok tc ->
  Forall (fun item => match item with VRow r => inputs_masked_cells (p_signals p) r | _ => True end)
         (fst (RunRefineE.collect_e G DE D w_default tc fuel n st0)).
Proof.
  intros p sigs0 tc fuel n st0 Hws.
  apply (collect_e_every_row tc G DE D w_default (inputs_masked_cells (p_signals p))).
  intros fuel' st row st' H.
  destruct (inext_row_inputs_by_name _ _ _ _ _ _ _ Hws H) as [entries [_ [_ He]]].
  exists entries. intros e Hin. specialize (He e Hin).
  destruct (column_named (p_signals p) (sname (ie_sig e))) as [j|]; [|exact He].
  destruct He as [d [Hd [Hv _]]]. exists d. auto.
Qed.

(* defaults_in_width of the bound list is a condition on the signals the caller supplies: the
   virtual signals that with_signals appends have no default *)
Lemma defaults_in_width_bound : forall p sigs0 tc,
  with_signals p sigs0 = Ok tc -> defaults_in_width sigs0 -> defaults_in_width (tc_signals tc).
Proof.
  intros p sigs0 tc H Hd s n Hin Hv. destruct (bound_signals _ _ _ H) as [Hs _]. rewrite Hs in Hin.
  apply in_app_or in Hin. destruct Hin as [Hin|Hin]; [apply (Hd s n Hin Hv)|].
  apply in_map_iff in Hin. destruct Hin as [v [<- _]]. discriminate Hv.
Qed.

(* (3) as asked: the run from the constructor, the continuing caller *)
Theorem every_row_in_width : forall p sigs0 tc fuel n st0,
  with_signals p sigs0 = Ok tc -> defaults_in_width sigs0 ->
  Iter.try_new DE D tc = NewOk st0 ->
  Forall (fun item => match item with VRow r => row_in_width r | _ => True end)
         (fst (RunRefineE.collect_e G DE D w_default tc fuel n st0)).
Proof.
  intros p sigs0 tc fuel n st0 Hws Hd _.
  exact (every_row_in_width_any_state tc G DE D w_default (defaults_in_width_bound _ _ _ Hws Hd) fuel n st0).
Qed.

Theorem every_row_in_width_collect : forall p sigs0 tc fuel n st0,
  with_signals p sigs0 = Ok tc -> defaults_in_width sigs0 ->
  Iter.try_new DE D tc = NewOk st0 ->
  Forall (fun item => match item with VRow r => row_in_width r | _ => True end)
         (fst (IterLogProof.collect G DE D w_default tc fuel n st0)).
Proof.
  intros p sigs0 tc fuel n st0 Hws Hd _.
  exact (every_row_in_width_collect_any_state tc G DE D w_default (defaults_in_width_bound _ _ _ Hws Hd) fuel n st0).
Qed.

(* the constructor's vector under binding (ByNameProof.C06_defaults, which is props/C02.v's
   C02_constructor_vector_is_defaults): one entry per input-capable signal, each the declared
   default verbatim - reduced exactly when the declared default fits *)
Theorem constructor_vector_unreduced : forall p sigs0 tc,
  with_signals p sigs0 = Ok tc ->
  exists l, generate_default_input_entries tc = Ok l /\ defaults_spec (tc_signals tc) = Some l /\
    map ie_sig l = filter is_input (tc_signals tc) /\ Forall is_default_entry l /\
    (Forall input_entry_in_width l <->
     forall s n, In s (tc_signals tc) -> default_value s = Some (IVal n) -> in_width (sbits s) n).
Proof.
  intros p sigs0 tc H. destruct (C06_defaults _ _ _ H) as [l [Hg Hs]].
  destruct (C06_defaults_complete _ _ Hs) as [Hm Hf].
  exists l. split; [exact Hg|]. split; [exact Hs|]. split; [exact Hm|]. split; [exact Hf|].
  split.
  - intros Hw s n Hin Hv.
    assert (His : In s (filter is_input (tc_signals tc))).
    { apply filter_In. split; [exact Hin|]. rewrite is_input_default_value, Hv. reflexivity. }
    rewrite <- Hm in His. apply in_map_iff in His. destruct His as [e [<- He]].
    rewrite Forall_forall in Hw, Hf. specialize (Hw e He). destruct (Hf e He) as [_ Hdv].
    rewrite Hv in Hdv. inversion Hdv as [Hval]. unfold input_entry_in_width in Hw.
    rewrite <- Hval in Hw. exact Hw.
  - intro Hd. apply (generate_default_input_entries_in_width tc l Hd Hg).
Qed.

End BYNAME_RUN.

(* ------------------------------------------------------------------ closed examples *)

Module Example_width.
  Import Coq.Strings.String.
  Import RunRefine.Example_run.

  (* B: 4 bits, declared default 17 (does not fit) *)
  Definition sB17 := {| sname := s2n "B"; sbits := 4%N; styp := TyInput (IVal 17%Z) |}.
  Definition sigs17 := [sA; sB17; sCK; sY].

  (* what the driver sees of a vector: value and flag per entry *)
  Definition shape (ins : list in_entry) : list (inval * bool) := map (fun e => (ie_val e, ie_changed e)) ins.

  Definition run (sg : list signal) (src : string) (fuel n : nat)
    : option (list (list (inval * bool)) * list (list (inval * bool))) :=
    match Parser.parse (s2n src) with
    | Ok p =>
        match with_signals p sg with
        | Ok tc =>
            let D := Script.script_driver sg (sc []) in
            match try_new N D tc with
            | NewOk st0 =>
                match collect_e G N D false tc fuel n st0 with
                | (items, Some st') =>
                    Some (map (fun r => shape (dr_inputs r)) (view_rows items),
                          map (fun c => shape (snd c)) (i_log st'))
                | _ => None
                end
            | _ => None
            end
        | _ => None
        end
    | _ => None
    end.

  (* the header omits B: the constructor's call AND every row carry B = 17 on a 4-bit signal *)
  Definition src_omit : string := ("A CK Y" ++ nl ++ "1 0 X" ++ nl ++ "0 0 X" ++ nl)%string.

  Example default_unreduced_counterexample :
    run sigs17 src_omit 50 5 =
      Some ([ [(IVal 1, true); (IVal 17, false); (IVal 0, true)];
              [(IVal 0, true); (IVal 17, false); (IVal 0, false)] ],
            [ [(IVal 0, false); (IVal 17, false); (IVal 0, false)];
              [(IVal 1, true); (IVal 17, false); (IVal 0, true)];
              [(IVal 0, true); (IVal 17, false); (IVal 0, false)] ])
    /\ ~ in_width (sbits sB17) 17 /\ mask_value (sbits sB17) 17 = 1%Z.
  Proof.
    split; [vm_compute; reflexivity|]. split; [|reflexivity].
    intro H. assert (Hb : (sbits sB17 < 64)%N) by reflexivity. specialize (H Hb).
    cbn [sbits sB17 Z.of_N] in H. change (2 ^ 4)%Z with 16%Z in H. lia.
  Qed.

  (* the header has B: the same signal is driven with reduced values, the default is never used
     after the constructor's call *)
  Definition src_17 : string := ("A B CK Y" ++ nl ++ "0 1 0 X" ++ nl ++ "0 17 0 X" ++ nl ++ "0 (16+1) 0 X" ++ nl ++
                                 "0 1 0 X" ++ nl)%string.

  (* 4-bit B driven with 1, then 17, then (16+1), then 1: the driver receives 1 four times, and
     the flag of B is true, true, FALSE, true: it compares the cells 1 / 17 / 17 / 1, not the
     reduced values 1 / 1 / 1 / 1.  (A and CK: changed only in the first row.) *)
  Example changed_flag_not_on_reduced_values :
    run sigs src_17 50 6 =
      Some ([ [(IVal 0, true); (IVal 1, true); (IVal 0, true)];
              [(IVal 0, false); (IVal 1, true); (IVal 0, false)];
              [(IVal 0, false); (IVal 1, false); (IVal 0, false)];
              [(IVal 0, false); (IVal 1, true); (IVal 0, false)] ],
            [ [(IVal 0, false); (IVal 0, false); (IVal 0, false)];
              [(IVal 0, true); (IVal 1, true); (IVal 0, true)];
              [(IVal 0, false); (IVal 1, true); (IVal 0, false)];
              [(IVal 0, false); (IVal 1, false); (IVal 0, false)];
              [(IVal 0, false); (IVal 1, true); (IVal 0, false)] ]).
  Proof. vm_compute. reflexivity. Qed.

  (* non-vacuity of every_row_in_width: the hypotheses hold for this run, 4 rows are yielded *)
  Example every_row_in_width_applies :
    defaults_in_width sigs /\
    match Parser.parse (s2n src_17) with
    | Ok p => match with_signals p sigs with
              | Ok tc => match try_new N (Script.script_driver sigs (sc [])) tc with
                         | NewOk st0 =>
                             List.length (view_rows (fst (collect_e G N (Script.script_driver sigs (sc []))
                                                            false tc 50 6 st0))) = 4
                         | _ => False
                         end
              | _ => False
              end
    | _ => False
    end.
  Proof.
    split; [|vm_compute; reflexivity].
    intros s n Hin Hv. unfold sigs in Hin. cbn [In] in Hin.
    destruct Hin as [<-|[<-|[<-|[<-|[]]]]]; cbn in Hv; try discriminate; inversion Hv; subst n;
      intros _; cbn [sbits sA sB sCK Z.of_N]; split; try lia; apply Z.pow_pos_nonneg; lia.
  Qed.
End Example_width.

(* ------------------------------------------------------------------ delivered *)

Check mask_value_in_width.
Check mask_value_width0.
Check in_width_0.
Check mask_value_idempotent.
Check in_width_iff_fixed.
Check in_width_iff_masked.
Check generate_input_entries_width.
Check generate_input_entries_in_width.
Check generate_expected_entries_in_width.
Check generate_default_input_entries_defaults.
Check inext_row_width.
Check inext_row_reduced_or_default.
Check inext_row_in_width.
Check inext_calls_width.
Check every_row_reduced_or_default.
Check every_row_in_width_any_state.
Check every_row_reduced_or_default_collect.
Check every_row_in_width_collect_any_state.
Check every_call_width.
Check every_call_reduced_or_default.
Check every_call_in_width.
Check rows_verbatim_in_width.
Check try_new_vector_is_defaults.
Check whole_log_in_width.
Check inext_row_functional.
Check changed_compares_unreduced_cells.
Check inext_row_inputs_by_name.
Check inext_row_expected_by_name.
Check first_row_all_columns_changed.
Check every_row_inputs_masked_cells.
Check every_row_in_width.
Check every_row_in_width_collect.
Check constructor_vector_unreduced.
Check Example_width.default_unreduced_counterexample.
Check Example_width.changed_flag_not_on_reduced_values.
Check Example_width.every_row_in_width_applies.

Print Assumptions mask_value_in_width.
Print Assumptions in_width_iff_fixed.
Print Assumptions in_width_iff_masked.
Print Assumptions in_width_0.
Print Assumptions inext_row_width.
Print Assumptions inext_row_in_width.
Print Assumptions inext_calls_width.
Print Assumptions every_row_reduced_or_default.
Print Assumptions every_row_in_width_any_state.
Print Assumptions every_row_reduced_or_default_collect.
Print Assumptions every_row_in_width_collect_any_state.
Print Assumptions every_call_width.
Print Assumptions every_call_in_width.
Print Assumptions rows_verbatim_in_width.
Print Assumptions whole_log_in_width.
Print Assumptions inext_row_functional.
Print Assumptions inext_row_inputs_by_name.
Print Assumptions inext_row_expected_by_name.
Print Assumptions first_row_all_columns_changed.
Print Assumptions every_row_inputs_masked_cells.
Print Assumptions every_row_in_width.
Print Assumptions every_row_in_width_collect.
Print Assumptions constructor_vector_unreduced.
Print Assumptions Example_width.default_unreduced_counterexample.
Print Assumptions Example_width.changed_flag_not_on_reduced_values.
Print Assumptions Example_width.every_row_in_width_applies.
