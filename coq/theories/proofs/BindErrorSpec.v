(* Property C11, the refusal side: WHICH error a refused binding gets.

   BindProof.v shows   with_signals p sigs0 = Ok _   <->  fits p sigs0 (and a header without
   repeated names), and that the result is never a panic / out-of-fuel.  This file adds a
   declarative specification `refusal p sigs0 : option serr` of the error, written with
   find / filter / existsb over the lists of `p` and `sigs0` (it does not call any of the
   check_* functions of Bind.v), and proves

       with_signals p sigs0 = Err e  <->  refusal p sigs0 = Some e
       refusal p sigs0 = None        <->  fits p sigs0 = true

   so that the three statements (Ok iff fits, Err iff refusal, never Panic/OOF) characterise
   `with_signals` completely.  *)
From DTR Require Import Prelude I64 Ast FramedMap Parser Bind Eval Stmt Iter WfSpec.
From DTR.proofs Require Import ByNameProof BindProof.
From Coq Require Import Permutation.
Local Open Scope nat_scope.

(* ================================================================== the specification *)

(* a list together with the positions of its elements *)
Definition indexed {A} (l : list A) : list (nat * A) := combine (seq 0 (length l)) l.

(* element number i of l (named n) also occurs among the i elements before it *)
Definition occurs_earlier (l : list name) (x : nat * name) : bool :=
  existsb (name_eqb (snd x)) (firstn (fst x) l).

(* the first element of l, in list order, that repeats an earlier element *)
Definition first_repeated (l : list name) : option name :=
  option_map snd (find (occurs_earlier l) (indexed l)).

Definition orelse {A} (a b : option A) : option A :=
  match a with Some x => Some x | None => b end.

Section REFUSAL.
Variable p : parsed.
Variable sigs0 : list signal.          (* the caller's signal list *)

(* the span of the (first) header column named c *)
Definition column_span (c : name) : span :=
  match header_pos p c with
  | Some i => nth i (p_signal_spans p) (0%N, 0%N)
  | None => (0%N, 0%N)
  end.

Definition is_column (n : name) : bool := existsb (name_eqb n) (p_signals p).

(* (a) a device-signal name that occurs twice: the first LATER occurrence, in list order *)
Definition refusal_duplicate : option serr :=
  option_map SE_DuplicateSignal (first_repeated (map sname sigs0)).

(* (b) a declared (virtual) name that is also a device signal: first declaration in source order *)
Definition clashes (v : name * expr * span) : bool :=
  existsb (fun s => name_eqb (sname s) (fst (fst v))) sigs0.
Definition refusal_virtual : option serr :=
  option_map (fun v => SE_SignalIsVirtual (fst (fst v)) (snd v)) (find clashes (p_virtuals p)).

(* (c) the header columns that name no signal, in header order, with their spans *)
Definition unknown_columns : list name :=
  filter (fun c => negb (column_fits p sigs0 c)) (p_signals p).

(*     ... and for a header that repeats a name (the parser never produces one): a column also
       counts as unknown when it is not the first column of its name *)
Definition is_first_column (x : nat * name) : bool :=
  match header_pos p (snd x) with Some i => Nat.eqb i (fst x) | None => false end.
Definition unknown_columns_exact : list name :=
  map snd (filter (fun x => negb (column_fits p sigs0 (snd x) && is_first_column x))
                  (indexed (p_signals p))).

Definition refusal_unknown (missing : list name) : option serr :=
  match missing with
  | [] => None
  | _ => Some (SE_UnknownSignals missing (map column_span missing))
  end.

(* (d) a column recorded as holding C that is not an input-capable signal: first in recorded
       order.  (Should the recorded name not be a header column at all, the error is the
       unknown-variable-or-signal one.) *)
Definition input_capable (n : name) : bool :=
  existsb (fun s => name_eqb (sname s) n && is_input s) (all_sigs p sigs0).
Definition not_input_error (ne : name * span) : serr :=
  if is_column (fst ne) then SE_NotAnInput (fst ne) (snd ne) (column_span (fst ne))
  else SE_UnknownVariableOrSignal (fst ne) (snd ne).
Definition refusal_not_input : option serr :=
  option_map not_input_error
    (find (fun ne => negb (input_capable (fst ne))) (p_expected_inputs p)).

(* (e) an identifier read as a signal that is not an output-capable signal: first in recorded
       order; NotAnOutput when it is a header column, UnknownVariableOrSignal when it is not *)
Definition output_capable (n : name) : bool :=
  existsb (fun s => name_eqb (sname s) n && is_output s) (all_sigs p sigs0).
Definition not_output_error (ne : name * span) : serr :=
  if is_column (fst ne) then SE_NotAnOutput (fst ne) (snd ne) (column_span (fst ne))
  else SE_UnknownVariableOrSignal (fst ne) (snd ne).
Definition refusal_not_output : option serr :=
  option_map not_output_error
    (find (fun ne => negb (output_capable (fst ne))) (p_read_outputs p)).

(* the priority order *)
Definition refusal_with (missing : list name) : option serr :=
  orelse refusal_duplicate
 (orelse refusal_virtual
 (orelse (refusal_unknown missing)
 (orelse refusal_not_input
         refusal_not_output))).

(* the specification, for a header without repeated names (every parsed test) *)
Definition refusal : option serr := refusal_with unknown_columns.
(* the specification for every `parsed` value whatsoever *)
Definition refusal_exact : option serr := refusal_with unknown_columns_exact.

End REFUSAL.

(* ================================================================== list facts *)

Lemma firstn_length_app : forall A (l1 l2 : list A), firstn (length l1) (l1 ++ l2) = l1.
Proof.
  intros A l1 l2. rewrite firstn_app, firstn_all, Nat.sub_diag. cbn [firstn]. apply app_nil_r.
Qed.

Lemma in_combine_seq : forall A (l : list A) i j x,
  In (j, x) (combine (seq i (length l)) l) -> exists k, j = i + k /\ nth_error l k = Some x.
Proof.
  induction l as [|a l IH]; intros i j x H; cbn [length seq combine In] in H; [contradiction|].
  destruct H as [H|H].
  - inversion H; subst. exists 0. split; [lia|reflexivity].
  - destruct (IH _ _ _ H) as [k [Hk Hn]]. exists (S k). split; [lia|exact Hn].
Qed.

Lemma filter_combine_seq_snd : forall A (f : A -> bool) (l : list A) i,
  map snd (filter (fun x : nat * A => f (snd x)) (combine (seq i (length l)) l)) = filter f l.
Proof.
  intros A f. induction l as [|a l IH]; intro i; cbn [length seq combine filter map snd]; [reflexivity|].
  destruct (f a); cbn [map snd]; rewrite IH; reflexivity.
Qed.

Lemma find_ext_pointwise : forall A (f g : A -> bool) l,
  (forall x, f x = g x) -> find f l = find g l.
Proof.
  intros A f g l H. induction l as [|a l IH]; cbn [find]; [reflexivity|].
  rewrite H, IH. reflexivity.
Qed.

Lemma forallb_ext_pointwise : forall A (f g : A -> bool) l,
  (forall x, f x = g x) -> forallb f l = forallb g l.
Proof.
  intros A f g l H. induction l as [|a l IH]; cbn [forallb]; [reflexivity|].
  rewrite H, IH. reflexivity.
Qed.

Lemma existsb_perm : forall A (f : A -> bool) l l',
  Permutation l l' -> existsb f l = existsb f l'.
Proof.
  intros A f l l' P. apply eq_true_iff_eq. rewrite !existsb_exists.
  split; intros [x [Hin Hx]]; exists x; (split; [|exact Hx]).
  - eapply Permutation_in; [exact P|exact Hin].
  - eapply Permutation_in; [apply Permutation_sym; exact P|exact Hin].
Qed.

Lemma filter_negb_nil : forall A (f : A -> bool) l,
  filter (fun x => negb (f x)) l = [] <-> forallb f l = true.
Proof.
  intros A f. induction l as [|a l IH]; cbn [filter forallb]; [split; reflexivity|].
  destruct (f a); cbn [negb andb]; [exact IH|split; discriminate].
Qed.

(* ================================================================== stage (a) *)

Lemma first_duplicate_indexed : forall sigs pre seen,
  (forall n, In n seen <-> In n pre) ->
  first_duplicate seen sigs =
  option_map snd (find (occurs_earlier (pre ++ map sname sigs))
                       (combine (seq (length pre) (length sigs)) (map sname sigs))).
Proof.
  induction sigs as [|s r IH]; intros pre seen Hs;
    cbn [first_duplicate map length seq combine find]; [reflexivity|].
  assert (E : occurs_earlier (pre ++ sname s :: map sname r) (length pre, sname s)
              = existsb (name_eqb (sname s)) seen).
  { unfold occurs_earlier. cbn [fst snd]. rewrite firstn_length_app.
    destruct (existsb (name_eqb (sname s)) seen) eqn:E1.
    - apply existsb_name_In. apply Hs. apply existsb_name_In. exact E1.
    - destruct (existsb (name_eqb (sname s)) pre) eqn:E2; [|reflexivity].
      apply existsb_name_In in E2. apply Hs in E2. apply existsb_name_In in E2. congruence. }
  rewrite E. destruct (existsb (name_eqb (sname s)) seen); [reflexivity|].
  rewrite (IH (pre ++ [sname s]) (sname s :: seen)).
  - rewrite <- app_assoc. cbn [app]. rewrite app_length. cbn [length]. rewrite Nat.add_1_r.
    reflexivity.
  - intro n. cbn [In]. rewrite in_app_iff. cbn [In]. rewrite Hs. tauto.
Qed.

(* the code's scan computes exactly `first_repeated` of the names *)
Lemma first_duplicate_spec : forall sigs,
  first_duplicate [] sigs = first_repeated (map sname sigs).
Proof.
  intro sigs. unfold first_repeated, indexed. rewrite map_length.
  apply (first_duplicate_indexed sigs [] []). intro n. tauto.
Qed.

Lemma first_repeated_None : forall sigs,
  first_repeated (map sname sigs) = None <-> NoDup (map sname sigs).
Proof.
  intro sigs. rewrite <- first_duplicate_spec, first_duplicate_names_distinct.
  apply names_distinct_NoDup.
Qed.

(* relational reading: the name at the end of the shortest prefix that has a repetition *)
Lemma first_duplicate_Some : forall sigs seen n,
  first_duplicate seen sigs = Some n <->
  exists l1 l2, map sname sigs = l1 ++ n :: l2 /\ NoDup l1
                /\ (forall x, In x l1 -> ~ In x seen) /\ (In n l1 \/ In n seen).
Proof.
  induction sigs as [|s r IH]; intros seen n; cbn [first_duplicate map].
  - split; [discriminate|]. intros [l1 [l2 [H _]]]. destruct l1; discriminate.
  - destruct (existsb (name_eqb (sname s)) seen) eqn:E.
    + apply existsb_name_In in E. split.
      * intro H. inversion H; subst n. exists [], (map sname r).
        split; [reflexivity|]. split; [constructor|]. split; [intros x []|right; exact E].
      * intros [l1 [l2 [H [Hnd [Hs Hn]]]]]. destruct l1 as [|y l1]; cbn [app] in H; inversion H.
        -- reflexivity.
        -- subst y. exfalso. apply (Hs (sname s)); [left; reflexivity|exact E].
    + assert (Ns : ~ In (sname s) seen).
      { intro Hi. apply existsb_name_In in Hi. congruence. }
      rewrite IH. split.
      * intros [l1 [l2 [H [Hnd [Hs Hn]]]]]. exists (sname s :: l1), l2.
        split; [cbn [app]; rewrite H; reflexivity|].
        split; [constructor; [intro Hi; apply (Hs _ Hi); left; reflexivity|exact Hnd]|].
        split.
        -- intros x [Hx|Hx]; [subst x; exact Ns|].
           intro Hi. apply (Hs x Hx). right. exact Hi.
        -- destruct Hn as [Hn|[Hn|Hn]];
             [left; right; exact Hn|left; left; exact Hn|right; exact Hn].
      * intros [l1 [l2 [H [Hnd [Hs Hn]]]]]. destruct l1 as [|y l1]; cbn [app] in H; inversion H.
        -- subst n. destruct Hn as [[]|Hn]. contradiction.
        -- subst y. inversion Hnd as [|y' l' Hy Hnd']; subst.
           exists l1, l2. split; [assumption|]. split; [exact Hnd'|]. split.
           ++ intros x Hx [Hi|Hi]; [subst x; contradiction|].
              apply (Hs x); [right; exact Hx|exact Hi].
           ++ destruct Hn as [[Hn|Hn]|Hn];
                [right; left; exact Hn|left; exact Hn|right; right; exact Hn].
Qed.

Lemma first_repeated_Some : forall sigs n,
  first_repeated (map sname sigs) = Some n <->
  exists l1 l2, map sname sigs = l1 ++ n :: l2 /\ NoDup l1 /\ In n l1.
Proof.
  intros sigs n. rewrite <- first_duplicate_spec, first_duplicate_Some. split.
  - intros [l1 [l2 [H [Hnd [_ [Hn|[]]]]]]]. exists l1, l2. auto.
  - intros [l1 [l2 [H [Hnd Hn]]]]. exists l1, l2. repeat split; auto.
Qed.

(* ================================================================== stages (a)+(b) vs the code *)

Lemma check_duplicate_signals_refusal : forall p sigs0,
  check_duplicate_signals p sigs0 =
  match orelse (refusal_duplicate sigs0) (refusal_virtual p sigs0) with
  | Some e => Err e
  | None => Ok tt
  end.
Proof.
  intros p sigs0. unfold check_duplicate_signals, refusal_duplicate, refusal_virtual.
  rewrite first_duplicate_spec.
  destruct (first_repeated (map sname sigs0)) as [n|]; cbn [option_map orelse]; [reflexivity|].
  change (fun v : name * expr * span => existsb (fun s => name_eqb (sname s) (fst (fst v))) sigs0)
    with (clashes sigs0).
  destruct (find (clashes sigs0) (p_virtuals p)) as [[[n e] sp]|]; reflexivity.
Qed.

(* ================================================================== stage (c) vs the code *)

Lemma missing_filter : forall (g : nat -> bool) (l : list name) i,
  flat_map (fun x : list name => x)
           (mapi_aux (fun (j : nat) (nm : name) => if g j then @nil name else [nm]) i l)
  = map snd (filter (fun x : nat * name => negb (g (fst x))) (combine (seq i (length l)) l)).
Proof.
  intros g. induction l as [|c r IH]; intro i;
    cbn [mapi_aux flat_map length seq combine filter map]; [reflexivity|].
  cbn [fst]. destruct (g i); cbn [negb app map snd]; rewrite IH; reflexivity.
Qed.

(* column j (named c) is covered by the index vectors exactly when c names a signal and j is
   the first column called c *)
Lemma covered_column : forall p sigs0 i ins exps j c,
  build_indices_from p i (all_sigs p sigs0) = (ins, exps) ->
  nth_error (p_signals p) j = Some c ->
  covered ins exps j = column_fits p sigs0 c && is_first_column p (j, c).
Proof.
  intros p sigs0 i ins exps j c Hb Hj. apply eq_true_iff_eq.
  rewrite andb_true_iff, (covered_iff p _ _ _ _ j Hb), column_fits_iff.
  unfold is_first_column. cbn [fst snd]. split.
  - intros [s [Hin Hs]].
    assert (K : header_pos p c = Some j
                /\ (sname s = c \/ (exists d, styp s = TyBidir d) /\ sname s ++ out_suffix = c)).
    { destruct Hs as [Hs|[Ty Hs]]; pose proof (header_pos_nth _ _ _ Hs) as Hn;
        rewrite Hj in Hn; inversion Hn; subst c; split; auto. }
    destruct K as [Hp Hc]. split; [exists s; auto|]. rewrite Hp. apply Nat.eqb_refl.
  - intros [[s [Hin Hs]] Hf]. destruct (header_pos p c) as [k|] eqn:Hp; [|discriminate].
    apply Nat.eqb_eq in Hf. subst k. exists s. split; [exact Hin|].
    destruct Hs as [Hs|[Ty Hs]]; [left|right; split; [exact Ty|]]; rewrite Hs; exact Hp.
Qed.

Lemma check_missing_signals_refusal : forall p sigs0 i ins exps,
  build_indices_from p i (all_sigs p sigs0) = (ins, exps) ->
  check_missing_signals p ins exps =
  match refusal_unknown p (unknown_columns_exact p sigs0) with
  | Some e => Err e
  | None => Ok tt
  end.
Proof.
  intros p sigs0 i ins exps Hb. unfold check_missing_signals, mapi. cbv zeta.
  rewrite (missing_filter (fun j => existsb (fun e => ei_indexes e j) (ins ++ exps))).
  assert (M : map snd (filter (fun x : nat * name =>
                                 negb (existsb (fun e => ei_indexes e (fst x)) (ins ++ exps)))
                              (combine (seq 0 (length (p_signals p))) (p_signals p)))
              = unknown_columns_exact p sigs0).
  { unfold unknown_columns_exact, indexed. f_equal. apply filter_ext_in.
    intros [j c] Hin. cbn [fst snd]. f_equal.
    destruct (in_combine_seq _ _ _ _ _ Hin) as [k [Hk Hn]]. cbn [Nat.add] in Hk. subst k.
    apply (covered_column p sigs0 i ins exps j c Hb Hn). }
  rewrite M. unfold refusal_unknown.
  destruct (unknown_columns_exact p sigs0); reflexivity.
Qed.

(* for a header without repeated names the two notions of "unknown column" agree *)
Lemma unknown_columns_exact_NoDup : forall p sigs0,
  NoDup (p_signals p) -> unknown_columns_exact p sigs0 = unknown_columns p sigs0.
Proof.
  intros p sigs0 Hnd. unfold unknown_columns_exact, unknown_columns, indexed.
  rewrite <- (filter_combine_seq_snd _ (fun c => negb (column_fits p sigs0 c)) (p_signals p) 0).
  f_equal. apply filter_ext_in. intros [j c] Hin. cbn [fst snd].
  destruct (in_combine_seq _ _ _ _ _ Hin) as [k [Hk Hn]]. cbn [Nat.add] in Hk. subst k.
  unfold is_first_column. cbn [fst snd]. rewrite (header_pos_NoDup p c j Hnd Hn).
  rewrite Nat.eqb_refl, andb_true_r. reflexivity.
Qed.

(* ================================================================== stages (d), (e) vs the code *)

Lemma header_pos_is_column : forall p n,
  match header_pos p n with
  | Some i => is_column p n = true /\ column_span p n = nth i (p_signal_spans p) (0%N, 0%N)
  | None => is_column p n = false
  end.
Proof.
  intros p n. unfold column_span. destruct (header_pos p n) as [i|] eqn:E.
  - split; [|reflexivity]. destruct (is_column p n) eqn:C; [reflexivity|].
    apply position_None_iff in C. unfold header_pos in E. congruence.
  - apply position_None_iff. exact E.
Qed.

Lemma check_expected_inputs_refusal : forall p sigs0 l,
  check_expected_inputs p (all_sigs p sigs0) l =
  match option_map (not_input_error p)
          (find (fun ne => negb (input_capable p sigs0 (fst ne))) l) with
  | Some e => Err e
  | None => Ok tt
  end.
Proof.
  intros p sigs0. induction l as [|[n at_] r IH]; cbn [check_expected_inputs find fst];
    [reflexivity|].
  change (input_capable p sigs0 n)
    with (existsb (fun s => name_eqb (sname s) n && is_input s) (all_sigs p sigs0)).
  destruct (existsb (fun s => name_eqb (sname s) n && is_input s) (all_sigs p sigs0));
    cbn [negb]; [exact IH|].
  cbn [option_map]. unfold not_input_error. cbn [fst snd].
  pose proof (header_pos_is_column p n) as H. destruct (header_pos p n) as [i|].
  - destruct H as [H1 H2]. rewrite H1, H2. reflexivity.
  - rewrite H. reflexivity.
Qed.

Lemma build_read_outputs_refusal : forall p sigs0 l,
  match option_map (not_output_error p)
          (find (fun ne => negb (output_capable p sigs0 (fst ne))) l) with
  | Some e => build_read_outputs p (all_sigs p sigs0) l = Err e
  | None => exists reads, build_read_outputs p (all_sigs p sigs0) l = Ok reads
  end.
Proof.
  intros p sigs0. induction l as [|[n at_] r IH]; cbn [build_read_outputs find fst].
  - cbn [option_map]. eexists. reflexivity.
  - change (output_capable p sigs0 n)
      with (existsb (fun s => name_eqb (sname s) n && is_output s) (all_sigs p sigs0)).
    destruct (position (fun s => name_eqb (sname s) n && is_output s) (all_sigs p sigs0))
      as [i|] eqn:P.
    + destruct (existsb (fun s => name_eqb (sname s) n && is_output s) (all_sigs p sigs0)) eqn:E;
        [|apply position_None_iff in E; congruence].
      cbn [negb].
      destruct (option_map (not_output_error p)
                  (find (fun ne => negb (output_capable p sigs0 (fst ne))) r)) as [e|].
      * rewrite IH. reflexivity.
      * destruct IH as [reads IH]. rewrite IH. eexists. reflexivity.
    + apply position_None_iff in P. rewrite P. cbn [negb option_map].
      unfold not_output_error. cbn [fst snd].
      pose proof (header_pos_is_column p n) as H. destruct (header_pos p n) as [i|].
      * destruct H as [H1 H2]. rewrite H1, H2. reflexivity.
      * rewrite H. reflexivity.
Qed.

(* ================================================================== the main theorem *)

(* with no hypothesis on p: the result is the refusal when there is one, a bound test when not *)
Lemma with_signals_refusal_cases : forall p sigs0,
  match refusal_exact p sigs0 with
  | Some e => with_signals p sigs0 = Err e
  | None => exists tc, with_signals p sigs0 = Ok tc
  end.
Proof.
  intros p sigs0. unfold with_signals, refusal_exact, refusal_with.
  fold (all_sigs p sigs0). rewrite check_duplicate_signals_refusal.
  destruct (refusal_duplicate sigs0) as [e|]; cbn [orelse rbind]; [reflexivity|].
  destruct (refusal_virtual p sigs0) as [e|]; cbn [orelse rbind]; [reflexivity|].
  unfold build_indices.
  destruct (build_indices_from p 0 (all_sigs p sigs0)) as [ins exps] eqn:Hb.
  rewrite (check_missing_signals_refusal p sigs0 0 ins exps Hb).
  destruct (refusal_unknown p (unknown_columns_exact p sigs0)) as [e|]; cbn [orelse rbind];
    [reflexivity|].
  unfold refusal_not_input. rewrite check_expected_inputs_refusal.
  destruct (option_map (not_input_error p)
              (find (fun ne => negb (input_capable p sigs0 (fst ne))) (p_expected_inputs p)))
    as [e|]; cbn [orelse rbind]; [reflexivity|].
  unfold refusal_not_output.
  pose proof (build_read_outputs_refusal p sigs0 (p_read_outputs p)) as H.
  destruct (option_map (not_output_error p)
              (find (fun ne => negb (output_capable p sigs0 (fst ne))) (p_read_outputs p)))
    as [e|].
  - rewrite H. reflexivity.
  - destruct H as [reads H]. rewrite H. cbn [rbind]. eexists. reflexivity.
Qed.

(* ---- every `parsed` value, no hypothesis *)

Theorem with_signals_refusal_exact : forall p sigs0 e,
  with_signals p sigs0 = Err e <-> refusal_exact p sigs0 = Some e.
Proof.
  intros p sigs0 e. pose proof (with_signals_refusal_cases p sigs0) as H.
  destruct (refusal_exact p sigs0) as [e'|].
  - rewrite H. split; intro G; inversion G; reflexivity.
  - destruct H as [tc H]. rewrite H. split; discriminate.
Qed.

Theorem refusal_exact_None_iff_ok : forall p sigs0,
  refusal_exact p sigs0 = None <-> exists tc, with_signals p sigs0 = Ok tc.
Proof.
  intros p sigs0. pose proof (with_signals_refusal_cases p sigs0) as H.
  destruct (refusal_exact p sigs0) as [e'|].
  - split; [discriminate|]. intros [tc G]. congruence.
  - split; [intros _; exact H|reflexivity].
Qed.

Theorem refusal_exact_None_iff_fits : forall p sigs0,
  refusal_exact p sigs0 = None <-> fits p sigs0 = true /\ NoDup (p_signals p).
Proof.
  intros p sigs0. rewrite refusal_exact_None_iff_ok. apply C11_bind_iff_fits_exact.
Qed.

(* the complete description of with_signals in one equation-like statement *)
Theorem with_signals_total : forall p sigs0,
  (exists tc, with_signals p sigs0 = Ok tc /\ refusal_exact p sigs0 = None
              /\ fits p sigs0 = true /\ NoDup (p_signals p))
  \/ (exists e, with_signals p sigs0 = Err e /\ refusal_exact p sigs0 = Some e).
Proof.
  intros p sigs0. pose proof (with_signals_refusal_cases p sigs0) as H.
  destruct (refusal_exact p sigs0) as [e|] eqn:R.
  - right. exists e. auto.
  - left. destruct H as [tc H]. exists tc. split; [exact H|]. split; [reflexivity|].
    apply C11_bind_iff_fits_exact. exists tc. exact H.
Qed.

(* ---- a header without repeated names (what `parse` produces: wf_parsed) *)

Lemma refusal_exact_eq : forall p sigs0,
  NoDup (p_signals p) -> refusal_exact p sigs0 = refusal p sigs0.
Proof.
  intros p sigs0 Hnd. unfold refusal_exact, refusal.
  rewrite (unknown_columns_exact_NoDup p sigs0 Hnd). reflexivity.
Qed.

Theorem with_signals_refusal : forall p sigs0 e,
  NoDup (p_signals p) ->
  (with_signals p sigs0 = Err e <-> refusal p sigs0 = Some e).
Proof.
  intros p sigs0 e Hnd. rewrite <- (refusal_exact_eq p sigs0 Hnd).
  apply with_signals_refusal_exact.
Qed.

Theorem refusal_None_iff_fits : forall p sigs0,
  NoDup (p_signals p) ->
  (refusal p sigs0 = None <-> fits p sigs0 = true).
Proof.
  intros p sigs0 Hnd. rewrite <- (refusal_exact_eq p sigs0 Hnd), refusal_exact_None_iff_fits.
  tauto.
Qed.

Theorem refusal_None_iff_ok : forall p sigs0,
  NoDup (p_signals p) ->
  (refusal p sigs0 = None <-> exists tc, with_signals p sigs0 = Ok tc).
Proof.
  intros p sigs0 Hnd. rewrite <- (refusal_exact_eq p sigs0 Hnd).
  apply refusal_exact_None_iff_ok.
Qed.

Corollary with_signals_refusal_wf : forall p sigs0 e,
  wf_parsed p -> (with_signals p sigs0 = Err e <-> refusal p sigs0 = Some e).
Proof. intros p sigs0 e [Hnd _]. apply with_signals_refusal. exact Hnd. Qed.

(* ================================================================== the priority, stage by stage *)

Section PRIORITY.
Variable p : parsed.
Variable sigs0 : list signal.
Variable missing : list name.

Lemma refusal_with_duplicate : forall n,
  first_repeated (map sname sigs0) = Some n ->
  refusal_with p sigs0 missing = Some (SE_DuplicateSignal n).
Proof.
  intros n H. unfold refusal_with, refusal_duplicate. rewrite H. reflexivity.
Qed.

Lemma refusal_with_virtual : forall v,
  NoDup (map sname sigs0) ->
  find (clashes sigs0) (p_virtuals p) = Some v ->
  refusal_with p sigs0 missing = Some (SE_SignalIsVirtual (fst (fst v)) (snd v)).
Proof.
  intros v Hnd H. unfold refusal_with, refusal_duplicate, refusal_virtual.
  rewrite (proj2 (first_repeated_None sigs0) Hnd), H. reflexivity.
Qed.

Lemma refusal_with_unknown :
  NoDup (map sname sigs0) ->
  find (clashes sigs0) (p_virtuals p) = None ->
  missing <> [] ->
  refusal_with p sigs0 missing = Some (SE_UnknownSignals missing (map (column_span p) missing)).
Proof.
  intros Hnd Hv Hm. unfold refusal_with, refusal_duplicate, refusal_virtual, refusal_unknown.
  rewrite (proj2 (first_repeated_None sigs0) Hnd), Hv. cbn [option_map orelse].
  destruct missing; [contradiction|reflexivity].
Qed.

Lemma refusal_with_not_input : forall ne,
  NoDup (map sname sigs0) ->
  find (clashes sigs0) (p_virtuals p) = None ->
  missing = [] ->
  find (fun ne => negb (input_capable p sigs0 (fst ne))) (p_expected_inputs p) = Some ne ->
  refusal_with p sigs0 missing = Some (not_input_error p ne).
Proof.
  intros ne Hnd Hv Hm Hi.
  unfold refusal_with, refusal_duplicate, refusal_virtual, refusal_unknown, refusal_not_input.
  rewrite (proj2 (first_repeated_None sigs0) Hnd), Hv, Hm, Hi. reflexivity.
Qed.

Lemma refusal_with_not_output : forall ne,
  NoDup (map sname sigs0) ->
  find (clashes sigs0) (p_virtuals p) = None ->
  missing = [] ->
  find (fun ne => negb (input_capable p sigs0 (fst ne))) (p_expected_inputs p) = None ->
  find (fun ne => negb (output_capable p sigs0 (fst ne))) (p_read_outputs p) = Some ne ->
  refusal_with p sigs0 missing = Some (not_output_error p ne).
Proof.
  intros ne Hnd Hv Hm Hi Ho.
  unfold refusal_with, refusal_duplicate, refusal_virtual, refusal_unknown, refusal_not_input,
    refusal_not_output.
  rewrite (proj2 (first_repeated_None sigs0) Hnd), Hv, Hm, Hi, Ho. reflexivity.
Qed.

End PRIORITY.

(* (a) wins over everything: if a device-signal name is duplicated the error is the duplicate
   error, whatever else is wrong (and whatever the header looks like); the name reported is the
   one at the end of the shortest prefix of the signal list that contains a repetition *)
Theorem refusal_duplicate_first : forall p sigs0,
  ~ NoDup (map sname sigs0) ->
  exists n l1 l2,
    map sname sigs0 = l1 ++ n :: l2 /\ NoDup l1 /\ In n l1
    /\ refusal p sigs0 = Some (SE_DuplicateSignal n)
    /\ with_signals p sigs0 = Err (SE_DuplicateSignal n).
Proof.
  intros p sigs0 Hd. destruct (first_repeated (map sname sigs0)) as [n|] eqn:F.
  - destruct (proj1 (first_repeated_Some sigs0 n) F) as [l1 [l2 [H [Hnd Hn]]]].
    exists n, l1, l2. repeat split; auto.
    + apply refusal_with_duplicate. exact F.
    + apply with_signals_refusal_exact. apply refusal_with_duplicate. exact F.
  - apply first_repeated_None in F. contradiction.
Qed.

(* the duplicate error arises in no other way, and its name is determined as said *)
Theorem refusal_duplicate_iff : forall p sigs0 n,
  with_signals p sigs0 = Err (SE_DuplicateSignal n) <->
  exists l1 l2, map sname sigs0 = l1 ++ n :: l2 /\ NoDup l1 /\ In n l1.
Proof.
  intros p sigs0 n. rewrite with_signals_refusal_exact, <- first_repeated_Some. split.
  - unfold refusal_exact, refusal_with, refusal_duplicate.
    destruct (first_repeated (map sname sigs0)) as [m|]; cbn [option_map orelse].
    + intro H. inversion H. reflexivity.
    + unfold refusal_virtual, refusal_unknown, refusal_not_input, refusal_not_output,
        not_input_error, not_output_error.
      destruct (find (clashes sigs0) (p_virtuals p)); cbn [option_map orelse]; [discriminate|].
      destruct (unknown_columns_exact p sigs0); cbn [orelse]; [|discriminate].
      destruct (find _ (p_expected_inputs p)) as [ne|]; cbn [option_map orelse].
      { destruct (is_column p (fst ne)); discriminate. }
      destruct (find _ (p_read_outputs p)) as [ne|]; cbn [option_map]; [|discriminate].
      destruct (is_column p (fst ne)); discriminate.
  - intro F. apply refusal_with_duplicate. exact F.
Qed.

(* (b) wins over (c), (d), (e) *)
Theorem refusal_virtual_second : forall p sigs0 n e sp,
  NoDup (map sname sigs0) ->
  find (clashes sigs0) (p_virtuals p) = Some (n, e, sp) ->
  refusal p sigs0 = Some (SE_SignalIsVirtual n sp)
  /\ with_signals p sigs0 = Err (SE_SignalIsVirtual n sp).
Proof.
  intros p sigs0 n e sp Hnd H. split; [|apply with_signals_refusal_exact];
    apply (refusal_with_virtual p sigs0 _ (n, e, sp) Hnd H).
Qed.

(* (c) when (a), (b) do not apply and some column fits no signal: the unknown-signals error,
   carrying exactly the columns that fit no signal, in header order, with their spans *)
Theorem refusal_unknown_columns_exact : forall p sigs0,
  NoDup (p_signals p) ->
  NoDup (map sname sigs0) ->
  forallb (fun v => negb (clashes sigs0 v)) (p_virtuals p) = true ->
  forallb (column_fits p sigs0) (p_signals p) = false ->
  let missing := filter (fun c => negb (column_fits p sigs0 c)) (p_signals p) in
  refusal p sigs0 = Some (SE_UnknownSignals missing (map (column_span p) missing))
  /\ with_signals p sigs0 = Err (SE_UnknownSignals missing (map (column_span p) missing)).
Proof.
  intros p sigs0 Hh Hnd Hv Hc missing.
  assert (R : refusal p sigs0 = Some (SE_UnknownSignals missing (map (column_span p) missing))).
  { apply refusal_with_unknown; [exact Hnd|apply find_None_forallb; exact Hv|].
    intro E. apply filter_negb_nil in E. congruence. }
  split; [exact R|]. apply with_signals_refusal; assumption.
Qed.

(* ... and the spans are those of exactly these columns (when the parser recorded one span per
   column, as it does) *)
Lemma column_spans_of_filter : forall (f : name -> bool) (d : span) (l : list name) (sp : list span),
  NoDup l -> length sp = length l ->
  map (fun c => match position (name_eqb c) l with Some i => nth i sp d | None => d end)
      (filter f l)
  = map snd (filter (fun x : name * span => f (fst x)) (combine l sp)).
Proof.
  intros f d. induction l as [|c l IH]; intros sp Hnd Hlen; [reflexivity|].
  destruct sp as [|s sp]; [discriminate|]. cbn [length] in Hlen.
  inversion Hnd as [|c' l' Hc Hnd']; subst.
  cbn [combine filter fst].
  assert (T : map (fun c0 => match position (name_eqb c0) (c :: l) with
                             | Some i => nth i (s :: sp) d | None => d end) (filter f l)
              = map snd (filter (fun x : name * span => f (fst x)) (combine l sp))).
  { rewrite <- (IH sp Hnd' ltac:(lia)). apply map_ext_in. intros c0 Hin.
    apply filter_In in Hin. destruct Hin as [Hin _]. cbn [position].
    destruct (name_eqb c0 c) eqn:E.
    - apply name_eqb_eq in E. subst c0. contradiction.
    - destruct (position (name_eqb c0) l); reflexivity. }
  destruct (f c); cbn [map snd]; [|exact T].
  rewrite T. cbn [position]. rewrite name_eqb_refl. reflexivity.
Qed.

Theorem refusal_unknown_spans_exact : forall p sigs0,
  NoDup (p_signals p) -> length (p_signal_spans p) = length (p_signals p) ->
  map (column_span p) (unknown_columns p sigs0)
  = map snd (filter (fun x : name * span => negb (column_fits p sigs0 (fst x)))
                    (combine (p_signals p) (p_signal_spans p))).
Proof.
  intros p sigs0 Hnd Hlen. unfold unknown_columns.
  apply (column_spans_of_filter (fun c => negb (column_fits p sigs0 c)) (0%N, 0%N)
           (p_signals p) (p_signal_spans p) Hnd Hlen).
Qed.

(* (d) when (a), (b), (c) do not apply *)
Theorem refusal_not_input_fourth : forall p sigs0 n at_,
  NoDup (p_signals p) ->
  NoDup (map sname sigs0) ->
  forallb (fun v => negb (clashes sigs0 v)) (p_virtuals p) = true ->
  forallb (column_fits p sigs0) (p_signals p) = true ->
  find (fun ne => negb (input_capable p sigs0 (fst ne))) (p_expected_inputs p) = Some (n, at_) ->
  refusal p sigs0 = Some (not_input_error p (n, at_))
  /\ with_signals p sigs0 = Err (not_input_error p (n, at_)).
Proof.
  intros p sigs0 n at_ Hh Hnd Hv Hc Hi.
  assert (R : refusal p sigs0 = Some (not_input_error p (n, at_))).
  { apply refusal_with_not_input; [exact Hnd|apply find_None_forallb; exact Hv| |exact Hi].
    apply filter_negb_nil. exact Hc. }
  split; [exact R|]. apply with_signals_refusal; assumption.
Qed.

(* (e) when nothing else is wrong *)
Theorem refusal_not_output_fifth : forall p sigs0 n at_,
  NoDup (p_signals p) ->
  NoDup (map sname sigs0) ->
  forallb (fun v => negb (clashes sigs0 v)) (p_virtuals p) = true ->
  forallb (column_fits p sigs0) (p_signals p) = true ->
  forallb (fun ne => input_capable p sigs0 (fst ne)) (p_expected_inputs p) = true ->
  find (fun ne => negb (output_capable p sigs0 (fst ne))) (p_read_outputs p) = Some (n, at_) ->
  refusal p sigs0 = Some (not_output_error p (n, at_))
  /\ with_signals p sigs0 = Err (not_output_error p (n, at_)).
Proof.
  intros p sigs0 n at_ Hh Hnd Hv Hc Hi Ho.
  assert (R : refusal p sigs0 = Some (not_output_error p (n, at_))).
  { apply refusal_with_not_output; [exact Hnd|apply find_None_forallb; exact Hv| | |exact Ho].
    - apply filter_negb_nil. exact Hc.
    - apply (find_None_forallb _ (fun ne => negb (input_capable p sigs0 (fst ne)))).
      rewrite <- Hi. apply forallb_ext_pointwise. intro ne. apply negb_involutive. }
  split; [exact R|]. apply with_signals_refusal; assumption.
Qed.

(* in stages (d)/(e) the "unknown variable or signal" error is reported exactly for a name that
   is not a header column *)
Lemma not_input_error_kind : forall p n at_,
  (is_column p n = true /\ not_input_error p (n, at_) = SE_NotAnInput n at_ (column_span p n))
  \/ (is_column p n = false /\ not_input_error p (n, at_) = SE_UnknownVariableOrSignal n at_).
Proof.
  intros p n at_. unfold not_input_error. cbn [fst snd].
  destruct (is_column p n); [left|right]; split; reflexivity.
Qed.

Lemma not_output_error_kind : forall p n at_,
  (is_column p n = true /\ not_output_error p (n, at_) = SE_NotAnOutput n at_ (column_span p n))
  \/ (is_column p n = false /\ not_output_error p (n, at_) = SE_UnknownVariableOrSignal n at_).
Proof.
  intros p n at_. unfold not_output_error. cbn [fst snd].
  destruct (is_column p n); [left|right]; split; reflexivity.
Qed.

(* ================================================================== determinism *)

(* the error is a function of (p, sigs0) *)
Theorem refusal_deterministic : forall p sigs0 e1 e2,
  with_signals p sigs0 = Err e1 -> with_signals p sigs0 = Err e2 -> e1 = e2.
Proof. intros p sigs0 e1 e2 H1 H2. congruence. Qed.

Theorem refusal_functional : forall p p' sigs0 sigs0' e e',
  p = p' -> sigs0 = sigs0' ->
  with_signals p sigs0 = Err e -> with_signals p' sigs0' = Err e' ->
  e = e' /\ refusal_exact p sigs0 = Some e.
Proof.
  intros p p' sigs0 sigs0' e e' Ep Es H H'. subst p' sigs0'.
  split; [congruence|]. apply with_signals_refusal_exact. exact H.
Qed.

(* ... and of less than that: the program text (p_stmts) plays no role *)
Theorem refusal_ignores_stmts : forall p p' sigs0,
  p_signals p = p_signals p' -> p_signal_spans p = p_signal_spans p' ->
  p_virtuals p = p_virtuals p' -> p_expected_inputs p = p_expected_inputs p' ->
  p_read_outputs p = p_read_outputs p' ->
  refusal p sigs0 = refusal p' sigs0 /\ refusal_exact p sigs0 = refusal_exact p' sigs0.
Proof.
  intros [st h sp v ei ro] [st' h' sp' v' ei' ro'] sigs0.
  cbn [p_signals p_signal_spans p_virtuals p_expected_inputs p_read_outputs].
  intros; subst. split; reflexivity.
Qed.

(* ================================================================== dependence on the order of sigs0 *)

Section ORDER.
Variable p : parsed.
Variables sigs0 sigs0' : list signal.
Hypothesis P : Permutation sigs0 sigs0'.

Lemma all_sigs_perm : Permutation (all_sigs p sigs0) (all_sigs p sigs0').
Proof. unfold all_sigs. apply Permutation_app_tail. exact P. Qed.

Lemma clashes_perm : forall v, clashes sigs0 v = clashes sigs0' v.
Proof. intro v. unfold clashes. apply existsb_perm. exact P. Qed.

Lemma column_fits_perm : forall c, column_fits p sigs0 c = column_fits p sigs0' c.
Proof. intro c. unfold column_fits. apply existsb_perm. exact all_sigs_perm. Qed.

Lemma input_capable_perm : forall n, input_capable p sigs0 n = input_capable p sigs0' n.
Proof. intro n. unfold input_capable. apply existsb_perm. exact all_sigs_perm. Qed.

Lemma output_capable_perm : forall n, output_capable p sigs0 n = output_capable p sigs0' n.
Proof. intro n. unfold output_capable. apply existsb_perm. exact all_sigs_perm. Qed.

Lemma unknown_columns_perm : unknown_columns p sigs0 = unknown_columns p sigs0'.
Proof.
  unfold unknown_columns. apply filter_ext. intro c. rewrite column_fits_perm. reflexivity.
Qed.

Lemma unknown_columns_exact_perm : unknown_columns_exact p sigs0 = unknown_columns_exact p sigs0'.
Proof.
  unfold unknown_columns_exact. f_equal. apply filter_ext. intro x.
  rewrite column_fits_perm. reflexivity.
Qed.

Lemma names_perm : Permutation (map sname sigs0) (map sname sigs0').
Proof. apply Permutation_map. exact P. Qed.

Lemma refusal_with_perm : forall missing,
  NoDup (map sname sigs0) ->
  refusal_with p sigs0 missing = refusal_with p sigs0' missing.
Proof.
  intros missing Hnd.
  assert (Hnd' : NoDup (map sname sigs0')).
  { eapply Permutation_NoDup; [exact names_perm|exact Hnd]. }
  unfold refusal_with, refusal_duplicate, refusal_virtual, refusal_not_input, refusal_not_output.
  rewrite (proj2 (first_repeated_None sigs0) Hnd), (proj2 (first_repeated_None sigs0') Hnd').
  rewrite (find_ext_pointwise _ (clashes sigs0) (clashes sigs0') _ clashes_perm).
  rewrite (find_ext_pointwise _ (fun ne : name * span => negb (input_capable p sigs0 (fst ne)))
             (fun ne => negb (input_capable p sigs0' (fst ne))) (p_expected_inputs p)).
  2:{ intro ne. rewrite input_capable_perm. reflexivity. }
  rewrite (find_ext_pointwise _ (fun ne : name * span => negb (output_capable p sigs0 (fst ne)))
             (fun ne => negb (output_capable p sigs0' (fst ne))) (p_read_outputs p)).
  2:{ intro ne. rewrite output_capable_perm. reflexivity. }
  reflexivity.
Qed.

End ORDER.

(* When no device-signal name is duplicated, the error does not depend on the order of the
   signal list at all. *)
Theorem refusal_order_of_signals : forall p sigs0 sigs0',
  Permutation sigs0 sigs0' -> NoDup (map sname sigs0) ->
  refusal p sigs0 = refusal p sigs0' /\ refusal_exact p sigs0 = refusal_exact p sigs0'.
Proof.
  intros p sigs0 sigs0' P Hnd. unfold refusal, refusal_exact.
  rewrite <- (unknown_columns_perm p sigs0 sigs0' P).
  rewrite <- (unknown_columns_exact_perm p sigs0 sigs0' P).
  split; apply refusal_with_perm; assumption.
Qed.

Corollary with_signals_error_order_invariant : forall p sigs0 sigs0' e,
  Permutation sigs0 sigs0' -> NoDup (map sname sigs0) ->
  (with_signals p sigs0 = Err e <-> with_signals p sigs0' = Err e).
Proof.
  intros p sigs0 sigs0' e P Hnd. rewrite !with_signals_refusal_exact.
  destruct (refusal_order_of_signals p sigs0 sigs0' P Hnd) as [_ E]. rewrite E. tauto.
Qed.

(* With a duplicated name, reordering keeps the KIND of error (duplicate signal) but may change
   the name reported (Example refusal_order_matters_with_duplicates below). *)
Theorem refusal_order_of_signals_any : forall p sigs0 sigs0',
  Permutation sigs0 sigs0' ->
  refusal_exact p sigs0 = refusal_exact p sigs0'
  \/ exists n n', with_signals p sigs0 = Err (SE_DuplicateSignal n)
                  /\ with_signals p sigs0' = Err (SE_DuplicateSignal n').
Proof.
  intros p sigs0 sigs0' P. destruct (names_distinct (map sname sigs0)) eqn:Nd.
  - left. apply names_distinct_NoDup in Nd.
    apply (refusal_order_of_signals p sigs0 sigs0' P Nd).
  - right.
    assert (D : ~ NoDup (map sname sigs0)).
    { intro H. apply names_distinct_NoDup in H. congruence. }
    assert (D' : ~ NoDup (map sname sigs0')).
    { intro H. apply D. eapply Permutation_NoDup; [|exact H].
      apply Permutation_sym. apply Permutation_map. exact P. }
    destruct (refusal_duplicate_first p sigs0 D) as [n [_ [_ [_ [_ [_ [_ H]]]]]]].
    destruct (refusal_duplicate_first p sigs0' D') as [n' [_ [_ [_ [_ [_ [_ H']]]]]]].
    exists n, n'. split; assumption.
Qed.

(* ================================================================== examples *)

Module Example_refusal.
  Import Coq.Strings.String.
  Definition nA := s2n "A"%string. Definition nB := s2n "B"%string.
  Definition nY := s2n "Y"%string. Definition nV := s2n "V"%string.
  Definition nQ := s2n "Q"%string. Definition nR := s2n "R"%string.
  Definition sA := {| sname := nA; sbits := 4%N; styp := TyInput (IVal 0%Z) |}.
  Definition sB := {| sname := nB; sbits := 8%N; styp := TyBidir IZ |}.
  Definition sY := {| sname := nY; sbits := 4%N; styp := TyOutput |}.
  Definition sV := {| sname := nV; sbits := 1%N; styp := TyOutput |}.
  Definition vexpr := EBin Plus (EVar nY) (ENum 1%Z).

  (* a test that is wrong in four ways at once (apart from the signal list):
       - declares V, which the device also has               (b)
       - columns Q and R and `A_out` name no signal           (c)
       - column Y (an output) holds C in some row             (d)
       - an expression reads A (an input)                     (e)  *)
  Definition p : parsed :=
    {| p_stmts := [SRow [DC; DZ; DNum 2%Z; DX; DNum 1%Z; DX; DX] 3%N];
       p_signals := [nY; nQ; nV; nB; nA ++ out_suffix; nA; nR];
       p_signal_spans := [(0,1); (2,3); (4,5); (6,7); (8,13); (14,15); (16,17)]%N;
       p_virtuals := [(nV, vexpr, (20,21)%N)];
       p_expected_inputs := [(nY, (40,41)%N)];
       p_read_outputs := [(nA, (30,31)%N)] |}.

  Example p_header_NoDup : NoDup (p_signals p).
  Proof. apply names_distinct_NoDup. vm_compute. reflexivity. Qed.

  (* five things wrong: the duplicate (a) wins, and names B - the first name to occur a second
     time in list order - although A is the first name that has a duplicate *)
  Example wrong_in_five_ways :
    refusal p [sA; sB; sV; sB; sY; sA] = Some (SE_DuplicateSignal nB)
    /\ with_signals p [sA; sB; sV; sB; sY; sA] = Err (SE_DuplicateSignal nB).
  Proof. split; vm_compute; reflexivity. Qed.

  (* four things wrong: the virtual clash (b) wins *)
  Example wrong_in_four_ways :
    refusal p [sA; sB; sV; sY] = Some (SE_SignalIsVirtual nV (20,21)%N)
    /\ with_signals p [sA; sB; sV; sY] = Err (SE_SignalIsVirtual nV (20,21)%N).
  Proof. split; vm_compute; reflexivity. Qed.

  (* three things wrong: the unknown columns (c) win - all of them, in header order *)
  Example wrong_in_three_ways :
    refusal p [sA; sB; sY]
      = Some (SE_UnknownSignals [nQ; nA ++ out_suffix; nR] [(2,3); (8,13); (16,17)]%N)
    /\ with_signals p [sA; sB; sY]
      = Err (SE_UnknownSignals [nQ; nA ++ out_suffix; nR] [(2,3); (8,13); (16,17)]%N).
  Proof. split; vm_compute; reflexivity. Qed.

  Definition with_header (q : parsed) (h : list name) : parsed :=
    {| p_stmts := p_stmts q; p_signals := h; p_signal_spans := p_signal_spans q;
       p_virtuals := p_virtuals q; p_expected_inputs := p_expected_inputs q;
       p_read_outputs := p_read_outputs q |}.
  Definition with_expected_inputs (q : parsed) (l : list (name * span)) : parsed :=
    {| p_stmts := p_stmts q; p_signals := p_signals q; p_signal_spans := p_signal_spans q;
       p_virtuals := p_virtuals q; p_expected_inputs := l; p_read_outputs := p_read_outputs q |}.

  (* two things wrong: C in an output column (d) wins over reading an input (e)
     (the header is replaced, the recorded spans are kept: A is now the fifth column) *)
  Definition p2 := with_header p [nY; nB ++ out_suffix; nV; nB; nA].
  Example wrong_in_two_ways :
    refusal p2 [sA; sB; sY] = Some (SE_NotAnInput nY (40,41)%N (0,1)%N)
    /\ with_signals p2 [sA; sB; sY] = Err (SE_NotAnInput nY (40,41)%N (0,1)%N).
  Proof. split; vm_compute; reflexivity. Qed.

  (* one thing wrong *)
  Definition p1 := with_expected_inputs p2 [(nA, (40,41)%N)].
  Example wrong_in_one_way :
    refusal p1 [sA; sB; sY] = Some (SE_NotAnOutput nA (30,31)%N (8,13)%N)
    /\ with_signals p1 [sA; sB; sY] = Err (SE_NotAnOutput nA (30,31)%N (8,13)%N).
  Proof. split; vm_compute; reflexivity. Qed.

  (* a C-column name / a read name that is no header column at all *)
  Example not_a_column :
    refusal (with_expected_inputs p2 [(nQ, (40,41)%N)]) [sA; sB; sY]
      = Some (SE_UnknownVariableOrSignal nQ (40,41)%N)
    /\ with_signals (with_expected_inputs p2 [(nQ, (40,41)%N)]) [sA; sB; sY]
      = Err (SE_UnknownVariableOrSignal nQ (40,41)%N).
  Proof. split; vm_compute; reflexivity. Qed.

  (* the order of the signal list, no duplicates: same error ... *)
  Example order_irrelevant_for_the_error :
    with_signals p [sY; sA; sB] = with_signals p [sA; sB; sY]
    /\ with_signals p1 [sY; sB; sA] = with_signals p1 [sA; sB; sY].
  Proof. split; vm_compute; reflexivity. Qed.

  (* ... but the bound test, when there is one, does depend on the order *)
  Definition p_ok : parsed :=
    {| p_stmts := []; p_signals := [nA; nY]; p_signal_spans := [(0,1); (2,3)]%N;
       p_virtuals := []; p_expected_inputs := []; p_read_outputs := [(nY, (30,31)%N)] |}.
  Example order_matters_for_the_result :
    Permutation [sA; sY] [sY; sA]
    /\ refusal p_ok [sA; sY] = None /\ refusal p_ok [sY; sA] = None
    /\ with_signals p_ok [sA; sY] <> with_signals p_ok [sY; sA].
  Proof.
    split; [apply perm_swap|]. split; [vm_compute; reflexivity|].
    split; [vm_compute; reflexivity|]. vm_compute. discriminate.
  Qed.

  (* the order of the signal list, with duplicates: the reported NAME depends on the order, so
     invariance under permutation fails without the NoDup hypothesis *)
  Example refusal_order_matters_with_duplicates :
    Permutation [sA; sB; sB; sA] [sB; sA; sA; sB]
    /\ with_signals p [sA; sB; sB; sA] = Err (SE_DuplicateSignal nB)
    /\ with_signals p [sB; sA; sA; sB] = Err (SE_DuplicateSignal nA)
    /\ refusal p [sA; sB; sB; sA] <> refusal p [sB; sA; sA; sB].
  Proof.
    split.
    - apply Permutation_trans with (l' := [sB; sA; sB; sA]); [apply perm_swap|].
      apply perm_skip. apply perm_skip. apply perm_swap.
    - split; [vm_compute; reflexivity|]. split; [vm_compute; reflexivity|].
      vm_compute. discriminate.
  Qed.

  (* why `with_signals_refusal` assumes a header without repeated names: with a repeated column
     the simple specification sees nothing wrong, while the code reports the second `A` as
     unknown - which is what `refusal_exact` says *)
  Definition p_rep_ok : parsed :=
    {| p_stmts := []; p_signals := [nA; nY; nA]; p_signal_spans := [(0,1); (2,3); (4,5)]%N;
       p_virtuals := []; p_expected_inputs := []; p_read_outputs := [] |}.
  Example refusal_needs_NoDup_header :
    refusal p_rep_ok [sA; sY] = None
    /\ refusal_exact p_rep_ok [sA; sY] = Some (SE_UnknownSignals [nA] [(0,1)%N])
    /\ with_signals p_rep_ok [sA; sY] = Err (SE_UnknownSignals [nA] [(0,1)%N]).
  Proof. repeat split; vm_compute; reflexivity. Qed.
End Example_refusal.

(* ================================================================== summary *)

Check with_signals_refusal.
Check with_signals_refusal_wf.
Check refusal_None_iff_fits.
Check refusal_None_iff_ok.
Check with_signals_refusal_exact.
Check refusal_exact_None_iff_fits.
Check refusal_exact_None_iff_ok.
Check refusal_exact_eq.
Check with_signals_total.
Check refusal_duplicate_first.
Check refusal_duplicate_iff.
Check refusal_virtual_second.
Check refusal_unknown_columns_exact.
Check refusal_unknown_spans_exact.
Check refusal_not_input_fourth.
Check refusal_not_output_fifth.
Check not_input_error_kind.
Check not_output_error_kind.
Check refusal_deterministic.
Check refusal_functional.
Check refusal_ignores_stmts.
Check refusal_order_of_signals.
Check with_signals_error_order_invariant.
Check refusal_order_of_signals_any.
Check Example_refusal.wrong_in_five_ways.
Check Example_refusal.wrong_in_three_ways.
Check Example_refusal.refusal_order_matters_with_duplicates.
Check Example_refusal.refusal_needs_NoDup_header.

Print Assumptions with_signals_refusal.
Print Assumptions with_signals_refusal_wf.
Print Assumptions refusal_None_iff_fits.
Print Assumptions refusal_None_iff_ok.
Print Assumptions with_signals_refusal_exact.
Print Assumptions refusal_exact_None_iff_fits.
Print Assumptions with_signals_total.
Print Assumptions refusal_duplicate_first.
Print Assumptions refusal_duplicate_iff.
Print Assumptions refusal_virtual_second.
Print Assumptions refusal_unknown_columns_exact.
Print Assumptions refusal_unknown_spans_exact.
Print Assumptions refusal_not_input_fourth.
Print Assumptions refusal_not_output_fifth.
Print Assumptions refusal_deterministic.
Print Assumptions refusal_functional.
Print Assumptions refusal_ignores_stmts.
Print Assumptions refusal_order_of_signals.
Print Assumptions with_signals_error_order_invariant.
Print Assumptions refusal_order_of_signals_any.
Print Assumptions Example_refusal.wrong_in_five_ways.
Print Assumptions Example_refusal.wrong_in_three_ways.
Print Assumptions Example_refusal.refusal_order_matters_with_duplicates.
Print Assumptions Example_refusal.refusal_needs_NoDup_header.
