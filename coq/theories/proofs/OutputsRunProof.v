(* C04 lifted to the RUN, through error items: what expressions read as "the outputs" at any
   point of a run is the driver's answer to the LAST call that read outputs and that the driver
   ANSWERED -- whether or not the iterator then accepted that answer.

   THE RULE (inext_outputs_all, read off Iter.inext):
     - the outputs map is replaced in exactly one place: right after the driver answered
       `DrvOk outs` to the call of a CHECKED row (er_update_output = true; the call is of kind RW),
       by `ctx_set_outputs .. (outs_map outs)`, BEFORE extract_output_values looks at the answer;
     - so a row item, a REFUSED answer (wrong number of outputs, wrong order) and an answer on
       which a declared (virtual) signal fails to evaluate all leave `couts = outs_map outs` of
       THAT answer: a refused answer IS what expressions read afterwards;
     - a failed call (DrvErr, read-write or write-only), a write-only row, an evaluation error
       before any call and None leave couts as it was.
   Hence last_read = the answer to the last call of kind RW that the driver answered with DrvOk,
   REGARDLESS of whether the answer was accepted.

   THE LOG AND THE TRAIT'S DEFAULT write_input: with w_default = true the write-only rows of a
   clock cycle are sent through write_input_and_read_output and the answer is dropped; the ghost
   log then records them with kind RW although nothing is read.  The log alone does not tell
   these calls from the reading ones, so
     - outputs_are_the_last_read (log only) is for w_default = false (the driver has its own
       write_input), and Example default_write_input_hides_the_kind shows it fails otherwise;
     - outputs_are_the_last_read_flagged holds for every w_default: the reachability relation
       reach_f carries, per call, the flag "this call read outputs" (the constructor's call and
       the calls of checked rows).

   No well-formedness hypothesis anywhere: every generator, driver, test case, fuel, state. *)
From DTR Require Import Prelude I64 Ast FramedMap Parser Bind Eval Stmt Iter Script.
From DTR.proofs Require Import StmtRefine IterLogProof AfterErrorProof RunRefine RunRefineE IterLogProofE.
Local Open Scope nat_scope.

Local Arguments ItNone {DE} st.
Local Arguments ItRow {DE} row st.
Local Arguments ItErr {DE} e st.
Local Arguments ItPanic {DE} s.
Local Arguments ItOOF {DE}.
Local Arguments NewOk {DE} st.
Local Arguments NewErr {DE} e log.
Local Arguments NewPanic {DE} s.

(* ------------------------------------------------------------------ *)
(* the last answered reading call of a log *)

Definition is_rw (k : callkind) : bool := match k with RW => true | WO => false end.

(* the lookup of EvalContext::get in the outputs map: a later entry overrides *)
Definition assoc_last (x : name) (l : list (name * outval)) : option outval :=
  option_map snd (find_last (fun kv => name_eqb (fst kv) x) l).

Section LAST_READ.
Variable DE : Type.
Variable D : driver DE.

(* The answer to the k-th call of log is D (firstn k log) c where nth_error log k = Some c.
   [last_read_below sel log n]: the answer to the last call k < n that sel selects and that the
   driver answered with DrvOk. *)
Fixpoint last_read_below (sel : nat -> call -> bool) (log : list call) (n : nat)
  : option (list out_entry) :=
  match n with
  | O => None
  | S k =>
      match nth_error log k with
      | Some c =>
          if sel k c then
            match D (firstn k log) c with
            | DrvOk outs => Some outs
            | DrvErr _ => last_read_below sel log k
            end
          else last_read_below sel log k
      | None => last_read_below sel log k
      end
  end.

Definition last_read_sel (sel : nat -> call -> bool) (log : list call) : option (list out_entry) :=
  last_read_below sel log (length log).

(* selection by the kind recorded in the log / by a list of flags, one per call *)
Definition rw_sel : nat -> call -> bool := fun _ c => is_rw (fst c).
Definition flag_sel (fl : list bool) : nat -> call -> bool := fun k _ => nth k fl false.

(* THE definition: the answer to the last call of kind RW that the driver answered with DrvOk
   (whether the iterator then accepted the answer or not) *)
Definition last_read (log : list call) : option (list out_entry) := last_read_sel rw_sel log.

(* the k-th call is selected and answered with outs *)
Definition read_at (sel : nat -> call -> bool) (log : list call) (k : nat) (outs : list out_entry) : Prop :=
  exists c, nth_error log k = Some c /\ sel k c = true /\ D (firstn k log) c = DrvOk outs.

Lemma last_read_below_ext : forall sel sel' log n,
  (forall k c, k < n -> nth_error log k = Some c -> sel k c = sel' k c) ->
  last_read_below sel log n = last_read_below sel' log n.
Proof.
  intros sel sel' log n. induction n as [|n IH]; intro H; [reflexivity|].
  cbn [last_read_below]. rewrite IH by (intros k c Hk Hc; apply H; [lia|exact Hc]).
  destruct (nth_error log n) as [c|] eqn:E; [|reflexivity].
  rewrite (H n c (Nat.lt_succ_diag_r n) E). reflexivity.
Qed.

Lemma last_read_below_snoc : forall sel log c n, n <= length log ->
  last_read_below sel (log ++ [c]) n = last_read_below sel log n.
Proof.
  intros sel log c n. induction n as [|n IH]; intro H; [reflexivity|].
  cbn [last_read_below]. rewrite IH by lia. rewrite nth_error_app1 by lia.
  rewrite firstn_app. replace (n - length log) with 0 by lia. cbn [firstn]. rewrite app_nil_r.
  reflexivity.
Qed.

(* one more call *)
Lemma last_read_sel_snoc : forall sel log c,
  last_read_sel sel (log ++ [c]) =
  if sel (length log) c then
    match D log c with DrvOk outs => Some outs | DrvErr _ => last_read_sel sel log end
  else last_read_sel sel log.
Proof.
  intros sel log c. unfold last_read_sel. rewrite app_length. cbn [length]. rewrite Nat.add_1_r.
  cbn [last_read_below]. rewrite nth_error_app2 by lia. rewrite Nat.sub_diag. cbn [nth_error].
  rewrite firstn_app, Nat.sub_diag, firstn_all. cbn [firstn]. rewrite app_nil_r.
  rewrite last_read_below_snoc by lia. reflexivity.
Qed.

Lemma last_read_below_spec : forall sel log n,
  match last_read_below sel log n with
  | Some outs => exists k, k < n /\ read_at sel log k outs /\
                   forall j o, k < j < n -> ~ read_at sel log j o
  | None => forall j o, j < n -> ~ read_at sel log j o
  end.
Proof.
  intros sel log n. induction n as [|n IH]; cbn [last_read_below].
  - intros j o Hj. lia.
  - set (prev := last_read_below sel log n) in *. clearbody prev.
    assert (Hstep : (forall o, ~ read_at sel log n o) ->
              match prev with
              | Some outs => exists k, k < S n /\ read_at sel log k outs /\
                               forall j o, k < j < S n -> ~ read_at sel log j o
              | None => forall j o, j < S n -> ~ read_at sel log j o
              end).
    { intro Hno. destruct prev as [outs|].
      - destruct IH as [k [Hk [Hr Hl]]]. exists k. split; [lia|]. split; [exact Hr|].
        intros j o Hj. destruct (Nat.eq_dec j n) as [E|E]; [subst j; apply Hno|apply Hl; lia].
      - intros j o Hj. destruct (Nat.eq_dec j n) as [E|E]; [subst j; apply Hno|apply IH; lia]. }
    destruct (nth_error log n) as [c|] eqn:En.
    + destruct (sel n c) eqn:Es.
      * destruct (D (firstn n log) c) as [e|outs] eqn:Ed.
        -- apply Hstep. intros o [c' [H1 [H2 H3]]]. congruence.
        -- exists n. split; [lia|]. split; [exists c; auto|]. intros j o Hj. lia.
      * apply Hstep. intros o [c' [H1 [H2 H3]]]. congruence.
    + apply Hstep. intros o [c' [H1 _]]. congruence.
Qed.

(* last_read_sel, characterised: the answer to the k-th call, where k is the last selected call
   that was answered *)
Theorem last_read_sel_spec : forall sel log outs,
  last_read_sel sel log = Some outs <->
  exists k, read_at sel log k outs /\ forall j o, k < j -> ~ read_at sel log j o.
Proof.
  intros sel log outs. unfold last_read_sel.
  pose proof (last_read_below_spec sel log (length log)) as H.
  assert (Hlt : forall j o, read_at sel log j o -> j < length log).
  { intros j o [c [Hc _]]. apply nth_error_Some. congruence. }
  split.
  - intro E. rewrite E in H. destruct H as [k [Hk [Hr Hl]]]. exists k. split; [exact Hr|].
    intros j o Hj Hrj. apply (Hl j o); [|exact Hrj]. split; [exact Hj|eapply Hlt; exact Hrj].
  - intros [k [Hr Hl]]. destruct (last_read_below sel log (length log)) as [outs'|].
    + destruct H as [k' [Hk' [Hr' Hl']]].
      destruct (Nat.lt_trichotomy k k') as [Hc|[Hc|Hc]].
      * exfalso. exact (Hl k' outs' Hc Hr').
      * subst k'. destruct Hr as [c [H1 [H2 H3]]]. destruct Hr' as [c' [H1' [H2' H3']]]. congruence.
      * exfalso. apply (Hl' k outs); [|exact Hr]. split; [exact Hc|eapply Hlt; exact Hr].
    + exfalso. apply (H k outs); [eapply Hlt; exact Hr|exact Hr].
Qed.

(* the definition of last_read in the words of the task: the answer of D to the last call of
   kind RW of the log that D answered with DrvOk, where the answer to the k-th call is
   D (firstn k log) (nth k log) *)
Theorem last_read_spec : forall log outs,
  last_read log = Some outs <->
  exists k ins, nth_error log k = Some (RW, ins) /\ D (firstn k log) (RW, ins) = DrvOk outs /\
    forall j ins' o, k < j -> nth_error log j = Some (RW, ins') ->
      D (firstn j log) (RW, ins') <> DrvOk o.
Proof.
  intros log outs. unfold last_read. rewrite last_read_sel_spec. split.
  - intros [k [[c [H1 [H2 H3]]] Hl]]. destruct c as [kind ins]. unfold rw_sel in H2. cbn [fst] in H2.
    destruct kind; [|discriminate H2]. exists k, ins. split; [exact H1|]. split; [exact H3|].
    intros j ins' o Hj Hn Hd. apply (Hl j o Hj). exists (RW, ins'). auto.
  - intros [k [ins [H1 [H2 Hl]]]]. exists k. split; [exists (RW, ins); auto|].
    intros j o Hj [c [K1 [K2 K3]]]. destruct c as [kind ins']. unfold rw_sel in K2. cbn [fst] in K2.
    destruct kind; [|discriminate K2]. exact (Hl j ins' o Hj K1 K3).
Qed.

Theorem last_read_none_spec : forall log,
  last_read log = None <->
  forall k ins o, nth_error log k = Some (RW, ins) -> D (firstn k log) (RW, ins) <> DrvOk o.
Proof.
  intro log. unfold last_read, last_read_sel.
  pose proof (last_read_below_spec rw_sel log (length log)) as H. split.
  - intros E k ins o Hn Hd. rewrite E in H. apply (H k o).
    + apply nth_error_Some. congruence.
    + exists (RW, ins). auto.
  - intro Hno. destruct (last_read_below rw_sel log (length log)) as [outs|]; [|reflexivity].
    exfalso. destruct H as [k [_ [[c [H1 [H2 H3]]] _]]]. destruct c as [kind ins].
    unfold rw_sel in H2. cbn [fst] in H2. destruct kind; [|discriminate H2]. exact (Hno k ins outs H1 H3).
Qed.

(* one more call, by its kind and its answer *)
Theorem last_read_snoc : forall log c,
  last_read (log ++ [c]) =
  match fst c, D log c with
  | RW, DrvOk outs => Some outs
  | _, _ => last_read log
  end.
Proof.
  intros log [kind ins]. unfold last_read. rewrite last_read_sel_snoc. unfold rw_sel. cbn [fst].
  destruct kind; cbn [is_rw]; [|reflexivity]. destruct (D log (RW, ins)); reflexivity.
Qed.

Corollary last_read_snoc_write_only : forall log ins, last_read (log ++ [(WO, ins)]) = last_read log.
Proof. intros. rewrite last_read_snoc. reflexivity. Qed.

Corollary last_read_snoc_failed : forall log c e, D log c = DrvErr e -> last_read (log ++ [c]) = last_read log.
Proof. intros log c e H. rewrite last_read_snoc, H. destruct (fst c); reflexivity. Qed.

Corollary last_read_snoc_answered : forall log ins outs,
  D log (RW, ins) = DrvOk outs -> last_read (log ++ [(RW, ins)]) = Some outs.
Proof. intros log ins outs H. rewrite last_read_snoc. cbn [fst]. rewrite H. reflexivity. Qed.

(* flags: one more call with its flag *)
Lemma flag_sel_app_ext : forall fl bs log, length fl = length log ->
  last_read_sel (flag_sel (fl ++ bs)) log = last_read_sel (flag_sel fl) log.
Proof.
  intros fl bs log Hl. unfold last_read_sel. apply last_read_below_ext.
  intros k c Hk _. unfold flag_sel. apply app_nth1. lia.
Qed.

Lemma last_read_flag_snoc : forall fl b log c, length fl = length log ->
  last_read_sel (flag_sel (fl ++ [b])) (log ++ [c]) =
  if b then match D log c with DrvOk outs => Some outs | DrvErr _ => last_read_sel (flag_sel fl) log end
  else last_read_sel (flag_sel fl) log.
Proof.
  intros fl b log c Hl. rewrite last_read_sel_snoc, flag_sel_app_ext by exact Hl.
  unfold flag_sel at 1. rewrite app_nth2 by lia. rewrite Hl, Nat.sub_diag. cbn [nth]. reflexivity.
Qed.

(* when the flags are the kinds of the log, the flagged reading is last_read *)
Lemma last_read_flags_are_kinds : forall log,
  last_read_sel (flag_sel (map (fun c : call => is_rw (fst c)) log)) log = last_read log.
Proof.
  intro log. unfold last_read, last_read_sel. apply last_read_below_ext.
  intros k c _ Hc. unfold flag_sel, rw_sel.
  apply (map_nth_error (fun c : call => is_rw (fst c))) in Hc.
  apply nth_error_nth. exact Hc.
Qed.

End LAST_READ.

(* ------------------------------------------------------------------ *)

Section OUTPUTS_RUN.
Variable G : gen.
Variable DE : Type.
Variable D : driver DE.
Variable w_default : bool.
Variable tc : testcase.

Local Notation get_row := (Iter.get_row G tc).
Local Notation inext := (Iter.inext G DE D w_default tc).
Local Notation try_new := (Iter.try_new DE D tc).
Local Notation collect_e := (RunRefineE.collect_e G DE D w_default tc).
Local Notation last_read := (last_read DE D).
Local Notation last_read_sel := (last_read_sel DE D).

(* the kind under which a write-only row's call is logged *)
Definition wkind : callkind := if w_default then RW else WO.

(* ---------------------------------------------------------------- 1. one next(), every outcome *)

Lemma get_signal_not_err : forall i e, get_signal tc i <> Err e.
Proof. intros i e. unfold get_signal. destruct (nth_error (signals tc) i); discriminate. Qed.

(* the only errors of the loop over the expected signals *)
Lemma extract_loop_err_shape : forall pairs outs c c2 r,
  extract_loop G tc pairs outs c = (c2, Err r) ->
  r = RT_WrongOutputOrder \/ exists x, r = RT_Expr x.
Proof.
  induction pairs as [|[ei oi] pairs IH]; intros outs c c2 r H; cbn [extract_loop] in H.
  - discriminate H.
  - assert (Hk : forall c1 v,
              match extract_loop G tc pairs outs c1 with
              | (c3, Ok vs) => (c3, Ok (v :: vs))
              | other => other
              end = (c2, Err r) -> r = RT_WrongOutputOrder \/ exists x, r = RT_Expr x).
    { intros c1 v Hm.
      destruct (extract_loop G tc pairs outs c1) as [c3 [vs|e|s|]] eqn:E; inversion Hm; subst.
      eapply IH; eauto. }
    destruct oi as [|n|e].
    + eapply Hk; exact H.
    + destruct (get_signal tc (ei_signal_index ei)) as [sg|e|s|] eqn:Eg.
      * destruct (nth_error outs n) as [o|]; [|inversion H; subst; left; reflexivity].
        destruct (signal_eqb sg (oe_sig o)); [|inversion H; subst; left; reflexivity].
        eapply Hk; exact H.
      * exfalso. eapply get_signal_not_err; exact Eg.
      * discriminate H.
      * discriminate H.
    + destruct (ctx_eval G c e) as [c1 v] eqn:E.
      destruct v as [z|x|s|]; try discriminate H.
      * eapply Hk; exact H.
      * inversion H; subst. right. eauto.
Qed.

(* why an answer is refused: r is the error item's payload *)
Definition refusal (nout : nat) (outs : list out_entry) (r : rterr) : Prop :=
  (length outs <> nout /\ r = RT_WrongNumberOfOutputs (N.of_nat nout) (N.of_nat (length outs)))
  \/ (length outs = nout /\ r = RT_WrongOutputOrder)
  \/ (length outs = nout /\ exists x, r = RT_Expr x).     (* a declared signal fails on the answer *)

Lemma extract_err_shape : forall nout oi outs c c2 r,
  extract_output_values G tc nout oi outs c = (c2, Err r) -> refusal nout outs r.
Proof.
  intros nout oi outs c c2 r H. unfold extract_output_values in H.
  destruct (Nat.eqb (length outs) nout) eqn:El; cbn [negb] in H.
  - apply Nat.eqb_eq in El.
    destruct (extract_loop G tc (combine (tc_expected_indices tc) oi) outs (ctx_swap_vars c))
      as [c1 r1] eqn:E.
    inversion H; subst r1. destruct (extract_loop_err_shape _ _ _ _ _ E) as [K|K].
    + right. left. auto.
    + right. right. auto.
  - apply Nat.eqb_neq in El. inversion H; subst. left. auto.
Qed.

(* THE CASE TABLE.  Every outcome of next() that hands a state back: the call made (if any), the
   driver's answer to it, the log, and the outputs map afterwards. *)
Theorem inext_outputs_all : forall fuel st,
  match inext fuel st with
  | ItNone st' =>
      (* no call *)
      get_row fuel st = GRNone st' /\
      i_log st' = i_log st /\ couts (i_ctx st') = couts (i_ctx st)
  | ItRow row st' =>
      exists er st1, get_row fuel st = GRRow er st1 /\
        ((* a checked row: the answer is the outputs *)
         (er_update_output er = true /\ exists outs,
            D (i_log st) (RW, er_inputs er) = DrvOk outs /\
            i_log st' = i_log st ++ [(RW, er_inputs er)] /\
            couts (i_ctx st') = outs_map outs)
         \/
         (* a write-only row: whatever the driver answers is dropped *)
         (er_update_output er = false /\ exists outs,
            D (i_log st) (wkind, er_inputs er) = DrvOk outs /\
            i_log st' = i_log st ++ [(wkind, er_inputs er)] /\
            couts (i_ctx st') = couts (i_ctx st)))
  | ItErr (IE_Driver e) st' =>
      (* the call failed (read-write or write-only): nothing changes *)
      exists er st1, get_row fuel st = GRRow er st1 /\
        let kind := if er_update_output er then RW else wkind in
        D (i_log st) (kind, er_inputs er) = DrvErr e /\
        i_log st' = i_log st ++ [(kind, er_inputs er)] /\
        couts (i_ctx st') = couts (i_ctx st)
  | ItErr (IE_Runtime r) st' =>
      (* an evaluation error of the program, before any call: nothing changes *)
      (exists x, r = RT_Expr x /\ get_row fuel st = GRErr x st' /\
         i_log st' = i_log st /\ couts (i_ctx st') = couts (i_ctx st))
      \/
      (* the driver answered and the answer was REFUSED: the refused answer is the outputs *)
      (exists er st1 outs, get_row fuel st = GRRow er st1 /\ er_update_output er = true /\
         D (i_log st) (RW, er_inputs er) = DrvOk outs /\
         refusal (i_nout st) outs r /\
         i_log st' = i_log st ++ [(RW, er_inputs er)] /\
         couts (i_ctx st') = outs_map outs)
  | ItPanic _ | ItOOF => True
  end.
Proof.
  intros fuel st. pose proof (inext_inv G DE D w_default tc fuel st) as H.
  pose proof (get_row_preserves G tc fuel st) as K.
  destruct (inext fuel st) as [st'|row st'|[e|r] st'|s|]; try exact I.
  - rewrite H in K. split; [exact H|]. tauto.
  - destruct H as [er [st1 [Hg [[Hu [outs [c2 [vals [HD [He [Hr Hs]]]]]]]|[Hu [outs [HD [Hr Hs]]]]]]]];
      exists er, st1; (split; [exact Hg|]); rewrite Hg in K; subst st'; cbn [with_ctx_log i_log i_ctx].
    + left. split; [exact Hu|]. exists outs. split; [exact HD|]. split; [reflexivity|].
      apply extract_output_values_rng_only in He. destruct He as [_ [_ He]]. exact He.
    + right. split; [exact Hu|]. exists outs. split; [exact HD|]. split; [reflexivity|]. tauto.
  - destruct H as [er [st1 [Hg [HD Hs]]]]. cbv zeta in HD, Hs. rewrite Hg in K.
    exists er, st1. split; [exact Hg|]. cbv zeta. fold wkind in HD, Hs.
    split; [exact HD|]. subst st'. cbn [with_ctx_log i_log i_ctx]. split; [reflexivity|tauto].
  - destruct H as [[x [Hr Hg]]|[er [st1 [outs [c2 [Hg [Hu [HD [He Hs]]]]]]]]]; rewrite Hg in K.
    + left. exists x. split; [exact Hr|]. split; [exact Hg|]. tauto.
    + right. exists er, st1, outs. split; [exact Hg|]. split; [exact Hu|]. split; [exact HD|].
      split.
      * apply extract_err_shape in He. destruct K as [_ [_ [_ [_ Kn]]]]. rewrite Kn in He. exact He.
      * subst st'. cbn [with_ctx_log i_log i_ctx]. split; [reflexivity|].
        apply extract_output_values_rng_only in He. destruct He as [_ [_ He]]. exact He.
Qed.

(* ---------------------------------------------------------------- 2. the run *)

Definition next_state (it : item DE) : option istate :=
  match it with
  | ItNone st' | ItRow _ st' | ItErr _ st' => Some st'
  | ItPanic _ | ItOOF => None
  end.

(* the call one next() makes, as it is logged, and whether it reads outputs *)
Definition step_calls (fuel : nat) (st : istate) : list call :=
  match get_row fuel st with
  | GRRow er _ => [((if er_update_output er then RW else wkind), er_inputs er)]
  | _ => []
  end.

Definition step_flag (fuel : nat) (st : istate) : list bool :=
  match get_row fuel st with
  | GRRow er _ => [er_update_output er]
  | _ => []
  end.

(* the states of a run: try_new, then any number of next() by a caller that goes on after error
   items (any fuel at every call) *)
Inductive reachable : istate -> Prop :=
| ReNew : forall st0, try_new = NewOk st0 -> reachable st0
| ReStep : forall fuel st st', reachable st -> next_state (inext fuel st) = Some st' -> reachable st'.

(* the same, remembering for each driver call so far whether it read outputs *)
Inductive reach_f : istate -> list bool -> Prop :=
| RfNew : forall st0, try_new = NewOk st0 -> reach_f st0 [true]
| RfStep : forall fuel st fl st', reach_f st fl -> next_state (inext fuel st) = Some st' ->
    reach_f st' (fl ++ step_flag fuel st).

Lemma reachable_flagged : forall st, reachable st <-> exists fl, reach_f st fl.
Proof.
  intro st. split.
  - intro H. induction H as [st0 H0|fuel st st' H IH Hn].
    + exists [true]. constructor. exact H0.
    + destruct IH as [fl IH]. exists (fl ++ step_flag fuel st). eapply RfStep; eauto.
  - intros [fl H]. induction H as [st0 H0|fuel st fl st' H IH Hn].
    + constructor. exact H0.
    + eapply ReStep; eauto.
Qed.

Lemma step_log : forall fuel st st', next_state (inext fuel st) = Some st' ->
  i_log st' = i_log st ++ step_calls fuel st.
Proof.
  intros fuel st st' Hn. pose proof (inext_outputs_all fuel st) as H. unfold step_calls.
  destruct (inext fuel st) as [st1|row st1|[e|r] st1|s|]; cbn [next_state] in Hn;
    try discriminate Hn; inversion Hn; subst st1.
  - destruct H as [Hg [Hl _]]. rewrite Hg, app_nil_r. exact Hl.
  - destruct H as [er [st1 [Hg [[Hu [outs [_ [Hl _]]]]|[Hu [outs [_ [Hl _]]]]]]]];
      rewrite Hg, Hu; exact Hl.
  - destruct H as [er [st1 [Hg [_ [Hl _]]]]]. rewrite Hg. exact Hl.
  - destruct H as [[x [_ [Hg [Hl _]]]]|[er [st1 [outs [Hg [Hu [_ [_ [Hl _]]]]]]]]]; rewrite Hg.
    + rewrite app_nil_r. exact Hl.
    + rewrite Hu. exact Hl.
Qed.

(* one step of the invariant *)
Lemma inv_step : forall fuel st st' fl outs,
  length fl = length (i_log st) ->
  last_read_sel (flag_sel fl) (i_log st) = Some outs ->
  couts (i_ctx st) = outs_map outs ->
  next_state (inext fuel st) = Some st' ->
  length (fl ++ step_flag fuel st) = length (i_log st') /\
  exists outs', last_read_sel (flag_sel (fl ++ step_flag fuel st)) (i_log st') = Some outs' /\
                couts (i_ctx st') = outs_map outs'.
Proof.
  intros fuel st st' fl outs Hlen Hlast Hc Hn.
  pose proof (inext_outputs_all fuel st) as H. unfold step_flag.
  destruct (inext fuel st) as [st1|row st1|[e|r] st1|s|]; cbn [next_state] in Hn;
    try discriminate Hn; inversion Hn; subst st1.
  - destruct H as [Hg [Hl Ho]]. rewrite Hg, app_nil_r, Hl, Ho. split; [exact Hlen|]. eauto.
  - destruct H as [er [st1 [Hg [[Hu [o [HD [Hl Ho]]]]|[Hu [o [HD [Hl Ho]]]]]]]];
      rewrite Hg, Hu, Hl, Ho; (split; [rewrite !app_length, Hlen; reflexivity|]);
      rewrite last_read_flag_snoc by exact Hlen.
    + rewrite HD. eauto.
    + eauto.
  - destruct H as [er [st1 [Hg [HD [Hl Ho]]]]]. cbv zeta in HD, Hl.
    rewrite Hg, Hl, Ho. split; [rewrite !app_length, Hlen; reflexivity|].
    rewrite last_read_flag_snoc by exact Hlen.
    exists outs. split; [|exact Hc].
    destruct (er_update_output er); [rewrite HD|]; exact Hlast.
  - destruct H as [[x [_ [Hg [Hl Ho]]]]|[er [st1 [o [Hg [Hu [HD [_ [Hl Ho]]]]]]]]]; rewrite Hg.
    + rewrite app_nil_r, Hl, Ho. split; [exact Hlen|]. eauto.
    + rewrite Hu, Hl, Ho. split; [rewrite !app_length, Hlen; reflexivity|].
      rewrite last_read_flag_snoc by exact Hlen. rewrite HD. eauto.
Qed.

(* THE INVARIANT, for every w_default: at every state of a run the outputs map is the answer to
   the last call that read outputs (the constructor's, a checked row's) and was answered -- accepted
   or refused.  The empty case does not occur. *)
Theorem outputs_are_the_last_read_flagged : forall st fl, reach_f st fl ->
  length fl = length (i_log st) /\
  exists outs, last_read_sel (flag_sel fl) (i_log st) = Some outs /\
               couts (i_ctx st) = outs_map outs.
Proof.
  intros st fl H. induction H as [st0 H0|fuel st fl st' H IH Hn].
  - pose proof (try_new_calls DE D tc) as K. rewrite H0 in K.
    destruct K as [ins [outs [_ [Hl [HD [Ho _]]]]]]. rewrite Hl. split; [reflexivity|].
    exists outs. split; [|exact Ho].
    unfold OutputsRunProof.last_read_sel, flag_sel. cbn [length last_read_below nth_error nth firstn].
    rewrite HD. reflexivity.
  - destruct IH as [Hlen [outs [Hlast Hc]]]. eapply inv_step; eauto.
Qed.

(* a flag is set only on calls of kind RW; with a driver that has its own write_input the flags
   ARE the kinds *)
Lemma flags_are_kinds : w_default = false -> forall st fl, reach_f st fl ->
  fl = map (fun c : call => is_rw (fst c)) (i_log st).
Proof.
  intros Hw st fl H. induction H as [st0 H0|fuel st fl st' H IH Hn].
  - pose proof (try_new_calls DE D tc) as K. rewrite H0 in K.
    destruct K as [ins [outs [_ [Hl _]]]]. rewrite Hl. reflexivity.
  - rewrite (step_log _ _ _ Hn), map_app, <- IH. f_equal.
    unfold step_calls, step_flag, wkind. rewrite Hw.
    destruct (get_row fuel st) as [st1|er st1|x st1|s|]; try reflexivity.
    cbn [map fst]. destruct (er_update_output er); reflexivity.
Qed.

(* THE INVARIANT in terms of the log alone (a driver with its own write_input, so that the log
   tells a reading call from a write-only one) *)
Theorem outputs_are_the_last_read : w_default = false -> forall st, reachable st ->
  exists outs, last_read (i_log st) = Some outs /\ couts (i_ctx st) = outs_map outs.
Proof.
  intros Hw st H. apply reachable_flagged in H. destruct H as [fl H].
  pose proof (flags_are_kinds Hw st fl H) as Hf.
  destruct (outputs_are_the_last_read_flagged st fl H) as [_ [outs [Hl Hc]]].
  exists outs. split; [|exact Hc]. rewrite Hf, last_read_flags_are_kinds in Hl. exact Hl.
Qed.

(* ... for the continuing caller of RunRefineE *)
Lemma collect_e_reachable : forall n fuel st items st',
  reachable st -> collect_e fuel n st = (items, Some st') -> reachable st'.
Proof.
  induction n as [|n IH]; intros fuel st items st' Hr H.
  - cbn [RunRefineE.collect_e] in H. inversion H; subst. exact Hr.
  - rewrite collect_e_S in H.
    destruct (inext fuel st) as [st1|row st1|e st1|s|] eqn:Hi; try discriminate H.
    + inversion H; subst. eapply ReStep; [exact Hr|]. rewrite Hi. reflexivity.
    + destruct (collect_e fuel n st1) as [l so] eqn:Hc. inversion H; subst.
      eapply IH; [|exact Hc]. eapply ReStep; [exact Hr|]. rewrite Hi. reflexivity.
    + destruct (collect_e fuel n st1) as [l so] eqn:Hc. inversion H; subst.
      eapply IH; [|exact Hc]. eapply ReStep; [exact Hr|]. rewrite Hi. reflexivity.
Qed.

Theorem outputs_are_the_last_read_run : w_default = false -> forall fuel n st0 items st',
  try_new = NewOk st0 -> collect_e fuel n st0 = (items, Some st') ->
  exists outs, last_read (i_log st') = Some outs /\ couts (i_ctx st') = outs_map outs.
Proof.
  intros Hw fuel n st0 items st' H0 Hc. apply (outputs_are_the_last_read Hw).
  eapply collect_e_reachable; [|exact Hc]. constructor. exact H0.
Qed.

Theorem outputs_are_the_last_read_run_flagged : forall fuel n st0 items st',
  try_new = NewOk st0 -> collect_e fuel n st0 = (items, Some st') ->
  exists fl outs, reach_f st' fl /\ length fl = length (i_log st') /\
    last_read_sel (flag_sel fl) (i_log st') = Some outs /\ couts (i_ctx st') = outs_map outs.
Proof.
  intros fuel n st0 items st' H0 Hc.
  assert (Hr : reachable st') by (eapply collect_e_reachable; [|exact Hc]; constructor; exact H0).
  apply reachable_flagged in Hr. destruct Hr as [fl Hr].
  destruct (outputs_are_the_last_read_flagged st' fl Hr) as [Hl [outs [H1 H2]]].
  exists fl, outs. auto.
Qed.

(* ---------------------------------------------------------------- 3. in the words of the property *)

(* An identifier that is not a variable in scope reads the value of that name in the last
   answered reading call.  c is ANY context with the outputs map of the state (the contexts in
   which the statements and rows of the next step are evaluated are such: snext_preserves,
   C04_evaluation_does_not_refresh). *)
Theorem read_sees_last_read : w_default = false -> forall st, reachable st ->
  exists outs, last_read (i_log st) = Some outs /\
    forall c x, couts c = couts (i_ctx st) -> fm_get (cvars c) x = None ->
      ctx_get c x = assoc_last x (outs_map outs).
Proof.
  intros Hw st Hr. destruct (outputs_are_the_last_read Hw st Hr) as [outs [Hl Hc]].
  exists outs. split; [exact Hl|]. intros c x Hco Hv.
  unfold ctx_get, assoc_last. rewrite Hv, Hco, Hc. reflexivity.
Qed.

Theorem read_sees_last_read_flagged : forall st fl, reach_f st fl ->
  exists outs, last_read_sel (flag_sel fl) (i_log st) = Some outs /\
    forall c x, couts c = couts (i_ctx st) -> fm_get (cvars c) x = None ->
      ctx_get c x = assoc_last x (outs_map outs).
Proof.
  intros st fl Hr. destruct (outputs_are_the_last_read_flagged st fl Hr) as [_ [outs [Hl Hc]]].
  exists outs. split; [exact Hl|]. intros c x Hco Hv.
  unfold ctx_get, assoc_last. rewrite Hv, Hco, Hc. reflexivity.
Qed.

(* ... and what evaluating the identifier gives: the number, or the error for Z / X / no such
   output *)
Corollary eval_output_sees_last_read : w_default = false -> forall st, reachable st ->
  exists outs, last_read (i_log st) = Some outs /\
    forall c x rng, couts c = couts (i_ctx st) -> fm_get (cvars c) x = None ->
      eval G c (EVar x) rng =
      (match assoc_last x (outs_map outs) with
       | Some (OVal n) => Ok n
       | Some v => Err (XE_UnexpectedValueForSignal x v)
       | None => Err (XE_UnknownVariable x)
       end, rng).
Proof.
  intros Hw st Hr. destruct (read_sees_last_read Hw st Hr) as [outs [Hl Hg]].
  exists outs. split; [exact Hl|]. intros c x rng Hco Hv. cbn [eval]. rewrite (Hg c x Hco Hv).
  destruct (assoc_last x (outs_map outs)) as [[n| |]|]; reflexivity.
Qed.

(* a call logged as write-only never changes the outputs map (row or failed call) *)
Theorem write_only_calls_do_not_refresh : forall fuel st st' ins,
  next_state (inext fuel st) = Some st' ->
  i_log st' = i_log st ++ [(WO, ins)] ->
  couts (i_ctx st') = couts (i_ctx st) /\ last_read (i_log st') = last_read (i_log st).
Proof.
  intros fuel st st' ins Hn Hlog. split; [|rewrite Hlog; apply last_read_snoc_write_only].
  pose proof (inext_outputs_all fuel st) as H.
  destruct (inext fuel st) as [st1|row st1|[e|r] st1|s|]; cbn [next_state] in Hn;
    try discriminate Hn; inversion Hn; subst st1.
  - tauto.
  - destruct H as [er [st1 [Hg [[Hu [outs [_ [Hl Ho]]]]|[Hu [outs [_ [Hl Ho]]]]]]]].
    + rewrite Hl in Hlog. apply app_inj_tail in Hlog. destruct Hlog as [_ Hk]. discriminate Hk.
    + exact Ho.
  - destruct H as [er [st1 [Hg [_ [_ Ho]]]]]. exact Ho.
  - destruct H as [[x [_ [_ [_ Ho]]]]|[er [st1 [outs [_ [_ [_ [_ [Hl _]]]]]]]]]; [exact Ho|].
    rewrite Hl in Hlog. apply app_inj_tail in Hlog. destruct Hlog as [_ Hk]. discriminate Hk.
Qed.

(* the same by the row, for every w_default (with the trait's default write_input the call of a
   write-only row is logged with kind RW, and its answer is dropped all the same) *)
Theorem write_only_rows_do_not_refresh : forall fuel st st' er st1,
  get_row fuel st = GRRow er st1 -> er_update_output er = false ->
  next_state (inext fuel st) = Some st' ->
  couts (i_ctx st') = couts (i_ctx st) /\ i_log st' = i_log st ++ [(wkind, er_inputs er)].
Proof.
  intros fuel st st' er st1 Hg Hu Hn. pose proof (inext_outputs_all fuel st) as H.
  destruct (inext fuel st) as [st2|row st2|[e|r] st2|s|]; cbn [next_state] in Hn;
    try discriminate Hn; inversion Hn; subst st2.
  - destruct H as [Hg' _]. congruence.
  - destruct H as [er' [st1' [Hg' [[Hu' _]|[_ [outs [_ [Hl Ho]]]]]]]];
      rewrite Hg in Hg'; inversion Hg'; subst er' st1'; [congruence|auto].
  - destruct H as [er' [st1' [Hg' [_ [Hl Ho]]]]]. rewrite Hg in Hg'; inversion Hg'; subst er' st1'.
    cbv zeta in Hl. rewrite Hu in Hl. auto.
  - destruct H as [[x [_ [Hg' _]]]|[er' [st1' [outs [Hg' [Hu' _]]]]]]; [congruence|].
    rewrite Hg in Hg'; inversion Hg'; subst er' st1'. congruence.
Qed.

(* a failed call (of either kind) never changes the outputs map *)
Theorem failed_calls_do_not_refresh : forall fuel st e st',
  inext fuel st = ItErr (IE_Driver e) st' ->
  couts (i_ctx st') = couts (i_ctx st) /\ last_read (i_log st') = last_read (i_log st).
Proof.
  intros fuel st e st' Hi. pose proof (inext_outputs_all fuel st) as H. rewrite Hi in H.
  destruct H as [er [st1 [Hg [HD [Hl Ho]]]]]. cbv zeta in HD, Hl. split; [exact Ho|].
  rewrite Hl. eapply last_read_snoc_failed. exact HD.
Qed.

(* a refused answer DOES: it is what expressions read from then on *)
Theorem refused_answer_is_read : forall fuel st r st',
  inext fuel st = ItErr (IE_Runtime r) st' -> i_log st' <> i_log st ->
  exists ins outs, i_log st' = i_log st ++ [(RW, ins)] /\ D (i_log st) (RW, ins) = DrvOk outs /\
    refusal (i_nout st) outs r /\
    couts (i_ctx st') = outs_map outs /\ last_read (i_log st') = Some outs /\
    forall x, fm_get (cvars (i_ctx st')) x = None ->
      ctx_get (i_ctx st') x = assoc_last x (outs_map outs).
Proof.
  intros fuel st r st' Hi Hne. pose proof (inext_outputs_all fuel st) as H. rewrite Hi in H.
  destruct H as [[x [_ [_ [Hl _]]]]|[er [st1 [outs [Hg [Hu [HD [Hr [Hl Ho]]]]]]]]]; [congruence|].
  exists (er_inputs er), outs. split; [exact Hl|]. split; [exact HD|]. split; [exact Hr|].
  split; [exact Ho|]. split; [rewrite Hl; apply last_read_snoc_answered; exact HD|].
  intros x Hv. unfold ctx_get, assoc_last. rewrite Hv, Ho. reflexivity.
Qed.

End OUTPUTS_RUN.

(* ------------------------------------------------------------------ 4. non-vacuity, and the surprises *)

(* A test with a 4-bit output Y whose second row sends Y back as the input B; the scripted driver
   of Script.v answers call number k with Y = 5 + k. *)
Module Example_outputs_run.
  Import Coq.Strings.String.
  Import RunRefine.Example_run.

  Definition sY4 := {| sname := s2n "Y"; sbits := 4%N; styp := TyOutput |}.
  Definition sigs4 := [sA; sB; sCK; sY4].
  Definition sc4 (faults : list (nat * Script.fault)) : Script.script :=
    {| Script.sc_layout := [3];
       Script.sc_table := [[OVal 5%Z]; [OVal 6%Z]; [OVal 7%Z]; [OVal 8%Z]; [OVal 9%Z]];
       Script.sc_echo := false; Script.sc_faults := faults |}.
  (* a plain row, then a row whose input B is the expression (Y) *)
  Definition src_read : string :=
    ("A B CK Y" ++ nl ++ "0 0 0 X" ++ nl ++ "0 (Y) 0 X" ++ nl)%string.
  (* a clock cycle (two write-only calls and the checked one), then the same reading row *)
  Definition src_clock : string :=
    ("A B CK Y" ++ nl ++ "0 0 C X" ++ nl ++ "0 (Y) 0 X" ++ nl)%string.

  Inductive short_item :=
  | SRowI (ins : list inval) (outs : list outval)
  | SErrI (e : ierr N)
  | SNoneI.
  Definition short (v : item_view N) : short_item :=
    match v with
    | VRow r => SRowI (map ie_val (dr_inputs r)) (map or_output (dr_outputs r))
    | VErr e => SErrI e
    | VNone => SNoneI
    end.
  Definition short_call (c : call) := (fst c, map ie_val (snd c)).
  Definition short_resp (r : response N) : N + list (name * outval) :=
    match r with DrvErr e => inl e | DrvOk outs => inr (outs_map outs) end.
  (* the driver's answer to every call of the log: D (firstn k log) (nth k log) *)
  Definition answers (D : driver N) (log : list call) :=
    flat_map (fun k => match nth_error log k with
                       | Some c => [short_resp (D (firstn k log) c)]
                       | None => []
                       end) (seq 0 (List.length log)).

  Record observation := {
    ob_items : list short_item;                       (* what the caller got *)
    ob_calls : list (callkind * list inval);          (* the log: kind and input values (A, B, CK) *)
    ob_answers : list (N + list (name * outval));     (* the driver's answer to each call *)
    ob_couts : list (name * outval);                  (* the outputs map of the final state *)
    ob_last_read : option (list (name * outval))      (* outs_map of last_read of the final log *)
  }.

  (* the first n calls of next() by the continuing caller *)
  Definition on_final (src : string) (faults : list (nat * Script.fault)) (wd : bool) (n : nat)
      (leaf : testcase -> driver N -> list (item_view N) -> istate -> Prop) : Prop :=
    match Parser.parse (s2n src) with
    | Ok p =>
        match with_signals p sigs4 with
        | Ok tc =>
            let D := Script.script_driver sigs4 (sc4 faults) in
            match try_new N D tc with
            | NewOk st0 =>
                match collect_e G N D wd tc 50 n st0 with
                | (items, Some st') => leaf tc D items st'
                | _ => False
                end
            | _ => False
            end
        | _ => False
        end
    | _ => False
    end.

  Definition observed (ob : observation) (tc : testcase) (D : driver N) (items : list (item_view N))
      (st' : istate) : Prop :=
    {| ob_items := map short items;
       ob_calls := map short_call (i_log st');
       ob_answers := answers D (i_log st');
       ob_couts := couts (i_ctx st');
       ob_last_read := option_map outs_map (last_read N D (i_log st')) |} = ob.

  Lemma on_final_reachable : forall src faults wd n leaf,
    on_final src faults wd n leaf ->
    exists tc D items st, reachable G N D wd tc st /\ leaf tc D items st.
  Proof.
    intros src faults wd n leaf. unfold on_final.
    destruct (Parser.parse (s2n src)) as [p|e|s|]; try (intro K; contradiction K).
    destruct (with_signals p sigs4) as [tc|e|s|]; try (intro K; contradiction K).
    cbv zeta.
    destruct (try_new N (Script.script_driver sigs4 (sc4 faults)) tc) as [st0|e lg|s] eqn:Hn;
      try (intro K; contradiction K).
    destruct (collect_e G N (Script.script_driver sigs4 (sc4 faults)) wd tc 50 n st0)
      as [items [st'|]] eqn:Hc; try (intro K; contradiction K).
    intro K. exists tc, (Script.script_driver sigs4 (sc4 faults)), items, st'. split; [|exact K].
    eapply collect_e_reachable; [|exact Hc]. constructor. exact Hn.
  Qed.

  Definition nY : name := s2n "Y".
  Definition nA : name := s2n "A".

  (* no fault: the row reads the answer to the call before it (Y = 6), and the outputs map at
     the end is the answer to the last call *)
  Example run_reads_the_previous_answer :
    on_final src_read [] false 5 (observed
      {| ob_items := [SRowI [IVal 0; IVal 0; IVal 0] [OVal 6]; SRowI [IVal 0; IVal 6; IVal 0] [OVal 7]; SNoneI];
         ob_calls := [(RW, [IVal 0; IVal 0; IVal 0]); (RW, [IVal 0; IVal 0; IVal 0]); (RW, [IVal 0; IVal 6; IVal 0])];
         ob_answers := [inr [(nY, OVal 5)]; inr [(nY, OVal 6)]; inr [(nY, OVal 7)]];
         ob_couts := [(nY, OVal 7)];
         ob_last_read := Some [(nY, OVal 7)] |}).
  Proof. vm_compute. reflexivity. Qed.

  (* THE SURPRISE.  The driver's answer to call number 1 (the first row) has one entry too many
     (Y = 6 and a stray A = 7): the iterator REFUSES it (an error item WrongNumberOfOutputs 1 2,
     no row).  Yet this refused answer is the outputs map from then on ... *)
  Example refused_answer_becomes_the_outputs :
    on_final src_read [(1, Script.FAdd 0)] false 1 (observed
      {| ob_items := [SErrI (IE_Runtime (RT_WrongNumberOfOutputs 1 2))];
         ob_calls := [(RW, [IVal 0; IVal 0; IVal 0]); (RW, [IVal 0; IVal 0; IVal 0])];
         ob_answers := [inr [(nY, OVal 5)]; inr [(nY, OVal 6); (nA, OVal 7)]];
         ob_couts := [(nY, OVal 6); (nA, OVal 7)];
         ob_last_read := Some [(nY, OVal 6); (nA, OVal 7)] |}).
  Proof. vm_compute. reflexivity. Qed.

  (* ... and the caller that goes on gets a next row whose input B = (Y) is 6, the Y of the
     REFUSED answer, not 5, the Y of the last answer that was accepted (the constructor's) *)
  Example refused_answer_is_what_the_next_row_reads :
    on_final src_read [(1, Script.FAdd 0)] false 5 (observed
      {| ob_items := [SErrI (IE_Runtime (RT_WrongNumberOfOutputs 1 2));
                      SRowI [IVal 0; IVal 6; IVal 0] [OVal 7]; SNoneI];
         ob_calls := [(RW, [IVal 0; IVal 0; IVal 0]); (RW, [IVal 0; IVal 0; IVal 0]); (RW, [IVal 0; IVal 6; IVal 0])];
         ob_answers := [inr [(nY, OVal 5)]; inr [(nY, OVal 6); (nA, OVal 7)]; inr [(nY, OVal 7)]];
         ob_couts := [(nY, OVal 7)];
         ob_last_read := Some [(nY, OVal 7)] |}).
  Proof. vm_compute. reflexivity. Qed.

  (* the same with an answer refused for its ORDER (its only entry is attributed to the signal A):
     the outputs map is now {A = 6}, so the next row, which reads Y, fails with UnknownVariable Y
     although every accepted answer had a Y *)
  Example refused_wrong_order_answer_hides_the_output :
    on_final src_read [(1, Script.FSubst 0 0)] false 5 (observed
      {| ob_items := [SErrI (IE_Runtime RT_WrongOutputOrder);
                      SErrI (IE_Runtime (RT_Expr (XE_UnknownVariable nY))); SNoneI];
         ob_calls := [(RW, [IVal 0; IVal 0; IVal 0]); (RW, [IVal 0; IVal 0; IVal 0])];
         ob_answers := [inr [(nY, OVal 5)]; inr [(nA, OVal 6)]];
         ob_couts := [(nA, OVal 6)];
         ob_last_read := Some [(nA, OVal 6)] |}).
  Proof. vm_compute. reflexivity. Qed.

  (* a FAILED call changes nothing: the checked call of the clock cycle (call number 3) fails, the
     two write-only calls before it answered nothing that is looked at, so the next row's (Y) is
     still 5, the constructor's answer, four calls back *)
  Example failed_call_keeps_the_old_outputs :
    on_final src_clock [(3, Script.FErr 9%N)] false 5 (observed
      {| ob_items := [SRowI [IVal 0; IVal 0; IVal 0] []; SRowI [IVal 0; IVal 0; IVal 1] [];
                      SErrI (IE_Driver 9%N); SRowI [IVal 0; IVal 5; IVal 0] [OVal 9]; SNoneI];
         ob_calls := [(RW, [IVal 0; IVal 0; IVal 0]); (WO, [IVal 0; IVal 0; IVal 0]); (WO, [IVal 0; IVal 0; IVal 1]);
                      (RW, [IVal 0; IVal 0; IVal 0]); (RW, [IVal 0; IVal 5; IVal 0])];
         ob_answers := [inr [(nY, OVal 5)]; inr []; inr []; inl 9%N; inr [(nY, OVal 9)]];
         ob_couts := [(nY, OVal 9)];
         ob_last_read := Some [(nY, OVal 9)] |}).
  Proof. vm_compute. reflexivity. Qed.

  (* THE LOG UNDER THE TRAIT'S DEFAULT write_input.  The first write-only call of the clock
     cycle goes through write_input_and_read_output and is logged with kind RW; the driver
     answers Y = 6; the answer is dropped: the outputs map is still Y = 5, but the last call of
     kind RW of the log was answered Y = 6. *)
  Example default_write_input_observed :
    on_final src_clock [] true 1 (observed
      {| ob_items := [SRowI [IVal 0; IVal 0; IVal 0] []];
         ob_calls := [(RW, [IVal 0; IVal 0; IVal 0]); (RW, [IVal 0; IVal 0; IVal 0])];
         ob_answers := [inr [(nY, OVal 5)]; inr [(nY, OVal 6)]];
         ob_couts := [(nY, OVal 5)];
         ob_last_read := Some [(nY, OVal 6)] |}).
  Proof. vm_compute. reflexivity. Qed.

  (* hence the hypothesis w_default = false of outputs_are_the_last_read cannot be dropped *)
  Theorem default_write_input_hides_the_kind :
    exists (tc : testcase) (D : driver N) (st : istate),
      reachable G N D true tc st /\
      exists outs, last_read N D (i_log st) = Some outs /\ couts (i_ctx st) <> outs_map outs.
  Proof.
    destruct (on_final_reachable src_clock [] true 1
                (fun tc D items st => exists outs, last_read N D (i_log st) = Some outs /\
                                                   couts (i_ctx st) <> outs_map outs))
      as [tc [D [items [st [Hr K]]]]].
    - vm_compute. eexists. split; [reflexivity|]. discriminate.
    - exists tc, D, st. auto.
  Qed.

  (* ... while the flagged invariant holds there: the flags are [true; false] *)
  Example default_write_input_flagged :
    on_final src_clock [] true 1 (fun tc D items st =>
      last_read_sel N D (flag_sel [true; false]) (i_log st) = Some [ {| oe_sig := sY4; oe_val := OVal 5 |} ] /\
      couts (i_ctx st) = [(nY, OVal 5)]).
  Proof. vm_compute. split; reflexivity. Qed.
End Example_outputs_run.

Check inext_outputs_all.
Check last_read_spec.
Check last_read_none_spec.
Check last_read_snoc.
Check outputs_are_the_last_read.
Check outputs_are_the_last_read_flagged.
Check outputs_are_the_last_read_run.
Check outputs_are_the_last_read_run_flagged.
Check read_sees_last_read.
Check read_sees_last_read_flagged.
Check eval_output_sees_last_read.
Check write_only_calls_do_not_refresh.
Check write_only_rows_do_not_refresh.
Check failed_calls_do_not_refresh.
Check refused_answer_is_read.
Check Example_outputs_run.default_write_input_hides_the_kind.

Print Assumptions inext_outputs_all.
Print Assumptions last_read_spec.
Print Assumptions last_read_none_spec.
Print Assumptions last_read_snoc.
Print Assumptions outputs_are_the_last_read.
Print Assumptions outputs_are_the_last_read_flagged.
Print Assumptions outputs_are_the_last_read_run.
Print Assumptions outputs_are_the_last_read_run_flagged.
Print Assumptions read_sees_last_read.
Print Assumptions read_sees_last_read_flagged.
Print Assumptions eval_output_sees_last_read.
Print Assumptions write_only_calls_do_not_refresh.
Print Assumptions write_only_rows_do_not_refresh.
Print Assumptions failed_calls_do_not_refresh.
Print Assumptions refused_answer_is_read.
Print Assumptions flags_are_kinds.
Print Assumptions collect_e_reachable.
Print Assumptions Example_outputs_run.run_reads_the_previous_answer.
Print Assumptions Example_outputs_run.refused_answer_becomes_the_outputs.
Print Assumptions Example_outputs_run.refused_answer_is_what_the_next_row_reads.
Print Assumptions Example_outputs_run.refused_wrong_order_answer_hides_the_output.
Print Assumptions Example_outputs_run.failed_call_keeps_the_old_outputs.
Print Assumptions Example_outputs_run.default_write_input_observed.
Print Assumptions Example_outputs_run.default_write_input_hides_the_kind.
Print Assumptions Example_outputs_run.default_write_input_flagged.
