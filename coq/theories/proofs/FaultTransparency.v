(* Property C13, for callers that CONTINUE after error items: FAULT TRANSPARENCY.

   "driver failures surface as errors, never as wrong rows ... all rows before the failing call
   are identical to those of a fault-free run" -- and, for a caller that keeps calling next(),
   all rows AFTER it too.

   Setting: a test on which try_iter_static succeeds (the program reads no device output) and
   whose declared (virtual) signals draw no random numbers.  Take ANY two drivers D1 D2, of
   possibly different error types, the same generator, fuel and number n of next() calls, either
   write_input variant on either side.  Then the two runs of the continuing caller
   (RunRefineE.collect_e) agree item by item on everything that does not come from the device
   (sim_items_2):
     - two rows at the same place: same inputs, same expected values, same line (static_row);
     - an evaluation error item against an evaluation error item: the same error;
     - None against None only;
     - a device failure / unusable answer item (VErr (IE_Driver _), or a runtime error that is
       not an expression error) on one side: the other side has a row, an evaluation error (of a
       declared signal), or a device failure of its own -- never None -- and THE COMPARISON GOES
       ON with the following items: both runs stay in step.
   Route: both dynamic runs are previewed by the same static run
   (DeterminismProofE.C15_static_equals_dynamic_ee); the two simulations are composed
   (sim_items_e_compose).

   Panics / out of fuel.  collect_e cuts the item list where the model panics or runs out of
   fuel (state None).  sim_items_2 therefore compares the two lists as far as BOTH go
   (fault_transparency); when neither run is cut the lists have the same length and are related
   item by item (fault_transparency_in_step: Forall2 sim_view_2).  The static run is required
   not to be cut (hypothesis `collect_e ... = (items_s, Some end_s)`), as in C15.

   Corollary (rows_after_a_fault_are_those_of_the_fault_free_run): if D2 never fails and always
   answers with a usable layout on this run, every row of the D1-run has the same static_row as
   the item at the same position of the D2-run, every evaluation error of the D1-run is the
   same error at the same position of the D2-run, a device failure of the D1-run stands where
   the D2-run has a row or an evaluation error, and the D1-run has the same length: a transient
   device failure costs exactly the failed rows and nothing else.

   Necessity of `virtuals_no_random`: fault_transparency_needs_no_random, the witness of
   DeterminismProofE.c15v_random_counterexample run against two dynamic drivers (one fails
   once, one never fails). *)
From Coq Require Import String.
From DTR Require Import Prelude I64 Ast FramedMap Lexer Parser Bind Eval Stmt Iter WfSpec Script Static.
From DTR.proofs Require Import EvalProof StmtRefine IterLogProof NoPanicProof OutputsProof
                               RunRefineE IterLogProofE DeterminismProof DeterminismProofE.
Local Open Scope nat_scope.

Local Arguments ItNone {DE} st.
Local Arguments ItRow {DE} row st.
Local Arguments ItErr {DE} e st.
Local Arguments ItPanic {DE} s.
Local Arguments ItOOF {DE}.
Local Arguments NewOk {DE} st.

(* ================================================================== the relation *)

(* the item comes from the device: the driver returned an error, or its answer was unusable
   (wrong number / order of outputs, missing outputs) *)
Definition dev_fail_item {DE} (v : item_view DE) : Prop :=
  match v with
  | VErr (IE_Driver _) => True
  | VErr (IE_Runtime (RT_Expr _)) => False
  | VErr (IE_Runtime _) => True
  | VRow _ | VNone => False
  end.

Definition not_end {DE} (v : item_view DE) : Prop :=
  match v with VNone => False | _ => True end.

(* one item of the D1-run against the item at the same place of the D2-run *)
Definition sim_view_2 {DE1 DE2} (a : item_view DE1) (b : item_view DE2) : Prop :=
  match a, b with
  | VRow r1, VRow r2 => static_row r1 = static_row r2
  | VErr (IE_Runtime (RT_Expr x1)), VErr (IE_Runtime (RT_Expr x2)) => x1 = x2
  | VNone, VNone => True
  | _, _ => (dev_fail_item a /\ not_end b) \/ (dev_fail_item b /\ not_end a)
  end.

(* the two item lists, as far as both go (a list is cut only by a panic / out of fuel of the
   model: see fault_transparency_in_step for the uncut case) *)
Fixpoint sim_items_2 {DE1 DE2} (a : list (item_view DE1)) (b : list (item_view DE2)) {struct a} : Prop :=
  match a, b with
  | x :: a', y :: b' => sim_view_2 x y /\ sim_items_2 a' b'
  | _, _ => True
  end.

Lemma sim_view_2_sym : forall DE1 DE2 (a : item_view DE1) (b : item_view DE2),
  sim_view_2 a b -> sim_view_2 b a.
Proof.
  intros DE1 DE2 a b.
  destruct a as [r|[e|[| | |x]]|]; destruct b as [r'|[e'|[| | |x']]|]; cbn [sim_view_2];
    intro H; try (symmetry; exact H); try exact I;
    (destruct H as [H|H]; [right|left]; exact H).
Qed.

Lemma sim_items_2_sym : forall DE1 DE2 (a : list (item_view DE1)) (b : list (item_view DE2)),
  sim_items_2 a b -> sim_items_2 b a.
Proof.
  intros DE1 DE2. induction a as [|x a IH]; intros [|y b] H; try exact I.
  cbn [sim_items_2] in *. destruct H as [H1 H2]. split; [apply sim_view_2_sym; exact H1 | apply IH; exact H2].
Qed.

Lemma sim_view_2_none_l : forall DE1 DE2 (b : item_view DE2), sim_view_2 (@VNone DE1) b -> b = VNone.
Proof.
  intros DE1 DE2 b. destruct b as [r'|[e'|[| | |x']]|]; cbn [sim_view_2 dev_fail_item not_end]; intro H;
    try reflexivity; destruct H as [[H1 H2]|[H1 H2]]; contradiction.
Qed.

Lemma sim_view_2_none_r : forall DE1 DE2 (a : item_view DE1), sim_view_2 a (@VNone DE2) -> a = VNone.
Proof. intros DE1 DE2 a H. apply sim_view_2_sym in H. eapply sim_view_2_none_l. exact H. Qed.

(* the headline clauses, one by one *)
Lemma sim_view_2_rows : forall DE1 DE2 r1 r2,
  sim_view_2 (@VRow DE1 r1) (@VRow DE2 r2) <-> static_row r1 = static_row r2.
Proof. intros. reflexivity. Qed.

Lemma sim_view_2_eval_errors : forall DE1 DE2 x1 x2,
  sim_view_2 (@VErr DE1 (IE_Runtime (RT_Expr x1))) (@VErr DE2 (IE_Runtime (RT_Expr x2))) <-> x1 = x2.
Proof. intros. reflexivity. Qed.

Lemma sim_view_2_row_eval_error : forall DE1 DE2 r x,
  ~ sim_view_2 (@VRow DE1 r) (@VErr DE2 (IE_Runtime (RT_Expr x))).
Proof. intros DE1 DE2 r x [[H _]|[H _]]; exact H. Qed.

Lemma sim_view_2_dev_fail : forall DE1 DE2 (a : item_view DE1) (b : item_view DE2),
  dev_fail_item a -> (sim_view_2 a b <-> not_end b).
Proof.
  intros DE1 DE2 a b Ha.
  destruct a as [r|[e|[| | |x]]|]; try contradiction;
    (split; [intro H|intro Hb]);
    try (destruct b as [r'|[e'|[| | |x']]|]; cbn [sim_view_2 dev_fail_item not_end] in *;
         try exact I; try contradiction; try (left; split; exact I);
         destruct H as [[_ H]|[H _]]; exact H).
Qed.

(* ================================================================== composing two previews *)

(* what sim_items_e true says about the static item in front of a dynamic item *)
Definition prev_view {DE} (vs : item_view N) (v : item_view DE) : Prop :=
  match v with
  | VRow r' => exists r, vs = VRow r /\ static_row r' = static_row r
  | VErr (IE_Runtime (RT_Expr x)) => vs = VErr (IE_Runtime (RT_Expr x))
  | VErr _ => (exists r, vs = VRow r) \/ (exists x, vs = VErr (IE_Runtime (RT_Expr x)))
  | VNone => vs = VNone
  end.

Lemma sim_items_e_inv : forall DE (s : list (item_view N)) (v : item_view DE) d,
  sim_items_e true s (v :: d) ->
  exists vs s', s = vs :: s' /\ prev_view vs v /\ sim_items_e true s' d.
Proof.
  intros DE s v d H.
  destruct v as [r'|[e'|[| | |x']]|]; cbn [sim_items_e] in H;
    destruct s as [|[r|[e|[| | |x]]|] s']; try contradiction;
    try (destruct H as [H1 H2]); eexists; eexists; (split; [reflexivity|]); cbn [prev_view];
    try (split; [|eassumption]); eauto.
  - subst x'. reflexivity.
Qed.

Lemma prev_view_compose : forall DE1 DE2 vs (v1 : item_view DE1) (v2 : item_view DE2),
  prev_view vs v1 -> prev_view vs v2 -> sim_view_2 v1 v2.
Proof.
  intros DE1 DE2 vs v1 v2 H1 H2.
  destruct v1 as [r1|[e1|[| | |x1]]|]; cbn [prev_view] in H1;
    destruct v2 as [r2|[e2|[| | |x2]]|]; cbn [prev_view] in H2;
    cbn [sim_view_2 dev_fail_item not_end];
    repeat match goal with
           | H : exists _, _ |- _ => destruct H
           | H : _ /\ _ |- _ => destruct H
           | H : _ \/ _ |- _ => destruct H
           end; subst; try discriminate; try exact I;
    try (left; split; exact I); try (right; split; exact I);
    try match goal with H : VRow _ = VRow _ |- _ => injection H as H; subst end;
    try match goal with H : VErr _ = VErr _ |- _ => injection H as H; subst end;
    try congruence.
Qed.

(* two dynamic runs previewed by the same static run agree with each other *)
Lemma sim_items_e_compose : forall DE1 DE2 (d1 : list (item_view DE1)) (d2 : list (item_view DE2)) s,
  sim_items_e true s d1 -> sim_items_e true s d2 -> sim_items_2 d1 d2.
Proof.
  intros DE1 DE2. induction d1 as [|v1 d1 IH]; intros [|v2 d2] s H1 H2; try exact I.
  apply sim_items_e_inv in H1. apply sim_items_e_inv in H2.
  destruct H1 as [vs [s' [-> [P1 R1]]]]. destruct H2 as [vs2 [s2 [E [P2 R2]]]].
  injection E as <- <-. cbn [sim_items_2]. split.
  - eapply prev_view_compose; eassumption.
  - eapply IH; eassumption.
Qed.

(* ================================================================== the shape of collect_e's list *)

(* at most n items, None only as the last one: every list collect_e returns *)
Fixpoint within {DE} (n : nat) (l : list (item_view DE)) {struct l} : Prop :=
  match l with
  | [] => True
  | v :: l' =>
      match n with
      | O => False
      | S n' => match v with VNone => l' = [] | _ => within n' l' end
      end
  end.

(* exactly n items, or fewer with None as the last one: the list of a run that was not cut by a
   panic / out of fuel *)
Fixpoint full {DE} (n : nat) (l : list (item_view DE)) {struct n} : Prop :=
  match n with
  | O => l = []
  | S n' =>
      match l with
      | [] => False
      | VNone :: l' => l' = []
      | _ :: l' => full n' l'
      end
  end.

Lemma collect_e_within : forall G DE (D : driver DE) w tc fuel n st,
  within n (fst (collect_e G DE D w tc fuel n st)).
Proof.
  intros G DE D w tc fuel. induction n as [|n IH]; intro st; [exact I|].
  rewrite collect_e_S. destruct (inext G DE D w tc fuel st) as [s1|row s1|e s1|p|].
  - cbn. reflexivity.
  - specialize (IH s1). destruct (collect_e G DE D w tc fuel n s1) as [l s]. exact IH.
  - specialize (IH s1). destruct (collect_e G DE D w tc fuel n s1) as [l s]. exact IH.
  - exact I.
  - exact I.
Qed.

Lemma collect_e_full : forall G DE (D : driver DE) w tc fuel n st l s,
  collect_e G DE D w tc fuel n st = (l, Some s) -> full n l.
Proof.
  intros G DE D w tc fuel. induction n as [|n IH]; intros st l s H.
  - cbn in H. injection H as <- _. reflexivity.
  - rewrite collect_e_S in H. destruct (inext G DE D w tc fuel st) as [s1|row s1|e s1|p|]; try discriminate H.
    + injection H as <- _. cbn. reflexivity.
    + destruct (collect_e G DE D w tc fuel n s1) as [l1 so] eqn:E. injection H as <- ->.
      cbn [full]. eapply IH. exact E.
    + destruct (collect_e G DE D w tc fuel n s1) as [l1 so] eqn:E. injection H as <- ->.
      cbn [full]. eapply IH. exact E.
Qed.

Lemma full_length_le : forall DE n (l : list (item_view DE)), full n l -> length l <= n.
Proof.
  intros DE. induction n as [|n IH]; intros l H; cbn [full] in H.
  - subst l. apply le_n.
  - destruct l as [|[r|e|] l]; [contradiction| | |]; cbn [length].
    + apply le_n_S. apply IH. exact H.
    + apply le_n_S. apply IH. exact H.
    + subst l. apply le_n_S. apply Nat.le_0_l.
Qed.

(* uncut lists related as far as both go are related item by item *)
Lemma sim_items_2_full : forall DE1 DE2 n (a : list (item_view DE1)) (b : list (item_view DE2)),
  full n a -> full n b -> sim_items_2 a b -> Forall2 sim_view_2 a b.
Proof.
  intros DE1 DE2. induction n as [|n IH]; intros a b Ha Hb H; cbn [full] in Ha, Hb.
  - subst a b. constructor.
  - destruct a as [|x a]; [contradiction|]. destruct b as [|y b]; [contradiction|].
    cbn [sim_items_2] in H. destruct H as [Hxy H]. constructor; [exact Hxy|].
    destruct x as [r|e|].
    + destruct y as [r'|e'|]; [apply IH; assumption | apply IH; assumption|].
      apply sim_view_2_none_r in Hxy. discriminate Hxy.
    + destruct y as [r'|e'|]; [apply IH; assumption | apply IH; assumption|].
      apply sim_view_2_none_r in Hxy. discriminate Hxy.
    + apply sim_view_2_none_l in Hxy. subst y a b. constructor.
Qed.

(* the first list possibly cut, the second not: the first is related to a prefix of the second *)
Lemma sim_items_2_within_full : forall DE1 DE2 n (a : list (item_view DE1)) (b : list (item_view DE2)),
  within n a -> full n b -> sim_items_2 a b ->
  exists b1 b2, b = b1 ++ b2 /\ Forall2 sim_view_2 a b1.
Proof.
  intros DE1 DE2. induction n as [|n IH]; intros a b Ha Hb H.
  - destruct a as [|x a]; [|contradiction]. exists [], b. split; [reflexivity | constructor].
  - destruct a as [|x a]; [exists [], b; split; [reflexivity | constructor]|].
    cbn [full] in Hb. destruct b as [|y b]; [contradiction|].
    cbn [within] in Ha. cbn [sim_items_2] in H. destruct H as [Hxy H].
    assert (K : within n a -> full n b -> exists b1 b2, y :: b = b1 ++ b2 /\ Forall2 sim_view_2 (x :: a) b1).
    { intros Ka Kb. destruct (IH a b Ka Kb H) as [b1 [b2 [-> F]]].
      exists (y :: b1), b2. split; [reflexivity | constructor; assumption]. }
    destruct x as [r|e|].
    + destruct y as [r'|e'|]; [apply K; assumption | apply K; assumption|].
      apply sim_view_2_none_r in Hxy. discriminate Hxy.
    + destruct y as [r'|e'|]; [apply K; assumption | apply K; assumption|].
      apply sim_view_2_none_r in Hxy. discriminate Hxy.
    + pose proof (sim_view_2_none_l _ _ _ Hxy) as ->. subst a b.
      exists [VNone], []. split; [reflexivity|]. constructor; [exact I | constructor].
Qed.

Lemma Forall2_len : forall A B (Q : A -> B -> Prop) l l', Forall2 Q l l' -> length l = length l'.
Proof. intros A B Q l l' H. induction H; cbn [length]; [reflexivity | f_equal; assumption]. Qed.

(* ================================================================== FAULT TRANSPARENCY *)

(* from any two dynamic states related to the same static state *)
Theorem fault_transparency_gen :
  forall G tc DE1 DE2 (D1 : driver DE1) (D2 : driver DE2) w1 w2 fuel n st0 st1 st2 items_s end_s,
  strel_v st0 st1 -> strel_v st0 st2 ->
  no_random_entries (i_outidx st1) = true -> no_random_entries (i_outidx st2) = true ->
  collect_e G N static_driver true tc fuel n st0 = (items_s, Some end_s) ->
  no_unknown items_s ->
  sim_items_2 (fst (collect_e G DE1 D1 w1 tc fuel n st1)) (fst (collect_e G DE2 D2 w2 tc fuel n st2)).
Proof.
  intros G tc DE1 DE2 D1 D2 w1 w2 fuel n st0 st1 st2 items_s end_s R1 R2 N1 N2 Hc Hu.
  eapply sim_items_e_compose.
  - eapply C15_static_previews_dynamic_ee; [exact R1 | exact N1 | exact Hc | exact Hu].
  - eapply C15_static_previews_dynamic_ee; [exact R2 | exact N2 | exact Hc | exact Hu].
Qed.

(* from the constructors on: any two drivers *)
Theorem fault_transparency :
  forall G tc DE1 DE2 (D1 : driver DE1) (D2 : driver DE2) w1 w2 fuel n st0 st1 st2 items_s end_s,
  try_iter_static tc = StaticOk st0 -> virtuals_no_random tc ->
  try_new DE1 D1 tc = NewOk st1 -> try_new DE2 D2 tc = NewOk st2 ->
  collect_e G N static_driver true tc fuel n st0 = (items_s, Some end_s) ->
  no_unknown items_s ->
  sim_items_2 (fst (collect_e G DE1 D1 w1 tc fuel n st1)) (fst (collect_e G DE2 D2 w2 tc fuel n st2)).
Proof.
  intros G tc DE1 DE2 D1 D2 w1 w2 fuel n st0 st1 st2 items_s end_s Hs Hnr H1 H2 Hc Hu.
  eapply sim_items_e_compose.
  - eapply C15_static_equals_dynamic_ee; eassumption.
  - eapply C15_static_equals_dynamic_ee; eassumption.
Qed.

(* both runs go on IN STEP: when neither run is cut by a panic / out of fuel of the model, the
   two lists have the same length (in particular None comes at the same call, if it comes) and
   are related item by item *)
Theorem fault_transparency_in_step :
  forall G tc DE1 DE2 (D1 : driver DE1) (D2 : driver DE2) w1 w2 fuel n st0 st1 st2 items_s end_s
         items1 end1 items2 end2,
  try_iter_static tc = StaticOk st0 -> virtuals_no_random tc ->
  try_new DE1 D1 tc = NewOk st1 -> try_new DE2 D2 tc = NewOk st2 ->
  collect_e G N static_driver true tc fuel n st0 = (items_s, Some end_s) ->
  no_unknown items_s ->
  collect_e G DE1 D1 w1 tc fuel n st1 = (items1, Some end1) ->
  collect_e G DE2 D2 w2 tc fuel n st2 = (items2, Some end2) ->
  Forall2 sim_view_2 items1 items2 /\ length items1 = length items2.
Proof.
  intros G tc DE1 DE2 D1 D2 w1 w2 fuel n st0 st1 st2 items_s end_s items1 end1 items2 end2
         Hs Hnr H1 H2 Hc Hu C1 C2.
  pose proof (fault_transparency G tc DE1 DE2 D1 D2 w1 w2 fuel n st0 st1 st2 items_s end_s
                Hs Hnr H1 H2 Hc Hu) as F.
  rewrite C1, C2 in F. cbn [fst] in F.
  assert (K : Forall2 sim_view_2 items1 items2).
  { eapply sim_items_2_full; [eapply collect_e_full; exact C1 | eapply collect_e_full; exact C2 | exact F]. }
  split; [exact K | eapply Forall2_len; exact K].
Qed.

(* ================================================================== the corollary for C13 *)

(* the driver never failed and always answered with a usable layout on this run *)
Definition fault_free {DE} (l : list (item_view DE)) : Prop := Forall (fun v => ~ dev_fail_item v) l.

(* an item of a run with device failures (a) against the item at the same place of a fault-free
   run (b): rows, evaluation errors and the end are those of the fault-free run; a device
   failure stands where the fault-free run has a row or an evaluation error *)
Definition explained_by {DE1 DE2} (a : item_view DE1) (b : item_view DE2) : Prop :=
  match a with
  | VRow r => exists r', b = VRow r' /\ static_row r = static_row r'
  | VErr (IE_Runtime (RT_Expr x)) => b = VErr (IE_Runtime (RT_Expr x))
  | VErr _ => (exists r', b = VRow r') \/ (exists x, b = VErr (IE_Runtime (RT_Expr x)))
  | VNone => b = VNone
  end.

Lemma sim_view_2_explained : forall DE1 DE2 (a : item_view DE1) (b : item_view DE2),
  sim_view_2 a b -> ~ dev_fail_item b -> explained_by a b.
Proof.
  intros DE1 DE2 a b H Hb.
  destruct a as [r|[e|[| | |x]]|]; destruct b as [r'|[e'|[| | |x']]|];
    cbn [sim_view_2 dev_fail_item not_end explained_by] in *;
    try (exfalso; apply Hb; exact I);
    try (destruct H as [[H1 H2]|[H1 H2]]; contradiction);
    eauto.
  - subst x'. reflexivity.
Qed.

Lemma Forall2_explained : forall DE1 DE2 (a : list (item_view DE1)) (b : list (item_view DE2)),
  Forall2 sim_view_2 a b -> fault_free b -> Forall2 explained_by a b.
Proof.
  intros DE1 DE2 a b H. induction H as [|x y a b Hxy _ IH]; intro Hb; constructor.
  - apply sim_view_2_explained; [exact Hxy|]. inversion Hb; assumption.
  - apply IH. inversion Hb; assumption.
Qed.

Lemma Forall2_explained_row_at : forall DE1 DE2 (a : list (item_view DE1)) (b1 b2 : list (item_view DE2)),
  Forall2 explained_by a b1 ->
  forall k r, nth_error a k = Some (VRow r) ->
  exists r', nth_error (b1 ++ b2) k = Some (VRow r') /\ static_row r = static_row r'.
Proof.
  intros DE1 DE2 a b1 b2 H. induction H as [|x y a b1 Hxy _ IH]; intros k r Hk.
  - destruct k; discriminate Hk.
  - destruct k as [|k]; cbn [nth_error app] in *.
    + injection Hk as ->. cbn [explained_by] in Hxy. destruct Hxy as [r' [-> E]]. eauto.
    + apply IH. exact Hk.
Qed.

Lemma Forall2_explained_eval_at : forall DE1 DE2 (a : list (item_view DE1)) (b1 b2 : list (item_view DE2)),
  Forall2 explained_by a b1 ->
  forall k x, nth_error a k = Some (VErr (IE_Runtime (RT_Expr x))) ->
  nth_error (b1 ++ b2) k = Some (VErr (IE_Runtime (RT_Expr x))).
Proof.
  intros DE1 DE2 a b1 b2 H. induction H as [|x0 y a b1 Hxy _ IH]; intros k x Hk.
  - destruct k; discriminate Hk.
  - destruct k as [|k]; cbn [nth_error app] in *.
    + injection Hk as ->. cbn [explained_by] in Hxy. subst y. reflexivity.
    + apply IH. exact Hk.
Qed.

(* the D1-run (possibly cut by a panic of the model) against an uncut fault-free D2-run: item by
   item explained by a prefix of the D2-run *)
Theorem faulty_run_explained_by_fault_free_run :
  forall G tc DE1 DE2 (D1 : driver DE1) (D2 : driver DE2) w1 w2 fuel n st0 st1 st2 items_s end_s
         items2 end2,
  try_iter_static tc = StaticOk st0 -> virtuals_no_random tc ->
  try_new DE1 D1 tc = NewOk st1 -> try_new DE2 D2 tc = NewOk st2 ->
  collect_e G N static_driver true tc fuel n st0 = (items_s, Some end_s) ->
  no_unknown items_s ->
  collect_e G DE2 D2 w2 tc fuel n st2 = (items2, Some end2) ->
  fault_free items2 ->
  exists p rest, items2 = p ++ rest /\
                 Forall2 explained_by (fst (collect_e G DE1 D1 w1 tc fuel n st1)) p /\
                 (snd (collect_e G DE1 D1 w1 tc fuel n st1) <> None -> rest = []).
Proof.
  intros G tc DE1 DE2 D1 D2 w1 w2 fuel n st0 st1 st2 items_s end_s items2 end2
         Hs Hnr H1 H2 Hc Hu C2 Hff.
  pose proof (fault_transparency G tc DE1 DE2 D1 D2 w1 w2 fuel n st0 st1 st2 items_s end_s
                Hs Hnr H1 H2 Hc Hu) as F.
  rewrite C2 in F. cbn [fst] in F.
  pose proof (collect_e_full _ _ _ _ _ _ _ _ _ _ C2) as Fu2.
  destruct (collect_e G DE1 D1 w1 tc fuel n st1) as [items1 [end1|]] eqn:C1; cbn [fst snd] in *.
  - pose proof (collect_e_full _ _ _ _ _ _ _ _ _ _ C1) as Fu1.
    exists items2, []. split; [symmetry; apply app_nil_r|]. split; [|reflexivity].
    apply Forall2_explained; [|exact Hff]. eapply sim_items_2_full; eassumption.
  - pose proof (collect_e_within G DE1 D1 w1 tc fuel n st1) as W1. rewrite C1 in W1. cbn [fst] in W1.
    destruct (sim_items_2_within_full _ _ _ _ _ W1 Fu2 F) as [p [rest [-> K]]].
    exists p, rest. split; [reflexivity|]. split; [|intro X; exfalso; apply X; reflexivity].
    apply Forall2_explained; [exact K|]. unfold fault_free in *. apply Forall_app in Hff. exact (proj1 Hff).
Qed.

(* THE COROLLARY: a transient device failure costs exactly the failed rows and nothing else *)
Theorem rows_after_a_fault_are_those_of_the_fault_free_run :
  forall G tc DE1 DE2 (D1 : driver DE1) (D2 : driver DE2) w1 w2 fuel n st0 st1 st2 items_s end_s
         items2 end2,
  try_iter_static tc = StaticOk st0 -> virtuals_no_random tc ->
  try_new DE1 D1 tc = NewOk st1 -> try_new DE2 D2 tc = NewOk st2 ->
  collect_e G N static_driver true tc fuel n st0 = (items_s, Some end_s) ->
  no_unknown items_s ->
  collect_e G DE2 D2 w2 tc fuel n st2 = (items2, Some end2) ->
  fault_free items2 ->
  let items1 := fst (collect_e G DE1 D1 w1 tc fuel n st1) in
  (* every row of the D1-run, before or after a failure, is the row of the D2-run at that place *)
  (forall k r, nth_error items1 k = Some (VRow r) ->
     exists r', nth_error items2 k = Some (VRow r') /\ static_row r = static_row r') /\
  (* every evaluation error of the D1-run is the one of the D2-run at that place *)
  (forall k x, nth_error items1 k = Some (VErr (IE_Runtime (RT_Expr x))) ->
     nth_error items2 k = Some (VErr (IE_Runtime (RT_Expr x)))) /\
  (* the D1-run is as long as the D2-run (n items, or up to None at the same call), item by item *)
  (snd (collect_e G DE1 D1 w1 tc fuel n st1) <> None ->
     length items1 = length items2 /\ Forall2 explained_by items1 items2).
Proof.
  intros G tc DE1 DE2 D1 D2 w1 w2 fuel n st0 st1 st2 items_s end_s items2 end2
         Hs Hnr H1 H2 Hc Hu C2 Hff items1.
  destruct (faulty_run_explained_by_fault_free_run G tc DE1 DE2 D1 D2 w1 w2 fuel n st0 st1 st2
              items_s end_s items2 end2 Hs Hnr H1 H2 Hc Hu C2 Hff) as [p [rest [-> [K Hrest]]]].
  fold items1 in K. split; [|split].
  - intros k r Hk. eapply Forall2_explained_row_at; eassumption.
  - intros k x Hk. eapply Forall2_explained_eval_at; eassumption.
  - intro Hne. rewrite (Hrest Hne), app_nil_r. split; [eapply Forall2_len; exact K | exact K].
Qed.

(* ================================================================== `virtuals_no_random` is needed *)

(* The test of DeterminismProofE.c15v_random_counterexample:
       A
       declare v = random(10);
       1
       (random(10))
   D1 = c15v_device2 fails at the first row and works again afterwards; D2 never fails (and has
   another error type).  The D2-run has drawn a number for v at the first row, the D1-run has
   not: at the second row the two runs send different inputs. *)
Definition ft_good_device : driver unit := fun _ _ => DrvOk [].

Example fault_transparency_counterexample :
  match c15v_tc2 with
  | Some tc =>
      tc_read_outputs tc = [] /\
      match try_iter_static tc, try_new N c15v_device2 tc, try_new unit ft_good_device tc with
      | StaticOk st0, NewOk st1, NewOk st2 =>
          let s := collect_e c15v_gen N static_driver true tc 20 3 st0 in
          let d1 := collect_e c15v_gen N c15v_device2 true tc 20 3 st1 in
          let d2 := collect_e c15v_gen unit ft_good_device true tc 20 3 st2 in
          (exists end_s, snd s = Some end_s) /\ no_unknown (fst s) /\
          map (fun v => match v with VRow r => map ie_val (dr_inputs r) | _ => [] end) (fst d1)
            = [[]; [IVal 0%Z]; []] /\
          map (fun v => match v with VRow r => map ie_val (dr_inputs r) | _ => [] end) (fst d2)
            = [[IVal 1%Z]; [IVal 1%Z]; []] /\
          match fst d1 with VErr (IE_Driver 7%N) :: VRow _ :: VNone :: nil => True | _ => False end /\
          match fst d2 with VRow _ :: VRow _ :: VNone :: nil => True | _ => False end /\
          ~ sim_items_2 (fst d1) (fst d2)
      | _, _, _ => False
      end
  | None => False
  end.
Proof.
  vm_compute. split; [reflexivity|]. split; [eexists; reflexivity|].
  split; [intros x [K|[K|[K|[]]]]; discriminate K|].
  split; [reflexivity|]. split; [reflexivity|]. split; [exact I|]. split; [exact I|].
  intros [_ [H _]]. discriminate H.
Qed.

(* fault_transparency with the hypothesis on random() dropped is false *)
Theorem fault_transparency_needs_no_random :
  ~ (forall G tc DE1 DE2 (D1 : driver DE1) (D2 : driver DE2) w1 w2 fuel n st0 st1 st2 items_s end_s,
       try_iter_static tc = StaticOk st0 ->
       try_new DE1 D1 tc = NewOk st1 -> try_new DE2 D2 tc = NewOk st2 ->
       collect_e G N static_driver true tc fuel n st0 = (items_s, Some end_s) ->
       no_unknown items_s ->
       sim_items_2 (fst (collect_e G DE1 D1 w1 tc fuel n st1)) (fst (collect_e G DE2 D2 w2 tc fuel n st2))).
Proof.
  intro H. pose proof fault_transparency_counterexample as C.
  destruct c15v_tc2 as [tc|]; [|contradiction]. destruct C as [_ C].
  destruct (try_iter_static tc) as [st0| |] eqn:Es; try contradiction.
  destruct (try_new N c15v_device2 tc) as [st1| |] eqn:E1; try contradiction.
  destruct (try_new unit ft_good_device tc) as [st2| |] eqn:E2; try contradiction.
  cbv zeta in C. destruct C as [[end_s C1] [C2 [_ [_ [_ [_ C3]]]]]].
  destruct (collect_e c15v_gen N static_driver true tc 20 3 st0) as [items_s so] eqn:Ec.
  cbn [fst snd] in *. subst so.
  apply C3. exact (H c15v_gen tc N unit c15v_device2 ft_good_device true true 20 3 st0 st1 st2
                     items_s end_s Es E1 E2 Ec C2).
Qed.

(* ================================================================== the hypotheses are satisfiable *)

(*     A
       declare v = 3;
       1
       0
       1
   D1 = c15v_device2 fails at the first row and works again afterwards; D2 never fails.  All
   hypotheses of rows_after_a_fault_are_those_of_the_fault_free_run hold; the D1-run is
   [device error; row; row; None], the D2-run [row; row; row; None]. *)
Definition ft_text : text :=
  (s2n "A" ++ [10%N] ++ s2n "declare v = 3;" ++ [10%N] ++ s2n "1" ++ [10%N] ++ s2n "0" ++ [10%N] ++
   s2n "1" ++ [10%N])%list.

Definition ft_tc : option testcase :=
  match parse ft_text with
  | Ok p => match with_signals p [c15_sig_A] with Ok tc => Some tc | _ => None end
  | _ => None
  end.

Example fault_transparency_witness :
  match ft_tc with
  | Some tc =>
      virtuals_no_random tc /\
      match try_iter_static tc, try_new N c15v_device2 tc, try_new unit ft_good_device tc with
      | StaticOk st0, NewOk st1, NewOk st2 =>
          let s := collect_e c15_gen N static_driver true tc 20 5 st0 in
          let d1 := collect_e c15_gen N c15v_device2 false tc 20 5 st1 in
          let d2 := collect_e c15_gen unit ft_good_device true tc 20 5 st2 in
          (exists end_s, snd s = Some end_s) /\ no_unknown (fst s) /\
          (exists end2, snd d2 = Some end2) /\ fault_free (fst d2) /\
          (exists end1, snd d1 = Some end1) /\
          match fst d1 with VErr (IE_Driver 7%N) :: VRow _ :: VRow _ :: VNone :: nil => True | _ => False end /\
          match fst d2 with VRow _ :: VRow _ :: VRow _ :: VNone :: nil => True | _ => False end /\
          map (fun v => match v with VRow r => map ie_val (dr_inputs r) | _ => [] end) (fst d1)
            = [[]; [IVal 0%Z]; [IVal 1%Z]; []] /\
          map (fun v => match v with VRow r => map ie_val (dr_inputs r) | _ => [] end) (fst d2)
            = [[IVal 1%Z]; [IVal 0%Z]; [IVal 1%Z]; []]
      | _, _, _ => False
      end
  | None => False
  end.
Proof.
  vm_compute. split; [repeat constructor|]. split; [eexists; reflexivity|].
  split; [intros x [K|[K|[K|[K|[]]]]]; discriminate K|].
  split; [eexists; reflexivity|].
  split; [repeat constructor; intro K; exact K|].
  split; [eexists; reflexivity|].
  split; [exact I|]. split; [exact I|]. split; reflexivity.
Qed.

Local Close Scope nat_scope.

Check @sim_view_2.
Check @sim_items_2.
Check sim_view_2_sym.
Check sim_items_2_sym.
Check sim_view_2_rows.
Check sim_view_2_eval_errors.
Check sim_view_2_row_eval_error.
Check sim_view_2_dev_fail.
Check sim_view_2_none_l.
Check sim_view_2_none_r.
Check sim_items_e_compose.
Check fault_transparency_gen.
Check fault_transparency.
Check fault_transparency_in_step.
Check faulty_run_explained_by_fault_free_run.
Check rows_after_a_fault_are_those_of_the_fault_free_run.
Check fault_transparency_counterexample.
Check fault_transparency_needs_no_random.
Check fault_transparency_witness.

Print Assumptions sim_items_2_sym.
Print Assumptions sim_view_2_dev_fail.
Print Assumptions sim_items_e_compose.
Print Assumptions fault_transparency_gen.
Print Assumptions fault_transparency.
Print Assumptions fault_transparency_in_step.
Print Assumptions faulty_run_explained_by_fault_free_run.
Print Assumptions rows_after_a_fault_are_those_of_the_fault_free_run.
Print Assumptions fault_transparency_counterexample.
Print Assumptions fault_transparency_needs_no_random.
Print Assumptions fault_transparency_witness.
