(* Pins between the tables regenerated from the sources (GeneratedTables.v, Generated.v) and the
   hand-written tables and functions of the model (operators, functions, width mask, verdict); the lexer's
   tables are in TablesProofLex.v. *)
From DTR Require Import Prelude I64 Ast Generated GeneratedTables FramedMap Lexer Parser Eval.
From Coq Require Import String Ascii.
Local Open Scope string_scope.

(* ---- the hand-written tables of the model ARE the ones of the source (regenerated on every run) *)
Lemma precedence_pinned : forall op, precedence op = gen_precedence op.
Proof. destruct op; reflexivity. Qed.
Lemma is_binary_op_pinned : forall k, is_binary_op k = gen_is_binary_op k.
Proof. destruct k; reflexivity. Qed.
Lemma binop_of_token_pinned : forall k, binop_of_token k = gen_binop_of_token k.
Proof. destruct k; reflexivity. Qed.
Lemma unop_of_token_pinned : forall k, unop_of_token k = gen_unop_of_token k.
Proof. destruct k; reflexivity. Qed.
Lemma func_table_pinned : func_table = gen_func_table.
Proof. reflexivity. Qed.
Lemma func_table_count : List.length gen_func_table = 3%nat.
Proof. reflexivity. Qed.

(* ---- the operator arms, the width mask and the verdict function of the model ARE those of the
   source (translated arm by arm from src/expr.rs, src/data_row_iterator.rs, src/value.rs) *)
Lemma binop_eval_pinned : forall op l r,
  binop_eval op l r =
  if (r =? 0)%Z && existsb (binop_beq op) gen_div_guard then Err XE_DivisionByZero
  else Ok (gen_binop_value op l r).
Proof. intros op l r. unfold binop_eval. destruct op; reflexivity. Qed.
Lemma unop_eval_pinned : forall op v, unop_eval op v = gen_unop_value op v.
Proof. destruct op; reflexivity. Qed.
Lemma bit_mask_pinned : forall bits, bit_mask bits = gen_bit_mask bits.
Proof. reflexivity. Qed.
Lemma expected_check_pinned : forall e o, expected_check e o = gen_expected_check e o.
Proof. reflexivity. Qed.
