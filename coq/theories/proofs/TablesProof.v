(* Pins between the tables regenerated from the sources (GeneratedTables.v, Generated.v) and the
   hand-written parts of the lexer model: if a token or regular expression of src/lexer/token.rs
   changes, these stop compiling and the lexer model has to be revisited. *)
From DTR Require Import Prelude I64 Ast Generated GeneratedTables FramedMap Lexer Parser Eval.
From Coq Require Import String Ascii.
Local Open Scope string_scope.

(* the regular expressions the hand-written scanner of Lexer.v was written for *)
Lemma regexes_pinned : gen_regexes =
  [ ("Ident", "[A-Za-z_]([A-Za-z]|_|\d)*"); ("DecInt", "[1-9][0-9]*"); ("HexInt", "0[xX][0-9a-fA-F]+");
    ("BinInt", "0[bB][01]+"); ("OctInt", "0[0-7]*"); ("WS", "[ \t\r\f]+"); ("Comment", "#[^\n]*") ].
Proof. reflexivity. Qed.

(* ... and the header scanner (lex_header): names are maximal runs of anything but space, TAB, CR, FF, LF *)
Lemma header_regexes_pinned :
  gen_header_regexes = [ ("SignalName", "[^ \t\r\f\n]+"); ("WS", "[ \t\r\f]+") ] /\
  gen_header_tokens = [ ("Eol", "\n") ].
Proof. split; reflexivity. Qed.

(* every punctuation token declared in the source is what the scanner produces for that text ... *)
Lemma punct_tokens_lexed : forallb (fun p =>
    match lex_one ((s2n (fst p) ++ [32%N])%list) with
    | Some (Some k, w, r) => tk_beq k (snd p) && name_eqb w (s2n (fst p)) && name_eqb r [32%N]
    | _ => false
    end) gen_punct = true.
Proof. vm_compute. reflexivity. Qed.

(* ... and the scanner knows no other punctuation *)
Lemma punct_tokens_complete : forall c d k, (punct2 c d = Some k \/ punct1 c = Some k) ->
  existsb (fun p => tk_beq (snd p) k) gen_punct = true.
Proof.
  intros c d k [H|H].
  - unfold punct2 in H. repeat match type of H with (if ?b then _ else _) = _ => destruct b end;
      inversion H; subst; reflexivity.
  - unfold punct1 in H. repeat match type of H with (if ?b then _ else _) = _ => destruct b end;
      inversion H; subst; reflexivity.
Qed.

(* every keyword declared in the source lexes as that keyword, and only identifiers spelled like one do *)
Lemma keywords_lexed : forallb (fun p =>
    match lex_one ((fst p ++ [32%N])%list) with
    | Some (Some k, w, r) => tk_beq k (snd p) && name_eqb w (fst p)
    | _ => false
    end) gen_keywords = true.
Proof. vm_compute. reflexivity. Qed.

Lemma keyword_count : List.length gen_keywords = 13%nat /\ List.length gen_punct = 23%nat /\ List.length gen_func_table = 3%nat.
Proof. repeat split. Qed.

(* ---- the hand-written tables of the model ARE the ones of the source (regenerated on every run) *)
Lemma precedence_pinned : forall op, precedence op = gen_precedence op.
Proof. destruct op; reflexivity. Qed.
Lemma is_binary_op_pinned : forall k, is_binary_op k = gen_is_binary_op k.
Proof. destruct k; reflexivity. Qed.
Lemma binop_of_token_pinned : forall k, binop_of_token k = gen_binop_of_token k.
Proof. destruct k; reflexivity. Qed.
Lemma unop_of_token_pinned : forall k, unop_of_token k = gen_unop_of_token k.
Proof. destruct k; reflexivity. Qed.
Lemma func_table_pinned : func_table = gen_func_table.
Proof. reflexivity. Qed.
Lemma keywords_pinned : keywords = gen_keywords.
Proof. reflexivity. Qed.

(* ---- the operator arms, the width mask and the verdict function of the model ARE those of the
   source (translated arm by arm from src/expr.rs, src/data_row_iterator.rs, src/value.rs) *)
Lemma binop_eval_pinned : forall op l r,
  binop_eval op l r =
  if (r =? 0)%Z && existsb (binop_beq op) gen_div_guard then Err XE_DivisionByZero
  else Ok (gen_binop_value op l r).
Proof. intros op l r. unfold binop_eval. destruct op; reflexivity. Qed.
Lemma unop_eval_pinned : forall op v, unop_eval op v = gen_unop_value op v.
Proof. destruct op; reflexivity. Qed.
Lemma bit_mask_pinned : forall bits, bit_mask bits = gen_bit_mask bits.
Proof. reflexivity. Qed.
Lemma expected_check_pinned : forall e o, expected_check e o = gen_expected_check e o.
Proof. reflexivity. Qed.
