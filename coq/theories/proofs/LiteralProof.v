(* "Apart from these draws, a program using `random` behaves exactly as if the drawn values
   had been written as literals", and "resetRandom restarts the generator so that subsequent
   draws repeat, for the same sequence of bounds, the values drawn from the start of the run".

   lit_subst e e'      : e' is e with some calls random(a) replaced by number literals
   literalize G c e h  : e with every call of random that the evaluation  eval G c e h  performs
                         and that draws replaced by the literal of the drawn value, plus the
                         list of the drawn values in evaluation order
   as_if_literals      : the literal program gives the same result (value, error or panic
                         site) with ANY generator and draws nothing
   drawn_values_are_draws / replay_after_reset :
                         the drawn values are a function of the generator, the history at
                         the start and the sequence of bounds only. *)
From DTR Require Import Prelude I64 Ast FramedMap Parser Eval.
From DTR.proofs Require Import EvalProof.
From Coq Require Import String.
Open Scope Z_scope.

(* ------------------------------------------------------------------ substitution of literals *)

(* e' is obtained from e by replacing zero or more sub-expressions random(a) by a literal *)
Fixpoint lit_subst (e e' : expr) {struct e} : Prop :=
  match e with
  | ENum n => e' = ENum n
  | EVar x => e' = EVar x
  | EBin op l r =>
      match e' with
      | EBin op' l' r' => op = op' /\ lit_subst l l' /\ lit_subst r r'
      | _ => False
      end
  | EUn op a =>
      match e' with
      | EUn op' a' => op = op' /\ lit_subst a a'
      | _ => False
      end
  | EFunc f args =>
      match e' with
      | ENum _ => f = name_random /\ List.length args = 1%nat
      | EFunc f' args' =>
          f = f' /\
          (fix go (l l' : list expr) {struct l} : Prop :=
             match l, l' with
             | [], [] => True
             | x :: r, y :: r' => lit_subst x y /\ go r r'
             | _, _ => False
             end) args args'
      | _ => False
      end
  end.

(* the same relation as an inductive predicate, for the reader; equivalent to lit_subst *)
Inductive LitSubst : expr -> expr -> Prop :=
| LS_num : forall n, LitSubst (ENum n) (ENum n)
| LS_var : forall x, LitSubst (EVar x) (EVar x)
| LS_bin : forall op l r l' r', LitSubst l l' -> LitSubst r r' -> LitSubst (EBin op l r) (EBin op l' r')
| LS_un : forall op a a', LitSubst a a' -> LitSubst (EUn op a) (EUn op a')
| LS_func : forall f args args', Forall2 LitSubst args args' -> LitSubst (EFunc f args) (EFunc f args')
| LS_random : forall a v, LitSubst (EFunc name_random [a]) (ENum v).

Lemma lit_subst_args_forall2 : forall (Q : expr -> expr -> Prop) args args',
  (fix go (l l' : list expr) {struct l} : Prop :=
     match l, l' with
     | [], [] => True
     | x :: r, y :: r' => Q x y /\ go r r'
     | _, _ => False
     end) args args' <-> Forall2 Q args args'.
Proof.
  induction args as [|x r IH]; destruct args' as [|y r']; split; intro H.
  - apply Forall2_nil.
  - exact I.
  - contradiction.
  - inversion H.
  - contradiction.
  - inversion H.
  - destruct H as [H1 H2]. apply Forall2_cons; [exact H1 | apply IH; exact H2].
  - inversion H; subst. split; [assumption | apply IH; assumption].
Qed.

Lemma lit_subst_func : forall f args f' args',
  lit_subst (EFunc f args) (EFunc f' args') <-> f = f' /\ Forall2 lit_subst args args'.
Proof.
  intros. simpl. rewrite (lit_subst_args_forall2 lit_subst). reflexivity.
Qed.

Theorem lit_subst_iff_LitSubst : forall e e', lit_subst e e' <-> LitSubst e e'.
Proof.
  induction e as [n|x|op l r IHl IHr|op a IHa|f args IHargs] using expr_ind2; intros e'.
  - simpl. split; intro H; [subst; constructor | inversion H; reflexivity].
  - simpl. split; intro H; [subst; constructor | inversion H; reflexivity].
  - split; intro H.
    + destruct e'; simpl in H; try contradiction. destruct H as [-> [H1 H2]].
      constructor; [apply IHl | apply IHr]; assumption.
    + inversion H; subst. simpl. repeat split; [apply IHl | apply IHr]; assumption.
  - split; intro H.
    + destruct e'; simpl in H; try contradiction. destruct H as [-> H1].
      constructor. apply IHa. assumption.
    + inversion H; subst. simpl. split; [reflexivity | apply IHa; assumption].
  - split; intro H.
    + destruct e' as [v| | | |f' args']; try (simpl in H; contradiction).
      * simpl in H. destruct H as [-> Hlen]. destruct args as [|a [|? ?]]; try discriminate Hlen.
        constructor.
      * apply lit_subst_func in H. destruct H as [<- H]. constructor.
        clear - IHargs H. revert args' H. induction IHargs as [|x r Hx _ IH]; intros args' H.
        { inversion H. constructor. }
        { inversion H; subst. constructor; [apply Hx; assumption | apply IH; assumption]. }
    + inversion H; subst.
      * apply lit_subst_func. split; [reflexivity|].
        match goal with HF : Forall2 LitSubst _ _ |- _ => rename HF into H2 end.
        clear - IHargs H2. revert args' H2. induction IHargs as [|x r Hx _ IH]; intros args' H.
        { inversion H. constructor. }
        { inversion H; subst. constructor; [apply Hx; assumption | apply IH; assumption]. }
      * simpl. split; reflexivity.
Qed.

Lemma lit_subst_refl : forall e, lit_subst e e.
Proof.
  induction e as [n|x|op l r IHl IHr|op a IHa|f args IHargs] using expr_ind2.
  - reflexivity.
  - reflexivity.
  - simpl. auto.
  - simpl. auto.
  - apply lit_subst_func. split; [reflexivity|].
    induction IHargs; constructor; assumption.
Qed.

(* ------------------------------------------------------------------ the sequence of drawn values *)

(* the values drawn, starting with history h, for the sequence of bounds `bounds` *)
Fixpoint draws (G : gen) (h : rng_state) (bounds : list Z) : list Z :=
  match bounds with
  | [] => []
  | b :: bs => G h (1, b) :: draws G ((1, b) :: h) bs
  end.

(* the history after drawing with the bounds bs (most recent first) *)
Definition hist_of (bs : list Z) : rng_state := rev (map (pair 1) bs).

Lemma hist_of_app : forall b1 b2, hist_of (b1 ++ b2) = hist_of b2 ++ hist_of b1.
Proof. intros. unfold hist_of. rewrite map_app, rev_app_distr. reflexivity. Qed.

Lemma bounds_of_hist : forall bs, map snd (rev (hist_of bs)) = bs.
Proof.
  intros bs. unfold hist_of. rewrite rev_involutive, map_map. simpl.
  induction bs as [|b r IH]; simpl; [reflexivity | rewrite IH; reflexivity].
Qed.

Lemma draws_app : forall G b1 b2 h,
  draws G h (b1 ++ b2) = draws G h b1 ++ draws G (hist_of b1 ++ h) b2.
Proof.
  intros G. induction b1 as [|b r IH]; intros b2 h; simpl; [reflexivity|].
  rewrite IH. unfold hist_of. simpl. rewrite <- app_assoc. reflexivity.
Qed.

Lemma draws_length : forall G bs h, List.length (draws G h bs) = List.length bs.
Proof. intros G. induction bs as [|b r IH]; intros h; simpl; [reflexivity | rewrite IH; reflexivity]. Qed.

(* ------------------------------------------------------------------ literalize *)

Section LITERALIZE.
Variable G : gen.

(* mirrors eval: what is not evaluated (the unselected branch of ite, whatever follows the
   point where the evaluation failed) is left as it is *)
Fixpoint literalize (c : ctx) (e : expr) (rng : rng_state) {struct e} : expr * list Z :=
  match e with
  | ENum _ | EVar _ => (e, [])
  | EUn op a => (EUn op (fst (literalize c a rng)), snd (literalize c a rng))
  | EBin op l r =>
      match eval G c l rng with
      | (Ok _, rng1) =>
          (EBin op (fst (literalize c l rng)) (fst (literalize c r rng1)),
           snd (literalize c l rng) ++ snd (literalize c r rng1))
      | _ => (EBin op (fst (literalize c l rng)) r, snd (literalize c l rng))
      end
  | EFunc f args =>
      match func_arity f with
      | None => (e, [])
      | Some arity =>
          if negb (Nlen args =? arity)%N then (e, [])
          else if name_eqb f name_random then
            match args with
            | [a] =>
                match eval G c a rng with
                | (Ok max, rng1) =>
                    if max <=? 1 then (EFunc f [fst (literalize c a rng)], snd (literalize c a rng))
                    else (ENum (G rng1 (1, max)), snd (literalize c a rng) ++ [G rng1 (1, max)])
                | _ => (EFunc f [fst (literalize c a rng)], snd (literalize c a rng))
                end
            | _ => (e, [])
            end
          else if name_eqb f name_ite then
            match args with
            | [t; a; b] =>
                match eval G c t rng with
                | (Ok tv, rng1) =>
                    if tv =? 0
                    then (EFunc f [fst (literalize c t rng); a; fst (literalize c b rng1)],
                          snd (literalize c t rng) ++ snd (literalize c b rng1))
                    else (EFunc f [fst (literalize c t rng); fst (literalize c a rng1); b],
                          snd (literalize c t rng) ++ snd (literalize c a rng1))
                | _ => (EFunc f [fst (literalize c t rng); a; b], snd (literalize c t rng))
                end
            | _ => (e, [])
            end
          else (e, [])
      end
  end.

Lemma literalize_func : forall c f args rng,
  literalize c (EFunc f args) rng =
  match func_arity f with
  | None => (EFunc f args, [])
  | Some arity =>
      if negb (Nlen args =? arity)%N then (EFunc f args, [])
      else if name_eqb f name_random then
        match args with
        | [a] =>
            match eval G c a rng with
            | (Ok max, rng1) =>
                if max <=? 1 then (EFunc f [fst (literalize c a rng)], snd (literalize c a rng))
                else (ENum (G rng1 (1, max)), snd (literalize c a rng) ++ [G rng1 (1, max)])
            | _ => (EFunc f [fst (literalize c a rng)], snd (literalize c a rng))
            end
        | _ => (EFunc f args, [])
        end
      else if name_eqb f name_ite then
        match args with
        | [t; a; b] =>
            match eval G c t rng with
            | (Ok tv, rng1) =>
                if tv =? 0
                then (EFunc f [fst (literalize c t rng); a; fst (literalize c b rng1)],
                      snd (literalize c t rng) ++ snd (literalize c b rng1))
                else (EFunc f [fst (literalize c t rng); fst (literalize c a rng1); b],
                      snd (literalize c t rng) ++ snd (literalize c a rng1))
            | _ => (EFunc f [fst (literalize c t rng); a; b], snd (literalize c t rng))
            end
        | _ => (EFunc f args, [])
        end
      else (EFunc f args, [])
  end.
Proof. intros. destruct args as [|a [|b [|d [|x y]]]]; reflexivity. Qed.

(* the invariant relating an evaluation (result res from history rng) and its literalization lz *)
Definition lit_ok (c : ctx) (e : expr) (rng : rng_state)
                  (res : R xerr Z * rng_state) (lz : expr * list Z) : Prop :=
  lit_subst e (fst lz) /\
  (forall G' rng0, eval G' c (fst lz) rng0 = (fst res, rng0)) /\
  exists bs, snd res = hist_of bs ++ rng /\ snd lz = draws G rng bs.

Lemma lit_ok_unchanged : forall c e rng r,
  (forall G' rng0, eval G' c e rng0 = (r, rng0)) -> lit_ok c e rng (r, rng) (e, []).
Proof.
  intros c e rng r H. split; [apply lit_subst_refl|]. split; [exact H|].
  exists []. split; reflexivity.
Qed.

Lemma literalize_ok : forall e c rng, lit_ok c e rng (eval G c e rng) (literalize c e rng).
Proof.
  induction e as [n|x|op l r IHl IHr|op a IHa|f args IHargs] using expr_ind2; intros c rng.
  - apply lit_ok_unchanged. reflexivity.
  - simpl. destruct (ctx_get c x) as [[n| |]|] eqn:E; apply lit_ok_unchanged; intros; simpl; rewrite E; reflexivity.
  - (* EBin *)
    simpl. destruct (IHl c rng) as [S1 [E1 [b1 [R1 D1]]]].
    destruct (eval G c l rng) as [[lv| | |] rng1]; simpl in *;
      try (split; [simpl; auto using lit_subst_refl|]; split;
           [intros G' rng0; simpl; rewrite E1; reflexivity | exists b1; auto]).
    destruct (IHr c rng1) as [S2 [E2 [b2 [R2 D2]]]].
    assert (HH : exists bs, snd (eval G c r rng1) = hist_of bs ++ rng /\
                 snd (literalize c l rng) ++ snd (literalize c r rng1) = draws G rng bs).
    { exists (b1 ++ b2). rewrite R2, D1, D2, R1, hist_of_app, draws_app, app_assoc. split; reflexivity. }
    destruct (eval G c r rng1) as [[rv| | |] rng2]; simpl in *;
      (split; [simpl; auto|]; split; [intros G' rng0; simpl; rewrite E1, E2; reflexivity | exact HH]).
  - (* EUn *)
    simpl. destruct (IHa c rng) as [S1 [E1 [b1 [R1 D1]]]].
    destruct (eval G c a rng) as [[v| | |] rng1]; simpl in *;
      (split; [simpl; auto|]; split; [intros G' rng0; simpl; rewrite E1; reflexivity | exists b1; auto]).
  - (* EFunc *)
    rewrite eval_func, literalize_func.
    destruct (func_arity f) as [arity|] eqn:Ea;
      [|apply lit_ok_unchanged; intros; rewrite eval_func, Ea; reflexivity].
    destruct (negb (Nlen args =? arity)%N) eqn:En;
      [apply lit_ok_unchanged; intros; rewrite eval_func, Ea, En; reflexivity|].
    destruct (name_eqb f name_random) eqn:Er.
    { (* random *)
      destruct args as [|a [|a2 args]];
        try (apply lit_ok_unchanged; intros; rewrite eval_func, Ea, En, Er; reflexivity).
      inversion IHargs as [|? ? IHa _]; subst.
      destruct (IHa c rng) as [S1 [E1 [b1 [R1 D1]]]].
      assert (EV : forall G' rng0,
        eval G' c (EFunc f [fst (literalize c a rng)]) rng0 =
        match fst (eval G c a rng) with
        | Ok max => if max <=? 1 then (Err (XE_EmptyRandomRange max), rng0)
                    else (Ok (G' rng0 (1, max)), (1, max) :: rng0)
        | other => (other, rng0)
        end).
      { intros G' rng0. rewrite eval_func, Ea. change (Nlen [fst (literalize c a rng)]) with (Nlen [a]).
        rewrite En, Er, E1. destruct (fst (eval G c a rng)); reflexivity. }
      destruct (eval G c a rng) as [[v| | |] rng1]; unfold lit_ok; cbn [fst snd] in *;
        try (split; [apply lit_subst_func; split; [reflexivity | constructor; [exact S1 | constructor]]|];
             split; [intros G' rng0; rewrite EV; reflexivity | exists b1; auto]).
      destruct (v <=? 1) eqn:Ev; cbn [fst snd].
      - split; [apply lit_subst_func; split; [reflexivity | constructor; [exact S1 | constructor]]|].
        split; [intros G' rng0; rewrite EV; reflexivity | exists b1; auto].
      - split; [simpl; split; [apply name_eqb_eq; exact Er | reflexivity]|].
        split; [intros; reflexivity|].
        exists (b1 ++ [v]). rewrite hist_of_app, draws_app, D1, R1. split; reflexivity. }
    destruct (name_eqb f name_ite) eqn:Ei;
      [|apply lit_ok_unchanged; intros; rewrite eval_func, Ea, En, Er, Ei; reflexivity].
    destruct args as [|t [|a [|b [|b2 args]]]];
      try (apply lit_ok_unchanged; intros; rewrite eval_func, Ea, En, Er, Ei; reflexivity).
    inversion IHargs as [|? ? IHt IHr]; subst. inversion IHr as [|? ? IHa IHr2]; subst.
    inversion IHr2 as [|? ? IHb _]; subst.
    destruct (IHt c rng) as [S1 [E1 [b1 [R1 D1]]]].
    assert (EV : forall G' t' a' b' rng0,
      eval G' c (EFunc f [t'; a'; b']) rng0 =
      match eval G' c t' rng0 with
      | (Ok tv, rng1) => if tv =? 0 then eval G' c b' rng1 else eval G' c a' rng1
      | other => other
      end).
    { intros. rewrite eval_func, Ea. change (Nlen [t'; a'; b']) with (Nlen [t; a; b]).
      rewrite En, Er, Ei. reflexivity. }
    destruct (eval G c t rng) as [[tv| | |] rng1]; unfold lit_ok; cbn [fst snd] in *;
      try (split; [apply lit_subst_func; split; [reflexivity | repeat constructor; auto using lit_subst_refl]|];
           split; [intros G' rng0; rewrite EV, E1; reflexivity | exists b1; auto]).
    destruct (tv =? 0) eqn:Et; cbn [fst snd].
    + destruct (IHb c rng1) as [S2 [E2 [b2 [R2 D2]]]].
      split; [apply lit_subst_func; split; [reflexivity | repeat constructor; auto using lit_subst_refl]|].
      split; [intros G' rng0; rewrite EV, E1, Et; apply E2|].
      exists (b1 ++ b2). rewrite R2, D1, D2, R1, hist_of_app, draws_app, app_assoc. split; reflexivity.
    + destruct (IHa c rng1) as [S2 [E2 [b2 [R2 D2]]]].
      split; [apply lit_subst_func; split; [reflexivity | repeat constructor; auto using lit_subst_refl]|].
      split; [intros G' rng0; rewrite EV, E1, Et; apply E2|].
      exists (b1 ++ b2). rewrite R2, D1, D2, R1, hist_of_app, draws_app, app_assoc. split; reflexivity.
Qed.

End LITERALIZE.

(* ------------------------------------------------------------------ the theorems *)

(* literalize only replaces calls of random by literals *)
Theorem literalize_is_substitution : forall G c e rng, lit_subst e (fst (literalize G c e rng)).
Proof. intros. apply (literalize_ok G e c rng). Qed.

(* the literal program gives the SAME result - value, error or panic site - with ANY
   generator and from any history, and consumes NO draw *)
Theorem as_if_literals : forall G c e rng r rng',
  eval G c e rng = (r, rng') ->
  forall G' rng0, eval G' c (fst (literalize G c e rng)) rng0 = (r, rng0).
Proof.
  intros G c e rng r rng' H G' rng0.
  destruct (literalize_ok G e c rng) as [_ [E _]]. rewrite E, H. reflexivity.
Qed.

(* the drawn values are determined by the generator, the history at the start and the
   sequence of bounds only *)
Theorem drawn_values_are_draws : forall G c e rng,
  exists l, snd (eval G c e rng) = l ++ rng /\
    snd (literalize G c e rng) = draws G rng (map snd (rev l)).
Proof.
  intros G c e rng. destruct (literalize_ok G e c rng) as [_ [_ [bs [R D]]]].
  exists (hist_of bs). rewrite bounds_of_hist. split; assumption.
Qed.

(* every entry of the history is a range [1, bound) *)
Theorem drawn_ranges_start_at_1 : forall G c e rng,
  exists l, snd (eval G c e rng) = l ++ rng /\ Forall (fun r => fst r = 1) l.
Proof.
  intros G c e rng. destruct (literalize_ok G e c rng) as [_ [_ [bs [R _]]]].
  exists (hist_of bs). split; [exact R|]. unfold hist_of.
  apply Forall_rev. clear. induction bs; simpl; constructor; auto.
Qed.

Theorem one_literal_per_draw : forall G c e rng,
  exists l, snd (eval G c e rng) = l ++ rng /\
    List.length l = List.length (snd (literalize G c e rng)).
Proof.
  intros G c e rng. destruct (drawn_values_are_draws G c e rng) as [l [R D]].
  exists l. split; [exact R|]. rewrite D, draws_length, map_length, rev_length. reflexivity.
Qed.

(* two evaluations that both start from the freshly (re)seeded generator - history [] - and
   draw with the same sequence of bounds draw the same values *)
Corollary replay_after_reset : forall G c1 e1 c2 e2 l1 l2,
  snd (eval G c1 e1 []) = l1 -> snd (eval G c2 e2 []) = l2 ->
  map snd (rev l1) = map snd (rev l2) ->
  snd (literalize G c1 e1 []) = snd (literalize G c2 e2 []).
Proof.
  intros G c1 e1 c2 e2 l1 l2 H1 H2 Hb.
  destruct (drawn_values_are_draws G c1 e1 []) as [k1 [R1 D1]].
  destruct (drawn_values_are_draws G c2 e2 []) as [k2 [R2 D2]].
  rewrite app_nil_r in R1, R2. rewrite D1, D2. congruence.
Qed.

(* the same from any common history h (a resetRandom makes h = [] = the history of ctx_new) *)
Corollary replay_from_same_history : forall G h c1 e1 c2 e2 l1 l2,
  snd (eval G c1 e1 h) = l1 ++ h -> snd (eval G c2 e2 h) = l2 ++ h ->
  map snd (rev l1) = map snd (rev l2) ->
  snd (literalize G c1 e1 h) = snd (literalize G c2 e2 h).
Proof.
  intros G h c1 e1 c2 e2 l1 l2 H1 H2 Hb.
  destruct (drawn_values_are_draws G c1 e1 h) as [k1 [R1 D1]].
  destruct (drawn_values_are_draws G c2 e2 h) as [k2 [R2 D2]].
  rewrite R1 in H1. rewrite R2 in H2. apply app_inv_tail in H1. apply app_inv_tail in H2.
  rewrite D1, D2. congruence.
Qed.

(* ------------------------------------------------------------------ data rows *)

(* evaluation reads the context through ctx_get only *)
Lemma eval_ctx_ext : forall G e c c' rng,
  (forall x, ctx_get c x = ctx_get c' x) -> eval G c e rng = eval G c' e rng.
Proof.
  intros G. induction e as [n|x|op l r IHl IHr|op a IHa|f args IHargs] using expr_ind2; intros c c' rng H.
  - reflexivity.
  - simpl. rewrite H. reflexivity.
  - simpl. rewrite (IHl c c' rng H). destruct (eval G c' l rng) as [[lv| | |] rng1]; auto.
    rewrite (IHr c c' rng1 H). reflexivity.
  - simpl. rewrite (IHa c c' rng H). reflexivity.
  - rewrite !eval_func. destruct (func_arity f); [|reflexivity].
    destruct (negb _); [reflexivity|].
    destruct (name_eqb f name_random).
    { destruct args as [|a [|? ?]]; try reflexivity.
      inversion IHargs as [|? ? IHa _]; subst. rewrite (IHa c c' rng H). reflexivity. }
    destruct (name_eqb f name_ite); [|reflexivity].
    destruct args as [|t [|a [|b [|? ?]]]]; try reflexivity.
    inversion IHargs as [|? ? IHt IHr]; subst. inversion IHr as [|? ? IHa IHr2]; subst.
    inversion IHr2 as [|? ? IHb _]; subst.
    rewrite (IHt c c' rng H). destruct (eval G c' t rng) as [[tv| | |] rng1]; auto.
    rewrite (IHa c c' rng1 H), (IHb c c' rng1 H). reflexivity.
Qed.

(* same variables, same alternate variables, same outputs; the generator may differ *)
Definition same_env (c c' : ctx) : Prop :=
  cvars c = cvars c' /\ calt c = calt c' /\ couts c = couts c'.

Lemma same_env_get : forall c c', same_env c c' -> forall x, ctx_get c x = ctx_get c' x.
Proof. intros c c' [H1 [_ H3]] x. unfold ctx_get. rewrite H1, H3. reflexivity. Qed.

Lemma ctx_with_rng_id : forall c, ctx_with_rng c (crng c) = c.
Proof. destruct c; reflexivity. Qed.

Section ROW.
Variable G : gen.

Definition literalize_entry (c : ctx) (d : dentry) : dentry :=
  match d with
  | DExpr e => DExpr (fst (literalize G c e (crng c)))
  | DBits k e => DBits k (fst (literalize G c e (crng c)))
  | _ => d
  end.

(* mirrors row_eval: the entries after a failing one are left as they are *)
Fixpoint literalize_row (c : ctx) (data : list dentry) : list dentry :=
  match data with
  | [] => []
  | d :: r =>
      literalize_entry c d ::
      match entry_eval G c d with
      | (c1, Ok _) => literalize_row c1 r
      | _ => r
      end
  end.

Lemma entry_eval_env : forall c d, same_env (fst (entry_eval G c d)) c.
Proof.
  intros c d. destruct d; simpl; try (repeat split; fail);
    unfold ctx_eval; destruct (eval G c e (crng c)); simpl; repeat split.
Qed.

Lemma entry_as_if_literals : forall G' c c' d, same_env c c' ->
  entry_eval G' c' (literalize_entry c d) = (c', snd (entry_eval G c d)).
Proof.
  intros G' c c' d Henv. destruct d as [n|e|k e| | |]; simpl; try reflexivity.
  - unfold ctx_eval. rewrite <- (eval_ctx_ext G' _ c c' _ (same_env_get c c' Henv)).
    destruct (eval G c e (crng c)) as [r rng'] eqn:E.
    rewrite (as_if_literals G c e (crng c) r rng' E). rewrite ctx_with_rng_id. reflexivity.
  - unfold ctx_eval. rewrite <- (eval_ctx_ext G' _ c c' _ (same_env_get c c' Henv)).
    destruct (eval G c e (crng c)) as [r rng'] eqn:E.
    rewrite (as_if_literals G c e (crng c) r rng' E). rewrite ctx_with_rng_id. reflexivity.
Qed.

(* the literal row gives the same entries (or the same error) with ANY generator, in any
   context with the same variables and outputs, and leaves that context - in particular its
   generator - untouched *)
Theorem row_as_if_literals : forall G' data c c', same_env c c' ->
  row_eval G' c' (literalize_row c data) = (c', snd (row_eval G c data)).
Proof.
  intros G'. induction data as [|d r IH]; intros c c' Henv; [reflexivity|].
  simpl. rewrite (entry_as_if_literals G' c c' d Henv).
  pose proof (entry_eval_env c d) as Henv1.
  destruct (entry_eval G c d) as [c1 [es| | |]]; simpl in *; try reflexivity.
  assert (Henv2 : same_env c1 c').
  { destruct Henv1 as [A [B C]], Henv as [A' [B' C']]. repeat split; congruence. }
  rewrite (IH c1 c' Henv2). destruct (row_eval G c1 r) as [c2 [es'| | |]]; reflexivity.
Qed.

Corollary row_as_if_literals_same_ctx : forall G' data c,
  snd (row_eval G' c (literalize_row c data)) = snd (row_eval G c data) /\
  fst (row_eval G' c (literalize_row c data)) = c.
Proof.
  intros G' data c. rewrite (row_as_if_literals G' data c c); [split; reflexivity|].
  repeat split.
Qed.

End ROW.

(* ------------------------------------------------------------------ non-vacuity *)

Definition ex_G : gen := fun h r => fst r + Z.of_nat (List.length h).
Definition ex_rnd (e : expr) : expr := EFunc name_random [e].
Definition ex_ite (t a b : expr) : expr := EFunc name_ite [t; a; b].

(* ite(1, random(10), random(20)) + random(random(5)) : the selected branch and the two nested
   calls draw (3 values); the unselected random(20) is not evaluated and stays as it is *)
Definition ex_e1 : expr :=
  EBin Plus (ex_ite (ENum 1) (ex_rnd (ENum 10)) (ex_rnd (ENum 20))) (ex_rnd (ex_rnd (ENum 5))).

Example ex1_literalize :
  literalize ex_G (ctx_new []) ex_e1 [] =
  (EBin Plus (ex_ite (ENum 1) (ENum 1) (ex_rnd (ENum 20))) (ENum 3), [1; 2; 3]).
Proof. vm_compute. reflexivity. Qed.

Example ex1_eval : eval ex_G (ctx_new []) ex_e1 [] = (Ok 4, [(1, 2); (1, 5); (1, 10)]).
Proof. vm_compute. reflexivity. Qed.

Example ex1_literal_eval : forall G' rng0,
  eval G' (ctx_new []) (EBin Plus (ex_ite (ENum 1) (ENum 1) (ex_rnd (ENum 20))) (ENum 3)) rng0 = (Ok 4, rng0).
Proof. intros. exact (as_if_literals ex_G (ctx_new []) ex_e1 [] _ _ ex1_eval G' rng0). Qed.

(* random(6) * random(1) + random(7): the first call draws, the second fails (bound 1),
   the third is never evaluated *)
Definition ex_e2 : expr :=
  EBin Plus (EBin Times (ex_rnd (ENum 6)) (ex_rnd (ENum 1))) (ex_rnd (ENum 7)).

Example ex2_literalize :
  literalize ex_G (ctx_new []) ex_e2 [] =
  (EBin Plus (EBin Times (ENum 1) (ex_rnd (ENum 1))) (ex_rnd (ENum 7)), [1]).
Proof. vm_compute. reflexivity. Qed.

Example ex2_eval : eval ex_G (ctx_new []) ex_e2 [] = (Err (XE_EmptyRandomRange 1), [(1, 6)]).
Proof. vm_compute. reflexivity. Qed.

Example ex2_literal_eval : forall G' rng0,
  eval G' (ctx_new []) (fst (literalize ex_G (ctx_new []) ex_e2 [])) rng0 = (Err (XE_EmptyRandomRange 1), rng0).
Proof. intros. exact (as_if_literals ex_G (ctx_new []) ex_e2 [] _ _ ex2_eval G' rng0). Qed.

(* a row: the second entry fails, the third is left alone *)
Example ex_row :
  literalize_row ex_G (ctx_new []) [DExpr (ex_rnd (ENum 4)); DBits 2 (ex_rnd (ENum 9)); DExpr (ex_rnd (ENum 0)); DExpr (ex_rnd (ENum 3))] =
  [DExpr (ENum 1); DBits 2 (ENum 2); DExpr (ex_rnd (ENum 0)); DExpr (ex_rnd (ENum 3))].
Proof. vm_compute. reflexivity. Qed.

Example ex_draws : draws ex_G [] [10; 5; 2] = [1; 2; 3].
Proof. vm_compute. reflexivity. Qed.

Print Assumptions lit_subst_iff_LitSubst.
Print Assumptions literalize_is_substitution.
Print Assumptions as_if_literals.
Print Assumptions one_literal_per_draw.
Print Assumptions drawn_values_are_draws.
Print Assumptions drawn_ranges_start_at_1.
Print Assumptions replay_after_reset.
Print Assumptions replay_from_same_history.
Print Assumptions row_as_if_literals.
Print Assumptions row_as_if_literals_same_ctx.
