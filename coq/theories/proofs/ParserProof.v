(* Parser proofs (property C09 and the parser half of C10/C11):
     parse_never_panics         no input makes the parser reach one of its four panic sites
     parse_wf                   a successful parse yields a well-formed test (WfSpec.wf_parsed)
     parse_never_oof            the fuel the model hands to its loops always suffices (termination)
     parse_error_spans_in_text  every location of a returned error lies inside the text
   The proofs "sweep" through the monadic code with a small weakest-precondition calculus:
   [wp F G EA m Q st] says that running [m] on [st] either returns a value and a state that
   satisfy [Q], or fails with an error whose locations satisfy [EA], or panics and [F] holds,
   or runs out of fuel and [G] holds.  There is one rule per primitive of the parser monad
   (wp_peek, wp_get, wp_expect, ...), one unfolding lemma per fuelled function (parse_expr_S,
   ..., parse_block_loop_S, which also splits the block loop into [block_arm] and
   [block_post]), and one tactic, [sweep], that steps through a function body, destructing the
   token list and the token kinds as the code inspects them.  The four passes instantiate
   (F, G, EA) with (False, True, -), (True, True, -), (True, False, -), (True, True, spans_valid)
   and supply their own invariant, side-condition solvers and saturation hook. *)
From Coq Require Import String Permutation.
From DTR Require Import Prelude Ast FramedMap Lexer Eval WfSpec Parser.
Open Scope N_scope.

(* ================================================================== token kinds *)

Lemma tk_beq_true : forall a b, tk_beq a b = true -> a = b.
Proof. exact internal_tk_dec_bl. Qed.

Lemma tk_beq_refl : forall a, tk_beq a a = true.
Proof. destruct a; reflexivity. Qed.

Lemma tk_beq_false : forall a b, tk_beq a b = false -> a <> b.
Proof. intros a b H E. subst b. rewrite tk_beq_refl in H. discriminate. Qed.

(* panic sites 3 and 4 are dead code *)
Lemma binop_of_is_binary : forall k, is_binary_op k = true -> binop_of_token k <> None.
Proof. destruct k; simpl; intros H; congruence. Qed.

Lemma unop_of_unary : forall k, (k = TMinus \/ k = TLogicalNot \/ k = TBinaryNot) -> unop_of_token k <> None.
Proof. intros k [H|[H|H]]; subst k; discriminate. Qed.

(* ================================================================== well-formed token lists *)

Definition tokens_ok (ts : list token) : Prop :=
  exists pre eof_token, ts = pre ++ [eof_token] /\
    Forall (fun t => tkind t <> TEof) pre /\ tkind eof_token = TEof.

Lemma tokens_ok_nil : ~ tokens_ok [].
Proof. intros [pre [e [H _]]]. destruct pre; discriminate. Qed.

Lemma tokens_ok_tail : forall t r, tokens_ok (t :: r) -> tkind t <> TEof -> tokens_ok r.
Proof.
  intros t r [pre [e [H [Hpre He]]]] Hk. destruct pre as [|p pre]; simpl in H.
  - inversion H; subst. contradiction.
  - inversion H; subst. inversion Hpre; subst. exists pre, e. auto.
Qed.

Lemma tokens_ok_eof : forall t r, tokens_ok (t :: r) -> tkind t = TEof -> r = [].
Proof.
  intros t r [pre [e [H [Hpre He]]]] Hk. destruct pre as [|p pre]; simpl in H.
  - inversion H; subst. reflexivity.
  - inversion H; subst. inversion Hpre; subst. contradiction.
Qed.

Lemma tokens_ok_cons : forall t r, tkind t <> TEof -> tokens_ok r -> tokens_ok (t :: r).
Proof.
  intros t r Hk [pre [e [H [Hpre He]]]]. exists (t :: pre), e. subst r. split; [reflexivity|].
  split; [constructor; assumption | assumption].
Qed.

(* ================================================================== the calculus *)

Section WP.
Variables F G : Prop.
Variable EA : list span -> Prop.      (* what the locations of a returned error satisfy *)

Definition wp {A} (m : P A) (Q : A -> pstate -> Prop) (st : pstate) : Prop :=
  match m st with
  | Ok (a, st') => Q a st'
  | Err e => EA (pe_at e)
  | Panic _ => F
  | OOF => G
  end.

Lemma wp_ret : forall A (a : A) (Q : A -> pstate -> Prop) st, Q a st -> wp (ret a) Q st.
Proof. intros. exact H. Qed.

Lemma wp_bind : forall A B (m : P A) (k : A -> P B) Q st,
  wp m (fun a st' => wp (k a) Q st') st -> wp (bind m k) Q st.
Proof. unfold wp, bind. intros A B m k Q st H. destruct (m st) as [[a st']| | |]; exact H. Qed.

Lemma wp_conseq : forall A (m : P A) (Q1 Q2 : A -> pstate -> Prop) st,
  wp m Q1 st -> (forall a st', Q1 a st' -> Q2 a st') -> wp m Q2 st.
Proof. unfold wp. intros A m Q1 Q2 st H HQ. destruct (m st) as [[a st']| | |]; auto. Qed.

Lemma wp_fail : forall A e (Q : A -> pstate -> Prop) st, EA (pe_at e) -> wp (fail e) Q st.
Proof. intros. assumption. Qed.

Lemma wp_tok_error : forall A t k (Q : A -> pstate -> Prop) st, EA [tspan t] -> wp (tok_error t k) Q st.
Proof. intros. assumption. Qed.

Lemma wp_ppanic : forall A s (Q : A -> pstate -> Prop) st, F -> wp (ppanic s) Q st.
Proof. intros. assumption. Qed.

Lemma wp_poof : forall A (Q : A -> pstate -> Prop) st, G -> wp poof Q st.
Proof. intros. assumption. Qed.

Variable input_len : N.

Lemma wp_peek : forall (Q : tk -> pstate -> Prop) st,
  (toks st = [] -> F) ->
  (forall t r, toks st = t :: r -> Q (tkind t) st) -> wp peek Q st.
Proof. unfold wp, peek. intros Q st HF HQ. destruct (toks st) as [|t r]; [auto | eapply HQ; reflexivity]. Qed.

Lemma wp_peek_span : forall (Q : span -> pstate -> Prop) st,
  (toks st = [] -> F) ->
  (forall t r, toks st = t :: r -> Q (tspan t) st) -> wp peek_span Q st.
Proof. unfold wp, peek_span. intros Q st HF HQ. destruct (toks st) as [|t r]; [auto | eapply HQ; reflexivity]. Qed.

Lemma wp_at : forall k (Q : bool -> pstate -> Prop) st,
  (toks st = [] -> F) ->
  (forall t r, toks st = t :: r -> Q (tk_beq (tkind t) k) st) -> wp (at_ k) Q st.
Proof.
  unfold wp, at_, bind, peek, ret. intros k Q st HF HQ.
  destruct (toks st) as [|t r]; [auto | eapply HQ; reflexivity].
Qed.

(* the line counter never matters for what is proved here, so it is abstracted *)
Lemma wp_get : forall (Q : token -> pstate -> Prop) st,
  EA [(input_len, input_len)] ->
  (forall t r ln, toks st = t :: r -> Q t (set_toks st r ln)) -> wp (get input_len) Q st.
Proof.
  unfold wp, get. intros Q st HE HQ. destruct (toks st) as [|t r]; [exact HE | eapply HQ; reflexivity].
Qed.

Lemma wp_skip : forall (Q : unit -> pstate -> Prop) st,
  (toks st = [] -> F) ->
  (forall t r ln, toks st = t :: r -> Q tt (set_toks st r ln)) -> wp (skip input_len) Q st.
Proof.
  unfold wp, skip, get. intros Q st HF HQ.
  destruct (toks st) as [|t r]; [auto | eapply HQ; reflexivity].
Qed.

Lemma wp_expect : forall k (Q : token -> pstate -> Prop) st,
  EA [(input_len, input_len)] ->
  (forall t r, toks st = t :: r -> EA [tspan t]) ->
  (forall t r ln, toks st = t :: r -> tkind t = k -> Q t (set_toks st r ln)) ->
  wp (expect input_len k) Q st.
Proof.
  unfold wp, expect, bind, get, ret, tok_error, fail. intros k Q st HE HE' HQ.
  destruct (toks st) as [|t r]; [exact HE|].
  destruct (tk_beq (tkind t) k) eqn:E; [|eapply HE'; reflexivity].
  eapply HQ; [reflexivity | apply tk_beq_true; exact E].
Qed.

Definition is_num_kind (k : tk) : Prop := k = TDecInt \/ k = THexInt \/ k = TOctInt \/ k = TBinInt.

Lemma wp_parse_number : forall (Q : Z -> pstate -> Prop) st,
  EA [(input_len, input_len)] ->
  (forall t r, toks st = t :: r -> EA [tspan t]) ->
  (forall t r ln n, toks st = t :: r -> is_num_kind (tkind t) -> Q n (set_toks st r ln)) ->
  wp (parse_number input_len) Q st.
Proof.
  unfold wp, parse_number, bind, get, ret, tok_error, fail, is_num_kind. intros Q st HE HE' HQ.
  destruct (toks st) as [|t r]; [exact HE|].
  specialize (HE' t r eq_refl).
  destruct (tkind t) eqn:Hk; try exact HE';
    match goal with |- context[from_str_radix ?a ?b] => destruct (from_str_radix a b) end;
    try exact HE'; eapply HQ; try reflexivity; rewrite Hk; tauto.
Qed.

Lemma wp_get_line : forall (Q : N -> pstate -> Prop) st, Q (pline st) st -> wp get_line Q st.
Proof. intros. assumption. Qed.
Lemma wp_get_vars : forall (Q : fset -> pstate -> Prop) st, Q (pvars st) st -> wp get_vars Q st.
Proof. intros. assumption. Qed.
Lemma wp_put_vars : forall v (Q : unit -> pstate -> Prop) st, Q tt (set_vars st v) -> wp (put_vars v) Q st.
Proof. intros. assumption. Qed.
Lemma wp_modify_vars : forall f (Q : unit -> pstate -> Prop) st, Q tt (set_vars st (f (pvars st))) -> wp (modify_vars f) Q st.
Proof. intros. assumption. Qed.

Definition set_outputs (st : pstate) (l : list (name * span)) : pstate :=
  {| toks := toks st; pline := pline st; pvars := pvars st; pvirtuals := pvirtuals st;
     pexp_inputs := pexp_inputs st; pexp_outputs := l |}.
Definition set_inputs (st : pstate) (l : list (name * span)) : pstate :=
  {| toks := toks st; pline := pline st; pvars := pvars st; pvirtuals := pvirtuals st;
     pexp_inputs := l; pexp_outputs := pexp_outputs st |}.
Definition set_virtuals (st : pstate) (l : list (name * (span * expr))) : pstate :=
  {| toks := toks st; pline := pline st; pvars := pvars st; pvirtuals := l;
     pexp_inputs := pexp_inputs st; pexp_outputs := pexp_outputs st |}.

Lemma wp_note_read_output : forall x sp (Q : unit -> pstate -> Prop) st,
  (forall l, Q tt (set_outputs st l)) -> Q tt st -> wp (note_read_output x sp) Q st.
Proof.
  unfold wp, note_read_output. intros x sp Q st H1 H2.
  destruct (fs_contains (pvars st) x); [exact H2 | apply H1].
Qed.

Lemma wp_note_expected_input : forall x sp (Q : unit -> pstate -> Prop) st,
  Q tt (set_inputs st (or_insert x sp (pexp_inputs st))) -> wp (note_expected_input x sp) Q st.
Proof. intros. assumption. Qed.

Lemma wp_add_virtual : forall nm sp e (Q : unit -> pstate -> Prop) st,
  (forall prev e0, assoc_get nm (pvirtuals st) = Some (prev, e0) -> EA [prev; sp]) ->
  (assoc_get nm (pvirtuals st) = None -> Q tt (set_virtuals st (pvirtuals st ++ [(nm, (sp, e))]))) ->
  wp (add_virtual nm sp e) Q st.
Proof.
  unfold wp, add_virtual. intros nm sp e Q st HE H.
  destruct (assoc_get nm (pvirtuals st)) as [[ps pe]|]; [eapply HE; reflexivity | apply H; reflexivity].
Qed.

End WP.

Definition no_claim (_ : list span) : Prop := True.

(* ================================================================== one-step unfoldings *)

Section UNFOLD.
Variable input_len : N.
Variable hdr : list name.

Lemma parse_expr_S : forall f,
  parse_expr input_len (S f) =
  (first <- parse_factor input_len f ;; parse_expr_loop input_len f (BAtom first)).
Proof. reflexivity. Qed.

Lemma parse_expr_loop_S : forall f tree,
  parse_expr_loop input_len (S f) tree =
  (k <- peek ;;
   if is_binary_op k then
     t <- get input_len ;;
     match binop_of_token (tkind t) with
     | None => ppanic 3
     | Some op => e <- parse_factor input_len f ;; parse_expr_loop input_len f (bt_add tree op e)
     end
   else ret (bt_expr tree)).
Proof. reflexivity. Qed.

Lemma parse_factor_S : forall f,
  parse_factor input_len (S f) =
  (k <- peek ;;
   match k with
   | TDecInt | THexInt | TOctInt | TBinInt => n <- parse_number input_len ;; ret (ENum n)
   | TIdent =>
       ident_tok <- get input_len ;;
       let nm := ttext ident_tok in
       is_call <- at_ TLParen ;;
       if is_call then
         match func_arity nm with
         | None => tok_error ident_tok (PE_FunctionNotFound nm)
         | Some arity =>
             args <- parse_args input_len f [] ;;
             expect input_len TRParen ;;;
             if negb (Nlen args =? arity) then
               sp <- peek_span ;;
               fail {| pe_kind := PE_WrongNumberOfArguments arity (Nlen args);
                       pe_at := [(fst (tspan ident_tok), fst sp)] |}
             else ret (EFunc nm args)
         end
       else
         note_read_output nm (tspan ident_tok) ;;;
         ret (EVar nm)
   | TMinus | TLogicalNot | TBinaryNot =>
       skip input_len ;;;
       e <- parse_factor input_len f ;;
       match unop_of_token k with
       | Some op => ret (EUn op e)
       | None => ppanic 4
       end
   | TLParen =>
       skip input_len ;;;
       e <- parse_expr input_len f ;;
       expect input_len TRParen ;;;
       ret e
   | _ =>
       t <- get input_len ;;
       tok_error t (PE_UnexpectedToken k)
   end).
Proof. reflexivity. Qed.

Lemma parse_args_S : forall f acc,
  parse_args input_len (S f) acc =
  (skip input_len ;;;
   e <- parse_expr input_len f ;;
   more <- at_ TComma ;;
   if more then parse_args input_len f (acc ++ [e]) else ret (acc ++ [e])).
Proof. reflexivity. Qed.

Lemma parse_row_loop_S : forall f data signal_index,
  parse_row_loop input_len hdr (S f) data signal_index =
  (k <- peek ;;
   match k with
   | TLParen =>
       skip input_len ;;;
       e <- parse_expr input_len f ;;
       expect input_len TRParen ;;;
       parse_row_loop input_len hdr f (data ++ [DExpr e]) (signal_index + 1)
   | TBits =>
       skip input_len ;;;
       expect input_len TLParen ;;;
       at_sp <- peek_span ;;
       n <- parse_number input_len ;;
       if (64 <? n)%Z then fail {| pe_kind := PE_TooManyBits; pe_at := [at_sp] |}
       else
         expect input_len TComma ;;;
         e <- parse_expr input_len f ;;
         expect input_len TRParen ;;;
         parse_row_loop input_len hdr f (data ++ [DBits (Z.to_N n) e]) (signal_index + Z.to_N n)
   | TIdent =>
       t <- get input_len ;;
       let nm := ttext t in
       if is_cxz nm 99 67 then
         match nth_error hdr (N.to_nat signal_index) with
         | Some sig => note_expected_input sig (tspan t)
         | None => ret tt
         end ;;;
         parse_row_loop input_len hdr f (data ++ [DC]) (signal_index + 1)
       else if is_cxz nm 120 88 then parse_row_loop input_len hdr f (data ++ [DX]) (signal_index + 1)
       else if is_cxz nm 122 90 then parse_row_loop input_len hdr f (data ++ [DZ]) (signal_index + 1)
       else tok_error t (PE_ExpectedCXZ nm)
   | TDecInt | THexInt | TBinInt | TOctInt =>
       n <- parse_number input_len ;;
       parse_row_loop input_len hdr f (data ++ [DNum n]) (signal_index + 1)
   | TEol | TEof => ret (data, signal_index)
   | _ =>
       t <- get input_len ;;
       tok_error t (PE_UnexpectedToken k)
   end).
Proof. reflexivity. Qed.

(* the statement arms of parse_stmt_block, and the check after a statement *)
Definition block_arm (f : nat) (end_token : option tk) (block : list stmt) (k : tk) : P arm_result :=
  if is_row_start k then
    data <- parse_data_row input_len hdr f ;;
    ln <- get_line ;;
    ret (ArmContinue (block ++ [SRow data ln]))
  else match k with
  | TLoop =>
      skip input_len ;;;
      expect input_len TLParen ;;;
      vtok <- expect input_len TIdent ;;
      let variable := ttext vtok in
      expect input_len TComma ;;;
      max <- parse_expr input_len f ;;
      expect input_len TRParen ;;;
      expect input_len TEol ;;;
      modify_vars (fun v => fs_insert (fm_push_frame v) variable) ;;;
      inner <- parse_block_loop input_len hdr f (Some TLoop) [] ;;
      modify_vars fm_pop_frame ;;;
      ret (ArmContinue (block ++ [SLoop variable max inner]))
  | TRepeat =>
      skip input_len ;;;
      expect input_len TLParen ;;;
      max <- parse_expr input_len f ;;
      expect input_len TRParen ;;;
      modify_vars (fun v => fs_insert (fm_push_frame v) (s2n "n")) ;;;
      data <- parse_data_row input_len hdr f ;;
      modify_vars fm_pop_frame ;;;
      ln <- get_line ;;
      ret (ArmContinue (block ++ [SLoop (s2n "n") max [SRow data ln]]))
  | TLet =>
      skip input_len ;;;
      ntok <- expect input_len TIdent ;;
      let nm := ttext ntok in
      expect input_len TEqual ;;;
      e <- parse_expr input_len f ;;
      expect input_len TSemi ;;;
      modify_vars (fun v => fs_insert v nm) ;;;
      ret (ArmContinue (block ++ [SLet nm e]))
  | TResetRandom =>
      skip input_len ;;;
      expect input_len TSemi ;;;
      ret (ArmContinue (block ++ [SReset]))
  | TWhile =>
      skip input_len ;;;
      expect input_len TLParen ;;;
      cond <- parse_expr input_len f ;;
      expect input_len TRParen ;;;
      expect input_len TEol ;;;
      inner <- parse_block_loop input_len hdr f (Some TWhile) [] ;;
      ret (ArmContinue (block ++ [SWhile cond inner]))
  | TDeclare =>
      sp0 <- peek_span ;;
      skip input_len ;;;
      ntok <- expect input_len TIdent ;;
      let nm := ttext ntok in
      expect input_len TEqual ;;;
      saved <- get_vars ;;
      put_vars fm_new ;;;
      e <- parse_expr input_len f ;;
      put_vars saved ;;;
      expect input_len TSemi ;;;
      sp1 <- peek_span ;;
      add_virtual nm (fst sp0, fst sp1) e ;;;
      ret (ArmContinue block)
  | TProgram | TInit | TMemory | TDef | TCall =>
      t <- get input_len ;;
      tok_error t (PE_UnsupportedStatement k)
  | TEnd =>
      match end_token with
      | Some kind =>
          skip input_len ;;;
          expect input_len kind ;;;
          ret (ArmBreak block)
      | None =>
          t <- get input_len ;;
          tok_error t PE_UnexpectedEndAtTopLevel
      end
  | TEof =>
      t <- get input_len ;;
      match end_token with
      | Some _ => tok_error t PE_UnexpectedEof
      | None => ret (ArmBreak block)
      end
  | TEol => ret (ArmContinue block)
  | _ =>
      t <- get input_len ;;
      tok_error t PE_UnknownToken
  end.

Definition block_post (f : nat) (end_token : option tk) (arm : arm_result) : P (list stmt) :=
  match arm with
  | ArmBreak b => ret b
  | ArmContinue b =>
      at_eof <- at_ TEof ;;
      if at_eof then
        match end_token with
        | None => ret b
        | Some _ => parse_block_loop input_len hdr f end_token b
        end
      else
        at_eol <- at_ TEol ;;
        if at_eol then skip input_len ;;; parse_block_loop input_len hdr f end_token b
        else
          t <- get input_len ;;
          tok_error t PE_ExpectedNewLine
  end.

Lemma parse_block_loop_S : forall f end_token block,
  parse_block_loop input_len hdr (S f) end_token block =
  (k <- peek ;; arm <- block_arm f end_token block k ;; block_post f end_token arm).
Proof. reflexivity. Qed.

Lemma parse_data_row_eq : forall f,
  parse_data_row input_len hdr f =
  (row_start <- peek_span ;;
   r <- parse_row_loop input_len hdr f [] 0 ;;
   row_end <- peek_span ;;
   let '(data, signal_index) := r in
   if negb (signal_index =? Nlen hdr) then
     fail {| pe_kind := PE_DataRowWithWrongNumberOfSignals (Nlen hdr) signal_index;
             pe_at := [(fst row_start, fst row_end)] |}
   else ret data).
Proof. reflexivity. Qed.

End UNFOLD.

(* ================================================================== the sweep tactic *)

Ltac st_cbn_in H := cbn [toks pvirtuals pexp_inputs pexp_outputs pvars pline
                        set_toks set_vars set_outputs set_inputs set_virtuals] in H.
Ltac st_cbn := cbn [toks pvirtuals pexp_inputs pexp_outputs pvars pline
                    set_toks set_vars set_outputs set_inputs set_virtuals].

(* bring a fresh fact [H : toks <state> = t :: r] into normal form: at most one equation per
   state variable, every other mention of its token list rewritten *)
Ltac norm_tok H :=
  st_cbn_in H;
  try match type of H with
      | toks ?st = _ =>
          match goal with
          | H0 : toks st = _ |- _ => tryif constr_eq H0 H then fail else rewrite H0 in H
          end
      end;
  lazymatch type of H with
  | toks ?st = _ => try rewrite H in *
  | _ :: _ = ?t :: ?r => injection H as ? ?; subst t r
  | ?v = _ :: _ => subst v
  end.

Ltac norm_goal :=
  cbv beta;
  repeat match goal with Hk : tkind ?t = _ |- context[tkind ?t] => rewrite Hk end;
  cbn [tk_beq is_binary_op is_row_start binop_of_token unop_of_token fst snd];
  cbv beta.

Ltac find_call side_pre :=
  match goal with
  | H : _ |- wp _ _ _ _ _ _ => eapply H; side_pre
  end.

(* one step; [side_panic] proves F from "no token left", [side_err] proves the claim about
   the locations of an error, [side_pre] proves the precondition of a call (an induction
   hypothesis or a lemma posed in the context), [hook] saturates the context after new facts
   arrived *)
Ltac wp_step side_panic side_err side_pre hook :=
  let intro_tok :=
    (let t := fresh "t" in let r := fresh "r" in let H := fresh "Ht" in
     intros t r H; norm_tok H; hook; norm_goal) in
  let intro_tok_ln :=
    (let t := fresh "t" in let r := fresh "r" in let ln := fresh "ln" in let H := fresh "Ht" in
     intros t r ln H; norm_tok H; hook; norm_goal) in
  let err_tok :=
    (let t := fresh "t" in let r := fresh "r" in let H := fresh "Ht" in
     intros t r H; norm_tok H; hook; side_err) in
  lazymatch goal with
  | |- wp _ _ _ (bind _ _) _ _ => apply wp_bind
  | |- wp _ _ _ (ret _) _ _ => apply wp_ret; norm_goal
  | |- wp _ _ _ (fail _) _ _ => apply wp_fail; cbn [pe_at]; side_err
  | |- wp _ _ _ (tok_error _ _) _ _ => apply wp_tok_error; side_err
  | |- wp _ _ _ (ppanic _) _ _ => apply wp_ppanic; side_panic
  | |- wp _ _ _ peek _ _ => apply wp_peek; [ side_panic | intro_tok ]
  | |- wp _ _ _ peek_span _ _ => apply wp_peek_span; [ side_panic | intro_tok ]
  | |- wp _ _ _ (at_ _) _ _ => apply wp_at; [ side_panic | intro_tok ]
  | |- wp _ _ _ (get _) _ _ => apply wp_get; [ side_err | intro_tok_ln ]
  | |- wp _ _ _ (skip _) _ _ => apply wp_skip; [ side_panic | intro_tok_ln ]
  | |- wp _ _ _ (expect _ _) _ _ =>
      apply wp_expect;
      [ side_err | err_tok
      | (let t := fresh "t" in let r := fresh "r" in let ln := fresh "ln" in
         let H := fresh "Ht" in let Hk := fresh "Hk" in
         intros t r ln H Hk; norm_tok H; hook; norm_goal) ]
  | |- wp _ _ _ (parse_number _) _ _ =>
      apply wp_parse_number;
      [ side_err | err_tok
      | (let t := fresh "t" in let r := fresh "r" in let ln := fresh "ln" in let n := fresh "n" in
         let H := fresh "Ht" in let Hk := fresh "Hnum" in
         intros t r ln n H Hk; norm_tok H; hook; norm_goal) ]
  | |- wp _ _ _ get_line _ _ => apply wp_get_line; norm_goal
  | |- wp _ _ _ get_vars _ _ => apply wp_get_vars; norm_goal
  | |- wp _ _ _ (put_vars _) _ _ => apply wp_put_vars; norm_goal
  | |- wp _ _ _ (modify_vars _) _ _ => apply wp_modify_vars; norm_goal
  | |- wp _ _ _ (note_read_output _ _) _ _ => apply wp_note_read_output; [intros ?|]; norm_goal
  | |- wp _ _ _ (note_expected_input _ _) _ _ => apply wp_note_expected_input; norm_goal
  | |- wp _ _ _ (add_virtual _ _ _) _ _ =>
      apply wp_add_virtual;
      [ (let H := fresh "Hav" in intros ? ? H; st_cbn_in H); side_err
      | (let H := fresh "Hav" in intros H; st_cbn_in H); norm_goal ]
  | |- wp _ _ _ (match ?x with _ => _ end) _ _ =>
      lazymatch x with
      | context[tkind ?t] => destruct (tkind t) eqn:?
      | _ => tryif is_var x then destruct x else destruct x eqn:?
      end; hook; norm_goal
  | |- wp _ _ _ _ _ _ =>
      eapply wp_conseq; [ find_call side_pre | cbv beta; intros ? ? ?; hook; norm_goal ]
  end.

Ltac sweep side_panic side_err side_pre hook := repeat (wp_step side_panic side_err side_pre hook).
Ltac no_err := try (intros; exact I).

(* ================================================================== pass 1: no panic *)

Definition tok_post {A} (_ : A) (st' : pstate) : Prop := tokens_ok (toks st').
(* parse_args starts with an unguarded skip: its callers have looked at the token *)
Definition head_not_eof (ts : list token) : Prop :=
  exists t r, ts = t :: r /\ tkind t <> TEof /\ tokens_ok r.
(* the block loop may consume the final Eof, but only at top level, and then it returns *)
Definition et_final (end_token : option tk) : Prop :=
  match end_token with None | Some TEof => True | _ => False end.
Definition blk_post {A} (end_token : option tk) (_ : A) (st' : pstate) : Prop :=
  tokens_ok (toks st') \/ (et_final end_token /\ toks st' = []).
Definition arm_pre (end_token : option tk) (arm : arm_result) (st : pstate) : Prop :=
  match arm with
  | ArmContinue _ => tokens_ok (toks st)
  | ArmBreak _ => blk_post end_token tt st
  end.

(* saturate: the tail of a well-formed token list whose head is known not to be Eof is
   well-formed; after Eof nothing follows *)
Ltac np_hook :=
  repeat match goal with
  | H : _ /\ _ |- _ => destruct H
  | H : tok_post _ _ |- _ => unfold tok_post in H
  | H : blk_post (Some _) _ _ |- _ => unfold blk_post in H
  | H : tokens_ok _ \/ (et_final (Some _) /\ _) |- _ =>
      let HF := fresh in destruct H as [H | [HF _]]; [| exfalso; exact HF]
  | H : tk_beq _ _ = true |- _ => apply tk_beq_true in H
  | H : tk_beq _ _ = false |- _ => apply tk_beq_false in H
  | H : is_num_kind _ |- _ => unfold is_num_kind in H
  | Hok : tokens_ok (toks ?st), H : toks ?st = _ |- _ => rewrite H in Hok
  | Hok : tokens_ok (?t :: ?r), Hk : tkind ?t = TEof |- _ =>
      is_var r; pose proof (tokens_ok_eof _ _ Hok Hk); subst r
  | Hok : tokens_ok (?t :: ?r) |- _ =>
      lazymatch goal with
      | _ : tokens_ok r |- _ => fail
      | _ => assert (tokens_ok r)
               by (apply (tokens_ok_tail _ _ Hok);
                   first [ congruence | intuition congruence ])
      end
  end.

Ltac np_side_panic :=
  let E := fresh "E" in
  intro E; st_cbn_in E;
  try match goal with H0 : toks ?st = _ :: _ |- _ => rewrite H0 in E end;
  first [ discriminate E
        | match goal with Hok : tokens_ok _ |- _ => rewrite E in Hok; exact (tokens_ok_nil Hok) end ].

Ltac np_side_pre :=
  st_cbn; try match goal with H0 : toks ?st = _ :: _ |- _ => rewrite H0 end;
  first [ assumption
        | unfold head_not_eof; do 2 eexists; split; [reflexivity | split; [congruence | assumption]] ].

Ltac np_sweep := sweep np_side_panic no_err np_side_pre np_hook.
Ltac np_fin :=
  unfold tok_post, blk_post, arm_pre in *;
  try first [ np_side_pre | left; np_side_pre | right; st_cbn; split; [exact I | reflexivity] ].

Section NOPANIC.
Variable input_len : N.
Variable hdr : list name.

Notation wp1 := (wp False True no_claim).

Lemma expr_np : forall fuel,
  (forall st, tokens_ok (toks st) -> wp1 (parse_expr input_len fuel) tok_post st) /\
  (forall tree st, tokens_ok (toks st) -> wp1 (parse_expr_loop input_len fuel tree) tok_post st) /\
  (forall st, tokens_ok (toks st) -> wp1 (parse_factor input_len fuel) tok_post st) /\
  (forall acc st, head_not_eof (toks st) -> wp1 (parse_args input_len fuel acc) tok_post st).
Proof.
  induction fuel as [|f [IHe [IHl [IHf IHa]]]].
  - repeat split; intros; exact I.
  - split; [|split; [|split]].
    + intros st Hok. rewrite parse_expr_S. np_sweep; np_fin.
    + intros tree st Hok. rewrite parse_expr_loop_S. np_sweep; np_fin.
    + intros st Hok. rewrite parse_factor_S. np_sweep; np_fin.
    + intros acc st [t [r [Ht [Hk Hok]]]]. rewrite parse_args_S. np_sweep; np_fin.
Qed.

Lemma row_np : forall fuel data idx st, tokens_ok (toks st) ->
  wp1 (parse_row_loop input_len hdr fuel data idx) tok_post st.
Proof.
  induction fuel as [|f IH]; intros data idx st Hok; [exact I|].
  pose proof (proj1 (expr_np f)) as He.
  rewrite parse_row_loop_S. np_sweep; np_fin.
Qed.

Lemma data_row_np : forall f st, tokens_ok (toks st) ->
  wp1 (parse_data_row input_len hdr f) tok_post st.
Proof.
  intros f st Hok. pose proof (row_np f) as Hr.
  rewrite parse_data_row_eq. np_sweep; np_fin.
Qed.

Section BLOCK_STEP.
Variable f : nat.
Hypothesis IH : forall end_token block st, tokens_ok (toks st) ->
  wp1 (parse_block_loop input_len hdr f end_token block) (blk_post end_token) st.

Lemma post_np : forall end_token arm st, arm_pre end_token arm st ->
  wp1 (block_post input_len hdr f end_token arm) (blk_post end_token) st.
Proof.
  intros end_token arm st Hpre. unfold block_post, arm_pre in *.
  np_sweep; np_fin.
Qed.

Lemma arm_np : forall end_token block k st, tokens_ok (toks st) ->
  (exists t r, toks st = t :: r /\ tkind t = k) ->
  wp1 (block_arm input_len hdr f end_token block k) (fun arm st' => arm_pre end_token arm st') st.
Proof.
  intros end_token block k st Hok [t [r [Ht Hk]]]. subst k.
  pose proof (proj1 (expr_np f)) as He. pose proof (data_row_np f) as Hd.
  unfold block_arm. np_hook. np_sweep; np_fin.
  (* `end <kind>`: whatever kind the caller waits for *)
  subst. destruct (tkind t1) eqn:Hk1; np_hook; np_fin.
Qed.
End BLOCK_STEP.

Lemma block_np : forall fuel end_token block st, tokens_ok (toks st) ->
  wp1 (parse_block_loop input_len hdr fuel end_token block) (blk_post end_token) st.
Proof.
  induction fuel as [|f IH]; intros end_token block st Hok; [exact I|].
  rewrite parse_block_loop_S.
  apply wp_bind. apply wp_peek; [np_side_panic|]. intros t r Ht. cbv beta.
  apply wp_bind. eapply wp_conseq.
  - apply (arm_np f IH); [assumption | eauto].
  - intros arm st' Hpre. apply (post_np f IH). exact Hpre.
Qed.

End NOPANIC.

(* ------------------------------------------------------------------ the lexer's token list *)

Lemma keyword_or_ident_not_eof : forall w, keyword_or_ident w <> TEof.
Proof.
  intro w. unfold keyword_or_ident.
  assert (Hall : Forall (fun kw => snd kw <> TEof) keywords)
    by (unfold keywords; repeat constructor; discriminate).
  induction keywords as [|[n k] l IHl]; simpl; [discriminate|].
  inversion Hall; subst. destruct (name_eqb n w); [assumption | apply IHl; assumption].
Qed.

Lemma punct1_not_eof : forall c k, punct1 c = Some k -> k <> TEof.
Proof.
  intros c k. unfold punct1.
  repeat match goal with |- context[if ?b then _ else _] => destruct b end;
    intro H; inversion H; discriminate.
Qed.

Lemma punct2_not_eof : forall c d k, punct2 c d = Some k -> k <> TEof.
Proof.
  intros c d k. unfold punct2.
  repeat match goal with |- context[if ?b then _ else _] => destruct b end;
    intro H; inversion H; discriminate.
Qed.

Lemma ident_kind_not_eof : forall w r, ident_kind w r <> TEof.
Proof.
  intros w r. unfold ident_kind. destruct r as [|d r']; [apply keyword_or_ident_not_eof|].
  destruct ((128 <=? d) && is_nd_lead (utf8_lead d)); [discriminate | apply keyword_or_ident_not_eof].
Qed.

Lemma lex_one_not_eof : forall s k w r, lex_one s = Some (Some k, w, r) -> k <> TEof.
Proof.
  intros s k w r. unfold lex_one. destruct s as [|c s]; [discriminate|].
  repeat match goal with
  | |- context[let (_, _) := span_while ?p ?l in _] => destruct (span_while p l)
  | |- context[if ?b then _ else _] => destruct b
  | |- context[match ?l with [] => _ | _ :: _ => _ end] => destruct l
  | |- context[match punct2 ?a ?b with _ => _ end] =>
      let E := fresh "E" in destruct (punct2 a b) eqn:E; [apply punct2_not_eof in E|]
  | |- context[match punct1 ?a with _ => _ end] =>
      let E := fresh "E" in destruct (punct1 a) eqn:E; [apply punct1_not_eof in E|]
  end;
  intro H; inversion H; subst; try discriminate; try assumption; try apply keyword_or_ident_not_eof; try apply ident_kind_not_eof.
Qed.

Lemma lex_body_from_tokens_ok : forall fuel pos s ts, lex_body_from fuel pos s = Some ts -> tokens_ok ts.
Proof.
  induction fuel as [|f IH]; intros pos s ts H; simpl in H; [discriminate|].
  destruct (lex_one s) as [[[k w] r]|] eqn:E.
  - destruct (lex_body_from f (pos + text_bytes w) r) as [ts'|] eqn:E'; [|discriminate].
    apply IH in E'. destruct k as [kind|]; inversion H; subst; [|assumption].
    apply tokens_ok_cons; [|assumption]. simpl. eapply lex_one_not_eof; eassumption.
  - inversion H; subst. exists [], {| tkind := TEof; tspan := (pos, pos); ttext := [] |}.
    split; [reflexivity|]. split; [constructor | reflexivity].
Qed.

Theorem lex_body_tokens_ok : forall pos s ts, lex_body pos s = Some ts -> tokens_ok ts.
Proof. intros pos s ts. apply lex_body_from_tokens_ok. Qed.

(* ------------------------------------------------------------------ C09, first half *)

Theorem parse_block_never_panics : forall fuel input_len hdr end_token block st,
  tokens_ok (toks st) ->
  forall s, parse_block_loop input_len hdr fuel end_token block st <> Panic s.
Proof.
  intros fuel input_len hdr end_token block st Hok s E.
  pose proof (block_np input_len hdr fuel end_token block st Hok) as H.
  unfold wp in H. rewrite E in H. exact H.
Qed.

Lemma parse_header_loop_no_panic : forall fuel pos line names spans s site,
  parse_header_loop fuel pos line names spans s <> Panic site.
Proof.
  induction fuel as [|f IH]; intros pos line names spans s site; simpl; [discriminate|].
  destruct (hlex_one s) as [[[k w] r]|]; [|discriminate].
  destruct k as [[|]|]; try apply IH.
  - destruct (position (name_eqb w) names); [discriminate | apply IH].
  - destruct names; [apply IH | discriminate].
Qed.

Theorem parse_never_panics : forall s site, parse s <> Panic site.
Proof.
  intros s site. unfold parse.
  destruct (parse_header s) as [h| | |] eqn:Eh; try discriminate.
  - destruct (lex_body (h_pos h) (h_rest h)) as [ts|] eqn:El; [|discriminate].
    apply lex_body_tokens_ok in El.
    match goal with |- context[parse_block_loop ?a ?b ?c ?d ?e ?st] =>
      pose proof (parse_block_never_panics c a b d e st El) as Hnp;
      destruct (parse_block_loop a b c d e st) as [[stmts st']| | |] end; try discriminate.
    intro E. inversion E; subst. eapply Hnp. reflexivity.
  - intro E. inversion E; subst. eapply parse_header_loop_no_panic. exact Eh.
Qed.

(* ================================================================== pass 2: well-formedness *)

(* ------------------------------------------------------------------ expressions *)

Lemma wf_args_Forall : forall args,
  (fix go (l : list expr) : Prop := match l with [] => True | x :: r => wf_expr x /\ go r end) args
  <-> Forall wf_expr args.
Proof.
  induction args as [|a r IH]; split; intro H; auto.
  - destruct H as [H1 H2]. constructor; [exact H1 | apply IH; exact H2].
  - inversion H; subst. split; [assumption | apply IH; assumption].
Qed.

Lemma wf_expr_func : forall f args n,
  func_arity f = Some n -> Nlen args = n -> Forall wf_expr args -> wf_expr (EFunc f args).
Proof. intros f args n Hf Hn Ha. simpl. split; [congruence | apply wf_args_Forall; exact Ha]. Qed.

Lemma wf_bt_add : forall t op e,
  wf_expr (bt_expr t) -> wf_expr e -> wf_expr (bt_expr (bt_add t op e)).
Proof.
  induction t as [a|o l IHl r IHr]; intros op e Ht He; simpl in *.
  - auto.
  - destruct (precedence op <? precedence o); simpl; intuition.
Qed.

Lemma Forall_snoc : forall A (Q : A -> Prop) l x, Forall Q l -> Q x -> Forall Q (l ++ [x]).
Proof. intros. apply Forall_app. split; [assumption | constructor; [assumption | constructor]]. Qed.

(* ------------------------------------------------------------------ association lists *)

Lemma incl_or_insert : forall B k (v : B) l, incl l (or_insert k v l).
Proof. intros. unfold or_insert. destruct (assoc_mem k l); [apply incl_refl | apply incl_appl, incl_refl]. Qed.

Lemma in_or_insert : forall B k (v : B) l, In k (map fst (or_insert k v l)).
Proof.
  intros B k v l. unfold or_insert. destruct (assoc_mem k l) eqn:E.
  - unfold assoc_mem in E. apply existsb_exists in E. destruct E as [[k' v'] [Hin Heq]].
    simpl in Heq. apply name_eqb_eq in Heq. subst k'.
    apply in_map_iff. exists (k, v'). auto.
  - rewrite map_app. apply in_or_app. right. left. reflexivity.
Qed.

Lemma assoc_get_None : forall B k (l : list (name * B)), assoc_get k l = None -> ~ In k (map fst l).
Proof.
  intros B k l H Hin. unfold assoc_get in H.
  destruct (find (fun e => name_eqb (fst e) k) l) eqn:E; [discriminate|].
  apply in_map_iff in Hin. destruct Hin as [[k' v] [Hk Hin]]. simpl in Hk. subst k'.
  apply (find_none _ _ E) in Hin. simpl in Hin. rewrite name_eqb_refl in Hin. discriminate.
Qed.

Lemma incl_map_fst : forall A B (l l' : list (A * B)), incl l l' -> incl (map fst l) (map fst l').
Proof. intros. apply incl_map. assumption. Qed.

(* ------------------------------------------------------------------ rows *)

Local Open Scope nat_scope.

Lemma row_width_app : forall a b, row_width (a ++ b) = row_width a + row_width b.
Proof. induction a as [|d a IH]; intro b; simpl; [reflexivity | rewrite IH; lia]. Qed.

Lemma c_columns_from_app : forall a b i,
  c_columns_from i (a ++ b) = c_columns_from i a ++ c_columns_from (i + row_width a) b.
Proof.
  induction a as [|d a IH]; intros b i; simpl.
  - f_equal. lia.
  - destruct d; simpl; rewrite IH; simpl; try (f_equal; f_equal; lia).
    repeat (f_equal; try lia).
Qed.

Lemma c_columns_from_bound : forall a i j, In j (c_columns_from i a) -> i <= j < i + row_width a.
Proof.
  induction a as [|d a IH]; intros i j H; simpl in *; [contradiction|].
  destruct d; simpl in *;
    try (apply IH in H; lia).
  destruct H as [H|H]; [lia | apply IH in H; lia].
Qed.

Lemma c_columns_snoc : forall a d j,
  In j (c_columns (a ++ [d])) -> In j (c_columns a) \/ (d = DC /\ j = row_width a).
Proof.
  intros a d j H. unfold c_columns in *. rewrite c_columns_from_app in H.
  apply in_app_or in H. destruct H as [H|H]; [left; exact H|].
  destruct d; simpl in H; try contradiction. destruct H as [H|[]]. right. split; [reflexivity | lia].
Qed.

Lemma flat_map_snoc : forall A B (f : A -> list B) l x, flat_map f (l ++ [x]) = flat_map f l ++ f x.
Proof. intros. rewrite flat_map_app. simpl. rewrite app_nil_r. reflexivity. Qed.

Section ROWS.
Variable hdr : list name.

(* the invariant of the loop of parse_data_row: signal_index is the width so far; every C
   column that exists in the header has been recorded; the expressions are well-formed *)
Definition row_inv (inputs : list (name * span)) (data : list dentry) (idx : N) : Prop :=
  N.to_nat idx = row_width data /\
  (forall j nm, In j (c_columns data) -> nth_error hdr j = Some nm -> In nm (map fst inputs)) /\
  Forall wf_expr (flat_map entry_exprs data).

Definition row_ok (inputs : list (name * span)) (data : list dentry) : Prop :=
  row_width data = length hdr /\
  (forall j, In j (c_columns data) -> exists nm, nth_error hdr j = Some nm /\ In nm (map fst inputs)).

Lemma row_inv_nil : forall inputs, row_inv inputs [] 0%N.
Proof. intro. split; [reflexivity|]. split; [intros j nm []| constructor]. Qed.

Lemma row_inv_mono : forall I I' data idx, incl I I' -> row_inv I data idx -> row_inv I' data idx.
Proof.
  intros I I' data idx Hi [H1 [H2 H3]]. split; [assumption|]. split; [|assumption].
  intros j nm Hj Hn. eapply incl_map_fst; [eassumption|]. eapply H2; eassumption.
Qed.

Lemma row_inv_snoc : forall I I' data idx d w,
  row_inv I data idx -> incl I I' -> d <> DC -> N.to_nat w = entry_width d ->
  Forall wf_expr (entry_exprs d) ->
  row_inv I' (data ++ [d]) (idx + w)%N.
Proof.
  intros I I' data idx d w [H1 [H2 H3]] Hi Hd Hw He. split; [|split].
  - rewrite row_width_app. simpl. lia.
  - intros j nm Hj Hn. apply c_columns_snoc in Hj. destruct Hj as [Hj|[Hj _]]; [|contradiction].
    eapply incl_map_fst; [eassumption|]. eapply H2; eassumption.
  - rewrite flat_map_snoc. apply Forall_app. split; assumption.
Qed.

Lemma row_inv_snoc_C_some : forall I data idx sig sp,
  row_inv I data idx -> nth_error hdr (N.to_nat idx) = Some sig ->
  row_inv (or_insert sig sp I) (data ++ [DC]) (idx + 1)%N.
Proof.
  intros I data idx sig sp [H1 [H2 H3]] Hn. split; [|split].
  - rewrite row_width_app. simpl. lia.
  - intros j nm Hj Hnm. apply c_columns_snoc in Hj. destruct Hj as [Hj|[_ Hj]].
    + eapply incl_map_fst; [apply incl_or_insert|]. eapply H2; eassumption.
    + subst j. rewrite <- H1 in Hnm. rewrite Hn in Hnm. inversion Hnm; subst. apply in_or_insert.
  - rewrite flat_map_snoc. simpl. rewrite app_nil_r. assumption.
Qed.

Lemma row_inv_snoc_C_none : forall I data idx,
  row_inv I data idx -> nth_error hdr (N.to_nat idx) = None ->
  row_inv I (data ++ [DC]) (idx + 1)%N.
Proof.
  intros I data idx [H1 [H2 H3]] Hn. split; [|split].
  - rewrite row_width_app. simpl. lia.
  - intros j nm Hj Hnm. apply c_columns_snoc in Hj. destruct Hj as [Hj|[_ Hj]].
    + eapply H2; eassumption.
    + subst j. rewrite <- H1 in Hnm. congruence.
  - rewrite flat_map_snoc. simpl. rewrite app_nil_r. assumption.
Qed.

Lemma row_inv_ok : forall I data idx, row_inv I data idx -> idx = Nlen hdr -> row_ok I data.
Proof.
  intros I data idx [H1 [H2 H3]] Hi. subst idx. unfold Nlen in H1. rewrite Nat2N.id in H1.
  split; [symmetry; exact H1|]. intros j Hj.
  assert (Hb : j < length hdr).
  { unfold c_columns in Hj. apply c_columns_from_bound in Hj. lia. }
  destruct (nth_error hdr j) as [nm|] eqn:E.
  - exists nm. split; [reflexivity|]. eapply H2; eassumption.
  - apply nth_error_None in E. lia.
Qed.

Lemma row_ok_mono : forall I I' data, incl I I' -> row_ok I data -> row_ok I' data.
Proof.
  intros I I' data Hi [H1 H2]. split; [assumption|]. intros j Hj.
  destruct (H2 j Hj) as [nm [Hn Hin]]. exists nm. split; [assumption|].
  eapply incl_map_fst; eassumption.
Qed.

(* ------------------------------------------------------------------ blocks *)

Lemma stmt_rows_loop : forall v max body, stmt_rows (SLoop v max body) = rows_of body.
Proof. intros. simpl. induction body as [|x r IH]; simpl; [reflexivity | rewrite IH; reflexivity]. Qed.
Lemma stmt_rows_while : forall c body, stmt_rows (SWhile c body) = rows_of body.
Proof. intros. simpl. induction body as [|x r IH]; simpl; [reflexivity | rewrite IH; reflexivity]. Qed.
Lemma stmt_exprs_loop : forall v max body, stmt_exprs (SLoop v max body) = max :: exprs_of body.
Proof. reflexivity. Qed.
Lemma stmt_exprs_while : forall c body, stmt_exprs (SWhile c body) = c :: exprs_of body.
Proof. reflexivity. Qed.

Definition blk_ok (inputs : list (name * span)) (block : list stmt) : Prop :=
  (forall data, In data (rows_of block) -> row_ok inputs data) /\ Forall wf_expr (exprs_of block).

Lemma blk_ok_nil : forall I, blk_ok I [].
Proof. intro. split; [intros data [] | constructor]. Qed.

Lemma blk_ok_mono : forall I I' b, incl I I' -> blk_ok I b -> blk_ok I' b.
Proof.
  intros I I' b Hi [H1 H2]. split; [|assumption].
  intros data Hd. eapply row_ok_mono; [eassumption | apply H1; assumption].
Qed.

Lemma blk_ok_snoc : forall I b s,
  blk_ok I b -> (forall data, In data (stmt_rows s) -> row_ok I data) -> Forall wf_expr (stmt_exprs s) ->
  blk_ok I (b ++ [s]).
Proof.
  intros I b s [H1 H2] Hr He. unfold blk_ok, rows_of, exprs_of. rewrite !flat_map_snoc. split.
  - intros data Hd. apply in_app_or in Hd. destruct Hd; auto.
  - apply Forall_app. split; assumption.
Qed.

Lemma blk_ok_row : forall I I' b data ln,
  blk_ok I b -> incl I I' -> row_ok I' data -> Forall wf_expr (flat_map entry_exprs data) ->
  blk_ok I' (b ++ [SRow data ln]).
Proof.
  intros I I' b data ln Hb Hi Hr He. apply blk_ok_snoc.
  - eapply blk_ok_mono; eassumption.
  - simpl. intros d [Hd|[]]. subst d. assumption.
  - simpl. assumption.
Qed.

Lemma blk_ok_loop : forall I I' b v max inner,
  blk_ok I b -> incl I I' -> wf_expr max -> blk_ok I' inner ->
  blk_ok I' (b ++ [SLoop v max inner]).
Proof.
  intros I I' b v max inner Hb Hi Hm [H1 H2]. apply blk_ok_snoc.
  - eapply blk_ok_mono; eassumption.
  - rewrite stmt_rows_loop. assumption.
  - rewrite stmt_exprs_loop. constructor; assumption.
Qed.

Lemma blk_ok_while : forall I I' b c inner,
  blk_ok I b -> incl I I' -> wf_expr c -> blk_ok I' inner ->
  blk_ok I' (b ++ [SWhile c inner]).
Proof.
  intros I I' b c inner Hb Hi Hm [H1 H2]. apply blk_ok_snoc.
  - eapply blk_ok_mono; eassumption.
  - rewrite stmt_rows_while. assumption.
  - rewrite stmt_exprs_while. constructor; assumption.
Qed.

Lemma blk_ok_let : forall I I' b nm e,
  blk_ok I b -> incl I I' -> wf_expr e -> blk_ok I' (b ++ [SLet nm e]).
Proof.
  intros I I' b nm e Hb Hi He. apply blk_ok_snoc.
  - eapply blk_ok_mono; eassumption.
  - intros data [].
  - simpl. constructor; [assumption | constructor].
Qed.

Lemma blk_ok_reset : forall I b, blk_ok I b -> blk_ok I (b ++ [SReset]).
Proof. intros I b Hb. apply blk_ok_snoc; [assumption | intros data [] | constructor]. Qed.

Lemma row_inv_exprs : forall I data idx, row_inv I data idx -> Forall wf_expr (flat_map entry_exprs data).
Proof. intros I data idx [_ [_ H]]. exact H. Qed.

Lemma blk_ok_single_row : forall I data ln,
  row_ok I data -> Forall wf_expr (flat_map entry_exprs data) -> blk_ok I [SRow data ln].
Proof.
  intros I data ln Hr He. change [SRow data ln] with ([] ++ [SRow data ln]).
  eapply blk_ok_row; [apply blk_ok_nil | apply incl_refl | assumption | assumption].
Qed.

End ROWS.

Lemma NoDup_snoc : forall A (l : list A) x, NoDup l -> ~ In x l -> NoDup (l ++ [x]).
Proof.
  intros A l x Hl Hx. eapply Permutation_NoDup; [apply Permutation_cons_append|].
  constructor; assumption.
Qed.

Definition virt_ok (l : list (name * (span * expr))) : Prop :=
  NoDup (map fst l) /\ Forall (fun v => wf_expr (snd (snd v))) l.

Lemma virt_ok_snoc : forall l nm sp e,
  virt_ok l -> assoc_get nm l = None -> wf_expr e -> virt_ok (l ++ [(nm, (sp, e))]).
Proof.
  intros l nm sp e [H1 H2] Hn He. split.
  - rewrite map_app. simpl. apply NoDup_snoc; [assumption | apply assoc_get_None; assumption].
  - apply Forall_snoc; assumption.
Qed.

Local Close Scope nat_scope.

(* ------------------------------------------------------------------ the sweep *)

(* the expression parser touches neither the virtual-signal table nor the expected inputs *)
Definition same_tabs (st st' : pstate) : Prop :=
  pvirtuals st' = pvirtuals st /\ pexp_inputs st' = pexp_inputs st.
Definition expr_post (st : pstate) (e : expr) (st' : pstate) : Prop := wf_expr e /\ same_tabs st st'.
Definition args_post (st : pstate) (l : list expr) (st' : pstate) : Prop :=
  Forall wf_expr l /\ same_tabs st st'.

Definition row_post (hdr : list name) (st : pstate) (r : list dentry * N) (st' : pstate) : Prop :=
  row_inv hdr (pexp_inputs st') (fst r) (snd r) /\
  pvirtuals st' = pvirtuals st /\ incl (pexp_inputs st) (pexp_inputs st').
Definition data_post (hdr : list name) (st : pstate) (data : list dentry) (st' : pstate) : Prop :=
  row_ok hdr (pexp_inputs st') data /\ Forall wf_expr (flat_map entry_exprs data) /\
  pvirtuals st' = pvirtuals st /\ incl (pexp_inputs st) (pexp_inputs st').
Definition blk_post2 (hdr : list name) (st : pstate) (b : list stmt) (st' : pstate) : Prop :=
  blk_ok hdr (pexp_inputs st') b /\ virt_ok (pvirtuals st') /\
  incl (pexp_inputs st) (pexp_inputs st').
Definition arm_block (arm : arm_result) : list stmt :=
  match arm with ArmContinue b | ArmBreak b => b end.
Definition arm_post2 (hdr : list name) (st : pstate) (arm : arm_result) (st' : pstate) : Prop :=
  blk_post2 hdr st (arm_block arm) st'.

Create HintDb wfdb.
#[export] Hint Resolve wf_bt_add Forall_snoc Forall_nil Forall_cons incl_refl incl_or_insert
  row_inv_nil blk_ok_nil : wfdb.

Ltac rw_tabs :=
  repeat match goal with
  | H : pexp_inputs ?x = _ |- _ => is_var x; try rewrite H in *; clear H
  | H : pvirtuals ?x = _ |- _ => is_var x; try rewrite H in *; clear H
  end.

Ltac wf_hook :=
  repeat match goal with
  | H : _ /\ _ |- _ => destruct H
  | H : expr_post _ _ _ |- _ => unfold expr_post, same_tabs in H; st_cbn_in H
  | H : args_post _ _ _ |- _ => unfold args_post, same_tabs in H; st_cbn_in H
  | H : row_post _ _ _ _ |- _ => unfold row_post in H; st_cbn_in H; cbn [fst snd] in H
  | H : data_post _ _ _ _ |- _ => unfold data_post in H; st_cbn_in H
  | H : blk_post2 _ _ _ _ |- _ => unfold blk_post2 in H; st_cbn_in H
  | H : arm_post2 _ _ _ _ |- _ => unfold arm_post2 in H; cbn [arm_block] in H
  | H : negb _ = false |- _ => apply negb_false_iff in H
  | H : (_ =? _)%N = true |- _ => apply N.eqb_eq in H
  end.

Ltac wf_side_panic := first [ exact I | intro; exact I ].
Ltac wf_leaf :=
  first [ assumption | reflexivity
        | solve [eapply wf_expr_func; eauto with wfdb]
        | solve [cbn [wf_expr bt_expr]; eauto with wfdb]
        | solve [eapply row_inv_snoc;
                 [ eassumption | eauto with wfdb | discriminate | reflexivity
                 | cbn [entry_exprs]; eauto with wfdb ]]
        | solve [eapply row_inv_snoc_C_some; eassumption]
        | solve [eapply row_inv_snoc_C_none; eassumption]
        | solve [eapply row_inv_ok; eassumption]
        | solve [eapply row_inv_exprs; eassumption]
        | solve [eapply virt_ok_snoc; eassumption]
        | solve [eauto 4 using incl_tran with wfdb]
        | solve [eapply blk_ok_row; [eassumption | eauto 4 using incl_tran with wfdb | eassumption | eassumption]]
        | solve [eapply blk_ok_loop; [eassumption | eauto 4 using incl_tran with wfdb | eassumption | eassumption]]
        | solve [eapply blk_ok_loop;
                 [eassumption | eauto 4 using incl_tran with wfdb | eassumption
                 | eapply blk_ok_single_row; eassumption]]
        | solve [eapply blk_ok_while; [eassumption | eauto 4 using incl_tran with wfdb | eassumption | eassumption]]
        | solve [eapply blk_ok_let; [eassumption | eauto 4 using incl_tran with wfdb | eassumption]]
        | solve [eapply blk_ok_reset; eassumption]
        | solve [eapply blk_ok_mono; [|eassumption]; eauto 4 using incl_tran with wfdb] ].
Ltac wf_side_pre := st_cbn; rw_tabs; try wf_leaf.
Ltac wf_sweep := sweep wf_side_panic no_err wf_side_pre wf_hook.
Ltac wf_fin :=
  unfold expr_post, args_post, same_tabs, row_post, data_post, arm_post2, blk_post2; st_cbn; cbn [arm_block]; cbn [fst snd]; rw_tabs;
  repeat match goal with |- _ /\ _ => split end; try wf_leaf.

Section WF.
Variable input_len : N.
Variable hdr : list name.

Notation wp2 := (wp True True no_claim).

Lemma expr_wf : forall fuel,
  (forall st, wp2 (parse_expr input_len fuel) (expr_post st) st) /\
  (forall tree st, wf_expr (bt_expr tree) -> wp2 (parse_expr_loop input_len fuel tree) (expr_post st) st) /\
  (forall st, wp2 (parse_factor input_len fuel) (expr_post st) st) /\
  (forall acc st, Forall wf_expr acc -> wp2 (parse_args input_len fuel acc) (args_post st) st).
Proof.
  induction fuel as [|f [IHe [IHl [IHf IHa]]]].
  - repeat split; intros; exact I.
  - split; [|split; [|split]].
    + intros st. rewrite parse_expr_S. wf_sweep; wf_fin.
    + intros tree st Htree. rewrite parse_expr_loop_S. wf_sweep; wf_fin.
    + intros st. rewrite parse_factor_S. wf_sweep; wf_fin.
    + intros acc st Hacc. rewrite parse_args_S. wf_sweep; wf_fin.
Qed.

Lemma row_wf : forall fuel data idx st, row_inv hdr (pexp_inputs st) data idx ->
  wp2 (parse_row_loop input_len hdr fuel data idx) (row_post hdr st) st.
Proof.
  induction fuel as [|f IH]; intros data idx st Hinv; [exact I|].
  pose proof (proj1 (expr_wf f)) as He.
  rewrite parse_row_loop_S. wf_sweep; wf_fin.
Qed.

Lemma data_row_wf : forall f st, wp2 (parse_data_row input_len hdr f) (data_post hdr st) st.
Proof.
  intros f st. pose proof (row_wf f) as Hr.
  rewrite parse_data_row_eq. wf_sweep; wf_fin.
Qed.

Section BLOCK_STEP.
Variable f : nat.
Hypothesis IH : forall end_token block st,
  blk_ok hdr (pexp_inputs st) block -> virt_ok (pvirtuals st) ->
  wp2 (parse_block_loop input_len hdr f end_token block) (blk_post2 hdr st) st.

Lemma post_wf : forall end_token arm st,
  blk_ok hdr (pexp_inputs st) (arm_block arm) -> virt_ok (pvirtuals st) ->
  wp2 (block_post input_len hdr f end_token arm) (blk_post2 hdr st) st.
Proof.
  intros end_token arm st Hb Hv. unfold block_post. wf_sweep; wf_fin.
Qed.

Lemma arm_wf : forall end_token block k st,
  blk_ok hdr (pexp_inputs st) block -> virt_ok (pvirtuals st) ->
  wp2 (block_arm input_len hdr f end_token block k) (arm_post2 hdr st) st.
Proof.
  intros end_token block k st Hb Hv.
  pose proof (proj1 (expr_wf f)) as He. pose proof (data_row_wf f) as Hd.
  unfold block_arm. wf_sweep; wf_fin.
Qed.
End BLOCK_STEP.

Lemma block_wf : forall fuel end_token block st,
  blk_ok hdr (pexp_inputs st) block -> virt_ok (pvirtuals st) ->
  wp2 (parse_block_loop input_len hdr fuel end_token block) (blk_post2 hdr st) st.
Proof.
  induction fuel as [|f IH]; intros end_token block st Hb Hv; [exact I|].
  rewrite parse_block_loop_S.
  apply wp_bind. apply wp_peek; [intro; exact I|]. intros t r Ht. cbv beta.
  apply wp_bind. eapply wp_conseq; [apply (arm_wf f IH); assumption|].
  intros arm st' [Hb' [Hv' Hi']]. eapply wp_conseq; [apply (post_wf f IH); assumption|].
  intros b st'' [Hb'' [Hv'' Hi'']]. split; [assumption|]. split; [assumption|].
  eapply incl_tran; eassumption.
Qed.

End WF.

(* ------------------------------------------------------------------ the header *)

Lemma position_None : forall A (p : A -> bool) l x, position p l = None -> In x l -> p x = false.
Proof.
  induction l as [|y r IH]; simpl; intros x H Hin; [contradiction|].
  destruct (p y) eqn:E; [discriminate|].
  destruct (position p r) eqn:E'; [discriminate|].
  destruct Hin as [Hin|Hin]; [subst; assumption | apply IH; auto].
Qed.

Lemma parse_header_loop_nodup : forall fuel pos line names spans s h,
  NoDup names -> parse_header_loop fuel pos line names spans s = Ok h -> NoDup (h_names h).
Proof.
  induction fuel as [|f IH]; intros pos line names spans s h Hnd H; simpl in H; [discriminate|].
  destruct (hlex_one s) as [[[k w] r]|]; [|discriminate].
  destruct k as [[|]|].
  - destruct (position (name_eqb w) names) eqn:E; [discriminate|].
    eapply IH; [|exact H]. apply NoDup_snoc; [assumption|].
    intro Hin. pose proof (position_None _ _ _ _ E Hin) as Hf.
    rewrite name_eqb_refl in Hf. discriminate.
  - destruct names as [|n0 names'].
    + eapply IH; [|exact H]. assumption.
    + inversion H; subst. simpl. assumption.
  - eapply IH; eassumption.
Qed.

(* ------------------------------------------------------------------ the final sort *)

Lemma insert_sorted_perm : forall A (key : A -> N) x l, Permutation (insert_sorted key x l) (x :: l).
Proof.
  induction l as [|y r IH]; simpl; [apply Permutation_refl|].
  destruct (key y <=? key x).
  - eapply Permutation_trans; [apply perm_skip; exact IH | apply perm_swap].
  - apply Permutation_refl.
Qed.

Lemma sort_by_key_perm : forall A (key : A -> N) l, Permutation (sort_by_key key l) l.
Proof.
  intros A key l. unfold sort_by_key.
  assert (H : forall l acc, Permutation (fold_left (fun acc x => insert_sorted key x acc) l acc) (l ++ acc)).
  { induction l0 as [|x r IH]; intro acc; simpl; [apply Permutation_refl|].
    eapply Permutation_trans; [apply IH|].
    eapply Permutation_trans; [apply Permutation_app_head; apply insert_sorted_perm|].
    apply Permutation_sym. apply Permutation_middle. }
  specialize (H l []). rewrite app_nil_r in H. exact H.
Qed.

(* ------------------------------------------------------------------ parse_wf *)

Theorem parse_wf : forall s p, parse s = Ok p -> wf_parsed p.
Proof.
  intros s p H. unfold parse in H.
  destruct (parse_header s) as [h| | |] eqn:Eh; try discriminate.
  destruct (lex_body (h_pos h) (h_rest h)) as [ts|] eqn:El; [|discriminate].
  match type of H with context[parse_block_loop ?a ?b ?c ?d ?e ?st] =>
    pose proof (block_wf a b c d e st) as Hw;
    destruct (parse_block_loop a b c d e st) as [[stmts st']| | |] eqn:Eb end; try discriminate.
  unfold wp in Hw. rewrite Eb in Hw. simpl in Hw.
  destruct Hw as [[Hrows Hexprs] [[Hvn Hvw] _]].
  { apply blk_ok_nil. } { split; constructor. }
  inversion H; subst p; clear H. unfold wf_parsed; simpl.
  split; [|split; [|split; [|split]]].
  - unfold parse_header in Eh. eapply parse_header_loop_nodup; [|exact Eh]. constructor.
  - intros data Hd. destruct (Hrows data Hd) as [Hw Hc]. split; [exact Hw|].
    intros j Hj. destruct (Hc j Hj) as [nm [Hn Hin]]. exists nm. split; [exact Hn|].
    eapply Permutation_in; [|exact Hin]. apply Permutation_map. apply Permutation_sym.
    apply sort_by_key_perm.
  - exact Hexprs.
  - apply Forall_map. simpl.
    eapply Permutation_Forall; [apply Permutation_sym; apply sort_by_key_perm|]. exact Hvw.
  - rewrite map_map. simpl.
    eapply Permutation_NoDup; [|exact Hvn]. apply Permutation_map. apply Permutation_sym.
    apply sort_by_key_perm.
Qed.

(* ================================================================== pass 3: the fuel suffices *)

Local Open Scope nat_scope.

(* how many tokens are left: strictly fewer / not more than before *)
Definition lt_post {A} (st : pstate) (_ : A) (st' : pstate) : Prop := length (toks st') < length (toks st).
Definition le_post {A} (st : pstate) (_ : A) (st' : pstate) : Prop := length (toks st') <= length (toks st).

Ltac len_norm :=
  st_cbn;
  repeat match goal with
  | H : lt_post _ _ _ |- _ => unfold lt_post in H; st_cbn_in H
  | H : le_post _ _ _ |- _ => unfold le_post in H; st_cbn_in H
  end;
  repeat match goal with H : toks _ = _ |- _ => rewrite H in * end;
  cbn [length] in *.

Ltac oof_hook :=
  repeat match goal with
  | H : lt_post _ _ _ |- _ => unfold lt_post in H; st_cbn_in H
  | H : le_post _ _ _ |- _ => unfold le_post in H; st_cbn_in H
  end.
Ltac oof_side_pre := len_norm; lia.
Ltac oof_sweep := sweep wf_side_panic no_err oof_side_pre oof_hook.
Ltac oof_fin := unfold lt_post, le_post; try (len_norm; lia).

Section FUEL.
Variable input_len : N.
Variable hdr : list name.

Notation wp3 := (wp True False no_claim).

Lemma expr_fuel : forall fuel,
  (forall st, fuel >= 2 + 4 * length (toks st) -> wp3 (parse_expr input_len fuel) (lt_post st) st) /\
  (forall tree st, fuel >= 1 + 4 * length (toks st) ->
     wp3 (parse_expr_loop input_len fuel tree) (le_post st) st) /\
  (forall st, fuel >= 1 + 4 * length (toks st) -> wp3 (parse_factor input_len fuel) (lt_post st) st) /\
  (forall acc st, fuel >= 1 + 4 * length (toks st) -> wp3 (parse_args input_len fuel acc) (lt_post st) st).
Proof.
  induction fuel as [|f [IHe [IHl [IHf IHa]]]].
  - repeat split; intros; lia.
  - split; [|split; [|split]].
    + intros st Hfuel. rewrite parse_expr_S. oof_sweep; oof_fin.
    + intros tree st Hfuel. rewrite parse_expr_loop_S. oof_sweep; oof_fin.
    + intros st Hfuel. rewrite parse_factor_S. oof_sweep; oof_fin.
    + intros acc st Hfuel. rewrite parse_args_S. oof_sweep; oof_fin.
Qed.

Lemma row_fuel : forall fuel data idx st, fuel >= 1 + 4 * length (toks st) ->
  wp3 (parse_row_loop input_len hdr fuel data idx) (le_post st) st.
Proof.
  induction fuel as [|f IH]; intros data idx st Hfuel; [lia|].
  pose proof (proj1 (expr_fuel f)) as He.
  rewrite parse_row_loop_S. oof_sweep; oof_fin.
Qed.

Lemma data_row_fuel : forall f st, f >= 1 + 4 * length (toks st) ->
  wp3 (parse_data_row input_len hdr f) (le_post st) st.
Proof.
  intros f st Hfuel. pose proof (row_fuel f) as Hr.
  rewrite parse_data_row_eq. oof_sweep; oof_fin.
Qed.

(* the one iteration that starts without a token having been consumed: after a statement,
   at Eof inside a loop body, the loop goes round once more -- and reports the error *)
Lemma block_at_eof_some : forall f kind block st t r Q,
  toks st = t :: r -> tkind t = TEof -> f >= 1 ->
  wp3 (parse_block_loop input_len hdr f (Some kind) block) Q st.
Proof.
  intros f kind block st t r Q Ht Hk Hf. destruct f as [|f]; [lia|].
  rewrite parse_block_loop_S. unfold block_arm.
  oof_sweep.
Qed.

Section BLOCK_STEP.
Variable f : nat.
Hypothesis IH : forall end_token block st, f >= 2 + 4 * length (toks st) ->
  wp3 (parse_block_loop input_len hdr f end_token block) (le_post st) st.

Lemma post_fuel : forall end_token arm st, f >= 1 + 4 * length (toks st) ->
  wp3 (block_post input_len hdr f end_token arm) (le_post st) st.
Proof.
  intros end_token arm st Hfuel. unfold block_post. oof_sweep; oof_fin.
  eapply block_at_eof_some; [eassumption | eassumption | cbn [length] in Hfuel; lia].
Qed.

Lemma arm_fuel : forall end_token block k st, f >= 1 + 4 * length (toks st) ->
  wp3 (block_arm input_len hdr f end_token block k) (le_post st) st.
Proof.
  intros end_token block k st Hfuel.
  pose proof (proj1 (expr_fuel f)) as He. pose proof (data_row_fuel f) as Hd.
  unfold block_arm. oof_sweep; oof_fin.
Qed.
End BLOCK_STEP.

Lemma block_fuel : forall fuel end_token block st, fuel >= 2 + 4 * length (toks st) ->
  wp3 (parse_block_loop input_len hdr fuel end_token block) (le_post st) st.
Proof.
  induction fuel as [|f IH]; intros end_token block st Hfuel; [lia|].
  rewrite parse_block_loop_S.
  apply wp_bind. apply wp_peek; [intro; exact I|]. intros t r Ht. cbv beta.
  apply wp_bind. eapply wp_conseq; [apply (arm_fuel f IH); lia|].
  intros arm st' Hle. unfold le_post in Hle.
  eapply wp_conseq; [apply (post_fuel f IH); lia|].
  intros b st'' Hle'. unfold le_post in *. lia.
Qed.

End FUEL.

(* ------------------------------------------------------------------ lexer and header fuel *)

Lemma span_while_length : forall p s a b, span_while p s = (a, b) -> length b <= length s.
Proof.
  induction s as [|c s IH]; intros a b H; simpl in H.
  - inversion H; subst. simpl. lia.
  - destruct (p c).
    + destruct (span_while p s) as [a' b'] eqn:E. inversion H; subst.
      specialize (IH _ _ eq_refl). simpl. lia.
    + inversion H; subst. lia.
Qed.

Lemma lex_one_shorter : forall s k w r, lex_one s = Some (k, w, r) -> length r < length s.
Proof.
  intros s k w r. unfold lex_one. destruct s as [|c s]; [discriminate|].
  repeat match goal with
  | |- context[let (_, _) := span_while ?p ?l in _] =>
      let E := fresh "E" in destruct (span_while p l) eqn:E; apply span_while_length in E
  | |- context[if ?b then _ else _] => destruct b
  | |- context[match ?l with [] => _ | _ :: _ => _ end] => destruct l
  | |- context[match punct2 ?a ?b with _ => _ end] => destruct (punct2 a b)
  | |- context[match punct1 ?a with _ => _ end] => destruct (punct1 a)
  end;
  intro H; inversion H; subst; simpl in *; lia.
Qed.

Lemma lex_body_from_fuel : forall fuel pos s, fuel > length s -> lex_body_from fuel pos s <> None.
Proof.
  induction fuel as [|f IH]; intros pos s Hf; [lia|]. simpl.
  destruct (lex_one s) as [[[k w] r]|] eqn:E; [|discriminate].
  apply lex_one_shorter in E.
  specialize (IH (pos + text_bytes w)%N r ltac:(lia)).
  destruct (lex_body_from f (pos + text_bytes w) r); [|congruence].
  destruct k; discriminate.
Qed.

Theorem lex_body_never_oof : forall pos s, lex_body pos s <> None.
Proof. intros. apply lex_body_from_fuel. lia. Qed.

Lemma hlex_one_shorter : forall s k w r, hlex_one s = Some (k, w, r) -> length r < length s.
Proof.
  intros s k w r. unfold hlex_one. destruct s as [|c s]; [discriminate|].
  repeat match goal with
  | |- context[let (_, _) := span_while ?p ?l in _] =>
      let E := fresh "E" in destruct (span_while p l) eqn:E; apply span_while_length in E
  | |- context[if ?b then _ else _] => destruct b
  end;
  intro H; inversion H; subst; simpl in *; lia.
Qed.

Lemma parse_header_loop_fuel : forall fuel pos line names spans s, fuel > length s ->
  parse_header_loop fuel pos line names spans s <> OOF.
Proof.
  induction fuel as [|f IH]; intros pos line names spans s Hf; [lia|]. simpl.
  destruct (hlex_one s) as [[[k w] r]|] eqn:E; [|discriminate].
  apply hlex_one_shorter in E.
  destruct k as [[|]|].
  - destruct (position (name_eqb w) names); [discriminate | apply IH; lia].
  - destruct names; [apply IH; lia | discriminate].
  - apply IH; lia.
Qed.

(* ------------------------------------------------------------------ C09, second half *)

Theorem parse_block_never_oof : forall fuel input_len hdr end_token block st,
  fuel >= 2 + 4 * length (toks st) ->
  parse_block_loop input_len hdr fuel end_token block st <> OOF.
Proof.
  intros fuel input_len hdr end_token block st Hf E.
  pose proof (block_fuel input_len hdr fuel end_token block st Hf) as H.
  unfold wp in H. rewrite E in H. exact H.
Qed.

Theorem parse_never_oof : forall s, parse s <> OOF.
Proof.
  intros s. unfold parse.
  destruct (parse_header s) as [h| | |] eqn:Eh; try discriminate.
  - destruct (lex_body (h_pos h) (h_rest h)) as [ts|] eqn:El;
      [|exfalso; eapply lex_body_never_oof; exact El].
    match goal with |- context[parse_block_loop ?a ?b ?c ?d ?e ?st] =>
      pose proof (parse_block_never_oof c a b d e st) as Hno;
      destruct (parse_block_loop a b c d e st) as [[stmts st']| | |] end; try discriminate.
    intros _. apply Hno; [|reflexivity]. unfold parser_fuel. simpl. lia.
  - intros _. unfold parse_header in Eh. eapply parse_header_loop_fuel; [|exact Eh]. lia.
Qed.

Local Close Scope nat_scope.

(* ================================================================== pass 4: error locations *)

Local Open Scope N_scope.

Definition valid_span (total : N) (sp : span) : Prop := fst sp <= snd sp /\ snd sp <= total.
Definition spans_valid (total : N) (l : list span) : Prop := Forall (valid_span total) l.

(* the spans of the token list are ordered, do not overlap, start at or after [lo], and lie
   inside the text *)
Fixpoint spans_ok (total lo : N) (ts : list token) : Prop :=
  match ts with
  | [] => lo <= total
  | t :: r => lo <= fst (tspan t) /\ fst (tspan t) <= snd (tspan t) /\ snd (tspan t) <= total /\
              spans_ok total (snd (tspan t)) r
  end.

Definition virt_spans_ok (total : N) (l : list (name * (span * expr))) : Prop :=
  Forall (fun v => valid_span total (fst (snd v))) l.

Lemma assoc_get_valid : forall total nm l prev e0,
  virt_spans_ok total l -> assoc_get nm l = Some (prev, e0) -> valid_span total prev.
Proof.
  intros total nm l prev e0 Hl H. unfold assoc_get in H.
  destruct (find (fun e => name_eqb (fst e) nm) l) as [[k [sp e]]|] eqn:E; [|discriminate].
  simpl in H. inversion H; subst. apply find_some in E. destruct E as [Hin _].
  unfold virt_spans_ok in Hl. rewrite Forall_forall in Hl. apply (Hl _ Hin).
Qed.

Definition sp_post {A} (total lo : N) (st : pstate) (_ : A) (st' : pstate) : Prop :=
  (exists lo', lo <= lo' /\ spans_ok total lo' (toks st')) /\ pvirtuals st' = pvirtuals st.
Definition blk_post4 {A} (total lo : N) (_ : A) (st' : pstate) : Prop :=
  (exists lo', lo <= lo' /\ spans_ok total lo' (toks st')) /\ virt_spans_ok total (pvirtuals st').

Ltac sp_hook :=
  repeat match goal with
  | H : _ /\ _ |- _ => destruct H
  | H : exists _, _ |- _ => destruct H
  | H : sp_post _ _ _ _ _ |- _ => unfold sp_post in H; st_cbn_in H
  | H : blk_post4 _ _ _ _ |- _ => unfold blk_post4 in H; st_cbn_in H
  | H : spans_ok _ _ (toks ?st), E : toks ?st = _ |- _ => rewrite E in H
  | H : spans_ok ?tot ?lo (?t :: ?r) |- _ =>
      lazymatch goal with
      | _ : spans_ok tot (snd (tspan t)) r |- _ => fail
      | _ => let H' := fresh in
             pose proof H as H'; cbn [spans_ok] in H'; destruct H' as (? & ? & ? & ?)
      end
  end.

Ltac sp_valid :=
  first [ solve [rw_tabs; eapply assoc_get_valid; eassumption]
        | unfold valid_span; cbn [fst snd]; lia ].
Ltac sp_side_err :=
  unfold spans_valid; cbn [fst snd];
  repeat first [ apply Forall_nil | apply Forall_cons; [sp_valid|] ].
Ltac sp_side_pre :=
  st_cbn; try match goal with H0 : toks ?st = _ :: _ |- _ => rewrite H0 end;
  lazymatch goal with
  | |- spans_ok _ _ (_ :: _) =>
      cbn [spans_ok]; split; [apply N.le_refl | split; [assumption | split; assumption]]
  | |- spans_ok _ _ _ => eassumption
  | |- virt_spans_ok _ _ => rw_tabs; assumption
  end.
Ltac sp_sweep := sweep wf_side_panic sp_side_err sp_side_pre sp_hook.
Ltac sp_fin :=
  unfold sp_post, blk_post4; st_cbn;
  try match goal with H0 : toks ?st = _ :: _ |- _ => rewrite H0 end;
  try (split;
       [ eexists; split; [|eassumption]; lia
       | first [ rw_tabs; reflexivity | rw_tabs; assumption
               | rw_tabs; apply Forall_snoc; [assumption | cbn [fst snd]; sp_valid] ] ]).

Section SPANS.
Variable input_len : N.
Variable hdr : list name.

Notation wp4 := (wp True True (spans_valid input_len)).
Notation sok := (spans_ok input_len).

Lemma expr_sp : forall fuel,
  (forall lo st, sok lo (toks st) -> wp4 (parse_expr input_len fuel) (sp_post input_len lo st) st) /\
  (forall tree lo st, sok lo (toks st) ->
     wp4 (parse_expr_loop input_len fuel tree) (sp_post input_len lo st) st) /\
  (forall lo st, sok lo (toks st) -> wp4 (parse_factor input_len fuel) (sp_post input_len lo st) st) /\
  (forall acc lo st, sok lo (toks st) -> wp4 (parse_args input_len fuel acc) (sp_post input_len lo st) st).
Proof.
  induction fuel as [|f [IHe [IHl [IHf IHa]]]].
  - repeat split; intros; exact I.
  - split; [|split; [|split]].
    + intros lo st Hsp. rewrite parse_expr_S. sp_sweep; sp_fin.
    + intros tree lo st Hsp. rewrite parse_expr_loop_S. sp_sweep; sp_fin.
    + intros lo st Hsp. rewrite parse_factor_S. sp_sweep; sp_fin.
    + intros acc lo st Hsp. rewrite parse_args_S. sp_sweep; sp_fin.
Qed.

Lemma row_sp : forall fuel data idx lo st, sok lo (toks st) ->
  wp4 (parse_row_loop input_len hdr fuel data idx) (sp_post input_len lo st) st.
Proof.
  induction fuel as [|f IH]; intros data idx lo st Hsp; [exact I|].
  pose proof (proj1 (expr_sp f)) as He.
  rewrite parse_row_loop_S. sp_sweep; sp_fin.
Qed.

Lemma data_row_sp : forall f lo st, sok lo (toks st) ->
  wp4 (parse_data_row input_len hdr f) (sp_post input_len lo st) st.
Proof.
  intros f lo st Hsp. pose proof (row_sp f) as Hr.
  rewrite parse_data_row_eq. sp_sweep; sp_fin.
Qed.

Section BLOCK_STEP.
Variable f : nat.
Hypothesis IH : forall end_token block lo st,
  sok lo (toks st) -> virt_spans_ok input_len (pvirtuals st) ->
  wp4 (parse_block_loop input_len hdr f end_token block) (blk_post4 input_len lo) st.

Lemma post_sp : forall end_token arm lo st,
  sok lo (toks st) -> virt_spans_ok input_len (pvirtuals st) ->
  wp4 (block_post input_len hdr f end_token arm) (blk_post4 input_len lo) st.
Proof.
  intros end_token arm lo st Hsp Hv. unfold block_post. sp_sweep; sp_fin.
Qed.

Lemma arm_sp : forall end_token block k lo st,
  sok lo (toks st) -> virt_spans_ok input_len (pvirtuals st) ->
  wp4 (block_arm input_len hdr f end_token block k) (blk_post4 input_len lo) st.
Proof.
  intros end_token block k lo st Hsp Hv.
  pose proof (proj1 (expr_sp f)) as He. pose proof (data_row_sp f) as Hd.
  unfold block_arm. sp_sweep; sp_fin.
Qed.
End BLOCK_STEP.

Lemma block_sp : forall fuel end_token block lo st,
  sok lo (toks st) -> virt_spans_ok input_len (pvirtuals st) ->
  wp4 (parse_block_loop input_len hdr fuel end_token block) (blk_post4 input_len lo) st.
Proof.
  induction fuel as [|f IH]; intros end_token block lo st Hsp Hv; [exact I|].
  rewrite parse_block_loop_S.
  apply wp_bind. apply wp_peek; [intro; exact I|]. intros t r Ht. cbv beta.
  apply wp_bind. eapply wp_conseq; [apply (arm_sp f IH); eassumption|].
  intros arm st' [[lo' [Hlo Hsp']] Hv']. eapply wp_conseq; [apply (post_sp f IH); eassumption|].
  intros b st'' [[lo'' [Hlo' Hsp'']] Hv'']. split; [|assumption].
  exists lo''. split; [lia | assumption].
Qed.

End SPANS.

(* ------------------------------------------------------------------ the lexer's spans *)

Lemma text_bytes_app : forall a b, text_bytes (a ++ b) = text_bytes a + text_bytes b.
Proof. induction a as [|c a IH]; intro b; simpl; [reflexivity | rewrite IH; lia]. Qed.

Lemma span_while_app : forall p s a b, span_while p s = (a, b) -> s = a ++ b.
Proof.
  induction s as [|c s IH]; intros a b H; simpl in H.
  - inversion H; subst. reflexivity.
  - destruct (p c).
    + destruct (span_while p s) as [a' b'] eqn:E. inversion H; subst.
      simpl. f_equal. apply IH. reflexivity.
    + inversion H; subst. reflexivity.
Qed.

Lemma lex_one_app : forall s k w r, lex_one s = Some (k, w, r) -> s = w ++ r.
Proof.
  intros s k w r. unfold lex_one. destruct s as [|c s]; [discriminate|].
  repeat match goal with
  | |- context[let (_, _) := span_while ?p ?l in _] =>
      let E := fresh "E" in destruct (span_while p l) eqn:E; apply span_while_app in E
  | |- context[if ?b then _ else _] => destruct b
  | |- context[match ?l with [] => _ | _ :: _ => _ end] => destruct l
  | |- context[match punct2 ?a ?b with _ => _ end] => destruct (punct2 a b)
  | |- context[match punct1 ?a with _ => _ end] => destruct (punct1 a)
  end;
  intro H; inversion H; subst; simpl in *; try reflexivity; try congruence.
Qed.

Lemma lex_body_from_spans : forall fuel pos s ts,
  lex_body_from fuel pos s = Some ts -> spans_ok (pos + text_bytes s) pos ts.
Proof.
  induction fuel as [|f IH]; intros pos s ts H; simpl in H; [discriminate|].
  destruct (lex_one s) as [[[k w] r]|] eqn:E.
  - destruct (lex_body_from f (pos + text_bytes w) r) as [ts'|] eqn:E'; [|discriminate].
    apply IH in E'. apply lex_one_app in E. subst s. rewrite text_bytes_app.
    rewrite N.add_assoc.
    assert (Hmono : forall total lo lo' l, lo' <= lo -> spans_ok total lo l -> spans_ok total lo' l).
    { intros total lo lo' l Hle Hl. destruct l as [|t l]; simpl in *; [lia|].
      destruct Hl as [H1 H2]. split; [lia | exact H2]. }
    assert (Hle : forall total lo l, spans_ok total lo l -> lo <= total).
    { intros total lo l. revert lo. induction l as [|t l IHl]; intros lo Hl; simpl in Hl; [exact Hl|].
      destruct Hl as [H1 [H2 [H3 H4]]]. lia. }
    destruct k as [kind|]; inversion H; subst.
    + simpl. split; [lia|]. split; [lia|]. split; [|exact E']. apply Hle in E'. exact E'.
    + eapply Hmono; [|exact E']. lia.
  - inversion H; subst. unfold lex_one in E. destruct s; [|
      repeat match type of E with
      | context[let (_, _) := span_while ?p ?l in _] => destruct (span_while p l)
      | context[if ?b then _ else _] => destruct b
      | context[match ?l with [] => _ | _ :: _ => _ end] => destruct l
      | context[match punct2 ?a ?b with _ => _ end] => destruct (punct2 a b)
      | context[match punct1 ?a with _ => _ end] => destruct (punct1 a)
      end; discriminate].
    simpl. lia.
Qed.

(* ------------------------------------------------------------------ the header's spans *)

Lemma hlex_one_app : forall s k w r, hlex_one s = Some (k, w, r) -> s = w ++ r.
Proof.
  intros s k w r. unfold hlex_one. destruct s as [|c s]; [discriminate|].
  repeat match goal with
  | |- context[let (_, _) := span_while ?p ?l in _] =>
      let E := fresh "E" in destruct (span_while p l) eqn:E; apply span_while_app in E
  | |- context[if ?b then _ else _] => destruct b
  end;
  intro H; inversion H; subst; simpl in *; try reflexivity; try congruence.
Qed.

Lemma parse_header_loop_spans : forall fuel total pos line names spans s,
  pos + text_bytes s = total -> Forall (valid_span total) spans ->
  match parse_header_loop fuel pos line names spans s with
  | Ok h => h_pos h + text_bytes (h_rest h) = total
  | Err e => spans_valid total (pe_at e)
  | _ => True
  end.
Proof.
  induction fuel as [|f IH]; intros total pos line names spans s Hpos Hsp; simpl; [exact I|].
  destruct (hlex_one s) as [[[k w] r]|] eqn:E.
  - apply hlex_one_app in E. subst s. rewrite text_bytes_app in Hpos.
    assert (Hnew : valid_span total (pos, pos + text_bytes w)) by (unfold valid_span; simpl; lia).
    destruct k as [[|]|].
    + destruct (position (name_eqb w) names) as [i|].
      * simpl. constructor; [|constructor; [exact Hnew | constructor]].
        destruct (nth_in_or_default i spans (0, 0)) as [Hin|Hd].
        -- rewrite Forall_forall in Hsp. apply Hsp. exact Hin.
        -- rewrite Hd. unfold valid_span. simpl. lia.
      * apply IH; [lia | apply Forall_snoc; assumption].
    + destruct names; [apply IH; [lia | assumption] | simpl; lia].
    + apply IH; [lia | assumption].
  - simpl. constructor; [|constructor]. unfold valid_span. simpl. lia.
Qed.

(* ------------------------------------------------------------------ error locations *)

Theorem parse_error_spans_in_text : forall s e, parse s = Err e ->
  Forall (fun sp => fst sp <= snd sp <= text_bytes s) (pe_at e).
Proof.
  intros s e H. change (spans_valid (text_bytes s) (pe_at e)). unfold parse in H.
  pose proof (parse_header_loop_spans (S (length s)) (text_bytes s) 0 1 [] [] s eq_refl
                (Forall_nil _)) as Hh.
  fold (parse_header s) in Hh.
  destruct (parse_header s) as [h| | |] eqn:Eh; try discriminate.
  - destruct (lex_body (h_pos h) (h_rest h)) as [ts|] eqn:El; [|discriminate].
    apply lex_body_from_spans in El. rewrite Hh in El.
    match type of H with context[parse_block_loop ?a ?b ?c ?d ?e ?st] =>
      pose proof (block_sp a b c d e (h_pos h) st El (Forall_nil _)) as Hb;
      destruct (parse_block_loop a b c d e st) as [[stmts st']| | |] eqn:Eb end; try discriminate.
    unfold wp in Hb. rewrite Eb in Hb. inversion H; subst. exact Hb.
  - inversion H; subst. exact Hh.
Qed.


Local Close Scope N_scope.
Print Assumptions parse_never_panics.
Print Assumptions parse_wf.
Print Assumptions parse_never_oof.
Print Assumptions parse_error_spans_in_text.
