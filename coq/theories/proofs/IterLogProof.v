(* The ghost log of driver calls kept by Iter.v (DataRowIterator) -- call accounting.
     (a) snext_preserves, get_row_preserves : the statement iterator and get_row never touch
         the device outputs, the alternate variable map, the log or the output indices;
     (b) inext_calls, try_new_calls : one next() = at most one driver call, for exactly the
         row it returns, with that row's inputs verbatim (C02); a driver error is handed on
         unchanged (C13); collect_log : the same for the first n calls of next();
         next_after_none : nothing is sent once next() has returned None;
     (c) inext_outputs, variable_shadows_output, output_read_when_no_variable,
         read_ZX_is_error, inext_vars : what expressions see as "the outputs" (C04); IO
         never changes the program variables (swap_vars is always undone) and the alternate
         variable map stays empty.
   All theorems hold for every generator, driver, test case, fuel and state: there is no
   well-formedness hypothesis anywhere in this file. *)
From DTR Require Import Prelude I64 Ast FramedMap Parser Bind Eval Stmt Iter.
From DTR.proofs Require Import StmtRefine.
Local Open Scope nat_scope.

Local Arguments NYield {C F W} w line it c.
Local Arguments NDone {C F W} it c.
Local Arguments NErr {C F W} f it c.
Local Arguments NPanic {C F W} site.
Local Arguments NOOF {C F W}.

Local Arguments ItNone {DE} st.
Local Arguments ItRow {DE} row st.
Local Arguments ItErr {DE} e st.
Local Arguments ItPanic {DE} s.
Local Arguments ItOOF {DE}.
Local Arguments NewOk {DE} st.
Local Arguments NewErr {DE} e log.
Local Arguments NewPanic {DE} s.

(* ------------------------------------------------------------------ *)
(* Stmt.next: the iterator handed back with NDone is always the exhausted one *)

Section NEXT_DONE.
Variables (C F W : Type).
Variable eval : C -> expr -> C * (Z + F).
Variable row_eval : C -> list dentry -> C * (W + F).
Variable setv : C -> name -> Z -> C.
Variable getv : C -> name -> option Z.
Variables push pop reset : C -> C.

Local Notation next := (Stmt.next C F W eval row_eval setv getv push pop reset).

Lemma next_done_shape : forall f it c it' c',
  next f it c = NDone it' c' -> it' = SI [] Iterate.
Proof.
  induction f as [|f IH]; intros it c it' c' Hn; [discriminate Hn|].
  rewrite next_S in Hn.
  destruct it as [rest st]. destruct st as [|ls|ls|inner ls|ls|ws|inner ws].
  - destruct rest as [|s r0]; [inversion Hn; reflexivity|].
    destruct s as [n e|d l|v e body|e body|].
    + destruct (eval c e) as [c1 [z|x]]; [eauto|discriminate Hn].
    + destruct (row_eval c d) as [c1 [w|x]]; discriminate Hn.
    + destruct (eval c e) as [c1 [z|x]]; [eauto|discriminate Hn].
    + eauto.
    + eauto.
  - destruct (Z.ltb 0 (lmax ls)); eauto.
  - eauto.
  - destruct (next f inner c) eqn:Hi; try discriminate Hn. eauto.
  - destruct (getv c (lvar ls)) as [i|]; [|discriminate Hn].
    destruct (Z.ltb (wadd i 1) (lmax ls)); eauto.
  - destruct (eval c (wcond ws)) as [c1 [z|x]]; [|discriminate Hn].
    destruct (Z.eqb z 0); eauto.
  - destruct (next f inner c) eqn:Hi; try discriminate Hn. eauto.
Qed.

(* an exhausted iterator stays exhausted and does nothing *)
Lemma next_exhausted : forall f c, next (S f) (SI [] Iterate) c = NDone (SI [] Iterate) c.
Proof. reflexivity. Qed.

End NEXT_DONE.

(* ------------------------------------------------------------------ *)
(* what the operations on the context can change *)

(* only the generator state differs *)
Definition rng_only (c c' : ctx) : Prop :=
  cvars c' = cvars c /\ calt c' = calt c /\ couts c' = couts c.

(* the device outputs and the alternate variable map are the same *)
Definition io_same (c c' : ctx) : Prop :=
  couts c' = couts c /\ calt c' = calt c.

Lemma rng_only_refl : forall c, rng_only c c.
Proof. intro c; repeat split. Qed.

Lemma rng_only_trans : forall a b c, rng_only a b -> rng_only b c -> rng_only a c.
Proof.
  intros a b c [H1 [H2 H3]] [K1 [K2 K3]]. repeat split; congruence.
Qed.

Lemma io_same_refl : forall c, io_same c c.
Proof. intro c; split; reflexivity. Qed.

Lemma io_same_trans : forall a b c, io_same a b -> io_same b c -> io_same a c.
Proof. intros a b c [H1 H2] [K1 K2]. split; congruence. Qed.

Lemma rng_only_io_same : forall c c', rng_only c c' -> io_same c c'.
Proof. intros c c' [H1 [H2 H3]]. split; assumption. Qed.

Lemma io_same_with_vars : forall c v, io_same c (ctx_with_vars c v).
Proof. intros; split; reflexivity. Qed.

(* ------------------------------------------------------------------ *)
(* the views of a sequence of next() calls *)

Inductive item_view (DE : Type) :=
| VRow (row : data_row)
| VErr (e : ierr DE)
| VNone.
Arguments VRow {DE} row.
Arguments VErr {DE} e.
Arguments VNone {DE}.

Definition view_rows {DE} (items : list (item_view DE)) : list data_row :=
  flat_map (fun v => match v with VRow r => [r] | _ => [] end) items.

Section ITERLOG.
Variable G : gen.
Variable DE : Type.
Variable D : driver DE.
Variable w_default : bool.
Variable tc : testcase.

Local Notation snext := (Iter.snext G).
Local Notation get_row := (Iter.get_row G tc).
Local Notation inext := (Iter.inext G DE D w_default tc).
Local Notation try_new := (Iter.try_new DE D tc).

(* ---------------------------------------------------------------- evaluation *)

Lemma ctx_eval_rng_only : forall c e c1 r, ctx_eval G c e = (c1, r) -> rng_only c c1.
Proof.
  intros c e c1 r H. unfold ctx_eval in H.
  destruct (eval G c e (crng c)) as [v rng']. inversion H; subst. repeat split.
Qed.

Lemma entry_eval_rng_only : forall c d c1 r, entry_eval G c d = (c1, r) -> rng_only c c1.
Proof.
  intros c d c1 r H. destruct d; cbn [entry_eval] in H;
    try (inversion H; subst; apply rng_only_refl).
  - destruct (ctx_eval G c e) as [c2 v] eqn:E. inversion H; subst.
    eapply ctx_eval_rng_only; eauto.
  - destruct (ctx_eval G c e) as [c2 v] eqn:E. inversion H; subst.
    eapply ctx_eval_rng_only; eauto.
Qed.

Lemma row_eval_rng_only : forall d c c1 r, row_eval G c d = (c1, r) -> rng_only c c1.
Proof.
  induction d as [|x d IH]; intros c c1 r H; cbn [row_eval] in H.
  - inversion H; subst. apply rng_only_refl.
  - destruct (entry_eval G c x) as [c2 [es|e|s|]] eqn:E;
      apply entry_eval_rng_only in E; try (inversion H; subst; exact E).
    destruct (row_eval G c2 d) as [c3 [es'|e|s|]] eqn:E2;
      inversion H; subst; (eapply rng_only_trans; [exact E|]; eapply IH; eauto).
Qed.

Lemma lift_eval_rng_only : forall c e c1 v, lift_eval G c e = (c1, v) -> rng_only c c1.
Proof.
  intros c e c1 v H. unfold lift_eval in H.
  destruct (ctx_eval G c e) as [c2 r] eqn:E. inversion H; subst.
  eapply ctx_eval_rng_only; eauto.
Qed.

Lemma lift_row_eval_rng_only : forall c d c1 v, lift_row_eval G c d = (c1, v) -> rng_only c c1.
Proof.
  intros c d c1 v H. unfold lift_row_eval in H.
  destruct (row_eval G c d) as [c2 r] eqn:E. inversion H; subst.
  eapply row_eval_rng_only; eauto.
Qed.

(* ---------------------------------------------------------------- (a) snext *)

Definition nres_io (c : ctx) (r : nres ctx xfail (list dentry)) : Prop :=
  match r with
  | NYield _ _ _ c' | NDone _ c' | NErr _ _ c' => io_same c c'
  | _ => True
  end.

Lemma nres_io_trans : forall c c1 r, io_same c c1 -> nres_io c1 r -> nres_io c r.
Proof.
  intros c c1 r H K. destruct r; cbn [nres_io] in *; try exact I; eapply io_same_trans; eauto.
Qed.

Lemma snext_io : forall fuel it c, nres_io c (snext fuel it c).
Proof.
  induction fuel as [|f IH]; intros it c; [exact I|].
  unfold Iter.snext. rewrite next_S. fold (Iter.snext G).
  destruct it as [rest st]. destruct st as [|ls|ls|inner ls|ls|ws|inner ws].
  - destruct rest as [|s r0]; [apply io_same_refl|].
    destruct s as [n e|d l|v e body|e body|].
    + destruct (lift_eval G c e) as [c1 [z|x]] eqn:E; apply lift_eval_rng_only in E;
        apply rng_only_io_same in E.
      * eapply nres_io_trans; [|apply IH].
        eapply io_same_trans; [exact E|]. apply io_same_with_vars.
      * exact E.
    + destruct (lift_row_eval G c d) as [c1 [w|x]] eqn:E; apply lift_row_eval_rng_only in E;
        apply rng_only_io_same in E; exact E.
    + destruct (lift_eval G c e) as [c1 [z|x]] eqn:E; apply lift_eval_rng_only in E;
        apply rng_only_io_same in E.
      * eapply nres_io_trans; [exact E|apply IH].
      * exact E.
    + apply IH.
    + eapply nres_io_trans; [|apply IH]. split; reflexivity.
  - destruct (Z.ltb 0 (lmax ls)); [|apply IH].
    eapply nres_io_trans; [|apply IH]. split; reflexivity.
  - apply IH.
  - pose proof (IH inner c) as Hi.
    destruct (snext f inner c) as [w l inner' c'|it' c'|x it' c'|s|]; cbn [nres_io] in Hi |- *;
      try exact Hi.
    eapply nres_io_trans; [exact Hi|apply IH].
  - destruct (loop_var_value c (lvar ls)) as [i|]; [|exact I].
    destruct (Z.ltb (wadd i 1) (lmax ls)); (eapply nres_io_trans; [|apply IH]); split; reflexivity.
  - destruct (lift_eval G c (wcond ws)) as [c1 [z|x]] eqn:E; apply lift_eval_rng_only in E;
      apply rng_only_io_same in E; [|exact E].
    destruct (Z.eqb z 0); (eapply nres_io_trans; [exact E|apply IH]).
  - pose proof (IH inner c) as Hi.
    destruct (snext f inner c) as [w l inner' c'|it' c'|x it' c'|s|]; cbn [nres_io] in Hi |- *;
      try exact Hi.
    eapply nres_io_trans; [exact Hi|apply IH].
Qed.

Lemma snext_preserves : forall fuel it c r, snext fuel it c = r ->
  match r with
  | NYield _ _ _ c' | NDone _ c' | NErr _ _ c' => couts c' = couts c /\ calt c' = calt c
  | _ => True
  end.
Proof.
  intros fuel it c r H. subst r. pose proof (snext_io fuel it c) as K.
  destruct (snext fuel it c); exact K.
Qed.

Lemma snext_done_shape : forall fuel it c it' c',
  snext fuel it c = NDone it' c' -> it' = SI [] Iterate.
Proof. intros fuel it c it' c' H. unfold Iter.snext in H. eapply next_done_shape; eauto. Qed.

(* ---------------------------------------------------------------- (a) get_row *)

(* the part of get_row after the refill *)
Definition finish_row (st1 : istate) : getrow_result :=
  match prepare_cache tc (i_cache st1) with
  | Ok [] => GRPanic 37%N
  | Ok (row :: rest) =>
      let changed := check_changed_entries (i_prev st1) (de_entries row) in
      match generate_input_entries tc (de_entries row) changed with
      | Ok inputs =>
          match generate_expected_entries tc (de_entries row) with
          | Ok expected =>
              GRRow {| er_line := de_line row; er_inputs := inputs; er_expected := expected;
                       er_update_output := de_update_output row |}
                    {| i_ctx := i_ctx st1; i_iter := i_iter st1; i_outidx := i_outidx st1;
                       i_nout := i_nout st1;
                       i_prev := Some (de_entries row); i_cache := rest; i_log := i_log st1 |}
          | Panic s => GRPanic s
          | _ => GRPanic 0%N
          end
      | Panic s => GRPanic s
      | _ => GRPanic 0%N
      end
  | Panic s => GRPanic s
  | Err _ => GRPanic 0%N
  | OOF => GROOF
  end.

Lemma get_row_unfold : forall fuel st, get_row fuel st =
  match i_cache st with
  | [] =>
      match snext fuel (i_iter st) (i_ctx st) with
      | NYield w l it' c' =>
          finish_row (with_iter_ctx st it' c'
                        [ {| de_entries := w; de_line := l; de_update_output := true |} ])
      | NDone it' c' => GRNone (with_iter_ctx st it' c' [])
      | NErr (XFErr x) it' c' => GRErr x (with_iter_ctx st it' c' [])
      | NErr (XFPanic s) _ _ => GRPanic s
      | NPanic s => GRPanic s
      | NOOF => GROOF
      end
  | _ => finish_row st
  end.
Proof.
  intros fuel st. unfold Iter.get_row, finish_row.
  destruct (i_cache st) as [|d rest] eqn:Hc; [|rewrite ?Hc; reflexivity].
  destruct (snext fuel (i_iter st) (i_ctx st)) as [w l it' c'|it' c'|[x|s] it' c'|s|]; reflexivity.
Qed.

(* finish_row yields a row or fails hard; it changes only i_prev and i_cache *)
Lemma finish_row_inv : forall st1,
  match finish_row st1 with
  | GRRow er st2 => i_ctx st2 = i_ctx st1 /\ i_iter st2 = i_iter st1 /\
                    i_outidx st2 = i_outidx st1 /\ i_log st2 = i_log st1 /\
                    i_nout st2 = i_nout st1
  | GRNone _ | GRErr _ _ => False
  | _ => True
  end.
Proof.
  intro st1. unfold finish_row.
  destruct (prepare_cache tc (i_cache st1)) as [[|row rest]|e|s|]; try exact I.
  cbv zeta.
  destruct (generate_input_entries tc (de_entries row)
              (check_changed_entries (i_prev st1) (de_entries row))) as [inputs|e|s|]; try exact I.
  destruct (generate_expected_entries tc (de_entries row)) as [expected|e|s|]; try exact I.
  cbn. repeat split.
Qed.

(* everything get_row can do to the state *)
Lemma get_row_inv : forall fuel st,
  match get_row fuel st with
  | GRNone st1 =>
      i_cache st = [] /\
      exists c', snext fuel (i_iter st) (i_ctx st) = NDone (SI [] Iterate) c' /\
                 st1 = with_iter_ctx st (SI [] Iterate) c' []
  | GRRow _ st1 =>
      io_same (i_ctx st) (i_ctx st1) /\ i_log st1 = i_log st /\ i_outidx st1 = i_outidx st /\
      i_nout st1 = i_nout st
  | GRErr x st1 =>
      io_same (i_ctx st) (i_ctx st1) /\ i_log st1 = i_log st /\ i_outidx st1 = i_outidx st /\
      i_nout st1 = i_nout st /\
      i_cache st = [] /\ i_cache st1 = [] /\
      (* the statement iterator is the one the failed call left behind (Stmt.v, NErr) *)
      snext fuel (i_iter st) (i_ctx st) = NErr (XFErr x) (i_iter st1) (i_ctx st1) /\
      i_prev st1 = i_prev st
  | _ => True
  end.
Proof.
  intros fuel st. rewrite get_row_unfold.
  destruct (i_cache st) as [|d rest] eqn:Hc.
  - pose proof (snext_io fuel (i_iter st) (i_ctx st)) as Hio.
    destruct (snext fuel (i_iter st) (i_ctx st)) as [w l it' c'|it' c'|[x|s] it' c'|s|] eqn:Hn;
      cbn [nres_io] in Hio; try exact I.
    + match goal with |- context [finish_row ?sx] => pose proof (finish_row_inv sx) as Hf;
        destruct (finish_row sx) as [st2|er st2|x st2|s0|] end; try contradiction; try exact I.
      destruct Hf as [H1 [H2 [H3 [H4 H5]]]]. cbn in H1, H3, H4, H5.
      rewrite H1, H3, H4, H5. auto.
    + split; [reflexivity|]. pose proof (snext_done_shape _ _ _ _ _ Hn) as Hs. subst it'.
      exists c'. split; reflexivity.
    + cbn. repeat split; auto; apply Hio.
  - pose proof (finish_row_inv st) as Hf.
    destruct (finish_row st) as [st2|er st2|x st2|s|]; try contradiction; try exact I.
    destruct Hf as [H1 [H2 [H3 [H4 H5]]]]. rewrite H1, H3, H4, H5. split; [apply io_same_refl|auto].
Qed.

Lemma get_row_preserves : forall fuel st,
  match get_row fuel st with
  | GRNone st1 | GRRow _ st1 | GRErr _ st1 =>
      couts (i_ctx st1) = couts (i_ctx st) /\ calt (i_ctx st1) = calt (i_ctx st) /\
      i_log st1 = i_log st /\ i_outidx st1 = i_outidx st /\ i_nout st1 = i_nout st
  | _ => True
  end.
Proof.
  intros fuel st. pose proof (get_row_inv fuel st) as H.
  destruct (get_row fuel st) as [st1|er st1|x st1|s|]; try exact I.
  - destruct H as [Hc [c' [Hn Hs]]]. subst st1. cbn.
    pose proof (snext_io fuel (i_iter st) (i_ctx st)) as Hio. rewrite Hn in Hio.
    destruct Hio as [K1 K2]. auto 10.
  - destruct H as [[K1 K2] [K3 [K4 K5]]]. auto 10.
  - destruct H as [[K1 K2] [K3 [K4 [K5 _]]]]. auto 10.
Qed.

(* ---------------------------------------------------------------- extraction of the outputs *)

Lemma extract_loop_rng_only : forall pairs outs c c2 r,
  extract_loop G tc pairs outs c = (c2, r) -> rng_only c c2.
Proof.
  induction pairs as [|[ei oi] pairs IH]; intros outs c c2 r H; cbn [extract_loop] in H.
  - inversion H; subst. apply rng_only_refl.
  - assert (Hk : forall c1 v, rng_only c c1 ->
              match extract_loop G tc pairs outs c1 with
              | (c3, Ok vs) => (c3, Ok (v :: vs))
              | other => other
              end = (c2, r) -> rng_only c c2).
    { intros c1 v Hc1 Hm.
      destruct (extract_loop G tc pairs outs c1) as [c3 [vs|e|s|]] eqn:E;
        inversion Hm; subst; (eapply rng_only_trans; [exact Hc1|]; eapply IH; eauto). }
    destruct oi as [|n|e].
    + eapply Hk; [apply rng_only_refl|exact H].
    + destruct (get_signal tc (ei_signal_index ei)) as [sg|e|s|];
        try (inversion H; subst; apply rng_only_refl).
      destruct (nth_error outs n) as [o|]; [|inversion H; subst; apply rng_only_refl].
      destruct (signal_eqb sg (oe_sig o)); [|inversion H; subst; apply rng_only_refl].
      eapply Hk; [apply rng_only_refl|exact H].
    + destruct (ctx_eval G c e) as [c1 v] eqn:E. apply ctx_eval_rng_only in E.
      destruct v as [z|x|s|]; try (inversion H; subst; exact E).
      eapply Hk; [exact E|exact H].
Qed.

(* swap_vars before the loop, swap_vars after it: only the generator may have moved *)
Lemma extract_output_values_rng_only : forall nout oi outs c c2 r,
  extract_output_values G tc nout oi outs c = (c2, r) -> rng_only c c2.
Proof.
  intros nout oi outs c c2 r H. unfold extract_output_values in H.
  destruct (negb (Nat.eqb (length outs) nout)).
  - inversion H; subst. apply rng_only_refl.
  - destruct (extract_loop G tc (combine (tc_expected_indices tc) oi) outs (ctx_swap_vars c))
      as [c1 r1] eqn:E.
    apply extract_loop_rng_only in E. destruct E as [E1 [E2 E3]]. cbn in E1, E2, E3.
    inversion H; subst. repeat split; cbn; assumption.
Qed.

(* ---------------------------------------------------------------- (b) one next() *)

Lemma combine_nil_r : forall A B (l : list A), combine l (@nil B) = [].
Proof. destruct l; reflexivity. Qed.

(* The master statement about one call of next(): all of inext_calls, inext_outputs and
   inext_vars are read off it. *)
Lemma inext_inv : forall fuel st,
  match inext fuel st with
  | ItNone st' => get_row fuel st = GRNone st'
  | ItRow row st' =>
      exists er st1, get_row fuel st = GRRow er st1 /\
        ((er_update_output er = true /\
          exists outs c2 vals,
            D (i_log st) (RW, er_inputs er) = DrvOk outs /\
            extract_output_values G tc (i_nout st1) (i_outidx st1) outs
              (ctx_set_outputs (i_ctx st1) (outs_map outs)) = (c2, Ok vals) /\
            row = into_data_row er vals /\
            st' = with_ctx_log st1 c2 (i_log st ++ [(RW, er_inputs er)]))
         \/
         (er_update_output er = false /\
          exists outs,
            D (i_log st) ((if w_default then RW else WO), er_inputs er) = DrvOk outs /\
            row = into_data_row er [] /\
            st' = with_ctx_log st1 (i_ctx st1)
                    (i_log st ++ [((if w_default then RW else WO), er_inputs er)])))
  | ItErr (IE_Driver e) st' =>
      exists er st1, get_row fuel st = GRRow er st1 /\
        let kind := if er_update_output er then RW else (if w_default then RW else WO) in
        D (i_log st) (kind, er_inputs er) = DrvErr e /\
        st' = with_ctx_log st1 (i_ctx st1) (i_log st ++ [(kind, er_inputs er)])
  | ItErr (IE_Runtime r) st' =>
      (exists x, r = RT_Expr x /\ get_row fuel st = GRErr x st')
      \/
      (exists er st1 outs c2, get_row fuel st = GRRow er st1 /\ er_update_output er = true /\
         D (i_log st) (RW, er_inputs er) = DrvOk outs /\
         extract_output_values G tc (i_nout st1) (i_outidx st1) outs
           (ctx_set_outputs (i_ctx st1) (outs_map outs)) = (c2, Err r) /\
         st' = with_ctx_log st1 c2 (i_log st ++ [(RW, er_inputs er)]))
  | ItPanic _ | ItOOF => True
  end.
Proof.
  intros fuel st. unfold Iter.inext.
  pose proof (get_row_inv fuel st) as Hinv.
  destruct (get_row fuel st) as [st1|er st1|x st1|s|] eqn:Hg; try exact I.
  - reflexivity.
  - destruct Hinv as [_ [Hlog _]]. rewrite Hlog.
    destruct (er_update_output er) eqn:Hu.
    + destruct (D (i_log st) (RW, er_inputs er)) as [e|outs] eqn:HD.
      * exists er, st1. split; [reflexivity|]. rewrite Hu. cbv zeta. auto.
      * destruct (extract_output_values G tc (i_nout st1) (i_outidx st1) outs
                    (ctx_set_outputs (i_ctx st1) (outs_map outs))) as [c2 [vals|r|s|]] eqn:He;
          try exact I.
        -- exists er, st1. split; [reflexivity|]. left. split; [exact Hu|].
           exists outs, c2, vals. auto.
        -- right. exists er, st1, outs, c2. auto.
    + destruct (D (i_log st) ((if w_default then RW else WO), er_inputs er)) as [e|outs] eqn:HD.
      * exists er, st1. split; [reflexivity|]. rewrite Hu. cbv zeta. auto.
      * exists er, st1. split; [reflexivity|]. right. split; [exact Hu|]. exists outs. auto.
  - left. exists x. auto.
Qed.

Theorem inext_calls : forall fuel st,
  match inext fuel st with
  | ItNone st' => i_log st' = i_log st
  | ItRow row st' =>
      exists er st1, get_row fuel st = GRRow er st1 /\
        dr_inputs row = er_inputs er /\ dr_line row = er_line er /\
        let kind := if er_update_output er then RW else (if w_default then RW else WO) in
        i_log st' = i_log st ++ [(kind, dr_inputs row)] /\
        (exists outs, D (i_log st) (kind, dr_inputs row) = DrvOk outs) /\
        (er_update_output er = false -> dr_outputs row = [])
  | ItErr (IE_Driver e) st' =>
      exists er st1 kind, get_row fuel st = GRRow er st1 /\
        i_log st' = i_log st ++ [(kind, er_inputs er)] /\
        D (i_log st) (kind, er_inputs er) = DrvErr e
  | ItErr (IE_Runtime r) st' =>
      (i_log st' = i_log st /\ exists x, r = RT_Expr x)
      \/ (exists er st1 outs, get_row fuel st = GRRow er st1 /\ er_update_output er = true /\
            i_log st' = i_log st ++ [(RW, er_inputs er)] /\
            D (i_log st) (RW, er_inputs er) = DrvOk outs)
  | ItPanic _ | ItOOF => True
  end.
Proof.
  intros fuel st. pose proof (inext_inv fuel st) as H.
  destruct (inext fuel st) as [st'|row st'|[e|r] st'|s|]; try exact I.
  - pose proof (get_row_preserves fuel st) as K. rewrite H in K. tauto.
  - destruct H as [er [st1 [Hg [[Hu [outs [c2 [vals [HD [He [Hr Hs]]]]]]]|[Hu [outs [HD [Hr Hs]]]]]]]];
      exists er, st1; (split; [exact Hg|]); subst row st'; rewrite Hu; cbn.
    + repeat split; eauto. intro; discriminate.
    + repeat split; eauto. intros _. rewrite combine_nil_r. reflexivity.
  - destruct H as [er [st1 [Hg [HD Hs]]]]. cbv zeta in HD, Hs.
    exists er, st1, (if er_update_output er then RW else if w_default then RW else WO).
    subst st'. cbn. auto.
  - destruct H as [[x [Hr Hg]]|[er [st1 [outs [c2 [Hg [Hu [HD [He Hs]]]]]]]]].
    + left. pose proof (get_row_preserves fuel st) as K. rewrite Hg in K.
      split; [tauto|eauto].
    + right. exists er, st1, outs. subst st'. cbn. auto.
Qed.

Theorem try_new_calls :
  match try_new with
  | NewOk st =>
      exists ins outs, generate_default_input_entries tc = Ok ins /\ i_log st = [(RW, ins)] /\
        D [] (RW, ins) = DrvOk outs /\
        couts (i_ctx st) = outs_map outs /\ i_cache st = [] /\ i_prev st = None
  | NewErr (IE_Driver e) log =>
      exists ins, generate_default_input_entries tc = Ok ins /\ log = [(RW, ins)] /\
        D [] (RW, ins) = DrvErr e
  | NewErr (IE_Runtime r) log =>
      log = [] \/ exists ins outs, log = [(RW, ins)] /\ D [] (RW, ins) = DrvOk outs
  | NewPanic _ => True
  end.
Proof.
  unfold Iter.try_new.
  destruct (generate_default_input_entries tc) as [ins|r|s|]; try exact I.
  - cbv zeta. destruct (D [] (RW, ins)) as [e|outs] eqn:HD.
    + exists ins. auto.
    + destruct (build_output_indices tc outs) as [oi|r|s|]; try exact I.
      * exists ins, outs. cbn. auto 10.
      * right. exists ins, outs. auto.
  - left. reflexivity.
Qed.

(* the state a successful try_new builds also starts with no variables at all *)
Theorem try_new_vars :
  match try_new with
  | NewOk st => cvars (i_ctx st) = fm_new /\ calt (i_ctx st) = fm_new
  | _ => True
  end.
Proof.
  unfold Iter.try_new.
  destruct (generate_default_input_entries tc) as [ins|r|s|]; try exact I.
  cbv zeta. destruct (D [] (RW, ins)) as [e|outs]; [exact I|].
  destruct (build_output_indices tc outs) as [oi|r|s|]; try exact I.
  cbn. auto.
Qed.

(* ---------------------------------------------------------------- (b) after None *)

Theorem next_after_none : forall fuel st st',
  inext fuel st = ItNone st' -> forall fuel', fuel' <> 0 -> inext fuel' st' = ItNone st'.
Proof.
  intros fuel st st' H fuel' Hf.
  pose proof (inext_inv fuel st) as Hi. rewrite H in Hi.
  pose proof (get_row_inv fuel st) as Hg. rewrite Hi in Hg.
  destruct Hg as [Hc [c' [Hn Hs]]]. subst st'.
  destruct fuel' as [|f]; [congruence|].
  unfold Iter.inext. rewrite get_row_unfold. cbn [i_cache with_iter_ctx i_iter i_ctx].
  unfold Iter.snext. rewrite next_exhausted. reflexivity.
Qed.

(* ... and the exhausted iterator's state is a fixed point: no field changes any more *)
Corollary none_state_shape : forall fuel st st',
  inext fuel st = ItNone st' ->
  i_iter st' = SI [] Iterate /\ i_cache st' = [] /\ i_log st' = i_log st /\
  i_prev st' = i_prev st /\ i_outidx st' = i_outidx st /\ i_nout st' = i_nout st.
Proof.
  intros fuel st st' H.
  pose proof (inext_inv fuel st) as Hi. rewrite H in Hi.
  pose proof (get_row_inv fuel st) as Hg. rewrite Hi in Hg.
  destruct Hg as [Hc [c' [Hn Hs]]]. subst st'. cbn. auto 10.
Qed.

(* ---------------------------------------------------------------- (b) n calls of next() *)

(* the first n calls of next(), stopping after the first error item or None (as the
   caller does); the state is None when the model panicked or ran out of fuel *)
Fixpoint collect (fuel n : nat) (st : istate) : list (item_view DE) * option istate :=
  match n with
  | O => ([], Some st)
  | S n' =>
      match inext fuel st with
      | ItRow row st' => let (l, s) := collect fuel n' st' in (VRow row :: l, s)
      | ItErr e st' => ([VErr e], Some st')
      | ItNone st' => ([VNone], Some st')
      | ItPanic _ | ItOOF => ([], None)
      end
  end.

(* [trace lg items calls]: starting with the driver history lg, the items were produced
   while sending exactly calls *)
Inductive trace : list call -> list (item_view DE) -> list call -> Prop :=
| TrNil : forall lg, trace lg [] []
| TrRow : forall lg row kind outs items calls,
    D lg (kind, dr_inputs row) = DrvOk outs ->
    (kind = WO -> w_default = false /\ dr_outputs row = []) ->
    trace (lg ++ [(kind, dr_inputs row)]) items calls ->
    trace lg (VRow row :: items) ((kind, dr_inputs row) :: calls)
| TrNone : forall lg, trace lg [VNone] []
| TrDriverErr : forall lg c e,
    D lg c = DrvErr e -> trace lg [VErr (IE_Driver e)] [c]
| TrEvalErr : forall lg x, trace lg [VErr (IE_Runtime (RT_Expr x))] []
| TrAnswerErr : forall lg ins outs r,
    D lg (RW, ins) = DrvOk outs -> trace lg [VErr (IE_Runtime r)] [(RW, ins)].

Theorem collect_log : forall fuel n st items st',
  collect fuel n st = (items, Some st') ->
  exists calls, i_log st' = i_log st ++ calls /\ trace (i_log st) items calls.
Proof.
  intros fuel n. induction n as [|n IH]; intros st items st' H; cbn [collect] in H.
  - inversion H; subst. exists []. rewrite app_nil_r. split; [reflexivity|constructor].
  - pose proof (inext_calls fuel st) as Hc.
    destruct (inext fuel st) as [st1|row st1|e st1|s|]; try discriminate H.
    + inversion H; subst. exists []. rewrite app_nil_r. split; [exact Hc|constructor].
    + destruct (collect fuel n st1) as [l s] eqn:Hcol. inversion H; subst.
      destruct Hc as [er [st0 [Hg [Hin [Hline Hk]]]]]. cbv zeta in Hk.
      destruct Hk as [Hlog [[outs HD] Hout]].
      destruct (IH _ _ _ Hcol) as [calls [Hl Ht]].
      exists ((if er_update_output er then RW else if w_default then RW else WO, dr_inputs row)
              :: calls).
      split; [rewrite Hl, Hlog, <- app_assoc; reflexivity|].
      rewrite Hlog in Ht. econstructor; eauto.
      destruct (er_update_output er); [discriminate|].
      destruct w_default; [discriminate|]. auto.
    + inversion H; subst. destruct e as [e|r].
      * destruct Hc as [er [st0 [kind [Hg [Hlog HD]]]]].
        exists [(kind, er_inputs er)]. split; [exact Hlog|]. constructor. exact HD.
      * destruct Hc as [[Hlog [x Hr]]|[er [st0 [outs [Hg [Hu [Hlog HD]]]]]]].
        -- subst r. exists []. rewrite app_nil_r. split; [exact Hlog|constructor].
        -- exists [(RW, er_inputs er)]. split; [exact Hlog|]. econstructor; eauto.
Qed.

(* what a trace says about the calls, in list form *)
Lemma trace_shape : forall lg items calls, trace lg items calls ->
  exists tail,
    map snd calls = map dr_inputs (view_rows items) ++ tail /\
    length tail <= 1 /\
    (tail = [] \/ exists e, last_opt items = Some (VErr e)) /\
    length calls <= length items.
Proof.
  intros lg items calls H. induction H as
    [lg|lg row kind outs items calls HD Hk Ht IH|lg|lg c e HD|lg x|lg ins outs r HD].
  - exists []. cbn. auto.
  - destruct IH as [tail [H1 [H2 [H3 H4]]]]. exists tail. cbn. rewrite H1.
    repeat split; auto; [|lia].
    destruct H3 as [H3|[e H3]]; [left; exact H3|right; exists e].
    destruct items as [|i items]; [discriminate H3|exact H3].
  - exists []. cbn. auto.
  - exists [snd c]. cbn. repeat split; auto. right. eauto.
  - exists []. cbn. auto.
  - exists [ins]. cbn. repeat split; auto. right. eauto.
Qed.

(* every row is one call, with that row's inputs verbatim; an error item is at most one
   more call; None is no call *)
Corollary collect_log_inputs : forall fuel n st items st',
  collect fuel n st = (items, Some st') ->
  exists calls tail,
    i_log st' = i_log st ++ calls /\
    map snd calls = map dr_inputs (view_rows items) ++ tail /\
    length tail <= 1 /\
    (tail = [] \/ exists e, last_opt items = Some (VErr e)).
Proof.
  intros fuel n st items st' H. destruct (collect_log _ _ _ _ _ H) as [calls [Hl Ht]].
  destruct (trace_shape _ _ _ Ht) as [tail [H1 [H2 [H3 _]]]]. exists calls, tail. auto.
Qed.

Corollary collect_log_length : forall fuel n st items st',
  collect fuel n st = (items, Some st') ->
  length (i_log st') <= length (i_log st) + length items.
Proof.
  intros fuel n st items st' H. destruct (collect_log _ _ _ _ _ H) as [calls [Hl Ht]].
  destruct (trace_shape _ _ _ Ht) as [tail [_ [_ [_ H4]]]].
  rewrite Hl, app_length. lia.
Qed.

(* if all the items are rows (the usual run), the calls are exactly the rows *)
Corollary collect_log_rows : forall fuel n st rows st',
  collect fuel n st = (map VRow rows, Some st') ->
  exists calls, i_log st' = i_log st ++ calls /\ map snd calls = map dr_inputs rows.
Proof.
  intros fuel n st rows st' H. destruct (collect_log_inputs _ _ _ _ _ H)
    as [calls [tail [Hl [H1 [H2 H3]]]]].
  exists calls. split; [exact Hl|].
  assert (Hv : forall l : list data_row, view_rows (map (@VRow DE) l) = l).
  { induction l as [|r l IHl]; [reflexivity|]. cbn. f_equal. exact IHl. }
  rewrite Hv in H1. destruct H3 as [H3|[e H3]].
  - subst tail. rewrite app_nil_r in H1. exact H1.
  - exfalso. clear - H3. induction rows as [|r rows IHr]; [discriminate H3|].
    destruct rows as [|r2 rows]; [discriminate H3|]. apply IHr. exact H3.
Qed.

(* ---------------------------------------------------------------- (c) the outputs *)

Theorem inext_outputs : forall fuel st,
  match inext fuel st with
  | ItRow row st' =>
      exists er st1, get_row fuel st = GRRow er st1 /\
        (er_update_output er = true ->
           exists outs, D (i_log st) (RW, er_inputs er) = DrvOk outs /\
                        couts (i_ctx st') = outs_map outs) /\
        (er_update_output er = false -> couts (i_ctx st') = couts (i_ctx st))
  | ItNone st' => couts (i_ctx st') = couts (i_ctx st)
  | _ => True
  end.
Proof.
  intros fuel st. pose proof (inext_inv fuel st) as H.
  pose proof (get_row_preserves fuel st) as K.
  destruct (inext fuel st) as [st'|row st'|e st'|s|]; try exact I.
  - rewrite H in K. tauto.
  - destruct H as [er [st1 [Hg [[Hu [outs [c2 [vals [HD [He [Hr Hs]]]]]]]|[Hu [outs [HD [Hr Hs]]]]]]]];
      exists er, st1; (split; [exact Hg|]); rewrite Hg in K; subst st'; cbn.
    + split; [|congruence]. intros _. exists outs. split; [exact HD|].
      apply extract_output_values_rng_only in He. destruct He as [_ [_ He]]. exact He.
    + split; [congruence|]. intros _. tauto.
Qed.

Theorem variable_shadows_output : forall c x n,
  fm_get (cvars c) x = Some n -> ctx_get c x = Some (OVal n).
Proof. intros c x n H. unfold ctx_get. rewrite H. reflexivity. Qed.

Theorem output_read_when_no_variable : forall c x,
  fm_get (cvars c) x = None ->
  ctx_get c x = option_map snd (find_last (fun kv => name_eqb (fst kv) x) (couts c)).
Proof. intros c x H. unfold ctx_get. rewrite H. reflexivity. Qed.

Theorem read_ZX_is_error : forall c x v rng,
  ctx_get c x = Some v -> (v = OZ \/ v = OX) ->
  eval G c (EVar x) rng = (Err (XE_UnexpectedValueForSignal x v), rng).
Proof.
  intros c x v rng H Hv. cbn [eval]. rewrite H. destruct Hv; subst v; reflexivity.
Qed.

(* IO never changes the program variables nor the alternate map: swap_vars is always
   undone.  st1 is the state get_row left. *)
Theorem inext_vars : forall fuel st,
  match inext fuel st with
  | ItNone st' => get_row fuel st = GRNone st' /\ calt (i_ctx st') = calt (i_ctx st)
  | ItRow _ st' =>
      exists er st1, get_row fuel st = GRRow er st1 /\
        cvars (i_ctx st') = cvars (i_ctx st1) /\ calt (i_ctx st') = calt (i_ctx st)
  | ItErr _ st' =>
      calt (i_ctx st') = calt (i_ctx st) /\
      exists st1, ((exists er, get_row fuel st = GRRow er st1) \/
                   (exists x, get_row fuel st = GRErr x st1)) /\
                  cvars (i_ctx st') = cvars (i_ctx st1)
  | _ => True
  end.
Proof.
  intros fuel st. pose proof (inext_inv fuel st) as H.
  pose proof (get_row_preserves fuel st) as K.
  destruct (inext fuel st) as [st'|row st'|[e|r] st'|s|]; try exact I.
  - rewrite H in K. tauto.
  - destruct H as [er [st1 [Hg [[Hu [outs [c2 [vals [HD [He [Hr Hs]]]]]]]|[Hu [outs [HD [Hr Hs]]]]]]]];
      exists er, st1; (split; [exact Hg|]); rewrite Hg in K; subst st'; cbn.
    + apply extract_output_values_rng_only in He. destruct He as [He1 [He2 _]]. cbn in He1, He2.
      split; [exact He1|]. rewrite He2. tauto.
    + split; [reflexivity|tauto].
  - destruct H as [er [st1 [Hg [HD Hs]]]]. rewrite Hg in K. subst st'. cbn.
    split; [tauto|]. exists st1. split; [left; eauto|reflexivity].
  - destruct H as [[x [Hr Hg]]|[er [st1 [outs [c2 [Hg [Hu [HD [He Hs]]]]]]]]]; rewrite Hg in K.
    + split; [tauto|]. exists st'. split; [right; eauto|reflexivity].
    + subst st'. cbn. apply extract_output_values_rng_only in He.
      destruct He as [He1 [He2 _]]. cbn in He1, He2. rewrite He2. split; [tauto|].
      exists st1. split; [left; eauto|exact He1].
Qed.

(* the alternate variable map stays empty *)
Corollary inext_alt_empty : forall fuel st, calt (i_ctx st) = fm_new ->
  match inext fuel st with
  | ItNone st' | ItRow _ st' | ItErr _ st' => calt (i_ctx st') = fm_new
  | _ => True
  end.
Proof.
  intros fuel st Hs. pose proof (inext_vars fuel st) as H.
  destruct (inext fuel st) as [st'|row st'|e st'|s|]; try exact I.
  - destruct H as [_ H]. congruence.
  - destruct H as [er [st1 [_ [_ H]]]]. congruence.
  - destruct H as [H _]. congruence.
Qed.

(* the recorded length of the first answer, and the output indices, never change *)
Theorem inext_nout : forall fuel st,
  match inext fuel st with
  | ItNone st' | ItRow _ st' | ItErr _ st' =>
      i_nout st' = i_nout st /\ i_outidx st' = i_outidx st
  | _ => True
  end.
Proof.
  intros fuel st. pose proof (inext_inv fuel st) as H.
  pose proof (get_row_preserves fuel st) as K.
  destruct (inext fuel st) as [st'|row st'|[e|r] st'|s|]; try exact I.
  - rewrite H in K. tauto.
  - destruct H as [er [st1 [Hg [[Hu [outs [c2 [vals [HD [He [Hr Hs]]]]]]]|[Hu [outs [HD [Hr Hs]]]]]]]];
      rewrite Hg in K; subst st'; cbn; tauto.
  - destruct H as [er [st1 [Hg [HD Hs]]]]. rewrite Hg in K. subst st'. cbn. tauto.
  - destruct H as [[x [Hr Hg]]|[er [st1 [outs [c2 [Hg [Hu [HD [He Hs]]]]]]]]]; rewrite Hg in K.
    + tauto.
    + subst st'. cbn. tauto.
Qed.

Theorem try_new_nout :
  match try_new with
  | NewOk st => exists ins outs, generate_default_input_entries tc = Ok ins /\
                  D [] (RW, ins) = DrvOk outs /\ i_nout st = length outs
  | _ => True
  end.
Proof.
  unfold Iter.try_new.
  destruct (generate_default_input_entries tc) as [ins|r|s|]; try exact I.
  cbv zeta. destruct (D [] (RW, ins)) as [e|outs] eqn:HD; [exact I|].
  destruct (build_output_indices tc outs) as [oi|r|s|]; try exact I.
  exists ins, outs. cbn. auto.
Qed.

End ITERLOG.

Print Assumptions inext_calls.
Print Assumptions try_new_calls.
Print Assumptions collect_log.
Print Assumptions next_after_none.
Print Assumptions inext_outputs.
Print Assumptions inext_vars.
