(* Facts about expression evaluation (Eval.v): closure in i64, what every operator
   computes, laziness of ite, the generator discipline of random, absence of panics for
   well-formed expressions.  Used by props C03, C08, C10, C17. *)
From DTR Require Import Prelude I64 Ast FramedMap Parser Eval.
From DTR.proofs Require Import I64Facts.
From Coq Require Import String.
Open Scope Z_scope.

(* ------------------------------------------------------------------ i64 closure of the bit operators *)

Lemma i64_iff_shiftr : forall z, i64 z <-> (Z.shiftr z 63 = 0 \/ Z.shiftr z 63 = -1).
Proof.
  intros z. rewrite Z.shiftr_div_pow2 by lia. unfold i64. rewrite two63_val.
  assert (P : 0 < 2 ^ 63) by lia.
  split.
  - intros [H1 H2]. destruct (Z_lt_le_dec z 0) as [Hn|Hp].
    + right. symmetry. apply Z.div_unique with (r := z + 2 ^ 63); lia.
    + left. apply Z.div_small. lia.
  - intros [H|H].
    + apply Z.div_small_iff in H; lia.
    + pose proof (Z.div_mod z (2 ^ 63) ltac:(lia)) as E. rewrite H in E.
      pose proof (Z.mod_pos_bound z (2 ^ 63) P). lia.
Qed.

Lemma i64_land : forall a b, i64 a -> i64 b -> i64 (Z.land a b).
Proof.
  intros a b Ha Hb. apply i64_iff_shiftr in Ha. apply i64_iff_shiftr in Hb. apply i64_iff_shiftr.
  rewrite Z.shiftr_land. destruct Ha as [-> | ->], Hb as [-> | ->]; simpl; auto.
Qed.
Lemma i64_lor : forall a b, i64 a -> i64 b -> i64 (Z.lor a b).
Proof.
  intros a b Ha Hb. apply i64_iff_shiftr in Ha. apply i64_iff_shiftr in Hb. apply i64_iff_shiftr.
  rewrite Z.shiftr_lor. destruct Ha as [-> | ->], Hb as [-> | ->]; simpl; auto.
Qed.
Lemma i64_lxor : forall a b, i64 a -> i64 b -> i64 (Z.lxor a b).
Proof.
  intros a b Ha Hb. apply i64_iff_shiftr in Ha. apply i64_iff_shiftr in Hb. apply i64_iff_shiftr.
  rewrite Z.shiftr_lxor. destruct Ha as [-> | ->], Hb as [-> | ->]; simpl; auto.
Qed.
Lemma i64_lnot : forall a, i64 a -> i64 (Z.lnot a).
Proof. intros a [H1 H2]. unfold Z.lnot, i64. lia. Qed.

Lemma shamt_range : forall b, 0 <= shamt b < 64.
Proof. intros b. unfold shamt. apply Z.mod_pos_bound. lia. Qed.

Lemma wshr_div : forall a b, wshr a b = a / 2 ^ shamt b.
Proof. intros a b. unfold wshr. apply Z.shiftr_div_pow2. apply shamt_range. Qed.

Lemma i64_wshr : forall a b, i64 a -> i64 (wshr a b).
Proof.
  intros a b [H1 H2]. rewrite wshr_div. pose proof (shamt_range b) as Hs.
  assert (P : 0 < 2 ^ shamt b) by (apply Z.pow_pos_nonneg; lia).
  unfold i64. split.
  - apply Z.div_le_lower_bound; [exact P|]. unfold two63 in *. nia.
  - apply Z.div_lt_upper_bound; [exact P|]. unfold two63 in *. nia.
Qed.

(* ------------------------------------------------------------------ C08: every operator yields an i64 *)

Theorem binop_eval_i64 : forall op l r v, i64 l -> i64 r -> binop_eval op l r = Ok v -> i64 v.
Proof.
  intros op l r v Hl Hr H. unfold binop_eval in H.
  destruct ((r =? 0) && match op with Divide | Reminder => true | _ => false end); [discriminate|].
  inversion H; subst; clear H.
  destruct op; try apply i64_b2z; try apply wrap64_range;
    [apply i64_lor | apply i64_lxor | apply i64_land | apply i64_wshr]; assumption.
Qed.

Theorem unop_eval_i64 : forall op v, i64 v -> i64 (unop_eval op v).
Proof.
  intros op v Hv. destruct op; simpl; [apply wrap64_range | apply i64_b2z | apply i64_lnot; exact Hv].
Qed.

(* binary operators never panic and never run out of fuel; the only error is division by zero *)
Theorem binop_eval_total : forall op l r,
  (exists v, binop_eval op l r = Ok v) \/
  (binop_eval op l r = Err XE_DivisionByZero /\ r = 0 /\ (op = Divide \/ op = Reminder)).
Proof.
  intros op l r. unfold binop_eval.
  destruct (Z.eqb_spec r 0) as [E|E]; simpl.
  - destruct op; simpl; eauto 6.
  - left. eauto.
Qed.

(* what each operator computes, in the property's words *)
Theorem add_wraps : forall l r, binop_eval Plus l r = Ok (wrap64 (l + r)).  Proof. intros; unfold binop_eval; rewrite andb_false_r; reflexivity. Qed.
Theorem sub_wraps : forall l r, binop_eval Minus l r = Ok (wrap64 (l - r)). Proof. intros; unfold binop_eval; rewrite andb_false_r; reflexivity. Qed.
Theorem mul_wraps : forall l r, binop_eval Times l r = Ok (wrap64 (l * r)). Proof. intros; unfold binop_eval; rewrite andb_false_r; reflexivity. Qed.
Theorem neg_wraps : forall v, unop_eval UMinus v = wrap64 (- v). Proof. reflexivity. Qed.
(* wrap64 z is the unique i64 congruent to z modulo 2^64 *)
Theorem wrap_is_mod_2_64 : forall z, i64 (wrap64 z) /\ (wrap64 z) mod 2 ^ 64 = z mod 2 ^ 64.
Proof. intros z. split; [apply wrap64_range | apply wrap64_congr]. Qed.
Theorem shl_low_six_bits : forall l r, binop_eval ShiftLeft l r = Ok (wrap64 (l * 2 ^ (r mod 64))). Proof. intros; unfold binop_eval; rewrite andb_false_r; reflexivity. Qed.
(* >> is arithmetic: floor division by 2^(count mod 64) *)
Theorem shr_arithmetic : forall l r, binop_eval ShiftRight l r = Ok (l / 2 ^ (r mod 64)).
Proof. intros l r. unfold binop_eval. rewrite andb_false_r, wshr_div. reflexivity. Qed.
(* / and % truncate toward zero *)
Theorem div_truncates : forall l r, r <> 0 -> binop_eval Divide l r = Ok (wrap64 (Z.quot l r)).
Proof. intros l r H. unfold binop_eval. destruct (Z.eqb_spec r 0); [contradiction|reflexivity]. Qed.
Theorem rem_truncates : forall l r, r <> 0 -> binop_eval Reminder l r = Ok (wrap64 (Z.rem l r)).
Proof. intros l r H. unfold binop_eval. destruct (Z.eqb_spec r 0); [contradiction|reflexivity]. Qed.
Theorem div_no_wrap_needed : forall l r, i64 l -> i64 r -> r <> 0 -> ~ (l = - two63 /\ r = -1) ->
  wrap64 (Z.quot l r) = Z.quot l r.
Proof.
  intros l r [Hl1 Hl2] [Hr1 Hr2] Hr Hex. apply wrap64_id. unfold i64, two63 in *.
  assert (A : forall k, 0 < k -> Z.abs l <= Z.abs r * k -> Z.abs (Z.quot l r) <= k).
  { intros k Hk Hle. rewrite <- Z.quot_abs by exact Hr. apply Z.quot_le_upper_bound; lia. }
  destruct (Z.eq_dec l (-9223372036854775808)) as [El|El].
  - subst l. assert (Hr1' : r <> -1) by (intro; apply Hex; auto).
    destruct (Z.eq_dec r 1) as [->|Hn1]; [rewrite Z.quot_1_r; lia|].
    assert (B : Z.abs (Z.quot (-9223372036854775808) r) <= 4611686018427387904) by (apply A; lia).
    lia.
  - assert (B : Z.abs (Z.quot l r) <= 9223372036854775807) by (apply A; lia).
    lia.
Qed.
Theorem min_div_minus_one : binop_eval Divide (- two63) (-1) = Ok (- two63). Proof. reflexivity. Qed.
Theorem min_rem_minus_one : binop_eval Reminder (- two63) (-1) = Ok 0. Proof. reflexivity. Qed.
Theorem rem_no_wrap_needed : forall l r, i64 l -> i64 r -> r <> 0 -> wrap64 (Z.rem l r) = Z.rem l r.
Proof.
  intros l r [Hl1 Hl2] [Hr1 Hr2] Hr. apply wrap64_id. unfold i64, two63 in *.
  pose proof (Z.rem_bound_abs l r Hr). lia.
Qed.
Theorem comparisons_yield_01 : forall op l r v,
  In op [Equal; NotEqual; GreaterThan; LessThan; GreaterThanOrEqual; LessThanOrEqual] ->
  binop_eval op l r = Ok v -> v = 0 \/ v = 1.
Proof.
  intros op l r v Hin H. unfold binop_eval in H.
  simpl in Hin. repeat (destruct Hin as [<- | Hin]; [rewrite andb_false_r in H; inversion H; apply b2z_01|]).
  contradiction.
Qed.
Theorem comparison_meaning : forall l r,
  binop_eval Equal l r = Ok (b2z (l =? r)) /\ binop_eval NotEqual l r = Ok (b2z (negb (l =? r))) /\
  binop_eval LessThan l r = Ok (b2z (l <? r)) /\ binop_eval GreaterThan l r = Ok (b2z (l >? r)) /\
  binop_eval LessThanOrEqual l r = Ok (b2z (l <=? r)) /\ binop_eval GreaterThanOrEqual l r = Ok (b2z (l >=? r)).
Proof. intros. unfold binop_eval. rewrite !andb_false_r. repeat split. Qed.
Theorem lognot_yields_01 : forall v, unop_eval ULogicalNot v = (if v =? 0 then 1 else 0).
Proof. intros v. simpl. destruct (v =? 0); reflexivity. Qed.
Theorem bitnot_meaning : forall v, unop_eval UBinaryNot v = - v - 1.
Proof. intros v. simpl. unfold Z.lnot. lia. Qed.

(* ------------------------------------------------------------------ induction principle for expr *)

Section EXPR_IND.
Variable P : expr -> Prop.
Hypothesis Hnum : forall n, P (ENum n).
Hypothesis Hvar : forall x, P (EVar x).
Hypothesis Hbin : forall op l r, P l -> P r -> P (EBin op l r).
Hypothesis Hun : forall op e, P e -> P (EUn op e).
Hypothesis Hfunc : forall f args, Forall P args -> P (EFunc f args).
Fixpoint expr_ind2 (e : expr) : P e :=
  match e with
  | ENum n => Hnum n
  | EVar x => Hvar x
  | EBin op l r => Hbin op l r (expr_ind2 l) (expr_ind2 r)
  | EUn op a => Hun op a (expr_ind2 a)
  | EFunc f args =>
      Hfunc f args ((fix go (l : list expr) : Forall P l :=
                       match l with [] => Forall_nil P | x :: r => Forall_cons x (expr_ind2 x) (go r) end) args)
  end.
End EXPR_IND.

Lemma wf_args_forall : forall args,
  (fix go (l : list expr) : Prop := match l with [] => True | x :: r => wf_expr x /\ go r end) args
  <-> Forall wf_expr args.
Proof.
  induction args as [|a r IH]; split; intro H; auto.
  - destruct H as [H1 H2]. constructor; [exact H1 | apply IH; exact H2].
  - inversion H; subst. split; [assumption | apply IH; assumption].
Qed.

Section EVAL_FACTS.
Variable G : gen.

Lemma eval_func : forall c f args rng,
  eval G c (EFunc f args) rng =
  match func_arity f with
  | None => (Panic 10%N, rng)
  | Some arity =>
      if negb (Nlen args =? arity)%N then (Panic 11%N, rng)
      else if name_eqb f name_random then
        match args with
        | [a] => match eval G c a rng with
                 | (Ok max, rng1) => if max <=? 1 then (Err (XE_EmptyRandomRange max), rng1)
                                     else (Ok (G rng1 (1, max)), (1, max) :: rng1)
                 | other => other
                 end
        | _ => (Panic 11%N, rng)
        end
      else if name_eqb f name_ite then
        match args with
        | [t; a; b] => match eval G c t rng with
                       | (Ok tv, rng1) => if tv =? 0 then eval G c b rng1 else eval G c a rng1
                       | other => other
                       end
        | _ => (Panic 11%N, rng)
        end
      else (Err (XE_FunctionNotImplemented f), rng)
  end.
Proof. intros. destruct args as [|a [|b [|d [|x y]]]]; reflexivity. Qed.

(* ite evaluates the condition, then ONLY the selected branch *)
Theorem eval_ite : forall c t a b rng,
  eval G c (EFunc name_ite [t; a; b]) rng =
  match eval G c t rng with
  | (Ok tv, rng1) => if tv =? 0 then eval G c b rng1 else eval G c a rng1
  | other => other
  end.
Proof. intros. rewrite eval_func. reflexivity. Qed.

Theorem ite_lazy_then : forall c t a b b' rng tv rng1,
  eval G c t rng = (Ok tv, rng1) -> tv <> 0 ->
  eval G c (EFunc name_ite [t; a; b]) rng = eval G c a rng1 /\
  eval G c (EFunc name_ite [t; a; b]) rng = eval G c (EFunc name_ite [t; a; b']) rng.
Proof.
  intros c t a b b' rng tv rng1 Ht Hnz. rewrite !eval_ite, Ht.
  destruct (Z.eqb_spec tv 0); [contradiction|]. split; reflexivity.
Qed.

Theorem ite_lazy_else : forall c t a a' b rng rng1,
  eval G c t rng = (Ok 0, rng1) ->
  eval G c (EFunc name_ite [t; a; b]) rng = eval G c b rng1 /\
  eval G c (EFunc name_ite [t; a; b]) rng = eval G c (EFunc name_ite [t; a'; b]) rng.
Proof. intros c t a a' b rng rng1 Ht. rewrite !eval_ite, Ht. split; reflexivity. Qed.

(* random(e): evaluate e; a bound below 2 is an error (no draw); otherwise exactly one draw,
   from the range [1, max), recorded in the generator history *)
Theorem eval_random : forall c a rng,
  eval G c (EFunc name_random [a]) rng =
  match eval G c a rng with
  | (Ok max, rng1) => if max <=? 1 then (Err (XE_EmptyRandomRange max), rng1)
                      else (Ok (G rng1 (1, max)), (1, max) :: rng1)
  | other => other
  end.
Proof. intros. rewrite eval_func. reflexivity. Qed.

(* the generator history only grows: evaluation never rewinds or reseeds the generator *)
Theorem eval_rng_extends : forall e c rng, exists l, snd (eval G c e rng) = l ++ rng.
Proof.
  induction e as [n|x|op l r IHl IHr|op a IHa|f args IHargs] using expr_ind2; intros c rng.
  - exists []. reflexivity.
  - exists []. simpl. destruct (ctx_get c x) as [[| |]|]; reflexivity.
  - simpl. destruct (IHl c rng) as [l1 H1]. destruct (eval G c l rng) as [[lv| | |] rng1]; simpl in *; eauto.
    destruct (IHr c rng1) as [l2 H2]. destruct (eval G c r rng1) as [[rv| | |] rng2]; simpl in *; subst;
      try (exists (l2 ++ l1); rewrite app_assoc; reflexivity).
  - simpl. destruct (IHa c rng) as [l1 H1]. destruct (eval G c a rng) as [[v| | |] rng1]; simpl in *; eauto.
  - rewrite eval_func. destruct (func_arity f) as [arity|]; [|exists []; reflexivity].
    destruct (negb (Nlen args =? arity)%N); [exists []; reflexivity|].
    destruct (name_eqb f name_random).
    { destruct args as [|a [|? ?]]; try (exists []; reflexivity).
      inversion IHargs as [|? ? IHa _]; subst. destruct (IHa c rng) as [l1 H1].
      destruct (eval G c a rng) as [[v| | |] rng1]; simpl in *; eauto.
      destruct (v <=? 1); simpl; eauto. exists ((1, v) :: l1). subst. reflexivity. }
    destruct (name_eqb f name_ite); [|exists []; reflexivity].
    destruct args as [|t [|a [|b [|? ?]]]]; try (exists []; reflexivity).
    inversion IHargs as [|? ? IHt IHr]; subst. inversion IHr as [|? ? IHa IHr2]; subst.
    inversion IHr2 as [|? ? IHb _]; subst.
    destruct (IHt c rng) as [l1 H1]. destruct (eval G c t rng) as [[tv| | |] rng1]; simpl in *; eauto.
    destruct (tv =? 0).
    + destruct (IHb c rng1) as [l2 H2]. exists (l2 ++ l1). rewrite H2, H1, app_assoc. reflexivity.
    + destruct (IHa c rng1) as [l2 H2]. exists (l2 ++ l1). rewrite H2, H1, app_assoc. reflexivity.
Qed.

(* no `random` in the expression: the generator is untouched *)
Fixpoint mentions_random (e : expr) : bool :=
  match e with
  | ENum _ | EVar _ => false
  | EBin _ l r => mentions_random l || mentions_random r
  | EUn _ a => mentions_random a
  | EFunc f args => name_eqb f name_random ||
      (fix go (l : list expr) : bool := match l with [] => false | x :: r => mentions_random x || go r end) args
  end.

Theorem eval_no_random_no_draw : forall e c rng, mentions_random e = false -> snd (eval G c e rng) = rng.
Proof.
  induction e as [n|x|op l r IHl IHr|op a IHa|f args IHargs] using expr_ind2; intros c rng Hm.
  - reflexivity.
  - simpl. destruct (ctx_get c x) as [[| |]|]; reflexivity.
  - simpl in Hm. apply orb_false_iff in Hm. destruct Hm as [Hm1 Hm2]. simpl.
    specialize (IHl c rng Hm1). destruct (eval G c l rng) as [[lv| | |] rng1]; simpl in *; auto.
    specialize (IHr c rng1 Hm2). destruct (eval G c r rng1) as [[rv| | |] rng2]; simpl in *; congruence.
  - simpl in Hm. simpl. specialize (IHa c rng Hm). destruct (eval G c a rng) as [[v| | |] rng1]; simpl in *; auto.
  - simpl in Hm. apply orb_false_iff in Hm. destruct Hm as [Hf Hargs].
    rewrite eval_func, Hf. destruct (func_arity f) as [arity|]; [|reflexivity].
    destruct (negb (Nlen args =? arity)%N); [reflexivity|].
    destruct (name_eqb f name_ite); [|reflexivity].
    destruct args as [|t [|a [|b [|? ?]]]]; try reflexivity.
    inversion IHargs as [|? ? IHt IHr]; subst. inversion IHr as [|? ? IHa IHr2]; subst.
    inversion IHr2 as [|? ? IHb _]; subst.
    apply orb_false_iff in Hargs. destruct Hargs as [Ht Hargs].
    apply orb_false_iff in Hargs. destruct Hargs as [Ha Hargs].
    apply orb_false_iff in Hargs. destruct Hargs as [Hb _].
    specialize (IHt c rng Ht). destruct (eval G c t rng) as [[tv| | |] rng1]; simpl in *; auto.
    subst rng1. destruct (tv =? 0); auto.
Qed.

(* well-formed expressions never panic: the two panic sites of Expr::eval are unreachable *)
Theorem eval_never_panics : forall e, wf_expr e -> forall c rng s, fst (eval G c e rng) <> Panic s.
Proof.
  induction e as [n|x|op l r IHl IHr|op a IHa|f args IHargs] using expr_ind2; intros Hwf c rng s.
  - simpl. discriminate.
  - simpl. destruct (ctx_get c x) as [[| |]|]; simpl; discriminate.
  - destruct Hwf as [Hwl Hwr]. simpl. specialize (IHl Hwl c rng s).
    destruct (eval G c l rng) as [[lv| | |] rng1]; simpl in *; auto; try discriminate.
    specialize (IHr Hwr c rng1 s). destruct (eval G c r rng1) as [[rv| | |] rng2]; simpl in *; auto; try discriminate.
    destruct (binop_eval_total op lv rv) as [[v ->] | [-> _]]; discriminate.
  - simpl in Hwf. simpl. specialize (IHa Hwf c rng s).
    destruct (eval G c a rng) as [[v| | |] rng1]; simpl in *; auto; discriminate.
  - destruct Hwf as [Har Hargs]. apply wf_args_forall in Hargs.
    rewrite eval_func, Har, N.eqb_refl. simpl.
    destruct (name_eqb f name_random) eqn:Er.
    { apply name_eqb_eq in Er. subst f.
      assert (Hlen : List.length args = 1%nat) by (change (func_arity name_random) with (Some 1%N) in Har; injection Har as Har; unfold Nlen in Har; lia).
      destruct args as [|a [|? ?]]; try discriminate Hlen.
      inversion IHargs as [|? ? IHa _]; subst. inversion Hargs; subst.
      specialize (IHa H1 c rng s). destruct (eval G c a rng) as [[v| | |] rng1]; simpl in *; auto; try discriminate.
      destruct (v <=? 1); simpl; discriminate. }
    destruct (name_eqb f name_ite) eqn:Ei; [|simpl; discriminate].
    apply name_eqb_eq in Ei. subst f.
    assert (Hlen : List.length args = 3%nat) by (change (func_arity name_ite) with (Some 3%N) in Har; injection Har as Har; unfold Nlen in Har; lia).
    destruct args as [|t [|a [|b [|? ?]]]]; try discriminate Hlen.
    inversion IHargs as [|? ? IHt IHr]; subst. inversion IHr as [|? ? IHa IHr2]; subst.
    inversion IHr2 as [|? ? IHb _]; subst.
    inversion Hargs as [|? ? Wt Wr]; subst. inversion Wr as [|? ? Wa Wr2]; subst. inversion Wr2 as [|? ? Wb _]; subst.
    specialize (IHt Wt c rng s). destruct (eval G c t rng) as [[tv| | |] rng1]; simpl in *; auto; try discriminate.
    destruct (tv =? 0); auto.
Qed.

(* evaluation never runs out of fuel (it has none): OOF is not a possible result *)
Theorem eval_never_oof : forall e c rng, fst (eval G c e rng) <> OOF.
Proof.
  induction e as [n|x|op l r IHl IHr|op a IHa|f args IHargs] using expr_ind2; intros c rng.
  - simpl. discriminate.
  - simpl. destruct (ctx_get c x) as [[| |]|]; simpl; discriminate.
  - simpl. specialize (IHl c rng). destruct (eval G c l rng) as [[lv| | |] rng1]; simpl in *; auto; try discriminate.
    specialize (IHr c rng1). destruct (eval G c r rng1) as [[rv| | |] rng2]; simpl in *; auto; try discriminate.
    destruct (binop_eval_total op lv rv) as [[v ->] | [-> _]]; discriminate.
  - simpl. specialize (IHa c rng). destruct (eval G c a rng) as [[v| | |] rng1]; simpl in *; auto; discriminate.
  - rewrite eval_func. destruct (func_arity f); [|simpl; discriminate].
    destruct (negb _); [simpl; discriminate|].
    destruct (name_eqb f name_random).
    { destruct args as [|a [|? ?]]; try (simpl; discriminate).
      inversion IHargs as [|? ? IHa _]; subst. specialize (IHa c rng).
      destruct (eval G c a rng) as [[v| | |] rng1]; simpl in *; auto; try discriminate.
      destruct (v <=? 1); simpl; discriminate. }
    destruct (name_eqb f name_ite); [|simpl; discriminate].
    destruct args as [|t [|a [|b [|? ?]]]]; try (simpl; discriminate).
    inversion IHargs as [|? ? IHt IHr]; subst. inversion IHr as [|? ? IHa IHr2]; subst.
    inversion IHr2 as [|? ? IHb _]; subst.
    specialize (IHt c rng). destruct (eval G c t rng) as [[tv| | |] rng1]; simpl in *; auto; try discriminate.
    destruct (tv =? 0); auto.
Qed.

(* values stay 64-bit: if every literal, variable and output is an i64 and the generator
   returns i64 values, so is the result *)
Fixpoint lits_i64 (e : expr) : Prop :=
  match e with
  | ENum n => i64 n
  | EVar _ => True
  | EBin _ l r => lits_i64 l /\ lits_i64 r
  | EUn _ a => lits_i64 a
  | EFunc _ args => (fix go (l : list expr) : Prop := match l with [] => True | x :: r => lits_i64 x /\ go r end) args
  end.

Definition ctx_i64 (c : ctx) : Prop := forall x n, ctx_get c x = Some (OVal n) -> i64 n.

Theorem eval_i64 : (forall h r, i64 (G h r)) -> forall e c, ctx_i64 c -> lits_i64 e ->
  forall rng v, fst (eval G c e rng) = Ok v -> i64 v.
Proof.
  intros HG. induction e as [n|x|op l r IHl IHr|op a IHa|f args IHargs] using expr_ind2; intros c Hc Hl rng v Hv.
  - simpl in *. inversion Hv; subst. exact Hl.
  - simpl in Hv. destruct (ctx_get c x) as [[n| |]|] eqn:E; simpl in Hv; try discriminate.
    inversion Hv; subst. eapply Hc; eauto.
  - destruct Hl as [Hl1 Hl2]. simpl in Hv.
    destruct (eval G c l rng) as [[lv| | |] rng1] eqn:E1; simpl in Hv; try discriminate.
    destruct (eval G c r rng1) as [[rv| | |] rng2] eqn:E2; simpl in Hv; try discriminate.
    eapply binop_eval_i64; [| | exact Hv].
    + eapply (IHl c Hc Hl1 rng). rewrite E1. reflexivity.
    + eapply (IHr c Hc Hl2 rng1). rewrite E2. reflexivity.
  - simpl in Hl, Hv. destruct (eval G c a rng) as [[av| | |] rng1] eqn:E1; simpl in Hv; try discriminate.
    inversion Hv; subst. apply unop_eval_i64. eapply (IHa c Hc Hl rng). rewrite E1. reflexivity.
  - rewrite eval_func in Hv. destruct (func_arity f); [|discriminate].
    destruct (negb _); [discriminate|].
    destruct (name_eqb f name_random).
    { destruct args as [|a [|? ?]]; try discriminate.
      destruct (eval G c a rng) as [[av| | |] rng1] eqn:E1; simpl in Hv; try discriminate.
      destruct (av <=? 1); simpl in Hv; try discriminate. inversion Hv; subst. apply HG. }
    destruct (name_eqb f name_ite); [|discriminate].
    destruct args as [|t [|a [|b [|? ?]]]]; try discriminate.
    inversion IHargs as [|? ? IHt IHr]; subst. inversion IHr as [|? ? IHa IHr2]; subst.
    inversion IHr2 as [|? ? IHb _]; subst.
    simpl in Hl. destruct Hl as [Lt [La [Lb _]]].
    destruct (eval G c t rng) as [[tv| | |] rng1] eqn:E1; simpl in Hv; try discriminate.
    destruct (tv =? 0); [eapply (IHb c Hc Lb rng1) | eapply (IHa c Hc La rng1)]; exact Hv.
Qed.

End EVAL_FACTS.

(* ------------------------------------------------------------------ C17: the range of random *)

(* rand's contract for gen_range(lo..hi), lo < hi *)
Definition gen_in_range (G : gen) : Prop := forall h lo hi, lo < hi -> lo <= G h (lo, hi) < hi.

Theorem random_in_range : forall G c a rng n rng1 r rng2, gen_in_range G ->
  eval G c a rng = (Ok n, rng1) -> 2 <= n ->
  eval G c (EFunc name_random [a]) rng = (Ok r, rng2) ->
  0 <= r < n /\ rng2 = (1, n) :: rng1.
Proof.
  intros G c a rng n rng1 r rng2 HG Ha Hn H. rewrite eval_random, Ha in H.
  destruct (Z.leb_spec n 1); [lia|]. inversion H; subst. split; [|reflexivity].
  pose proof (HG rng1 1 n ltac:(lia)). lia.
Qed.

Theorem random_empty_range_is_error : forall G c a rng n rng1, 
  eval G c a rng = (Ok n, rng1) -> n <= 1 ->
  eval G c (EFunc name_random [a]) rng = (Err (XE_EmptyRandomRange n), rng1).
Proof.
  intros G c a rng n rng1 Ha Hn. rewrite eval_random, Ha. destruct (Z.leb_spec n 1); [reflexivity|lia].
Qed.

(* resetRandom restores the generator state of a fresh context: what is drawn afterwards is,
   for the same sequence of bounds, what was drawn from the start of the run *)
Theorem reset_restores_initial_generator : forall c outs,
  crng (ctx_reset_random_seed c) = crng (ctx_new outs).
Proof. reflexivity. Qed.

Theorem draws_depend_on_history_only : forall G c1 c2 a n rng,
  (forall r, eval G c1 a r = (Ok n, r)) -> (forall r, eval G c2 a r = (Ok n, r)) ->
  eval G c1 (EFunc name_random [a]) rng = eval G c2 (EFunc name_random [a]) rng.
Proof. intros G c1 c2 a n rng H1 H2. rewrite !eval_random, H1, H2. reflexivity. Qed.
