(* DataRowIterator (src/data_row_iterator.rs) with a ghost log of driver calls, the
   TestDriver trait's default write_input (src/lib.rs) and try_iter_static's driver
   (src/static_test.rs).
   Panic sites: 30 signals[..] out of range, 31 default_value().unwrap() on a signal
   without default, 32 stmt_entries[..] out of range, 33 unreachable!() entry kind on the
   input path, 34 changed[..] out of range, 35 unreachable!() entry kind on the expected
   path, 36 expand_x on an empty cache, 37 expand_c on an empty cache, 38 (removed by the fix d850e2a: outputs.get(..)), 39 entries[..] out of range in expand_c. *)
From DTR Require Import Prelude I64 Ast FramedMap Parser Bind Eval Stmt.
Open Scope Z_scope.

(* ------------------------------------------------------------------ driver *)

Inductive callkind := RW | WO.

Record in_entry := { ie_sig : signal; ie_val : inval; ie_changed : bool }.
Record out_entry := { oe_sig : signal; oe_val : outval }.

Definition call := (callkind * list in_entry)%type.

Inductive response (DE : Type) :=
| DrvErr (e : DE)
| DrvOk (outs : list out_entry).
Arguments DrvErr {DE} e.
Arguments DrvOk {DE} outs.

(* The most general deterministic driver: its answer is a function of the calls made
   so far (oldest first) and of the present call.  The answer to a write-only call
   carries no outputs that anybody looks at. *)
Definition driver (DE : Type) := list call -> call -> response DE.

(* ------------------------------------------------------------------ items *)

Inductive rterr :=
| RT_WrongNumberOfOutputs (expected got : N)
| RT_WrongOutputOrder
| RT_MissingOutputs (names : list name)
| RT_Expr (e : xerr).

Inductive ierr (DE : Type) :=
| IE_Driver (e : DE)
| IE_Runtime (r : rterr).
Arguments IE_Driver {DE} e.
Arguments IE_Runtime {DE} r.

Record out_result := { or_sig : signal; or_output : outval; or_expected : expval }.
Record exp_entry := { xe_sig : signal; xe_val : expval }.
Record data_row := { dr_inputs : list in_entry; dr_outputs : list out_result; dr_line : N }.

Definition or_check (r : out_result) : bool := expected_check (or_expected r) (or_output r).
Definition or_is_checked (r : out_result) : bool := negb (expval_eqb (or_expected r) XX).
Definition failing_outputs (r : data_row) : list out_result :=
  filter (fun e => negb (or_check e)) (dr_outputs r).

(* ------------------------------------------------------------------ state *)

Inductive out_index := OINone | OIOutput (n : nat) | OIVirtual (e : expr).

Record dentries := { de_entries : list dentry; de_line : N; de_update_output : bool }.

Inductive xfail := XFErr (e : xerr) | XFPanic (s : N).

Section ITER.
Variable G : gen.
Variable DE : Type.
Variable D : driver DE.
(* true: the driver inherits the trait's default write_input, which forwards to
   write_input_and_read_output and drops the answer *)
Variable w_default : bool.
Variable tc : testcase.

Definition lift_eval (c : ctx) (e : expr) : ctx * (Z + xfail) :=
  let (c1, r) := ctx_eval G c e in
  (c1, match r with Ok v => inl v | Err x => inr (XFErr x) | Panic s => inr (XFPanic s) | OOF => inr (XFPanic 0%N) end).

Definition lift_row_eval (c : ctx) (d : list dentry) : ctx * (list dentry + xfail) :=
  let (c1, r) := row_eval G c d in
  (c1, match r with Ok v => inl v | Err x => inr (XFErr x) | Panic s => inr (XFPanic s) | OOF => inr (XFPanic 0%N) end).

Definition loop_var_value (c : ctx) (x : name) : option Z :=
  match ctx_get c x with Some (OVal n) => Some n | _ => None end.

Definition snext := next ctx xfail (list dentry) lift_eval lift_row_eval ctx_set loop_var_value
                         ctx_push_frame ctx_pop_frame ctx_reset_random_seed.

Record istate := {
  i_ctx : ctx;
  i_iter : siter;
  i_outidx : list out_index;
  i_nout : nat;                     (* number of entries of the driver's first answer *)
  i_prev : option (list dentry);
  i_cache : list dentries;          (* Vec used as a stack: head = last element *)
  i_log : list call                 (* ghost: every driver call so far, oldest first *)
}.

Definition signals := tc_signals tc.

(* ------------------------------------------------------------------ entries *)

Fixpoint map_r {A B} (f : A -> R rterr B) (l : list A) : R rterr (list B) :=
  match l with
  | [] => Ok []
  | x :: r => rbind (f x) (fun y => rbind (map_r f r) (fun ys => Ok (y :: ys)))
  end.

Definition get_signal (i : nat) : R rterr signal :=
  match nth_error signals i with Some s => Ok s | None => Panic 30%N end.

Definition default_entry (signal_index : nat) : R rterr in_entry :=
  rbind (get_signal signal_index) (fun s =>
  match default_value s with
  | Some v => Ok {| ie_sig := s; ie_val := v; ie_changed := false |}
  | None => Panic 31%N
  end).

Definition generate_default_input_entries : R rterr (list in_entry) :=
  map_r (fun idx => default_entry (ei_signal_index idx)) (tc_input_indices tc).

Definition generate_input_entries (entries : list dentry) (changed : list bool) : R rterr (list in_entry) :=
  map_r (fun idx =>
    match idx with
    | EIEntry entry_index signal_index =>
        rbind (get_signal signal_index) (fun s =>
        match nth_error entries entry_index with
        | None => Panic 32%N
        | Some d =>
            rbind (match d with
                   | DNum n => Ok (IVal (mask_value (sbits s) n))
                   | DZ => Ok IZ
                   | _ => Panic 33%N
                   end) (fun v =>
            match nth_error changed entry_index with
            | None => Panic 34%N
            | Some ch => Ok {| ie_sig := s; ie_val := v; ie_changed := ch |}
            end)
        end)
    | EIDefault signal_index => default_entry signal_index
    end) (tc_input_indices tc).

Definition generate_expected_entries (entries : list dentry) : R rterr (list exp_entry) :=
  map_r (fun idx =>
    match idx with
    | EIEntry entry_index signal_index =>
        rbind (get_signal signal_index) (fun s =>
        match nth_error entries entry_index with
        | None => Panic 32%N
        | Some d =>
            match d with
            | DNum n => Ok {| xe_sig := s; xe_val := XVal (mask_value (sbits s) n) |}
            | DZ => Ok {| xe_sig := s; xe_val := XZ |}
            | DX => Ok {| xe_sig := s; xe_val := XX |}
            | _ => Panic 35%N
            end
        end)
    | EIDefault signal_index =>
        rbind (get_signal signal_index) (fun s => Ok {| xe_sig := s; xe_val := XX |})
    end) (tc_expected_indices tc).

(* ------------------------------------------------------------------ constructor *)

Definition build_output_indices (outs : list out_entry) : R rterr (list out_index) :=
  rbind (map_r (fun idx =>
           rbind (get_signal (ei_signal_index idx)) (fun s =>
           match styp s with
           | TyVirtual e => Ok (OIVirtual e, None)
           | _ => match position (fun o => signal_eqb (oe_sig o) s) outs with
                  | Some n => Ok (OIOutput n, Some (ei_signal_index idx))
                  | None => Ok (OINone, None)
                  end
           end)) (tc_expected_indices tc)) (fun l =>
  let output_indices := map fst l in
  let found := flat_map (fun x => match snd x with Some i => [i] | None => [] end) l in
  rbind (map_r (fun read => if existsb (Nat.eqb read) found then Ok []
                            else rbind (get_signal read) (fun s => Ok [sname s]))
               (tc_read_outputs tc)) (fun miss =>
  match concat miss with
  | [] => Ok output_indices
  | names => Err (RT_MissingOutputs names)
  end)).

Definition outs_map (outs : list out_entry) : list (name * outval) :=
  map (fun o => (sname (oe_sig o), oe_val o)) outs.

Inductive new_result :=
| NewOk (st : istate)
| NewErr (e : ierr DE) (log : list call)
| NewPanic (s : N).

Definition try_new : new_result :=
  match generate_default_input_entries with
  | Ok inputs =>
      let c := (RW, inputs) in
      match D [] c with
      | DrvErr e => NewErr (IE_Driver e) [c]
      | DrvOk outs =>
          match build_output_indices outs with
          | Ok oi => NewOk {| i_ctx := ctx_new (outs_map outs); i_iter := siter_new (tc_stmts tc);
                              i_outidx := oi; i_nout := length outs; i_prev := None; i_cache := []; i_log := [c] |}
          | Err r => NewErr (IE_Runtime r) [c]
          | Panic s => NewPanic s
          | OOF => NewPanic 0%N
          end
      end
  | Err r => NewErr (IE_Runtime r) []
  | Panic s => NewPanic s
  | OOF => NewPanic 0%N
  end.

(* ------------------------------------------------------------------ expansion *)

Definition entry_is_input (entry_index : nat) : bool :=
  existsb (fun e => ei_indexes e entry_index) (tc_input_indices tc).

(* index of the right-most entry that is X and an input column *)
Fixpoint find_x_from (i : nat) (entries : list dentry) : option nat :=
  match entries with
  | [] => None
  | d :: r =>
      match find_x_from (S i) r with
      | Some j => Some j
      | None => if dentry_eqb d DX && entry_is_input i then Some i else None
      end
  end.

Definition set_entry (row : dentries) (i : nat) (d : dentry) : dentries :=
  {| de_entries := list_set (de_entries row) i d; de_line := de_line row;
     de_update_output := de_update_output row |}.

Fixpoint expand_x (fuel : nat) (cache : list dentries) : R rterr (list dentries) :=
  match fuel with O => OOF | S f =>
    match cache with
    | [] => Panic 36%N
    | row :: rest =>
        match find_x_from O (de_entries row) with
        | None => Ok cache
        | Some i => expand_x f (set_entry row i (DNum 0) :: set_entry row i (DNum 1) :: rest)
        end
    end
  end.

Definition c_indices (entries : list dentry) : list nat :=
  flat_map (fun x => x)
    (mapi (fun i d => if dentry_eqb d DC && entry_is_input i then [i] else []) entries).

Definition set_all (entries : list dentry) (idx : list nat) (d : dentry) : list dentry :=
  fold_left (fun es i => list_set es i d) idx entries.

(* the loop over expected_indices in expand_c *)
Definition blank_expected (entries : list dentry) : list dentry :=
  fold_left (fun es idx =>
               match idx with
               | EIEntry entry_index _ =>
                   if entry_is_input entry_index then es else list_set es entry_index DX
               | EIDefault _ => es
               end) (tc_expected_indices tc) entries.

Definition expand_c (cache : list dentries) : R rterr (list dentries) :=
  match cache with
  | [] => Panic 37%N
  | row :: rest =>
      let cs := c_indices (de_entries row) in
      match cs with
      | [] => Ok cache
      | _ =>
          let e0 := set_all (de_entries row) cs (DNum 0) in
          let r_checked := {| de_entries := e0; de_line := de_line row;
                              de_update_output := de_update_output row |} in
          let eb := blank_expected e0 in
          let r_one := {| de_entries := set_all eb cs (DNum 1); de_line := de_line row;
                          de_update_output := false |} in
          let r_zero := {| de_entries := set_all (set_all eb cs (DNum 1)) cs (DNum 0);
                           de_line := de_line row; de_update_output := false |} in
          Ok (r_zero :: r_one :: r_checked :: rest)
      end
  end.

Definition check_changed_entries (prev : option (list dentry)) (entries : list dentry) : list bool :=
  match prev with
  | Some p => map (fun xy => negb (dentry_eqb (fst xy) (snd xy))) (combine entries p)
  | None => map (fun _ => true) entries
  end.

Record evaluated_row := {
  er_line : N; er_inputs : list in_entry; er_expected : list exp_entry; er_update_output : bool
}.

Inductive getrow_result :=
| GRNone (st : istate)
| GRRow (row : evaluated_row) (st : istate)
| GRErr (e : xerr) (st : istate)
| GRPanic (s : N)
| GROOF.

Definition with_iter_ctx (st : istate) (it : siter) (c : ctx) (cache : list dentries) : istate :=
  {| i_ctx := c; i_iter := it; i_outidx := i_outidx st; i_nout := i_nout st; i_prev := i_prev st;
     i_cache := cache; i_log := i_log st |}.

(* self.expand_x(); self.expand_c();  (the fuel of expand_x is one more than the row is wide:
   every round replaces one X of the top row, see proofs/ExpandProof.v) *)
Definition prepare_cache (cache : list dentries) : R rterr (list dentries) :=
  let width := match cache with [] => O | r :: _ => length (de_entries r) end in
  rbind (expand_x (S width) cache) expand_c.

Definition get_row (fuel : nat) (st : istate) : getrow_result :=
  let refill :=
    match i_cache st with
    | [] =>
        match snext fuel (i_iter st) (i_ctx st) with
        | NYield _ _ _ w l it' c' =>
            inl (with_iter_ctx st it' c' [ {| de_entries := w; de_line := l; de_update_output := true |} ])
        | NDone _ _ _ it' c' => inr (GRNone (with_iter_ctx st it' c' []))
        (* the `?` returns after the statement iterator has been mutated: it' (Stmt.v) *)
        | NErr _ _ _ (XFErr x) it' c' => inr (GRErr x (with_iter_ctx st it' c' []))
        | NErr _ _ _ (XFPanic s) _ _ => inr (GRPanic s)
        | NPanic _ _ _ s => inr (GRPanic s)
        | NOOF _ _ _ => inr GROOF
        end
    | _ => inl st
    end in
  match refill with
  | inr r => r
  | inl st1 =>
      match prepare_cache (i_cache st1) with
      | Ok [] => GRPanic 37%N
      | Ok (row :: rest) =>
          let changed := check_changed_entries (i_prev st1) (de_entries row) in
          match generate_input_entries (de_entries row) changed with
          | Ok inputs =>
              match generate_expected_entries (de_entries row) with
              | Ok expected =>
                  GRRow {| er_line := de_line row; er_inputs := inputs; er_expected := expected;
                           er_update_output := de_update_output row |}
                        {| i_ctx := i_ctx st1; i_iter := i_iter st1; i_outidx := i_outidx st1; i_nout := i_nout st1;
                           i_prev := Some (de_entries row); i_cache := rest; i_log := i_log st1 |}
              | Panic s => GRPanic s
              | _ => GRPanic 0%N
              end
          | Panic s => GRPanic s
          | _ => GRPanic 0%N
          end
      | Panic s => GRPanic s
      | Err _ => GRPanic 0%N
      | OOF => GROOF
      end
  end.

(* ------------------------------------------------------------------ IO *)

Definition num_outputs (oi : list out_index) : nat :=
  length (filter (fun i => match i with OIOutput _ => true | _ => false end) oi).

(* the body of the map in extract_output_values; collect() stops at the first error *)
Fixpoint extract_loop (pairs : list (entry_index * out_index)) (outs : list out_entry) (c : ctx)
  : ctx * R rterr (list outval) :=
  match pairs with
  | [] => (c, Ok [])
  | (expected_index, oi) :: r =>
      let step : ctx * R rterr outval :=
        match oi with
        | OIOutput n =>
            match get_signal (ei_signal_index expected_index) with
            | Ok expected_signal =>
                (* outputs.get(n): an answer shorter than the first one is a layout error *)
                match nth_error outs n with
                | None => (c, Err RT_WrongOutputOrder)
                | Some o => if signal_eqb expected_signal (oe_sig o) then (c, Ok (oe_val o))
                            else (c, Err RT_WrongOutputOrder)
                end
            | Err e => (c, Err e) | Panic s => (c, Panic s) | OOF => (c, OOF)
            end
        | OIVirtual e =>
            let (c1, v) := ctx_eval G c e in
            (c1, match v with Ok n => Ok (OVal n) | Err x => Err (RT_Expr x)
                         | Panic s => Panic s | OOF => OOF end)
        | OINone => (c, Ok OX)
        end in
      match step with
      | (c1, Ok v) =>
          match extract_loop r outs c1 with
          | (c2, Ok vs) => (c2, Ok (v :: vs))
          | other => other
          end
      | (c1, Err e) => (c1, Err e)
      | (c1, Panic s) => (c1, Panic s)
      | (c1, OOF) => (c1, OOF)
      end
  end.

(* nout = self.num_outputs: the length of the driver's first answer (after fix 2nd of C13) *)
Definition extract_output_values (nout : nat) (oi : list out_index) (outs : list out_entry) (c : ctx)
  : ctx * R rterr (list outval) :=
  let n := nout in
  if negb (Nat.eqb (length outs) n)
  then (c, Err (RT_WrongNumberOfOutputs (N.of_nat n) (N.of_nat (length outs))))
  else
    let (c1, r) := extract_loop (combine (tc_expected_indices tc) oi) outs (ctx_swap_vars c) in
    (ctx_swap_vars c1, r).

Definition into_data_row (row : evaluated_row) (outs : list outval) : data_row :=
  {| dr_inputs := er_inputs row;
     dr_outputs := map (fun p => {| or_sig := xe_sig (fst p); or_output := snd p;
                                    or_expected := xe_val (fst p) |})
                       (combine (er_expected row) outs);
     dr_line := er_line row |}.

Inductive item :=
| ItNone (st : istate)
| ItRow (row : data_row) (st : istate)
| ItErr (e : ierr DE) (st : istate)
| ItPanic (s : N)
| ItOOF.

Definition with_ctx_log (st : istate) (c : ctx) (log : list call) : istate :=
  {| i_ctx := c; i_iter := i_iter st; i_outidx := i_outidx st; i_nout := i_nout st; i_prev := i_prev st;
     i_cache := i_cache st; i_log := log |}.

(* Iterator::next *)
Definition inext (fuel : nat) (st : istate) : item :=
  match get_row fuel st with
  | GRNone st1 => ItNone st1
  | GRErr x st1 => ItErr (IE_Runtime (RT_Expr x)) st1
  | GRPanic s => ItPanic s
  | GROOF => ItOOF
  | GRRow row st1 =>
      if er_update_output row then
        let c := (RW, er_inputs row) in
        let log' := i_log st1 ++ [c] in
        match D (i_log st1) c with
        | DrvErr e => ItErr (IE_Driver e) (with_ctx_log st1 (i_ctx st1) log')
        | DrvOk outs =>
            let c1 := ctx_set_outputs (i_ctx st1) (outs_map outs) in
            match extract_output_values (i_nout st1) (i_outidx st1) outs c1 with
            | (c2, Ok vals) => ItRow (into_data_row row vals) (with_ctx_log st1 c2 log')
            | (c2, Err r) => ItErr (IE_Runtime r) (with_ctx_log st1 c2 log')
            | (_, Panic s) => ItPanic s
            | (_, OOF) => ItOOF
            end
        end
      else
        (* driver.write_input(inputs): overridden, or the trait's default *)
        let c := ((if w_default then RW else WO), er_inputs row) in
        let log' := i_log st1 ++ [c] in
        match D (i_log st1) c with
        | DrvErr e => ItErr (IE_Driver e) (with_ctx_log st1 (i_ctx st1) log')
        | DrvOk _ => ItRow (into_data_row row []) (with_ctx_log st1 (i_ctx st1) log')
        end
  end.

End ITER.
