(* Prelude: conventions shared by every file of the model (DESIGN.md section 3). *)
From Coq Require Export List ZArith NArith Lia Bool.
Export ListNotations.

(* A name / a source text is a list of Unicode scalar values. *)
Definition name := list N.
Definition text := list N.

Fixpoint name_eqb (a b : name) : bool :=
  match a, b with
  | [], [] => true
  | x :: a', y :: b' => N.eqb x y && name_eqb a' b'
  | _, _ => false
  end.

Lemma name_eqb_refl : forall a, name_eqb a a = true.
Proof. induction a as [|x a IH]; simpl; [reflexivity|]. rewrite N.eqb_refl, IH. reflexivity. Qed.

Lemma name_eqb_eq : forall a b, name_eqb a b = true <-> a = b.
Proof.
  induction a as [|x a IH]; destruct b as [|y b]; simpl; split; intro H; try congruence; try discriminate.
  - apply andb_true_iff in H. destruct H as [H1 H2]. apply N.eqb_eq in H1. apply IH in H2. congruence.
  - inversion H; subst. rewrite N.eqb_refl. simpl. apply IH. reflexivity.
Qed.

Lemma name_eqb_neq : forall a b, name_eqb a b = false <-> a <> b.
Proof.
  intros a b. split; intro H.
  - intro E. apply name_eqb_eq in E. congruence.
  - destruct (name_eqb a b) eqn:E; [|reflexivity]. apply name_eqb_eq in E. contradiction.
Qed.

(* Result of a modelled Rust function: a value, a returned error, a panic at
   a numbered site of the source, or exhaustion of the model's fuel. *)
Inductive R (E A : Type) : Type :=
| Ok (a : A)
| Err (e : E)
| Panic (site : N)
| OOF.
Arguments Ok {E A} a.
Arguments Err {E A} e.
Arguments Panic {E A} site.
Arguments OOF {E A}.

Definition rbind {E A B} (r : R E A) (k : A -> R E B) : R E B :=
  match r with
  | Ok a => k a
  | Err e => Err e
  | Panic s => Panic s
  | OOF => OOF
  end.

Definition rmap_err {E F A} (f : E -> F) (r : R E A) : R F A :=
  match r with
  | Ok a => Ok a
  | Err e => Err (f e)
  | Panic s => Panic s
  | OOF => OOF
  end.

(* list helpers mirroring the std functions the Rust code uses *)
Fixpoint position {A} (p : A -> bool) (l : list A) : option nat :=
  match l with
  | [] => None
  | x :: r => if p x then Some O else option_map S (position p r)
  end.

Fixpoint list_set {A} (l : list A) (i : nat) (v : A) : list A :=
  match l, i with
  | [], _ => []
  | _ :: r, O => v :: r
  | x :: r, S i' => x :: list_set r i' v
  end.

Fixpoint find_last {A} (p : A -> bool) (l : list A) : option A :=
  match l with
  | [] => None
  | x :: r => match find_last p r with
              | Some y => Some y
              | None => if p x then Some x else None
              end
  end.

Fixpoint last_opt {A} (l : list A) : option A :=
  match l with
  | [] => None
  | [x] => Some x
  | _ :: r => last_opt r
  end.

Fixpoint all_but_last {A} (l : list A) : list A :=
  match l with
  | [] => []
  | [x] => []
  | x :: r => x :: all_but_last r
  end.

Fixpoint mapi_aux {A B} (f : nat -> A -> B) (i : nat) (l : list A) : list B :=
  match l with
  | [] => []
  | x :: r => f i x :: mapi_aux f (S i) r
  end.
Definition mapi {A B} (f : nat -> A -> B) (l : list A) : list B := mapi_aux f O l.

Definition Nlen {A} (l : list A) : N := N.of_nat (length l).

Lemma position_Some_lt : forall A (p : A -> bool) l i, position p l = Some i -> (i < length l)%nat.
Proof.
  induction l as [|x r IH]; simpl; intros i H; [discriminate|].
  destruct (p x); [inversion H; lia|].
  destruct (position p r) eqn:E; simpl in H; [|discriminate]. inversion H; subst.
  specialize (IH _ eq_refl). lia.
Qed.

Lemma position_Some_nth : forall A (p : A -> bool) l i, position p l = Some i ->
  exists x, nth_error l i = Some x /\ p x = true.
Proof.
  induction l as [|x r IH]; simpl; intros i H; [discriminate|].
  destruct (p x) eqn:Px; [inversion H; subst; exists x; auto|].
  destruct (position p r) eqn:E; simpl in H; [|discriminate]. inversion H; subst.
  destruct (IH _ eq_refl) as [y [Hy Py]]. exists y. auto.
Qed.
