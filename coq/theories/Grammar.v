(* SPEC for property C12: the grammar of the test language, as inductive relations over token
   lists.  A token is viewed as the pair (kind, text); positions play no role.  [w] is the
   number of header columns.  Tokens of kind TError, the unsupported keywords (program init
   memory def call) and an `end` that closes nothing have no production.

     expr       ::= factor (binop factor)*
     factor     ::= number | ident | ident '(' expr (',' expr)* ')' | ('-'|'!'|'~') factor | '(' expr ')'
     entry      ::= number | C | X | Z | '(' expr ')' | 'bits' '(' number ',' expr ')'
     row(w)     ::= entry+                                   the entries fill exactly w columns
     stmt(w)    ::= row(w) | 'let' ident '=' expr ';' | 'resetRandom' ';' | 'declare' ident '=' expr ';'
                  | 'repeat' '(' expr ')' row(w)
                  | 'loop' '(' ident ',' expr ')' EOL block(w) 'end' 'loop'
                  | 'while' '(' expr ')' EOL block(w) 'end' 'while'
     block(w)   ::= ( EOL | stmt(w) EOL )*
     program(w) ::= ( EOL | stmt(w) EOL )* [ stmt(w) ] EOF

   GrammarProof.v proves that every text the parser accepts is a program(w), and derives from
   the grammar alone what a program(w) can never be. *)
From DTR Require Import Prelude Ast Lexer Parser.
From Coq Require Import String.

Definition tok := (tk * name)%type.

(* the value of a number token; None when it is not a number or does not fit in an i64 *)
Definition number_value (t : tok) : option Z :=
  match fst t with
  | TDecInt => from_str_radix (snd t) 10
  | THexInt => from_str_radix (skipn 2 (snd t)) 16
  | TOctInt => from_str_radix (snd t) 8
  | TBinInt => from_str_radix (skipn 2 (snd t)) 2
  | _ => None
  end.

Definition unary_ops : list tk := [TMinus; TLogicalNot; TBinaryNot].
Definition cxz_names : list name := map s2n ["C"; "c"; "X"; "x"; "Z"; "z"]%string.

(* In every rule the variables a b c d x y n stand for token texts that do not matter. *)

Inductive G_expr : list tok -> Prop :=
| E_factor : forall f, G_factor f -> G_expr f
| E_binop : forall e k x f,
    G_expr e -> is_binary_op k = true -> G_factor f -> G_expr (e ++ (k, x) :: f)

with G_factor : list tok -> Prop :=
| F_number : forall t v, number_value t = Some v -> G_factor [t]
| F_ident : forall x, G_factor [(TIdent, x)]
| F_call : forall fn a args b n,
    func_arity fn = Some (N.of_nat n) -> G_args n args ->
    G_factor ((TIdent, fn) :: (TLParen, a) :: args ++ [(TRParen, b)])
| F_unary : forall k x f, In k unary_ops -> G_factor f -> G_factor ((k, x) :: f)
| F_paren : forall a e b, G_expr e -> G_factor ((TLParen, a) :: e ++ [(TRParen, b)])

(* n comma-separated expressions, n >= 1 *)
with G_args : nat -> list tok -> Prop :=
| A_one : forall e, G_expr e -> G_args 1 e
| A_more : forall e c n args,
    G_expr e -> G_args n args -> G_args (S n) (e ++ (TComma, c) :: args).

(* a row entry and the number of columns it fills *)
Inductive G_entry : nat -> list tok -> Prop :=
| N_number : forall t v, number_value t = Some v -> G_entry 1 [t]
| N_cxz : forall x, In x cxz_names -> G_entry 1 [(TIdent, x)]
| N_expr : forall a e b, G_expr e -> G_entry 1 ((TLParen, a) :: e ++ [(TRParen, b)])
| N_bits : forall a b t v c e d,
    number_value t = Some v -> (v <= 64)%Z -> G_expr e ->
    G_entry (Z.to_nat v) ((TBits, a) :: (TLParen, b) :: t :: (TComma, c) :: e ++ [(TRParen, d)]).

(* a non-empty sequence of entries and the number of columns they fill *)
Inductive G_row : nat -> list tok -> Prop :=
| R_one : forall k e, G_entry k e -> G_row k e
| R_more : forall k e m r, G_entry k e -> G_row m r -> G_row (k + m) (e ++ r).

Inductive G_stmt (w : nat) : list tok -> Prop :=
| S_row : forall r, G_row w r -> G_stmt w r
| S_let : forall a x b e c,
    G_expr e -> G_stmt w ((TLet, a) :: (TIdent, x) :: (TEqual, b) :: e ++ [(TSemi, c)])
| S_reset : forall a b, G_stmt w [(TResetRandom, a); (TSemi, b)]
| S_declare : forall a x b e c,
    G_expr e -> G_stmt w ((TDeclare, a) :: (TIdent, x) :: (TEqual, b) :: e ++ [(TSemi, c)])
| S_repeat : forall a b e c r,
    G_expr e -> G_row w r -> G_stmt w ((TRepeat, a) :: (TLParen, b) :: e ++ (TRParen, c) :: r)
| S_loop : forall a b x c e d n body y z,
    G_expr e -> G_block w body ->
    G_stmt w ((TLoop, a) :: (TLParen, b) :: (TIdent, x) :: (TComma, c) :: e ++
              (TRParen, d) :: (TEol, n) :: body ++ [(TEnd, y); (TLoop, z)])
| S_while : forall a b e d n body y z,
    G_expr e -> G_block w body ->
    G_stmt w ((TWhile, a) :: (TLParen, b) :: e ++
              (TRParen, d) :: (TEol, n) :: body ++ [(TEnd, y); (TWhile, z)])

(* the lines between a loop/while head and its `end`: every statement ends its line *)
with G_block (w : nat) : list tok -> Prop :=
| B_nil : G_block w []
| B_eol : forall n b, G_block w b -> G_block w ((TEol, n) :: b)
| B_stmt : forall s n b, G_stmt w s -> G_block w b -> G_block w (s ++ (TEol, n) :: b).

(* the whole token list of a test body, up to and including the Eof token; only the last
   statement may lack its line break *)
Inductive G_program (w : nat) : list tok -> Prop :=
| P_eof : forall x, G_program w [(TEof, x)]
| P_last : forall s x, G_stmt w s -> G_program w (s ++ [(TEof, x)])
| P_eol : forall n p, G_program w p -> G_program w ((TEol, n) :: p)
| P_stmt : forall s n p, G_stmt w s -> G_program w p -> G_program w (s ++ (TEol, n) :: p).

(* ------------------------------------------------------------------ block structure

   A checker over token kinds only: `loop` and `while` open a block, `end` must be followed by
   the keyword of the innermost open block and closes it.  [scan stack ks] is the stack of
   open blocks after [ks] (innermost first), or None if an `end` closes nothing, the wrong
   block, or is the last token. *)
Fixpoint scan (stack : list tk) (ks : list tk) : option (list tk) :=
  match ks with
  | [] => Some stack
  | TEnd :: r =>
      match r, stack with
      | k :: r', top :: s => if tk_beq k top then scan s r' else None
      | _, _ => None
      end
  | TLoop :: r => scan (TLoop :: stack) r
  | TWhile :: r => scan (TWhile :: stack) r
  | _ :: r => scan stack r
  end.

(* every block is closed, by the right keyword, and no `end` stands at top level *)
Definition blocks_ok (ks : list tk) : bool :=
  match scan [] ks with Some [] => true | _ => false end.

(* how many blocks are still open after ks *)
Definition depth_after (ks : list tk) : nat :=
  match scan [] ks with Some s => List.length s | None => 0 end.

(* ------------------------------------------------------------------ row width

   The number of columns a row fills, read off its tokens: outside parentheses (depth 0) a
   number or C/X/Z fills one column, a parenthesised expression one, `bits(k, e)` fills k;
   tokens inside parentheses fill none. *)
Fixpoint row_columns (depth : nat) (l : list tok) : nat :=
  match l with
  | [] => 0
  | (k, _) :: r =>
      match depth, k with
      | O, TLParen => 1 + row_columns 1 r
      | O, TBits =>
          match r with
          | _ :: t :: r' =>
              match number_value t with Some v => Z.to_nat v | None => 0 end + row_columns 1 r'
          | _ => 0
          end
      | O, _ => 1 + row_columns 0 r
      | S d, TLParen => row_columns (S (S d)) r
      | S d, TRParen => row_columns d r
      | S d, _ => row_columns (S d) r
      end
  end.
