(* The sequential reading of a statement list: what a test program MEANS, written as a
   direct recursive interpreter with no iterator state.  This file is the specification;
   proofs/StmtRefine.v proves that the resumable state machine of Stmt.v, driven to the
   end by a caller that hands every yielded row to `handler`, computes exactly this.

   Statements run top to bottom.
   - let x = e        : evaluate e, assign x.
   - a data row       : evaluate its entries, hand (row, line) and the context to the
                        handler; the handler either continues (possibly with a changed
                        context) or makes the caller stop iterating.
   - loop(v, e) body  : evaluate e ONCE to m.  If 0 < m: open a frame, v := 0, then
                        repeat { body; i := value of v; if i+1 < m then v := i+1 else
                        leave }, close the frame.  Otherwise skip the loop.
                        (i+1 is the wrapping i64 addition; v without an integer value at
                        the end of a pass is panic site 20.)
   - while(e) body    : evaluate e; 0 ends the loop; otherwise body and again.  No frame.
   - resetRandom      : reset the context's random state.
   An evaluation failure ends the run with that failure.  `fuel` only bounds the
   recursion depth of the model; OutOfFuel is not a behaviour of the program. *)
From DTR Require Import Prelude I64 Ast.
Open Scope Z_scope.

Section SPEC.
Variables (C F W : Type).
Variable eval : C -> expr -> C * (Z + F).
Variable row_eval : C -> list dentry -> C * (W + F).
Variable setv : C -> name -> Z -> C.
Variable getv : C -> name -> option Z.
Variables push pop reset : C -> C.
(* the consumer of rows: its own state H; inl = go on, inr = stop iterating *)
Variable H : Type.
Variable handler : H -> W * N -> C -> (H * C) + H.

Inductive outcome :=
| Fin (c : C) (h : H)            (* ran to the end *)
| Stop (h : H)                   (* the handler stopped the iteration *)
| Fail (f : F) (c : C) (h : H)   (* an expression or row failed to evaluate *)
| Crash (site : N)               (* a panic of the Rust code *)
| OutOfFuel.

Fixpoint exec (fuel : nat) (ss : list stmt) (c : C) (h : H) {struct fuel} : outcome :=
  match fuel with O => OutOfFuel | S f =>
  match ss with
  | [] => Fin c h
  | SLet n e :: r =>
      let (c1, v) := eval c e in
      match v with inr x => Fail x c1 h | inl z => exec f r (setv c1 n z) h end
  | SRow d l :: r =>
      let (c1, v) := row_eval c d in
      match v with inr x => Fail x c1 h | inl w =>
        match handler h (w, l) c1 with
        | inl (h2, c2) => exec f r c2 h2
        | inr h2 => Stop h2
        end end
  | SLoop v e body :: r =>
      let (c1, m) := eval c e in
      match m with inr x => Fail x c1 h | inl m =>
        if 0 <? m then
          match for_loop f v m body (setv (push c1) v 0) h with
          | Fin c2 h2 => exec f r (pop c2) h2
          | o => o
          end
        else exec f r c1 h
      end
  | SWhile e body :: r =>
      match while_loop f e body c h with
      | Fin c2 h2 => exec f r c2 h2
      | o => o
      end
  | SReset :: r => exec f r (reset c) h
  end end
(* one pass of the body with the loop variable already set, then the passes after it *)
with for_loop (fuel : nat) (v : name) (m : Z) (body : list stmt) (c : C) (h : H)
              {struct fuel} : outcome :=
  match fuel with O => OutOfFuel | S f =>
  match exec f body c h with
  | Fin c2 h2 =>
      match getv c2 v with
      | None => Crash 20%N
      | Some i => if wadd i 1 <? m then for_loop f v m body (setv c2 v (wadd i 1)) h2
                  else Fin c2 h2
      end
  | o => o
  end end
with while_loop (fuel : nat) (e : expr) (body : list stmt) (c : C) (h : H)
                {struct fuel} : outcome :=
  match fuel with O => OutOfFuel | S f =>
  let (c1, v) := eval c e in
  match v with inr x => Fail x c1 h | inl z =>
    if z =? 0 then Fin c1 h else
    match exec f body c1 h with
    | Fin c2 h2 => while_loop f e body c2 h2
    | o => o
    end
  end end.

End SPEC.

Arguments Fin {C F H} c h.
Arguments Stop {C F H} h.
Arguments Fail {C F H} f c h.
Arguments Crash {C F H} site.
Arguments OutOfFuel {C F H}.
