(* Extraction of the executable model (and, later, of the specs) to OCaml for the
   correspondence check.  ExtrOcamlBasic only: bool, option, unit, list, prod, sumbool,
   sumor map to the OCaml types; Z, N, positive, nat stay the extracted inductives. *)
From DTR Require Import Prelude I64 Ast FramedMap Lexer Parser Bind Eval Stmt Iter Script Xml Dig XCheck Show.
Require Extraction.
Require Import ExtrOcamlBasic.
Extraction Language OCaml.

Extraction "../ocaml/extracted/model.ml"
  parse parse_header lex_body hlex_one with_signals try_new inext script_driver static_driver
  ctx_vars failing_outputs or_check or_is_checked signal_eqb text_bytes
  wrap64 mask_value binop_eval unop_eval
  dig_parse load_test load_test_by_name xcheck show_prog.
