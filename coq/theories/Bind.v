(* ParsedTestCase::with_signals (src/parsed_test_case.rs). *)
From DTR Require Import Prelude Ast Parser.
From Coq Require Import String.

Inductive entry_index :=
| EIEntry (entry_index signal_index : nat)
| EIDefault (signal_index : nat).

Definition ei_signal_index (e : entry_index) : nat :=
  match e with EIEntry _ s => s | EIDefault s => s end.
Definition ei_indexes (e : entry_index) (i : nat) : bool :=
  match e with EIEntry j _ => Nat.eqb j i | EIDefault _ => false end.

Record testcase := {
  tc_stmts : list stmt;
  tc_signals : list signal;
  tc_input_indices : list entry_index;
  tc_expected_indices : list entry_index;
  tc_read_outputs : list nat
}.

Inductive serr :=
| SE_DuplicateSignal (n : name)
| SE_SignalIsVirtual (n : name) (at_ : span)
| SE_UnknownSignals (names : list name) (at_ : list span)
| SE_NotAnInput (n : name) (at_ signal_span : span)
| SE_NotAnOutput (n : name) (at_ signal_span : span)
| SE_UnknownVariableOrSignal (n : name) (at_ : span).

Definition out_suffix : name := s2n "_out".

(* first signal whose name already occurred before it *)
Fixpoint first_duplicate (seen : list name) (sigs : list signal) : option name :=
  match sigs with
  | [] => None
  | s :: r => if existsb (name_eqb (sname s)) seen then Some (sname s)
              else first_duplicate (sname s :: seen) r
  end.

Definition check_duplicate_signals (p : parsed) (sigs : list signal) : R serr unit :=
  match first_duplicate [] sigs with
  | Some n => Err (SE_DuplicateSignal n)
  | None =>
      match find (fun v => existsb (fun s => name_eqb (sname s) (fst (fst v))) sigs) (p_virtuals p) with
      | Some (n, _, sp) => Err (SE_SignalIsVirtual n sp)
      | None => Ok tt
      end
  end.

Definition virtual_signal (v : name * expr * span) : signal :=
  {| sname := fst (fst v); sbits := 64; styp := TyVirtual (snd (fst v)) |}.

Definition header_pos (p : parsed) (n : name) : option nat := position (name_eqb n) (p_signals p).

Definition mk_index (pos : option nat) (signal_index : nat) : entry_index :=
  match pos with Some e => EIEntry e signal_index | None => EIDefault signal_index end.

Fixpoint build_indices_from (p : parsed) (i : nat) (sigs : list signal)
  : list entry_index * list entry_index :=
  match sigs with
  | [] => ([], [])
  | s :: r =>
      let (ins, exps) := build_indices_from p (S i) r in
      let index := header_pos p (sname s) in
      let index_out := header_pos p (sname s ++ out_suffix) in
      let ins' := match styp s with
                  | TyInput _ | TyBidir _ => mk_index index i :: ins
                  | TyOutput | TyVirtual _ => ins
                  end in
      let exps' := match styp s with
                   | TyInput _ => exps
                   | TyBidir _ => mk_index index_out i :: exps
                   | TyOutput | TyVirtual _ => mk_index index i :: exps
                   end in
      (ins', exps')
  end.

Definition build_indices (p : parsed) (sigs : list signal) := build_indices_from p O sigs.

Definition check_missing_signals (p : parsed) (ins exps : list entry_index) : R serr unit :=
  let missing :=
    flat_map (fun x => x)
      (mapi (fun entry_index nm =>
               if existsb (fun e => ei_indexes e entry_index) (ins ++ exps) then [] else [nm])
            (p_signals p)) in
  match missing with
  | [] => Ok tt
  | _ =>
      Err (SE_UnknownSignals missing
             (map (fun nm => match header_pos p nm with
                             | Some i => nth i (p_signal_spans p) (0%N, 0%N)
                             | None => (0%N, 0%N)   (* .unwrap(): the name comes from the header *)
                             end) missing))
  end.

Fixpoint check_expected_inputs (p : parsed) (sigs : list signal) (l : list (name * span)) : R serr unit :=
  match l with
  | [] => Ok tt
  | (n, at_) :: r =>
      if existsb (fun s => name_eqb (sname s) n && is_input s) sigs then check_expected_inputs p sigs r
      else match header_pos p n with
           | Some i => Err (SE_NotAnInput n at_ (nth i (p_signal_spans p) (0%N, 0%N)))
           | None => Err (SE_UnknownVariableOrSignal n at_)
           end
  end.

Fixpoint build_read_outputs (p : parsed) (sigs : list signal) (l : list (name * span)) : R serr (list nat) :=
  match l with
  | [] => Ok []
  | (n, at_) :: r =>
      match position (fun s => name_eqb (sname s) n && is_output s) sigs with
      | Some i => rbind (build_read_outputs p sigs r) (fun rest => Ok (i :: rest))
      | None =>
          match header_pos p n with
          | Some i => Err (SE_NotAnOutput n at_ (nth i (p_signal_spans p) (0%N, 0%N)))
          | None => Err (SE_UnknownVariableOrSignal n at_)
          end
      end
  end.

Definition with_signals (p : parsed) (sigs0 : list signal) : R serr testcase :=
  rbind (check_duplicate_signals p sigs0) (fun _ =>
  let sigs := sigs0 ++ map virtual_signal (p_virtuals p) in
  let (ins, exps) := build_indices p sigs in
  rbind (check_missing_signals p ins exps) (fun _ =>
  rbind (check_expected_inputs p sigs (p_expected_inputs p)) (fun _ =>
  rbind (build_read_outputs p sigs (p_read_outputs p)) (fun reads =>
  Ok {| tc_stmts := p_stmts p; tc_signals := sigs; tc_input_indices := ins;
        tc_expected_indices := exps; tc_read_outputs := reads |})))).
