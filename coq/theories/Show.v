(* Display for the syntax trees: src/expr.rs (impl Display for Expr, BinOp, UnaryOp) and
   src/stmt.rs (impl Display for DataEntry, Stmt), character for character.

     Expr       Number(n) -> decimal of the i64 n;  Variable(s) -> s;
                BinOp{op,left,right} -> "(" left " " op " " right ")";  UnaryOp{op,expr} -> op expr;
                Func{name,args} -> name "(" args joined by "," ")"
     DataEntry  Number(n) -> decimal;  Expr(e) -> "(" e ")";  Bits{number,expr} -> "bits(" number "," expr ")";
                X -> "X";  Z -> "Z";  C -> "C"
     Stmt       Let -> "let " name " = " expr ";";  ResetRandom -> "resetRandom;";
                DataRow -> every entry followed by one blank;
                Loop -> "loop(" variable "," max ")" NL, every inner statement followed by NL, "end loop";
                While -> "while(" condition ")" NL, every inner statement followed by NL, "end while"
     program    every statement followed by NL

   A text is a list of code points (blank = 32, newline = 10).  The functions are total; the
   sanity lemmas at the end say that the decimal printing of a non-negative i64 reads back as
   that number, and the examples print (and parse back) a program that uses every constructor.
   theories/proofs/ShowRoundTrip.v proves the print-then-parse round trip. *)
From DTR Require Import Prelude Ast Lexer Parser.
From Coq Require Import String.
Open Scope N_scope.

(* ================================================================== numbers *)

(* decimal digits of n, most significant first; fuel + 1 digits at most *)
Fixpoint digits (fuel : nat) (n : N) (acc : list N) : list N :=
  match fuel with
  | O => n :: acc
  | S f => if n <? 10 then n :: acc else digits f (n / 10) (n mod 10 :: acc)
  end.

(* n < 2 ^ (log2 n + 1) <= 10 ^ (log2 n + 1): log2 n + 1 digits are always enough *)
Definition show_n (n : N) : text := map (fun d => 48 + d) (digits (N.to_nat (N.log2 n)) n []).

(* i64 Display: "0", "123", "-5" *)
Definition show_z (z : Z) : text :=
  match z with
  | Z0 => [48]
  | Zpos p => show_n (Npos p)
  | Zneg p => 45 :: show_n (Npos p)
  end.

(* ================================================================== expressions *)

Definition binop_text (op : binop) : text :=
  match op with
  | Equal => s2n "=" | NotEqual => s2n "!="
  | GreaterThan => s2n ">" | LessThan => s2n "<"
  | GreaterThanOrEqual => s2n ">=" | LessThanOrEqual => s2n "<="
  | Or => s2n "|" | Xor => s2n "^" | And => s2n "&"
  | ShiftLeft => s2n "<<" | ShiftRight => s2n ">>"
  | Plus => s2n "+" | Minus => s2n "-"
  | Times => s2n "*" | Divide => s2n "/" | Reminder => s2n "%"
  end%string.

Definition unop_text (op : unop) : text :=
  match op with UMinus => s2n "-" | ULogicalNot => s2n "!" | UBinaryNot => s2n "~" end%string.

(* the pieces separated by sep (slice::join) *)
Fixpoint join_with (sep : text) (l : list text) : text :=
  match l with
  | [] => []
  | [x] => x
  | x :: r => x ++ sep ++ join_with sep r
  end.

Fixpoint show_expr (e : expr) : text :=
  match e with
  | ENum n => show_z n
  | EVar x => x
  | EBin op l r => [40] ++ show_expr l ++ [32] ++ binop_text op ++ [32] ++ show_expr r ++ [41]
  | EUn op a => unop_text op ++ show_expr a
  | EFunc f args => f ++ [40] ++ join_with [44] (map show_expr args) ++ [41]
  end.

(* ================================================================== entries, statements, programs *)

Definition show_dentry (d : dentry) : text :=
  match d with
  | DNum n => show_z n
  | DExpr e => [40] ++ show_expr e ++ [41]
  | DBits k e => s2n "bits(" ++ show_n k ++ [44] ++ show_expr e ++ [41]
  | DX => s2n "X"
  | DZ => s2n "Z"
  | DC => s2n "C"
  end.

(* every entry followed by one blank *)
Definition show_row (data : list dentry) : text := flat_map (fun d => show_dentry d ++ [32]) data.

Fixpoint show_stmt (s : stmt) : text :=
  match s with
  | SLet x e => s2n "let " ++ x ++ s2n " = " ++ show_expr e ++ [59]
  | SRow data _ => show_row data
  | SLoop v max body =>
      s2n "loop(" ++ v ++ [44] ++ show_expr max ++ [41; 10] ++
      List.concat (map (fun s => show_stmt s ++ [10]) body) ++ s2n "end loop"
  | SWhile c body =>
      s2n "while(" ++ show_expr c ++ [41; 10] ++
      List.concat (map (fun s => show_stmt s ++ [10]) body) ++ s2n "end while"
  | SReset => s2n "resetRandom;"
  end.

(* every statement followed by a newline *)
Definition show_lines (ss : list stmt) : text := List.concat (map (fun s => show_stmt s ++ [10]) ss).
Definition show_prog (ss : list stmt) : text := show_lines ss.

Lemma show_stmt_loop : forall v max body,
  show_stmt (SLoop v max body) =
  s2n "loop(" ++ v ++ [44] ++ show_expr max ++ [41; 10] ++ show_lines body ++ s2n "end loop".
Proof. reflexivity. Qed.

Lemma show_stmt_while : forall c body,
  show_stmt (SWhile c body) =
  s2n "while(" ++ show_expr c ++ [41; 10] ++ show_lines body ++ s2n "end while".
Proof. reflexivity. Qed.

Lemma show_lines_cons : forall s ss, show_lines (s :: ss) = show_stmt s ++ [10] ++ show_lines ss.
Proof. intros s ss. unfold show_lines. cbn [map List.concat]. rewrite <- app_assoc. reflexivity. Qed.

Lemma show_row_cons : forall d r, show_row (d :: r) = show_dentry d ++ [32] ++ show_row r.
Proof. intros d r. unfold show_row. cbn [flat_map]. rewrite <- app_assoc. reflexivity. Qed.

(* ================================================================== sanity: numbers read back *)

Definition dec_value (ds : list N) (a : N) : N := fold_left (fun a d => a * 10 + d) ds a.

Lemma digits_dec_value : forall fuel n acc, dec_value (digits fuel n acc) 0 = dec_value acc n.
Proof.
  induction fuel as [|f IH]; intros n acc; cbn [digits].
  - reflexivity.
  - destruct (n <? 10); [reflexivity|]. rewrite IH. unfold dec_value. cbn [fold_left]. f_equal.
    rewrite N.mul_comm. symmetry. apply N.div_mod. discriminate.
Qed.

Lemma digits_small : forall fuel n acc,
  n < 10 ^ N.of_nat (S fuel) -> Forall (fun d => d < 10) acc ->
  Forall (fun d => d < 10) (digits fuel n acc).
Proof.
  induction fuel as [|f IH]; intros n acc Hn Hacc; cbn [digits].
  - constructor; [exact Hn | exact Hacc].
  - destruct (N.ltb_spec n 10) as [Hlt|Hge]; [constructor; assumption|].
    apply IH.
    + apply N.div_lt_upper_bound; [discriminate|].
      rewrite Nat2N.inj_succ, N.pow_succ_r' in Hn. exact Hn.
    + constructor; [apply N.mod_lt; discriminate | exact Hacc].
Qed.

Lemma digits_nonempty : forall fuel n acc, digits fuel n acc <> [].
Proof.
  induction fuel as [|f IH]; intros n acc; cbn [digits]; [discriminate|].
  destruct (n <? 10); [discriminate | apply IH].
Qed.

(* the fuel of show_n is enough *)
Lemma log2_fuel : forall n, n < 10 ^ N.of_nat (S (N.to_nat (N.log2 n))).
Proof.
  intros n. rewrite Nat2N.inj_succ, N2Nat.id.
  destruct (N.eq_dec n 0) as [->|Hn]; [reflexivity|].
  assert (H : n < 2 ^ N.succ (N.log2 n)) by (apply N.log2_spec; lia).
  eapply N.lt_le_trans; [exact H|]. apply N.pow_le_mono_l. timeout 20 lia.
Qed.

Lemma show_n_digits_small : forall n, Forall (fun d => d < 10) (digits (N.to_nat (N.log2 n)) n []).
Proof. intros n. apply digits_small; [apply log2_fuel | constructor]. Qed.

Lemma digit_value_dec : forall d, d < 10 -> digit_value (48 + d) = Some d.
Proof.
  intros d Hd. unfold digit_value, in_range.
  replace (48 <=? 48 + d) with true by (symmetry; apply N.leb_le; lia).
  replace (48 + d <=? 57) with true by (symmetry; apply N.leb_le; lia).
  cbn [andb]. f_equal. timeout 20 lia.
Qed.

Lemma digits_value_dec : forall ds a, Forall (fun d => d < 10) ds ->
  digits_value 10 a (map (fun d => 48 + d) ds) = Some (dec_value ds a).
Proof.
  induction ds as [|d ds IH]; intros a H; [reflexivity|].
  inversion H as [|d' ds' Hd Hds]; subst. cbn [map digits_value].
  rewrite digit_value_dec by exact Hd.
  replace (d <? 10) with true by (symmetry; apply N.ltb_lt; exact Hd).
  rewrite IH by exact Hds. reflexivity.
Qed.

Lemma show_n_value : forall n, digits_value 10 0 (show_n n) = Some n.
Proof.
  intros n. unfold show_n. rewrite digits_value_dec by apply show_n_digits_small.
  rewrite digits_dec_value. reflexivity.
Qed.

Lemma show_n_nonempty : forall n, show_n n <> [].
Proof.
  intros n. unfold show_n. intro H. apply map_eq_nil in H. exact (digits_nonempty _ _ _ H).
Qed.

Lemma show_z_nonneg : forall n, (0 <= n)%Z -> show_z n = show_n (Z.to_N n).
Proof. intros [|p|p] H; [reflexivity | reflexivity | timeout 20 lia]. Qed.

(* the printing of a non-negative i64 reads back (i64::from_str_radix) as that number *)
Theorem show_z_reads_back : forall n, (0 <= n < 2 ^ 63)%Z -> from_str_radix (show_z n) 10 = Some n.
Proof.
  intros n [H0 H1]. rewrite show_z_nonneg by exact H0. unfold from_str_radix.
  pose proof (show_n_nonempty (Z.to_N n)) as Hne. pose proof (show_n_value (Z.to_N n)) as Hv.
  destruct (show_n (Z.to_N n)) as [|c r]; [timeout 20 congruence|]. rewrite Hv.
  replace (Z.to_N n <? 9223372036854775808) with true.
  - rewrite Z2N.id by exact H0. reflexivity.
  - symmetry. apply N.ltb_lt. change 9223372036854775808 with (Z.to_N (2 ^ 63)).
    apply Z2N.inj_lt; timeout 20 lia.
Qed.

(* a negative number is "-" followed by the printing of its magnitude *)
Lemma show_z_neg : forall n, (n < 0)%Z -> show_z n = 45 :: show_z (- n).
Proof. intros [|p|p] H; [timeout 20 lia | timeout 20 lia | reflexivity]. Qed.

(* ================================================================== examples *)

Example ex_show_z :
  show_z 0 = s2n "0" /\ show_z 7 = s2n "7" /\ show_z 1234567890 = s2n "1234567890" /\
  show_z (-5) = s2n "-5" /\ show_z 9223372036854775807 = s2n "9223372036854775807" /\
  show_z (-9223372036854775808) = s2n "-9223372036854775808".
Proof. vm_compute. repeat split. Qed.

Definition ex_x : name := s2n "x".
Definition ex_i : name := s2n "i".

(* uses every constructor of expr, dentry and stmt, every operator and every function *)
Definition ex_prog : list stmt :=
  [ SLet ex_x (EBin Plus (ENum 1) (EUn UMinus (ENum 2)));
    SReset;
    SRow [DNum 5; DExpr (EFunc (s2n "ite") [EVar ex_x; ENum 1; ENum 0]); DBits 2 (EVar ex_x); DX; DZ; DC] 3;
    SLoop ex_i (ENum 3)
      [ SRow [DNum 0; DExpr (EBin ShiftLeft (EVar ex_i) (ENum 1)); DBits 2 (EUn UBinaryNot (EVar ex_i)); DC; DX; DZ] 5;
        SWhile (EBin LessThan (EVar ex_x) (EFunc (s2n "random") [ENum 8]))
          [ SLet ex_x (EBin Minus (EVar ex_x) (EUn ULogicalNot (EUn UMinus (EVar ex_i)))) ] ];
    SLet (s2n "y")
      (EBin Equal (EBin NotEqual (EBin GreaterThan (ENum 1) (ENum 2)) (EBin GreaterThanOrEqual (ENum 3) (ENum 4)))
         (EBin LessThanOrEqual (EBin Or (ENum 5) (EBin Xor (ENum 6) (EBin And (ENum 7) (ENum 8))))
            (EBin ShiftRight (EBin Times (ENum 9) (EBin Divide (ENum 10) (EBin Reminder (ENum 11) (ENum 12))))
               (EFunc (s2n "signExt") [ENum 4; EVar ex_x])))) ]%string.

Definition newline : text := [10].

Example ex_show_prog :
  show_prog ex_prog =
  (s2n "let x = (1 + -2);" ++ newline ++
   s2n "resetRandom;" ++ newline ++
   s2n "5 (ite(x,1,0)) bits(2,x) X Z C " ++ newline ++
   s2n "loop(i,3)" ++ newline ++
   s2n "0 ((i << 1)) bits(2,~i) C X Z " ++ newline ++
   s2n "while((x < random(8)))" ++ newline ++
   s2n "let x = (x - !-i);" ++ newline ++
   s2n "end while" ++ newline ++
   s2n "end loop" ++ newline ++
   s2n "let y = (((1 > 2) != (3 >= 4)) = ((5 | (6 ^ (7 & 8))) <= ((9 * (10 / (11 % 12))) >> signExt(4,x))));" ++ newline).
Proof. vm_compute. reflexivity. Qed.

(* statements up to the recorded line numbers *)
Fixpoint strip_line (s : stmt) : stmt :=
  match s with
  | SRow data _ => SRow data 0
  | SLoop v max body => SLoop v max (map strip_line body)
  | SWhile c body => SWhile c (map strip_line body)
  | SLet _ _ | SReset => s
  end.
Definition strip_lines (ss : list stmt) : list stmt := map strip_line ss.

(* printed behind a header of seven names, the example parses back to itself *)
Example ex_round_trip :
  match parse (s2n "A B C D E F G" ++ newline ++ show_prog ex_prog) with
  | Ok p => strip_lines (p_stmts p) = strip_lines ex_prog
  | _ => False
  end.
Proof. vm_compute. reflexivity. Qed.

(* a negative literal prints as the unary minus of its magnitude and parses back as that *)
Example ex_negative_literal :
  show_expr (ENum (-5)) = show_expr (EUn UMinus (ENum 5)) /\
  match parse (s2n "A" ++ newline ++ show_prog [SLet ex_x (ENum (-5))]) with
  | Ok p => p_stmts p = [SLet ex_x (EUn UMinus (ENum 5))]
  | _ => False
  end.
Proof. vm_compute. split; reflexivity. Qed.

Check show_z_reads_back.
Check show_z_neg.
Check ex_show_z.
Check ex_show_prog.
Check ex_round_trip.
Check ex_negative_literal.
Print Assumptions show_z_reads_back.
Print Assumptions show_z_neg.
Print Assumptions ex_show_prog.
Print Assumptions ex_round_trip.
Print Assumptions ex_negative_literal.
