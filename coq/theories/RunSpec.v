(* SPEC of a whole run (theorem T): what the first n calls of next() on a fresh iterator yield,
   written as the SEQUENTIAL READING of the program (StmtSpec.exec) with one row handler - no
   resumable state machine, no cache, no re-expansion.

   The handler is what happens at a data row: the row stands for the rows of ExpandSpec.expand_spec
   (all X assignments, clock triples), in that order; each of them costs the caller one next():
     - build the input vector and the expected entries from the row (Iter.generate_*_entries; C06 says
       these are the by-name vectors), flag changes against the previous row;
     - a checked row: one RW call; a driver error ends the run with that error; otherwise the answer
       becomes the outputs seen by later expressions, the output values are extracted (attribution,
       virtual signals: Iter.extract_output_values), an unusable answer ends the run with that error,
       otherwise the row is yielded;
     - a mid-clock row: one write-only call (W, or RW through the trait's default), outputs empty.
   The caller's budget is the number of next() calls it makes: when it is used up the run stops right
   there - nothing after the last requested row is evaluated (laziness). *)
From DTR Require Import Prelude I64 Ast FramedMap Parser Bind Eval Stmt StmtSpec Iter ExpandSpec.
Local Open Scope nat_scope.

Section RUNSPEC.
Variable G : gen.
Variable DE : Type.
Variable D : driver DE.
Variable w_default : bool.
Variable tc : testcase.

Inductive seen := SRow (row : data_row) | SErr (e : ierr DE) | SNone.

Record rstate := {
  r_seen : list seen;                 (* what the caller has been handed, oldest first *)
  r_log : list call;                  (* every driver call so far, oldest first *)
  r_prev : option (list dentry);      (* entries of the previous expanded row *)
  r_outidx : list out_index;          (* learnt from the constructor's answer *)
  r_nout : nat;
  r_budget : nat                      (* next() calls the caller will still make *)
}.

Definition pure_expected_col (i : nat) : bool :=
  existsb (fun e => ei_indexes e i) (tc_expected_indices tc) && negb (entry_is_input tc i).

Definition upd (h : rstate) (item : seen) (log : list call) (prev : option (list dentry)) : rstate :=
  {| r_seen := r_seen h ++ [item]; r_log := log; r_prev := prev; r_outidx := r_outidx h;
     r_nout := r_nout h; r_budget := pred (r_budget h) |}.

(* one expanded row = one next() of the caller.  inl = go on, inr = the run is over
   (an error item, or the caller's budget is used up). None = the model panicked (excluded by C10). *)
Definition io_row (h : rstate) (c : ctx) (entries : list dentry) (line : N) (checked : bool)
  : option ((rstate * ctx) + rstate) :=
  let changed := check_changed_entries (r_prev h) entries in
  match generate_input_entries tc entries changed, generate_expected_entries tc entries with
  | Ok inputs, Ok expected =>
      let er := {| er_line := line; er_inputs := inputs; er_expected := expected; er_update_output := checked |} in
      let finish (h' : rstate) (c' : ctx) := if Nat.eqb (r_budget h') 0 then inr h' else inl (h', c') in
      if checked then
        let call := (RW, inputs) in
        let log' := r_log h ++ [call] in
        match D (r_log h) call with
        | DrvErr e => Some (inr (upd h (SErr (IE_Driver e)) log' (Some entries)))
        | DrvOk outs =>
            match extract_output_values G tc (r_nout h) (r_outidx h) outs (ctx_set_outputs c (outs_map outs)) with
            | (c2, Ok vals) => Some (finish (upd h (SRow (into_data_row er vals)) log' (Some entries)) c2)
            | (_, Err r) => Some (inr (upd h (SErr (IE_Runtime r)) log' (Some entries)))
            | _ => None
            end
        end
      else
        let call := ((if w_default then RW else WO), inputs) in
        let log' := r_log h ++ [call] in
        match D (r_log h) call with
        | DrvErr e => Some (inr (upd h (SErr (IE_Driver e)) log' (Some entries)))
        | DrvOk _ => Some (finish (upd h (SRow (into_data_row er [])) log' (Some entries)) c)
        end
  | _, _ => None
  end.

(* the rows a source row stands for, processed in order until the run is over *)
Fixpoint io_rows (h : rstate) (c : ctx) (rows : list (list dentry * bool)) (line : N)
  : option ((rstate * ctx) + rstate) :=
  match rows with
  | [] => Some (inl (h, c))
  | (entries, checked) :: rest =>
      match io_row h c entries line checked with
      | Some (inl (h', c')) => io_rows h' c' rest line
      | other => other
      end
  end.

(* the row handler of the sequential reading.  A caller with no budget left does not even start. *)
Definition crashed (h : rstate) : rstate :=
  {| r_seen := r_seen h; r_log := r_log h; r_prev := r_prev h; r_outidx := r_outidx h; r_nout := r_nout h; r_budget := 0 |}.

Definition run_handler (h : rstate) (row : list dentry * N) (c : ctx) : (rstate * ctx) + rstate :=
  match io_rows h c (expand_spec (entry_is_input tc) pure_expected_col (fst row)) (snd row) with
  | Some r => r
  | None => inr (crashed h)
  end.

(* the whole run: n = number of next() calls (n >= 1), starting from the state the constructor built *)
Definition run_spec (fuel n : nat) (st0 : istate) :=
  exec ctx xfail (list dentry) (lift_eval G) (lift_row_eval G) ctx_set loop_var_value
       ctx_push_frame ctx_pop_frame ctx_reset_random_seed rstate run_handler
       fuel (tc_stmts tc) (i_ctx st0)
       {| r_seen := []; r_log := i_log st0; r_prev := None; r_outidx := i_outidx st0; r_nout := i_nout st0; r_budget := n |}.

(* what the caller has seen when the sequential reading stops *)
Definition seen_of (o : outcome ctx xfail rstate) : option (list seen * list call) :=
  match o with
  | Fin _ h => Some (r_seen h ++ [SNone], r_log h)                (* the program ended and the caller asked once more *)
  | Stop h => Some (r_seen h, r_log h)
  | Fail (XFErr x) _ h => Some (r_seen h ++ [SErr (IE_Runtime (RT_Expr x))], r_log h)
  | _ => None
  end.

End RUNSPEC.
