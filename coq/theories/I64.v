(* 64-bit two's complement integers as Z, and the Rust integer operations the
   crate uses (after the wrapping-arithmetic fix: wrapping_add, wrapping_sub,
   wrapping_mul, wrapping_div, wrapping_rem, wrapping_shl, wrapping_shr,
   wrapping_neg, and the bit operators, which cannot overflow). *)
From DTR Require Import Prelude.
Open Scope Z_scope.

Definition two63 : Z := 9223372036854775808.
Definition two64 : Z := 18446744073709551616.

Definition i64 (z : Z) : Prop := - two63 <= z < two63.
Definition i64b (z : Z) : bool := (- two63 <=? z) && (z <? two63).

(* reinterpret any integer as the i64 with the same low 64 bits *)
Definition wrap64 (z : Z) : Z := (z + two63) mod two64 - two63.

Definition wadd (a b : Z) : Z := wrap64 (a + b).
Definition wsub (a b : Z) : Z := wrap64 (a - b).
Definition wmul (a b : Z) : Z := wrap64 (a * b).
Definition wneg (a : Z) : Z := wrap64 (- a).
(* callers exclude b = 0 *)
Definition wdiv (a b : Z) : Z := wrap64 (Z.quot a b).
Definition wrem (a b : Z) : Z := wrap64 (Z.rem a b).
(* wrapping_shl(rhs as u32): the low six bits of the count *)
Definition shamt (b : Z) : Z := b mod 64.
Definition wshl (a b : Z) : Z := wrap64 (a * 2 ^ shamt b).
Definition wshr (a b : Z) : Z := Z.shiftr a (shamt b).

Definition b2z (b : bool) : Z := if b then 1 else 0.

(* data_row_iterator.rs: fn bit_mask(bits: usize) -> i64 *)
Definition bit_mask (bits : N) : Z :=
  if (bits <? 64)%N then 2 ^ Z.of_N bits - 1 else -1.
Definition mask_value (bits : N) (n : Z) : Z := Z.land n (bit_mask bits).
