(* Well-formedness predicates: what the parser guarantees about a parsed test (wf_parsed),
   what "the test and the signal list fit together" means (fits, property C11), and what the
   running code relies on (wf_tc, property C10).  Definitions only. *)
From DTR Require Import Prelude I64 Ast FramedMap Parser Bind Eval Stmt Iter.
Local Open Scope nat_scope.

(* ------------------------------------------------------------------ syntax walkers *)

(* number of columns an entry occupies: bits(k, e) stands for k one-bit entries *)
Definition entry_width (d : dentry) : nat :=
  match d with DBits k _ => N.to_nat k | _ => 1 end.

Fixpoint row_width (data : list dentry) : nat :=
  match data with [] => 0 | d :: r => entry_width d + row_width r end.

(* the columns of a row that hold C, counting from column i *)
Fixpoint c_columns_from (i : nat) (data : list dentry) : list nat :=
  match data with
  | [] => []
  | DC :: r => i :: c_columns_from (S i) r
  | d :: r => c_columns_from (i + entry_width d) r
  end.
Definition c_columns (data : list dentry) : list nat := c_columns_from 0 data.

(* every data row of a program, at any depth *)
Fixpoint stmt_rows (s : stmt) : list (list dentry) :=
  match s with
  | SRow d _ => [d]
  | SLoop _ _ body | SWhile _ body =>
      (fix go (l : list stmt) : list (list dentry) :=
         match l with [] => [] | x :: r => stmt_rows x ++ go r end) body
  | SLet _ _ | SReset => []
  end.
Definition rows_of (ss : list stmt) : list (list dentry) := flat_map stmt_rows ss.

Definition entry_exprs (d : dentry) : list expr :=
  match d with DExpr e | DBits _ e => [e] | _ => [] end.

(* every expression of a program, at any depth *)
Fixpoint stmt_exprs (s : stmt) : list expr :=
  match s with
  | SLet _ e => [e]
  | SRow d _ => flat_map entry_exprs d
  | SLoop _ e body | SWhile e body =>
      e :: (fix go (l : list stmt) : list expr :=
              match l with [] => [] | x :: r => stmt_exprs x ++ go r end) body
  | SReset => []
  end.
Definition exprs_of (ss : list stmt) : list expr := flat_map stmt_exprs ss.

(* ------------------------------------------------------------------ parsed tests *)

(* what `parse` guarantees about its result (a parser theorem) *)
Definition wf_parsed (p : parsed) : Prop :=
  NoDup (p_signals p) /\
  (forall data, In data (rows_of (p_stmts p)) ->
     row_width data = length (p_signals p) /\
     (forall j, In j (c_columns data) ->
        exists nm, nth_error (p_signals p) j = Some nm /\ In nm (map fst (p_expected_inputs p)))) /\
  Forall wf_expr (exprs_of (p_stmts p)) /\
  Forall (fun v => wf_expr (snd (fst v))) (p_virtuals p) /\
  NoDup (map (fun v => fst (fst v)) (p_virtuals p)).

(* ------------------------------------------------------------------ C11: "fits together" *)

Section FITS.
Variable p : parsed.
Variable sigs0 : list signal.          (* the caller's signal list *)

Definition all_sigs : list signal := sigs0 ++ map virtual_signal (p_virtuals p).

Fixpoint names_distinct (l : list name) : bool :=
  match l with [] => true | n :: r => negb (existsb (name_eqb n) r) && names_distinct r end.

(* a header column names a signal: by its name, or as `<name>_out` for a bidirectional one *)
Definition column_fits (c : name) : bool :=
  existsb (fun s => name_eqb (sname s) c
                    || (match styp s with TyBidir _ => name_eqb (sname s ++ out_suffix) c | _ => false end))
          all_sigs.

Definition fits : bool :=
  (* signal names distinct, also from the names of declared virtual signals *)
  names_distinct (map sname sigs0)
  && forallb (fun v => negb (existsb (fun s => name_eqb (sname s) (fst (fst v))) sigs0)) (p_virtuals p)
  (* every header column names a signal *)
  && forallb column_fits (p_signals p)
  (* every column that holds C in some row is an input-capable signal *)
  && forallb (fun ne => existsb (fun s => name_eqb (sname s) (fst ne) && is_input s) all_sigs) (p_expected_inputs p)
  (* every identifier read where no variable of that name is in scope is an output-capable signal *)
  && forallb (fun ne => existsb (fun s => name_eqb (sname s) (fst ne) && is_output s) all_sigs) (p_read_outputs p).

End FITS.

(* ------------------------------------------------------------------ C10: what running relies on *)

Section WFTC.
Variable tc : testcase.
Variable width : nat.     (* number of header columns *)

Definition index_ok (need_input : bool) (idx : entry_index) : Prop :=
  (match idx with EIEntry e _ => e < width | EIDefault _ => True end) /\
  exists s, nth_error (tc_signals tc) (ei_signal_index idx) = Some s /\
            (need_input = true -> default_value s <> None).

Definition wf_tc : Prop :=
  Forall (index_ok true) (tc_input_indices tc) /\
  Forall (index_ok false) (tc_expected_indices tc) /\
  Forall (fun r => r < length (tc_signals tc)) (tc_read_outputs tc) /\
  (forall data, In data (rows_of (tc_stmts tc)) ->
     row_width data = width /\
     (forall j, In j (c_columns data) -> entry_is_input tc j = true)) /\
  Forall wf_expr (exprs_of (tc_stmts tc)) /\
  Forall (fun s => match styp s with TyVirtual e => wf_expr e | _ => True end) (tc_signals tc).

End WFTC.
