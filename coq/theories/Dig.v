(* dig::File::parse from the XML tree on (src/dig.rs), and File::load_test /
   File::load_test_by_name (src/lib.rs).  Each function mirrors the Rust function of the
   same name statement by statement.  The step XML text -> tree (roxmltree) is not modelled.
   Panic sites: 60 `.expect("We already checked that all test signals appear in the circuit")`,
   61 `unreachable!("By definition we know that there will be an input signal called ..")`,
   62 the slice index `self.test_cases[n]` in load_test.
   HashSet<String> is modelled by a duplicate-free list in insertion order; the model's Ok
   results do not depend on that order (DigProof.make_bidirectional_perm), the list of
   DE_MissingSignals is to be read as a set. *)
From DTR Require Import Prelude Ast Lexer Parser Bind Xml.
From Coq Require Import String.

(* ------------------------------------------------------------------ small std helpers *)

Fixpoint filter_map {A B} (f : A -> option B) (l : list A) : list B :=
  match l with
  | [] => []
  | x :: r => match f x with Some y => y :: filter_map f r | None => filter_map f r end
  end.

(* slice::contains / HashSet::contains on names *)
Definition mem (x : name) (l : list name) : bool := existsb (name_eqb x) l.
(* HashSet::insert *)
Definition set_insert (x : name) (l : list name) : list name := if mem x l then l else l ++ [x].

(* str::strip_suffix *)
Definition strip_suffix (nm suffix : name) : option name :=
  let k := (List.length nm - List.length suffix)%nat in
  if (List.length suffix <=? List.length nm)%nat && name_eqb (skipn k nm) suffix then Some (firstn k nm) else None.

(* ------------------------------------------------------------------ str::parse::<usize>(), str::parse::<i64>() *)

(* core::num::from_str_radix with radix 10: an optional sign (`+` always, `-` for signed types
   only), then at least one ASCII digit and nothing else; the value must fit the type.
   usize is taken to be 64 bits wide. *)
Fixpoint digits_acc (acc : N) (s : text) : option N :=
  match s with
  | [] => Some acc
  | c :: r => if is_dec_digit c then digits_acc (acc * 10 + (c - 48)) r else None
  end.

Definition parse_digits (s : text) : option N :=
  match s with [] => None | _ => digits_acc 0 s end.

Definition two64 : N := 18446744073709551616.
Definition two63 : N := 9223372036854775808.

Definition parse_usize (s : text) : option N :=
  let digits := match s with
                | c :: r => if (c =? 43)%N then r else s
                | [] => s
                end in
  match parse_digits digits with
  | Some n => if (n <? two64)%N then Some n else None
  | None => None
  end.

Definition parse_i64 (s : text) : option Z :=
  match s with
  | [] => None
  | c :: r =>
      if (c =? 45)%N then
        match parse_digits r with
        | Some n => if (n <=? two63)%N then Some (- Z.of_N n)%Z else None
        | None => None
        end
      else
        match parse_digits (if (c =? 43)%N then r else s) with
        | Some n => if (n <? two63)%N then Some (Z.of_N n) else None
        | None => None
        end
  end.

(* ------------------------------------------------------------------ dig.rs helpers *)

Definition has_tag (t : name) (n : xnode) : bool := name_eqb (tag_name n) t.

Definition opt_text_is (o : option text) (t : text) : bool :=
  match o with Some t' => name_eqb t' t | None => false end.

(* fn visual_elements(doc, names) *)
Definition is_visual_element (names : list name) (visual_element_node : xnode) : bool :=
  if negb (has_tag (s2n "visualElement") visual_element_node) then false
  else
    match find (has_tag (s2n "elementName")) (descendants visual_element_node) with
    | None => false
    | Some name_node =>
        match node_text name_node with
        | Some nm => existsb (name_eqb nm) names
        | None => false
        end
    end.

Definition visual_elements (doc : xdoc) (names : list name) : list xnode :=
  filter (is_visual_element names) (doc_descendants doc).

(* the `for entry in ...` loop of fn attrib *)
Fixpoint attrib_loop (label : name) (entries : list xnode) : option xnode :=
  match entries with
  | [] => None
  | entry :: rest =>
      match first_element_child entry with
      | None => attrib_loop label rest                                   (* continue *)
      | Some s =>
          if has_tag (s2n "string") s && opt_text_is (node_text s) label
          then last_element_child entry                                  (* return *)
          else attrib_loop label rest
      end
  end.

(* fn attrib(node, label) *)
Definition attrib (node : xnode) (label : name) : option xnode :=
  match find (has_tag (s2n "elementAttributes")) (descendants node) with
  | None => None
  | Some attribs => attrib_loop label (filter (has_tag (s2n "entry")) (descendants attribs))
  end.

(* fn extract_signal_data(node) -> Option<(&str, usize)> *)
Definition extract_signal_data (node : xnode) : option (name * N) :=
  match attrib node (s2n "Label") with
  | None => None
  | Some label_node =>
      match node_text label_node with
      | None => None
      | Some label =>
          let bits :=
            match attrib node (s2n "Bits") with
            | Some bits_node =>
                match node_text bits_node with
                | Some t => match parse_usize t with Some n => n | None => 1%N end
                | None => 1%N
                end
            | None => 1%N
            end in
          Some (label, bits)
      end
  end.

(* fn extract_input_data(node) -> InputValue *)
Definition extract_input_data (node : xnode) : inval :=
  match attrib node (s2n "InDefault") with
  | Some default_node =>
      if opt_text_is (attribute default_node (s2n "z")) (s2n "true") then IZ
      else
        match attribute default_node (s2n "v") with
        | Some v => match parse_i64 v with Some n => IVal n | None => IVal 0 end
        | None => IVal 0
        end
  | None => IVal 0
  end.

(* ------------------------------------------------------------------ File::parse, first part: the three passes *)

Definition output_signal_of (node : xnode) : option signal :=
  match extract_signal_data node with
  | Some (nm, bits) => Some {| sname := nm; sbits := bits; styp := TyOutput |}
  | None => None
  end.

Definition input_signal_of (node : xnode) : option signal :=
  match extract_signal_data node with
  | Some (nm, bits) =>
      let default := extract_input_data node in
      Some {| sname := nm; sbits := bits; styp := TyInput default |}
  | None => None
  end.

Definition output_signals (doc : xdoc) : list signal :=
  filter_map output_signal_of (visual_elements doc [s2n "Out"]).

Definition input_signals (doc : xdoc) : list signal :=
  filter_map input_signal_of (visual_elements doc [s2n "In"; s2n "Clock"]).

(* Vec::from_iter(inputs_signals.chain(output_signals)): the pins of the circuit *)
Definition raw_signals (doc : xdoc) : list signal := input_signals doc ++ output_signals doc.

(* the closure building a TestCaseDescription (name, source) *)
Definition test_case_of (node : xnode) : option (name * text) :=
  let nm :=
    match attrib node (s2n "Label") with
    | Some label_node => match node_text label_node with Some t => t | None => [] end
    | None => s2n "(unnamed)"
    end in
  match attrib node (s2n "Testdata") with
  | None => None
  | Some test_data_node =>
      if negb (has_tag (s2n "testData") test_data_node) then None
      else
        match first_element_child test_data_node with
        | None => None
        | Some data_string_node =>
            if negb (has_tag (s2n "dataString") data_string_node) then None
            else
              let source := match node_text data_string_node with Some t => t | None => [] end in
              Some (nm, source)
        end
  end.

Definition test_cases (doc : xdoc) : list (name * text) :=
  filter_map test_case_of (visual_elements doc [s2n "Testcase"]).

(* ------------------------------------------------------------------ File::parse, second part *)

Record dig_file := { df_signals : list signal; df_tests : list (name * text) }.

Inductive dig_err :=
| DE_EmptyTest
| DE_MissingSignals (names : list name).   (* a set; Rust joins it with ", " in HashSet order *)

(* state of the header loop: (test_signal_names, bidirectional) *)
Definition hstate := (list name * list name)%type.

(* is there a signal of that name which is an input:
   signals.iter().any(|sig| sig.name == stripped_name && sig.is_input()) *)
Definition input_named (signals : list signal) (x : name) : bool :=
  existsb (fun sig => name_eqb (sname sig) x && is_input sig) signals.

(* the body of the inner `for name in ...` loop: the match on name.strip_suffix("_out") *)
Definition classify (signals : list signal) (signal_names : list name) (st : hstate) (nm : name) : hstate :=
  let (test_signal_names, bidirectional) := st in
  match strip_suffix nm out_suffix with
  | Some stripped_name =>
      if negb (mem nm signal_names) && input_named signals stripped_name
      then (test_signal_names, set_insert stripped_name bidirectional)
      else (set_insert nm test_signal_names, bidirectional)
  | None => (set_insert nm test_signal_names, bidirectional)
  end.

(* `for test_case in &test_cases { for name in HeaderParser::new(..).parse()..? { .. } }` *)
Fixpoint header_loop (signals : list signal) (signal_names : list name)
  (tests : list (name * text)) (st : hstate) : R dig_err hstate :=
  match tests with
  | [] => Ok st
  | test_case :: rest =>
      match parse_header (snd test_case) with
      | Ok h => header_loop signals signal_names rest
                  (fold_left (classify signals signal_names) (h_names h) st)
      | Err _ => Err DE_EmptyTest
      | Panic s => Panic s
      | OOF => OOF
      end
  end.

(* the body of `for name in bidirectional`: find the first signal of that name, turn it
   from Input into Bidirectional *)
Fixpoint set_bidirectional (signals : list signal) (nm : name) : R dig_err (list signal) :=
  match signals with
  | [] => Panic 60
  | sig :: rest =>
      if name_eqb (sname sig) nm then
        match styp sig with
        | TyInput default =>
            Ok ({| sname := sname sig; sbits := sbits sig; styp := TyBidir default |} :: rest)
        | _ => Panic 61
        end
      else rbind (set_bidirectional rest nm) (fun rest' => Ok (sig :: rest'))
  end.

Fixpoint make_bidirectional (names : list name) (signals : list signal) : R dig_err (list signal) :=
  match names with
  | [] => Ok signals
  | nm :: rest => rbind (set_bidirectional signals nm) (make_bidirectional rest)
  end.

(* File::parse, from the tree on *)
Definition dig_parse (doc : xdoc) : R dig_err dig_file :=
  let signals := raw_signals doc in
  let tests := test_cases doc in
  let signal_names := map sname signals in
  rbind (header_loop signals signal_names tests ([], [])) (fun st =>
  let (test_signal_names, bidirectional) := st in
  (* !test_signal_names.is_subset(&signal_names) *)
  if negb (forallb (fun n => mem n signal_names) test_signal_names) then
    (* test_signal_names.difference(&signal_names) *)
    Err (DE_MissingSignals (filter (fun n => negb (mem n signal_names)) test_signal_names))
  else
    rbind (make_bidirectional bidirectional signals) (fun signals' =>
    Ok {| df_signals := signals'; df_tests := tests |})).

(* ------------------------------------------------------------------ src/lib.rs: load_test, load_test_by_name *)

Inductive load_err :=
| LE_IndexOutOfBounds (number len : nat)
| LE_TestNotFound (nm : name)
| LE_ParseError (e : perr)
| LE_SignalError (e : serr).

(* the err.with_source(..) calls only attach the source text to the error *)
Definition load_test (f : dig_file) (n : nat) : R load_err testcase :=
  if (List.length (df_tests f) <=? n)%nat then
    Err (LE_IndexOutOfBounds n (List.length (df_tests f)))
  else
    match nth_error (df_tests f) n with
    | None => Panic 62
    | Some test_case =>
        rbind (rmap_err LE_ParseError (parse (snd test_case))) (fun p =>
        rmap_err LE_SignalError (with_signals p (df_signals f)))
    end.

Definition load_test_by_name (f : dig_file) (nm : name) : R load_err testcase :=
  match position (fun test_case => name_eqb (fst test_case) nm) (df_tests f) with
  | Some n => load_test f n
  | None => Err (LE_TestNotFound nm)
  end.
