(* SPEC of a whole run for a caller that KEEPS CALLING next() after error items (theorem T
   through errors): what the first n calls of next() on a fresh iterator yield when the caller
   does not stop at an `Err` item, written as the SEQUENTIAL READING of the program through
   errors (StmtSpecE.exec_e) with one row handler and one error consumer - no resumable state
   machine, no cache, no re-expansion.

   The row handler is the one of RunSpec.v (a source row stands for the rows of
   ExpandSpec.expand_spec, each of them costs the caller one next()), except that an error item
   does not end the run:
     - a driver error at an expanded row: the caller is handed the error; the call is in the log,
       the row counts as the previous row for the change flags, the context is untouched; the
       REMAINING expanded rows of the same source row (the rest of the X assignments, the rest
       of the clock triple) are still sent, one per next();
     - an unusable answer (wrong number of outputs, wrong order, a virtual signal that fails to
       evaluate): likewise; the context is the one the failed extraction left (the answer HAS
       become the outputs seen by later expressions: Iter.inext sets them before it extracts).
   The error consumer is the caller's reaction to an evaluation error of the PROGRAM (a let, the
   entries of a data row, a loop bound, a while condition): the caller is handed the error, no
   driver call is made, the previous row stays the previous row, the context is the one the
   failed evaluation left; what the program does next is StmtSpecE.exec_e's business (the
   failing let / row / loop is skipped, the failing while condition is evaluated again).
   Every item, error or not, costs one unit of the caller's budget of n next() calls; when it is
   used up the run stops right there.  The run also ends when the program ends (the caller is
   handed None). *)
From DTR Require Import Prelude I64 Ast FramedMap Parser Bind Eval Stmt StmtSpec StmtSpecE Iter ExpandSpec RunSpec.
Local Open Scope nat_scope.

Section RUNSPECE.
Variable G : gen.
Variable DE : Type.
Variable D : driver DE.
Variable w_default : bool.
Variable tc : testcase.

Local Notation rstate := (RunSpec.rstate DE).
Local Notation seen := (RunSpec.seen DE).
Local Notation upd := (RunSpec.upd DE).
Local Notation SRow := (RunSpec.SRow DE).
Local Notation SErr := (RunSpec.SErr DE).
Local Notation SNone := (RunSpec.SNone DE).

(* after an item has been handed over: stop when the budget is used up, else go on *)
Definition finish_e (h' : rstate) (c' : ctx) : (rstate * ctx) + rstate :=
  if Nat.eqb (r_budget DE h') 0 then inr h' else inl (h', c').

(* one expanded row = one next() of the caller.  inl = go on, inr = the caller's budget is used
   up.  None = the model panicked (excluded by C10). *)
Definition io_row_e (h : rstate) (c : ctx) (entries : list dentry) (line : N) (checked : bool)
  : option ((rstate * ctx) + rstate) :=
  let changed := check_changed_entries (r_prev DE h) entries in
  match generate_input_entries tc entries changed, generate_expected_entries tc entries with
  | Ok inputs, Ok expected =>
      let er := {| er_line := line; er_inputs := inputs; er_expected := expected; er_update_output := checked |} in
      if checked then
        let call := (RW, inputs) in
        let log' := r_log DE h ++ [call] in
        match D (r_log DE h) call with
        | DrvErr e => Some (finish_e (upd h (SErr (IE_Driver e)) log' (Some entries)) c)
        | DrvOk outs =>
            match extract_output_values G tc (r_nout DE h) (r_outidx DE h) outs (ctx_set_outputs c (outs_map outs)) with
            | (c2, Ok vals) => Some (finish_e (upd h (SRow (into_data_row er vals)) log' (Some entries)) c2)
            | (c2, Err r) => Some (finish_e (upd h (SErr (IE_Runtime r)) log' (Some entries)) c2)
            | _ => None
            end
        end
      else
        let call := ((if w_default then RW else WO), inputs) in
        let log' := r_log DE h ++ [call] in
        match D (r_log DE h) call with
        | DrvErr e => Some (finish_e (upd h (SErr (IE_Driver e)) log' (Some entries)) c)
        | DrvOk _ => Some (finish_e (upd h (SRow (into_data_row er [])) log' (Some entries)) c)
        end
  | _, _ => None
  end.

(* the rows a source row stands for, processed in order until the budget is used up: an error
   item at one of them does not keep the following ones from being sent *)
Fixpoint io_rows_e (h : rstate) (c : ctx) (rows : list (list dentry * bool)) (line : N)
  : option ((rstate * ctx) + rstate) :=
  match rows with
  | [] => Some (inl (h, c))
  | (entries, checked) :: rest =>
      match io_row_e h c entries line checked with
      | Some (inl (h', c')) => io_rows_e h' c' rest line
      | other => other
      end
  end.

(* the row handler of the sequential reading through errors *)
Definition run_handler_e (h : rstate) (row : list dentry * N) (c : ctx) : (rstate * ctx) + rstate :=
  match io_rows_e h c (expand_spec (entry_is_input tc) (pure_expected_col tc) (fst row)) (snd row) with
  | Some r => r
  | None => inr (crashed DE h)
  end.

(* the error consumer: the caller's reaction to an error item that stems from the PROGRAM (an
   expression of a let, a data row, a loop bound or a while condition failed to evaluate).  No
   driver call was made: the log stays; the previous row stays (Iter.get_row's GRErr leaves
   i_prev alone); c is the context the failed evaluation left. *)
Definition run_on_err (h : rstate) (x : xfail) (c : ctx) : (rstate * ctx) + rstate :=
  match x with
  | XFErr e => finish_e (upd h (SErr (IE_Runtime (RT_Expr e))) (r_log DE h) (r_prev DE h)) c
  | XFPanic _ => inr (crashed DE h)
  end.

(* the whole run: n = number of next() calls (n >= 1), starting from the state the constructor built *)
Definition run_spec_e (fuel n : nat) (st0 : istate) :=
  exec_e ctx xfail (list dentry) (lift_eval G) (lift_row_eval G) ctx_set loop_var_value
         ctx_push_frame ctx_pop_frame ctx_reset_random_seed rstate run_handler_e run_on_err
         fuel (tc_stmts tc) (i_ctx st0)
         {| r_seen := []; r_log := i_log st0; r_prev := None; r_outidx := i_outidx st0; r_nout := i_nout st0; r_budget := n |}.

(* what the caller has seen when the sequential reading stops *)
Definition seen_of_e (o : outcome ctx xfail rstate) : option (list seen * list call) :=
  match o with
  | Fin _ h => Some (r_seen DE h ++ [SNone], r_log DE h)          (* the program ended and the caller asked once more *)
  | Stop h => Some (r_seen DE h, r_log DE h)                      (* the budget is used up *)
  | _ => None
  end.

End RUNSPECE.
