(* Cross-check of the extraction: one function that runs a whole case (parse, bind, construct, n calls
   of next against the scripted driver) and encodes everything observable as a flat list of integers.
   The check evaluates it twice on a sample of the generated cases - inside Coq with vm_compute and in
   the extracted OCaml program - and compares the two lists, so that a discrepancy introduced by
   extraction, by the OCaml runtime or by the glue in model_run.ml cannot go unnoticed.
   The generator oracle is the fixed function `lo` (the cross-check is about extraction, not about rand). *)
From DTR Require Import Prelude I64 Ast FramedMap Lexer Parser Bind Eval Stmt Iter Script.
Local Open Scope Z_scope.

Definition xc_gen : gen := fun _ r => fst r.

Definition enc_name (n : name) : list Z := Z.of_nat (length n) :: map Z.of_N n.
Definition enc_inval (v : inval) : list Z := match v with IVal z => [0; z] | IZ => [1; 0] end.
Definition enc_outval (v : outval) : list Z := match v with OVal z => [0; z] | OZ => [1; 0] | OX => [2; 0] end.
Definition enc_expval (v : expval) : list Z := match v with XVal z => [0; z] | XZ => [1; 0] | XX => [2; 0] end.
Definition enc_bool (b : bool) : Z := if b then 1 else 0.

Definition enc_row (r : data_row) : list Z :=
  [100; Z.of_N (dr_line r); Z.of_nat (length (dr_inputs r)); Z.of_nat (length (dr_outputs r))]
  ++ flat_map (fun e => enc_name (sname (ie_sig e)) ++ enc_inval (ie_val e) ++ [enc_bool (ie_changed e)]) (dr_inputs r)
  ++ flat_map (fun o => enc_name (sname (or_sig o)) ++ enc_outval (or_output o) ++ enc_expval (or_expected o)
                        ++ [enc_bool (or_check o); enc_bool (or_is_checked o)]) (dr_outputs r).

Definition enc_call (c : call) : list Z :=
  [200; match fst c with RW => 0 | WO => 1 end] ++ flat_map (fun e => enc_inval (ie_val e)) (snd c).

Fixpoint xc_loop (tc : testcase) (d : driver N) (wd : bool) (fuel n : nat) (st : istate) : list Z :=
  match n with
  | O => [900] ++ flat_map enc_call (i_log st)
  | S n' =>
      match inext xc_gen N d wd tc fuel st with
      | ItNone _ st' => [300] ++ flat_map enc_call (i_log st')
      | ItRow _ row st' => enc_row row ++ [150; Z.of_nat (length (ctx_vars (i_ctx st')))] ++ xc_loop tc d wd fuel n' st'
      | ItErr _ (IE_Driver code) st' => [400; Z.of_N code] ++ flat_map enc_call (i_log st')
      | ItErr _ (IE_Runtime _) st' => [401] ++ flat_map enc_call (i_log st')
      | ItPanic _ s => [500; Z.of_N s]
      | ItOOF _ => [501]
      end
  end.

Definition xcheck (src : text) (sigs : list signal) (sc : script) (wd : bool) (fuel n : nat) : list Z :=
  match parse src with
  | Err e => [1; Z.of_nat (length (pe_at e))] ++ flat_map (fun sp => [Z.of_N (fst sp); Z.of_N (snd sp)]) (pe_at e)
  | Panic s => [2; Z.of_N s]
  | OOF => [3]
  | Ok p =>
      [0; Z.of_nat (length (p_signals p)); Z.of_nat (length (p_stmts p))] ++
      match with_signals p sigs with
      | Err _ => [11]
      | Panic s => [12; Z.of_N s]
      | OOF => [13]
      | Ok tc =>
          [10; Z.of_nat (length (tc_signals tc))] ++ map Z.of_nat (tc_read_outputs tc) ++
          match try_new N (script_driver (tc_signals tc) sc) tc with
          | NewPanic _ s => [22; Z.of_N s]
          | NewErr _ _ log => [21] ++ flat_map enc_call log
          | NewOk _ st0 => [20] ++ xc_loop tc (script_driver (tc_signals tc) sc) wd fuel n st0
          end
      end
  end.
