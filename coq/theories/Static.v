(* src/static_test.rs: TestCase::try_iter_static, From<DataRow> for StaticDataRow and
   StaticDataRowIterator::next, on top of the iterator model (Iter.v) and the driver that
   always answers Ok(vec![]) (Script.static_driver).
   Panic sites: 50 the expect("There shouldn't be any possible errors here") on the result of
   DataRowIterator::try_new, 51 self.signals[*i] out of range while the error message is
   built, 52 the unreachable!() for a driver error in StaticDataRowIterator::next. *)
From DTR Require Import Prelude I64 Ast FramedMap Parser Bind Eval Stmt Iter Script.

Inductive static_new :=
| StaticOk (st : istate)                 (* Ok(StaticDataRowIterator { it }) *)
| StaticNotStatic (names : list name)    (* Err(StaticIteratorError(list)): the outputs read *)
| StaticPanic (site : N).

(* self.read_outputs.iter().map(|i| self.signals[*i].name.clone()) *)
Fixpoint read_output_names (sigs : list signal) (reads : list nat) : option (list name) :=
  match reads with
  | [] => Some []
  | i :: r =>
      match nth_error sigs i, read_output_names sigs r with
      | Some s, Some l => Some (sname s :: l)
      | _, _ => None
      end
  end.

Definition try_iter_static (tc : testcase) : static_new :=
  match tc_read_outputs tc with
  | [] =>
      match try_new N static_driver tc with
      | NewOk _ st => StaticOk st
      | NewErr _ _ _ => StaticPanic 50
      | NewPanic _ s => StaticPanic s
      end
  | reads =>
      match read_output_names (tc_signals tc) reads with
      | Some names => StaticNotStatic names
      | None => StaticPanic 51
      end
  end.

(* StaticDataRow { inputs, expected, line }; an ExpectedEntry is (signal, expected value) *)
Definition static_data_row := (list in_entry * list (signal * expval) * N)%type.

(* impl From<DataRow> for StaticDataRow *)
Definition static_row (r : data_row) : static_data_row :=
  (dr_inputs r, map (fun o => (or_sig o, or_expected o)) (dr_outputs r), dr_line r).

Inductive static_item :=
| SItNone (st : istate)
| SItRow (row : static_data_row) (st : istate)
| SItErr (e : rterr) (st : istate)
| SItPanic (s : N)
| SItOOF.

Section STATIC.
Variable G : gen.
Variable tc : testcase.

(* static_test::Driver implements write_input_and_read_output only: write_input is the
   trait's default (w_default = true) *)
Definition snext_static (fuel : nat) (st : istate) : item N :=
  inext G N static_driver true tc fuel st.

(* StaticDataRowIterator::next *)
Definition static_next (fuel : nat) (st : istate) : static_item :=
  match snext_static fuel st with
  | ItNone _ st' => SItNone st'
  | ItErr _ (IE_Driver _) _ => SItPanic 52
  | ItErr _ (IE_Runtime r) st' => SItErr r st'
  | ItRow _ row st' => SItRow (static_row row) st'
  | ItPanic _ s => SItPanic s
  | ItOOF _ => SItOOF
  end.

End STATIC.
