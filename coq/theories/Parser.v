(* Parser model: src/parser/{mod,stmt,expr,binoptree}.rs and ParsedTestCase::parse.
   Every function mirrors the Rust function of the same name statement by statement.
   Panic sites (N): 1 peek/peek_span after the token stream is exhausted, 2 skip after it,
   3 From<TokenKind> for BinOp unreachable!, 4 From<TokenKind> for UnaryOp unreachable!.
   Loops and recursion run on fuel; fuel is a bound on the nesting depth of calls. *)
From DTR Require Import Prelude Ast FramedMap Lexer.
From Coq Require Import String.
Open Scope N_scope.

Inductive pkind :=
| PE_UnexpectedEof
| PE_NotExpectedToken (expected found : tk)
| PE_UnexpectedToken (k : tk)
| PE_UnknownToken
| PE_UnsupportedStatement (k : tk)
| PE_ExpectedNumber (k : tk)
| PE_NumberParseError
| PE_TooManyBits
| PE_ExpectedNewLine
| PE_ExpectedCXZ (ident : name)
| PE_UnexpectedEndAtTopLevel
| PE_DataRowWithWrongNumberOfSignals (expected found : N)
| PE_FunctionNotFound (ident : name)
| PE_WrongNumberOfArguments (expected found : N)
| PE_DuplicateSignal (n : name)
| PE_DuplicateVirtualSignal (n : name).

Record perr := { pe_kind : pkind; pe_at : list span }.

(* ---------------------------------------------------------------- binoptree.rs *)

Definition precedence (op : binop) : N :=
  match op with
  | Equal | NotEqual => 8
  | GreaterThan | LessThan | GreaterThanOrEqual | LessThanOrEqual => 7
  | Or => 6
  | Xor => 5
  | And => 4
  | ShiftLeft | ShiftRight => 3
  | Plus | Minus => 2
  | Times | Divide | Reminder => 1
  end.

Inductive btree := BAtom (e : expr) | BNode (op : binop) (l r : btree).

Fixpoint bt_add (t : btree) (new_op : binop) (new_expr : expr) : btree :=
  match t with
  | BNode op l r =>
      if precedence new_op <? precedence op then BNode op l (bt_add r new_op new_expr)
      else BNode new_op t (BAtom new_expr)
  | BAtom _ => BNode new_op t (BAtom new_expr)
  end.

Fixpoint bt_expr (t : btree) : expr :=
  match t with
  | BAtom e => e
  | BNode op l r => EBin op (bt_expr l) (bt_expr r)
  end.

(* ---------------------------------------------------------------- expr.rs tables *)

Definition is_binary_op (k : tk) : bool :=
  match k with
  | TPlus | TMinus | TTimes | TDivide | TReminder | TXor | TAnd | TOr | TShiftLeft | TShiftRight
  | TEqual | TNotEqual | TLessThanOrEqual | TGreaterThanOrEqual | TLessThan | TGreaterThan => true
  | _ => false
  end.

Definition binop_of_token (k : tk) : option binop :=
  match k with
  | TPlus => Some Plus | TMinus => Some Minus | TTimes => Some Times | TDivide => Some Divide
  | TReminder => Some Reminder | TXor => Some Xor | TAnd => Some And | TOr => Some Or
  | TShiftLeft => Some ShiftLeft | TShiftRight => Some ShiftRight | TEqual => Some Equal
  | TNotEqual => Some NotEqual | TLessThanOrEqual => Some LessThanOrEqual
  | TGreaterThanOrEqual => Some GreaterThanOrEqual | TLessThan => Some LessThan
  | TGreaterThan => Some GreaterThan
  | _ => None
  end.

Definition unop_of_token (k : tk) : option unop :=
  match k with
  | TMinus => Some UMinus | TLogicalNot => Some ULogicalNot | TBinaryNot => Some UBinaryNot
  | _ => None
  end.

(* FUNC_TABLE: name, number_of_args *)
Definition func_table : list (name * N) :=
  [ (s2n "random", 1); (s2n "ite", 3); (s2n "signExt", 2) ]%string.

Definition func_arity (f : name) : option N :=
  option_map snd (find (fun e => name_eqb (fst e) f) func_table).

(* i64::from_str_radix on a digit string without sign *)
Definition digit_value (c : N) : option N :=
  if in_range 48 57 c then Some (c - 48)
  else if in_range 97 122 c then Some (c - 97 + 10)
  else if in_range 65 90 c then Some (c - 65 + 10)
  else None.

Fixpoint digits_value (radix : N) (acc : N) (s : text) : option N :=
  match s with
  | [] => Some acc
  | c :: r => match digit_value c with
              | Some d => if d <? radix then digits_value radix (acc * radix + d) r else None
              | None => None
              end
  end.

Definition from_str_radix (s : text) (radix : N) : option Z :=
  match s with
  | [] => None
  | _ => match digits_value radix 0 s with
         | Some n => if n <? 9223372036854775808 then Some (Z.of_N n) else None
         | None => None
         end
  end.

(* ---------------------------------------------------------------- parser state *)

Record pstate := {
  toks : list token;                       (* Peekable<TokenIter>: the tokens not yet consumed *)
  pline : N;
  pvars : fset;
  pvirtuals : list (name * (span * expr)); (* HashMap, in insertion order *)
  pexp_inputs : list (name * span);        (* HashMap expected_inputs *)
  pexp_outputs : list (name * span)        (* HashMap expected_outputs *)
}.

Definition P (A : Type) := pstate -> R perr (A * pstate).
Definition ret {A} (a : A) : P A := fun st => Ok (a, st).
Definition bind {A B} (m : P A) (k : A -> P B) : P B :=
  fun st => match m st with
            | Ok (a, st') => k a st'
            | Err e => Err e
            | Panic s => Panic s
            | OOF => OOF
            end.
Definition fail {A} (e : perr) : P A := fun _ => Err e.
Definition ppanic {A} (s : N) : P A := fun _ => Panic s.
Definition poof {A} : P A := fun _ => OOF.

Notation "x <- m ;; k" := (bind m (fun x => k)) (at level 61, m at next level, right associativity).
Notation "m ;;; k" := (bind m (fun _ => k)) (at level 61, right associativity).

Definition tok_error {A} (t : token) (k : pkind) : P A :=
  fail {| pe_kind := k; pe_at := [tspan t] |}.

Definition set_toks (st : pstate) (ts : list token) (ln : N) : pstate :=
  {| toks := ts; pline := ln; pvars := pvars st; pvirtuals := pvirtuals st;
     pexp_inputs := pexp_inputs st; pexp_outputs := pexp_outputs st |}.
Definition set_vars (st : pstate) (v : fset) : pstate :=
  {| toks := toks st; pline := pline st; pvars := v; pvirtuals := pvirtuals st;
     pexp_inputs := pexp_inputs st; pexp_outputs := pexp_outputs st |}.

Definition assoc_mem {B} (k : name) (l : list (name * B)) : bool :=
  existsb (fun e => name_eqb (fst e) k) l.
Definition assoc_get {B} (k : name) (l : list (name * B)) : option B :=
  option_map snd (find (fun e => name_eqb (fst e) k) l).
(* map.entry(k).or_insert(v) *)
Definition or_insert {B} (k : name) (v : B) (l : list (name * B)) : list (name * B) :=
  if assoc_mem k l then l else l ++ [(k, v)].

Section PARSER.
Variable input_len : N.       (* self.input.len() *)
Variable hdr : list name.     (* self.signals *)

Definition get : P token := fun st =>
  match toks st with
  | [] => Err {| pe_kind := PE_UnexpectedEof; pe_at := [(input_len, input_len)] |}
  | t :: r => Ok (t, set_toks st r (if tk_beq (tkind t) TEol then pline st + 1 else pline st))
  end.

Definition peek : P tk := fun st =>
  match toks st with [] => Panic 1 | t :: _ => Ok (tkind t, st) end.

Definition peek_span : P span := fun st =>
  match toks st with [] => Panic 1 | t :: _ => Ok (tspan t, st) end.

Definition at_ (k : tk) : P bool := k' <- peek ;; ret (tk_beq k' k).

Definition skip : P unit := fun st =>
  match get st with
  | Ok (_, st') => Ok (tt, st')
  | Err _ => Panic 2
  | Panic s => Panic s
  | OOF => OOF
  end.

Definition expect (k : tk) : P token :=
  t <- get ;;
  if tk_beq (tkind t) k then ret t
  else tok_error t (PE_NotExpectedToken k (tkind t)).

Definition get_line : P N := fun st => Ok (pline st, st).
Definition get_vars : P fset := fun st => Ok (pvars st, st).
Definition put_vars (v : fset) : P unit := fun st => Ok (tt, set_vars st v).
Definition modify_vars (f : fset -> fset) : P unit := fun st => Ok (tt, set_vars st (f (pvars st))).

Definition parse_number : P Z :=
  t <- get ;;
  let lit := ttext t in
  match tkind t with
  | TDecInt => match from_str_radix lit 10 with Some n => ret n | None => tok_error t PE_NumberParseError end
  | THexInt => match from_str_radix (skipn 2 lit) 16 with Some n => ret n | None => tok_error t PE_NumberParseError end
  | TOctInt => match from_str_radix lit 8 with Some n => ret n | None => tok_error t PE_NumberParseError end
  | TBinInt => match from_str_radix (skipn 2 lit) 2 with Some n => ret n | None => tok_error t PE_NumberParseError end
  | k => tok_error t (PE_ExpectedNumber k)
  end.

Definition note_read_output (x : name) (sp : span) : P unit := fun st =>
  if fs_contains (pvars st) x then Ok (tt, st)
  else Ok (tt, {| toks := toks st; pline := pline st; pvars := pvars st; pvirtuals := pvirtuals st;
                  pexp_inputs := pexp_inputs st; pexp_outputs := or_insert x sp (pexp_outputs st) |}).

Definition note_expected_input (x : name) (sp : span) : P unit := fun st =>
  Ok (tt, {| toks := toks st; pline := pline st; pvars := pvars st; pvirtuals := pvirtuals st;
             pexp_inputs := or_insert x sp (pexp_inputs st); pexp_outputs := pexp_outputs st |}).

(* parse_expr / parse_factor and the argument loop of a function call *)
Fixpoint parse_expr (fuel : nat) : P expr :=
  match fuel with O => poof | S f =>
    first <- parse_factor f ;;
    parse_expr_loop f (BAtom first)
  end
with parse_expr_loop (fuel : nat) (tree : btree) : P expr :=
  match fuel with O => poof | S f =>
    k <- peek ;;
    if is_binary_op k then
      t <- get ;;
      match binop_of_token (tkind t) with
      | None => ppanic 3
      | Some op =>
          e <- parse_factor f ;;
          parse_expr_loop f (bt_add tree op e)
      end
    else ret (bt_expr tree)
  end
with parse_factor (fuel : nat) : P expr :=
  match fuel with O => poof | S f =>
    k <- peek ;;
    match k with
    | TDecInt | THexInt | TOctInt | TBinInt => n <- parse_number ;; ret (ENum n)
    | TIdent =>
        ident_tok <- get ;;
        let nm := ttext ident_tok in
        is_call <- at_ TLParen ;;
        if is_call then
          match func_arity nm with
          | None => tok_error ident_tok (PE_FunctionNotFound nm)
          | Some arity =>
              args <- parse_args f [] ;;
              expect TRParen ;;;
              if negb (Nlen args =? arity) then
                sp <- peek_span ;;
                fail {| pe_kind := PE_WrongNumberOfArguments arity (Nlen args);
                        pe_at := [(fst (tspan ident_tok), fst sp)] |}
              else ret (EFunc nm args)
          end
        else
          note_read_output nm (tspan ident_tok) ;;;
          ret (EVar nm)
    | TMinus | TLogicalNot | TBinaryNot =>
        skip ;;;
        e <- parse_factor f ;;
        match unop_of_token k with
        | Some op => ret (EUn op e)
        | None => ppanic 4
        end
    | TLParen =>
        skip ;;;
        e <- parse_expr f ;;
        expect TRParen ;;;
        ret e
    | _ =>
        t <- get ;;
        tok_error t (PE_UnexpectedToken k)
    end
  end
(* loop { self.skip(); args.push(self.parse_expr()?); if !self.at(Comma) { break; } } *)
with parse_args (fuel : nat) (acc : list expr) : P (list expr) :=
  match fuel with O => poof | S f =>
    skip ;;;
    e <- parse_expr f ;;
    more <- at_ TComma ;;
    if more then parse_args f (acc ++ [e]) else ret (acc ++ [e])
  end.

Definition is_cxz (nm : name) (lower upper : N) : bool :=
  match nm with [c] => (c =? lower) || (c =? upper) | _ => false end.

(* the loop of parse_data_row; returns (data, signal_index) *)
Fixpoint parse_row_loop (fuel : nat) (data : list dentry) (signal_index : N) : P (list dentry * N) :=
  match fuel with O => poof | S f =>
    k <- peek ;;
    match k with
    | TLParen =>
        skip ;;;
        e <- parse_expr f ;;
        expect TRParen ;;;
        parse_row_loop f (data ++ [DExpr e]) (signal_index + 1)
    | TBits =>
        skip ;;;
        expect TLParen ;;;
        at_sp <- peek_span ;;
        n <- parse_number ;;
        if (64 <? n)%Z then fail {| pe_kind := PE_TooManyBits; pe_at := [at_sp] |}
        else
          expect TComma ;;;
          e <- parse_expr f ;;
          expect TRParen ;;;
          parse_row_loop f (data ++ [DBits (Z.to_N n) e]) (signal_index + Z.to_N n)
    | TIdent =>
        t <- get ;;
        let nm := ttext t in
        if is_cxz nm 99 67 then
          match nth_error hdr (N.to_nat signal_index) with
          | Some sig => note_expected_input sig (tspan t)
          | None => ret tt
          end ;;;
          parse_row_loop f (data ++ [DC]) (signal_index + 1)
        else if is_cxz nm 120 88 then parse_row_loop f (data ++ [DX]) (signal_index + 1)
        else if is_cxz nm 122 90 then parse_row_loop f (data ++ [DZ]) (signal_index + 1)
        else tok_error t (PE_ExpectedCXZ nm)
    | TDecInt | THexInt | TBinInt | TOctInt =>
        n <- parse_number ;;
        parse_row_loop f (data ++ [DNum n]) (signal_index + 1)
    | TEol | TEof => ret (data, signal_index)
    | _ =>
        t <- get ;;
        tok_error t (PE_UnexpectedToken k)
    end
  end.

Definition parse_data_row (fuel : nat) : P (list dentry) :=
  row_start <- peek_span ;;
  r <- parse_row_loop fuel [] 0 ;;
  row_end <- peek_span ;;
  let '(data, signal_index) := r in
  if negb (signal_index =? Nlen hdr) then
    fail {| pe_kind := PE_DataRowWithWrongNumberOfSignals (Nlen hdr) signal_index;
            pe_at := [(fst row_start, fst row_end)] |}
  else ret data.

Definition add_virtual (nm : name) (sp : span) (e : expr) : P unit := fun st =>
  match assoc_get nm (pvirtuals st) with
  | Some (prev_span, _) =>
      Err {| pe_kind := PE_DuplicateVirtualSignal nm; pe_at := [prev_span; sp] |}
  | None =>
      Ok (tt, {| toks := toks st; pline := pline st; pvars := pvars st;
                 pvirtuals := pvirtuals st ++ [(nm, (sp, e))];
                 pexp_inputs := pexp_inputs st; pexp_outputs := pexp_outputs st |})
  end.

Definition is_row_start (k : tk) : bool :=
  match k with TLParen | TBits | TIdent | TDecInt | THexInt | TBinInt | TOctInt => true | _ => false end.

(* what the match in parse_stmt_block decides: continue with the post-statement
   check, or leave the loop *)
Inductive arm_result := ArmContinue (block : list stmt) | ArmBreak (block : list stmt).

(* parse_stmt_block: the loop, with the block built so far *)
Fixpoint parse_block_loop (fuel : nat) (end_token : option tk) (block : list stmt) : P (list stmt) :=
  match fuel with O => poof | S f =>
    k <- peek ;;
    arm <-
      (if is_row_start k then
         data <- parse_data_row f ;;
         ln <- get_line ;;
         ret (ArmContinue (block ++ [SRow data ln]))
       else match k with
       | TLoop =>
           skip ;;;
           expect TLParen ;;;
           vtok <- expect TIdent ;;
           let variable := ttext vtok in
           expect TComma ;;;
           max <- parse_expr f ;;
           expect TRParen ;;;
           expect TEol ;;;
           modify_vars (fun v => fs_insert (fm_push_frame v) variable) ;;;
           inner <- parse_block_loop f (Some TLoop) [] ;;
           modify_vars fm_pop_frame ;;;
           ret (ArmContinue (block ++ [SLoop variable max inner]))
       | TRepeat =>
           skip ;;;
           expect TLParen ;;;
           max <- parse_expr f ;;
           expect TRParen ;;;
           modify_vars (fun v => fs_insert (fm_push_frame v) (s2n "n")) ;;;
           data <- parse_data_row f ;;
           modify_vars fm_pop_frame ;;;
           ln <- get_line ;;
           ret (ArmContinue (block ++ [SLoop (s2n "n") max [SRow data ln]]))
       | TLet =>
           skip ;;;
           ntok <- expect TIdent ;;
           let nm := ttext ntok in
           expect TEqual ;;;
           e <- parse_expr f ;;
           expect TSemi ;;;
           modify_vars (fun v => fs_insert v nm) ;;;
           ret (ArmContinue (block ++ [SLet nm e]))
       | TResetRandom =>
           skip ;;;
           expect TSemi ;;;
           ret (ArmContinue (block ++ [SReset]))
       | TWhile =>
           skip ;;;
           expect TLParen ;;;
           cond <- parse_expr f ;;
           expect TRParen ;;;
           expect TEol ;;;
           inner <- parse_block_loop f (Some TWhile) [] ;;
           ret (ArmContinue (block ++ [SWhile cond inner]))
       | TDeclare =>
           sp0 <- peek_span ;;
           skip ;;;
           ntok <- expect TIdent ;;
           let nm := ttext ntok in
           expect TEqual ;;;
           saved <- get_vars ;;
           put_vars fm_new ;;;
           e <- parse_expr f ;;
           put_vars saved ;;;
           expect TSemi ;;;
           sp1 <- peek_span ;;
           add_virtual nm (fst sp0, fst sp1) e ;;;
           ret (ArmContinue block)
       | TProgram | TInit | TMemory | TDef | TCall =>
           t <- get ;;
           tok_error t (PE_UnsupportedStatement k)
       | TEnd =>
           match end_token with
           | Some kind =>
               skip ;;;
               expect kind ;;;
               ret (ArmBreak block)
           | None =>
               t <- get ;;
               tok_error t PE_UnexpectedEndAtTopLevel
           end
       | TEof =>
           t <- get ;;
           match end_token with
           | Some _ => tok_error t PE_UnexpectedEof
           | None => ret (ArmBreak block)
           end
       | TEol => ret (ArmContinue block)
       | _ =>
           t <- get ;;
           tok_error t PE_UnknownToken
       end) ;;
    match arm with
    | ArmBreak b => ret b
    | ArmContinue b =>
        at_eof <- at_ TEof ;;
        if at_eof then
          match end_token with
          | None => ret b
          | Some _ => parse_block_loop f end_token b
          end
        else
          at_eol <- at_ TEol ;;
          if at_eol then skip ;;; parse_block_loop f end_token b
          else
            t <- get ;;
            tok_error t PE_ExpectedNewLine
    end
  end.

End PARSER.

(* ---------------------------------------------------------------- HeaderParser *)

Record header := {
  h_names : list name;
  h_spans : list span;
  h_line : N;          (* line counter after the header *)
  h_pos : N;           (* byte offset where the statement lexer takes over *)
  h_rest : text        (* the text from there on *)
}.

Fixpoint parse_header_loop (fuel : nat) (pos line : N) (names : list name) (spans : list span)
  (s : text) : R perr header :=
  match fuel with O => OOF | S f =>
    match hlex_one s with
    | None => Err {| pe_kind := PE_UnexpectedEof; pe_at := [(pos, pos)] |}
    | Some (k, w, r) =>
      let pos' := pos + text_bytes w in
      match k with
      | None => parse_header_loop f pos' line names spans r
      | Some HName =>
          match position (name_eqb w) names with
          | Some i =>
              Err {| pe_kind := PE_DuplicateSignal w;
                     pe_at := [nth i spans (0, 0); (pos, pos')] |}
          | None => parse_header_loop f pos' line (names ++ [w]) (spans ++ [(pos, pos')]) r
          end
      | Some HEol =>
          match names with
          | [] => parse_header_loop f pos' (line + 1) names spans r
          | _ => Ok {| h_names := names; h_spans := spans; h_line := line + 1; h_pos := pos'; h_rest := r |}
          end
      end
    end
  end.

Definition parse_header (s : text) : R perr header :=
  parse_header_loop (S (List.length s)) 0 1 [] [] s.

(* ---------------------------------------------------------------- Parser::finish, ParsedTestCase::parse *)

(* sort_by(|(_, a), (_, b)| a.start.cmp(&b.start)): a stable sort; the model uses
   insertion sort on the span start *)
Section SORT.
Context {A : Type} (key : A -> N).
Fixpoint insert_sorted (x : A) (l : list A) : list A :=
  match l with
  | [] => [x]
  | y :: r => if key y <=? key x then y :: insert_sorted x r else x :: l
  end.
Definition sort_by_key (l : list A) : list A := fold_left (fun acc x => insert_sorted x acc) l [].
End SORT.

Record parsed := {
  p_stmts : list stmt;
  p_signals : list name;
  p_signal_spans : list span;
  p_virtuals : list (name * expr * span);
  p_expected_inputs : list (name * span);
  p_read_outputs : list (name * span)
}.

Definition parser_fuel (ntoks : nat) : nat := 4 * ntoks + 32.

Definition parse (s : text) : R perr parsed :=
  match parse_header s with
  | Err e => Err e | Panic p => Panic p | OOF => OOF
  | Ok h =>
    match lex_body (h_pos h) (h_rest h) with
    | None => OOF
    | Some ts =>
      let st0 := {| toks := ts; pline := h_line h; pvars := fm_new; pvirtuals := [];
                    pexp_inputs := []; pexp_outputs := [] |} in
      match parse_block_loop (text_bytes s) (h_names h) (parser_fuel (List.length ts)) None [] st0 with
      | Err e => Err e | Panic p => Panic p | OOF => OOF
      | Ok (stmts, st) =>
        Ok {| p_stmts := stmts;
              p_signals := h_names h;
              p_signal_spans := h_spans h;
              p_virtuals := map (fun v => (fst v, snd (snd v), fst (snd v)))
                                (sort_by_key (fun v => fst (fst (snd v))) (pvirtuals st));
              p_expected_inputs := sort_by_key (fun v => fst (snd v)) (pexp_inputs st);
              p_read_outputs := sort_by_key (fun v => fst (snd v)) (pexp_outputs st) |}
      end
    end
  end.
