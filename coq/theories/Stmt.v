(* StmtIterator::next_with_context (src/stmt.rs): the resumable state machine with its
   seven states and boxed nested iterators, kept exactly as in the Rust.
   The machine is generic in the context type C and in how expressions and rows are
   evaluated, so that StmtRefine.v can prove it against the sequential reading once and
   for all; Iter.v instantiates it with the concrete EvalContext model.
   Panic site: 20 EndIterateInner: loop variable has no integer value.
   An evaluation error is returned with `?` AFTER the iterator object has been mutated, and
   the object can be called again; NErr carries the iterator as it is after the error:
   - Iterate: the failing statement (let, data row, loop header whose bound fails) has been
     consumed, the iterator goes on with the rest of the list (no frame pushed for the loop);
   - StartWhile ws: the state is unchanged (the next call evaluates the condition again);
   - IterInner / WhileInner: the outer state stays, with the inner iterator in ITS state
     after the error (it was mutated in place). *)
From DTR Require Import Prelude I64 Ast.
Open Scope Z_scope.

Section SM.
Variables (C F W : Type).
(* Expr::eval against the context; inr = evaluation failed *)
Variable eval : C -> expr -> C * (Z + F).
(* the DataRow arm: evaluate the entries of a row *)
Variable row_eval : C -> list dentry -> C * (W + F).
Variable setv : C -> name -> Z -> C.
Variable getv : C -> name -> option Z.
Variables push pop reset : C -> C.

Record lstate := { lvar : name; lmax : Z; lbody : list stmt }.
Record wstate := { wcond : expr; wbody : list stmt }.

Inductive siter := SI (rest : list stmt) (st : sstate)
with sstate :=
| Iterate
| StartLoop (ls : lstate)
| StartInner (ls : lstate)
| IterInner (inner : siter) (ls : lstate)
| EndInner (ls : lstate)
| StartWhile (ws : wstate)
| WhileInner (inner : siter) (ws : wstate).

Inductive nres :=
| NYield (w : W) (line : N) (it : siter) (c : C)
| NDone (it : siter) (c : C)
| NErr (f : F) (it : siter) (c : C)
| NPanic (site : N)
| NOOF.

Fixpoint next (fuel : nat) (it : siter) (c : C) {struct fuel} : nres :=
  match fuel with O => NOOF | S f =>
  match it with SI rest st =>
  match st with
  | Iterate =>
      match rest with
      | [] => NDone it c
      | SLet n e :: r => let (c1, v) := eval c e in
          match v with inr x => NErr x (SI r Iterate) c1 | inl z => next f (SI r Iterate) (setv c1 n z) end
      | SRow d l :: r => let (c1, v) := row_eval c d in
          match v with inr x => NErr x (SI r Iterate) c1 | inl w => NYield w l (SI r Iterate) c1 end
      | SLoop v e body :: r => let (c1, m) := eval c e in
          match m with inr x => NErr x (SI r Iterate) c1
          | inl m => next f (SI r (StartLoop {| lvar := v; lmax := m; lbody := body |})) c1 end
      | SReset :: r => next f (SI r Iterate) (reset c)
      | SWhile e body :: r => next f (SI r (StartWhile {| wcond := e; wbody := body |})) c
      end
  | StartLoop ls =>
      if 0 <? lmax ls then next f (SI rest (StartInner ls)) (setv (push c) (lvar ls) 0)
      else next f (SI rest Iterate) c
  | StartInner ls => next f (SI rest (IterInner (SI (lbody ls) Iterate) ls)) c
  | IterInner inner ls =>
      match next f inner c with
      | NYield w l inner' c' => NYield w l (SI rest (IterInner inner' ls)) c'
      | NDone _ c' => next f (SI rest (EndInner ls)) c'
      | NErr x inner' c' => NErr x (SI rest (IterInner inner' ls)) c'
      | o => o
      end
  | EndInner ls =>
      match getv c (lvar ls) with
      | None => NPanic 20%N
      | Some i => if wadd i 1 <? lmax ls then next f (SI rest (StartInner ls)) (setv c (lvar ls) (wadd i 1))
                  else next f (SI rest Iterate) (pop c)
      end
  | StartWhile ws => let (c1, v) := eval c (wcond ws) in
      match v with inr x => NErr x (SI rest (StartWhile ws)) c1 | inl z =>
        if z =? 0 then next f (SI rest Iterate) c1
        else next f (SI rest (WhileInner (SI (wbody ws) Iterate) ws)) c1 end
  | WhileInner inner ws =>
      match next f inner c with
      | NYield w l inner' c' => NYield w l (SI rest (WhileInner inner' ws)) c'
      | NDone _ c' => next f (SI rest (StartWhile ws)) c'
      | NErr x inner' c' => NErr x (SI rest (WhileInner inner' ws)) c'
      | o => o
      end
  end end end.

Definition siter_new (stmts : list stmt) : siter := SI stmts Iterate.

End SM.
