(* SPEC for C06: row values are bound to signals by header NAME; every row is a complete
   vector.  No index vectors here: only the header (a list of column names), the bound
   signal list, and the row's entries. *)
From DTR Require Import Prelude I64 Ast Parser Bind Eval Stmt Iter.

Section BYNAME.
Variable hdr : list name.        (* the header's column names, left to right *)
Variable sigs : list signal.     (* the bound signal list (virtual signals included) *)

(* the column called n, if the header has one *)
Definition column_named (n : name) : option nat := position (name_eqb n) hdr.

(* value of an input column (after X/C expansion only numbers and Z remain there) *)
Definition input_value_of (s : signal) (d : dentry) : option inval :=
  match d with
  | DNum n => Some (IVal (mask_value (sbits s) n))
  | DZ => Some IZ
  | _ => None
  end.

Definition expected_value_of (s : signal) (d : dentry) : option expval :=
  match d with
  | DNum n => Some (XVal (mask_value (sbits s) n))
  | DZ => Some XZ
  | DX => Some XX
  | _ => None
  end.

(* one entry per input-capable signal, in signal-list order: the column of that name,
   or the default (never flagged as changed) when the header omits it *)
Definition input_entry_spec (entries : list dentry) (changed : list bool) (s : signal) : option in_entry :=
  match column_named (sname s) with
  | Some j =>
      match nth_error entries j, nth_error changed j with
      | Some d, Some ch =>
          match input_value_of s d with
          | Some v => Some {| ie_sig := s; ie_val := v; ie_changed := ch |}
          | None => None
          end
      | _, _ => None
      end
  | None =>
      match default_value s with
      | Some v => Some {| ie_sig := s; ie_val := v; ie_changed := false |}
      | None => None
      end
  end.

Fixpoint inputs_spec (entries : list dentry) (changed : list bool) (l : list signal) : option (list in_entry) :=
  match l with
  | [] => Some []
  | s :: r =>
      if is_input s then
        match input_entry_spec entries changed s, inputs_spec entries changed r with
        | Some e, Some es => Some (e :: es)
        | _, _ => None
        end
      else inputs_spec entries changed r
  end.

(* the name of the column holding the expected value of s: `<name>_out` for a
   bidirectional signal, `<name>` for an output or virtual signal, none for an input *)
Definition expected_column_name (s : signal) : option name :=
  match styp s with
  | TyInput _ => None
  | TyBidir _ => Some (sname s ++ out_suffix)
  | TyOutput | TyVirtual _ => Some (sname s)
  end.

Definition expected_entry_spec (entries : list dentry) (s : signal) (n : name) : option exp_entry :=
  match column_named n with
  | Some j =>
      match nth_error entries j with
      | Some d => match expected_value_of s d with
                  | Some v => Some {| xe_sig := s; xe_val := v |}
                  | None => None
                  end
      | None => None
      end
  | None => Some {| xe_sig := s; xe_val := XX |}
  end.

Fixpoint expected_spec (entries : list dentry) (l : list signal) : option (list exp_entry) :=
  match l with
  | [] => Some []
  | s :: r =>
      match expected_column_name s with
      | None => expected_spec entries r
      | Some n =>
          match expected_entry_spec entries s n, expected_spec entries r with
          | Some e, Some es => Some (e :: es)
          | _, _ => None
          end
      end
  end.

(* the default vector of the constructor's call *)
Fixpoint defaults_spec (l : list signal) : option (list in_entry) :=
  match l with
  | [] => Some []
  | s :: r =>
      match default_value s with
      | Some v => match defaults_spec r with
                  | Some es => Some ({| ie_sig := s; ie_val := v; ie_changed := false |} :: es)
                  | None => None
                  end
      | None => defaults_spec r
      end
  end.

End BYNAME.
