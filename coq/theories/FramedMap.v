(* src/framed_map.rs: FramedMap<K,V> and FramedSet<K> (= FramedMap<K,()>).
   `fvalues` is the Vec `values` in Vec order (push = append at the end);
   `fstack` is the Vec `frame_stack` with its LAST element first (head = top). *)
From DTR Require Import Prelude.

Section FM.
Context {V : Type}.

Record fmap := { fvalues : list (name * V); fstack : list nat }.

Definition fm_new : fmap := {| fvalues := []; fstack := [] |}.

Definition fm_push_frame (m : fmap) : fmap :=
  {| fvalues := fvalues m; fstack := length (fvalues m) :: fstack m |}.

(* let len = self.frame_stack.pop().unwrap_or(0); self.values.truncate(len); *)
Definition fm_pop_frame (m : fmap) : fmap :=
  match fstack m with
  | [] => {| fvalues := []; fstack := [] |}
  | len :: st => {| fvalues := firstn len (fvalues m); fstack := st |}
  end.

Definition frame_start (m : fmap) : nat :=
  match fstack m with [] => O | n :: _ => n end.

(* replace the value of the first entry with key k, if any *)
Fixpoint update_first (k : name) (v : V) (l : list (name * V)) : option (list (name * V)) :=
  match l with
  | [] => None
  | (k', v') :: r =>
      if name_eqb k' k then Some ((k', v) :: r)
      else match update_first k v r with
           | Some r' => Some ((k', v') :: r')
           | None => None
           end
  end.

Definition fm_set (m : fmap) (k : name) (v : V) : fmap :=
  let start := frame_start m in
  match update_first k v (skipn start (fvalues m)) with
  | Some cur' => {| fvalues := firstn start (fvalues m) ++ cur'; fstack := fstack m |}
  | None => {| fvalues := fvalues m ++ [(k, v)]; fstack := fstack m |}
  end.

(* self.values.iter().rev().find(..) *)
Definition fm_get (m : fmap) (k : name) : option V :=
  option_map snd (find_last (fun kv => name_eqb (fst kv) k) (fvalues m)).

(* reverse scan, first occurrence wins; the result is a finite map, given as an
   association list with distinct keys *)
Fixpoint dedup_keys (seen : list name) (l : list (name * V)) : list (name * V) :=
  match l with
  | [] => []
  | (k, v) :: r =>
      if existsb (name_eqb k) seen then dedup_keys seen r
      else (k, v) :: dedup_keys (k :: seen) r
  end.

Definition fm_flatten (m : fmap) : list (name * V) := dedup_keys [] (rev (fvalues m)).

End FM.
Arguments fmap V : clear implicits.

Definition fset := fmap unit.
Definition fs_insert (s : fset) (k : name) : fset := fm_set s k tt.
Definition fs_contains (s : fset) (k : name) : bool :=
  match fm_get s k with Some _ => true | None => false end.
