(* The sequential reading of a statement list for a caller that KEEPS ITERATING after an
   evaluation error: what a test program MEANS when every error item is handed to an error
   consumer that decides whether to go on.  This file is the specification;
   proofs/StmtRefineE.v proves that the resumable state machine of Stmt.v, driven by a caller
   that hands every yielded row to `handler`, every error item to `on_err`, and calls the
   iterator AGAIN after an error item unless `on_err` stops, computes exactly this.

   Statements run top to bottom, as in StmtSpec.v:
   - let x = e        : evaluate e, assign x.
   - a data row       : evaluate its entries, hand (row, line) and the context to the
                        handler; the handler either continues (possibly with a changed
                        context) or makes the caller stop iterating.
   - loop(v, e) body  : evaluate e ONCE to m.  If 0 < m: open a frame, v := 0, then
                        repeat { body; i := value of v; if i+1 < m then v := i+1 else
                        leave }, close the frame.  Otherwise skip the loop.
                        (i+1 is the wrapping i64 addition; v without an integer value at
                        the end of a pass is panic site 20.)
   - while(e) body    : evaluate e; 0 ends the loop; otherwise body and again.  No frame.
   - resetRandom      : reset the context's random state.
   An evaluation failure does NOT end the run.  The failure and the context the failed
   evaluation left are handed to `on_err`; `on_err` either stops the iteration or continues
   (possibly with a changed context), and then:
   - a failing let             : the let is SKIPPED, x keeps the binding it had (if any);
                                 the run goes on with the statement after it.
   - a failing data row        : the row is SKIPPED (the handler does not see it); the run
                                 goes on with the statement after it.
   - a failing loop bound      : the whole loop is SKIPPED, no frame is opened; the run goes
                                 on with the statement after the loop.
   - a failing while condition : the condition is evaluated AGAIN, in the context `on_err`
                                 returned (a condition that keeps failing is retried until
                                 `on_err` stops; the body is not run, the loop is not left).
   A failure inside a loop or while body is one of the above at its place in the body: the
   loop stays open, the pass goes on with the rest of the body, the frame of a loop(v, e)
   stays open.
   The outcome type is the one of StmtSpec.v; its constructor `Fail` is never produced here
   (exec_e_never_fails in proofs/StmtRefineE.v).  `fuel` only bounds the recursion depth of
   the model; OutOfFuel is not a behaviour of the program. *)
From DTR Require Import Prelude I64 Ast StmtSpec.
Open Scope Z_scope.

Section SPECE.
Variables (C F W : Type).
Variable eval : C -> expr -> C * (Z + F).
Variable row_eval : C -> list dentry -> C * (W + F).
Variable setv : C -> name -> Z -> C.
Variable getv : C -> name -> option Z.
Variables push pop reset : C -> C.
(* the consumer of rows: its own state H; inl = go on, inr = stop iterating *)
Variable H : Type.
Variable handler : H -> W * N -> C -> (H * C) + H.
(* the consumer of error items: the failure and the context the failed evaluation left;
   inl = go on (call the iterator again), inr = stop iterating *)
Variable on_err : H -> F -> C -> (H * C) + H.

Local Notation outcome := (StmtSpec.outcome C F H).

Fixpoint exec_e (fuel : nat) (ss : list stmt) (c : C) (h : H) {struct fuel} : outcome :=
  match fuel with O => OutOfFuel | S f =>
  match ss with
  | [] => Fin c h
  | SLet n e :: r =>
      let (c1, v) := eval c e in
      match v with
      | inr x =>
        match on_err h x c1 with
        | inl (h2, c2) => exec_e f r c2 h2
        | inr h2 => Stop h2
        end
      | inl z => exec_e f r (setv c1 n z) h
      end
  | SRow d l :: r =>
      let (c1, v) := row_eval c d in
      match v with
      | inr x =>
        match on_err h x c1 with
        | inl (h2, c2) => exec_e f r c2 h2
        | inr h2 => Stop h2
        end
      | inl w =>
        match handler h (w, l) c1 with
        | inl (h2, c2) => exec_e f r c2 h2
        | inr h2 => Stop h2
        end
      end
  | SLoop v e body :: r =>
      let (c1, m) := eval c e in
      match m with
      | inr x =>
        match on_err h x c1 with
        | inl (h2, c2) => exec_e f r c2 h2
        | inr h2 => Stop h2
        end
      | inl m =>
        if 0 <? m then
          match for_loop_e f v m body (setv (push c1) v 0) h with
          | Fin c2 h2 => exec_e f r (pop c2) h2
          | o => o
          end
        else exec_e f r c1 h
      end
  | SWhile e body :: r =>
      match while_loop_e f e body c h with
      | Fin c2 h2 => exec_e f r c2 h2
      | o => o
      end
  | SReset :: r => exec_e f r (reset c) h
  end end
(* one pass of the body with the loop variable already set, then the passes after it *)
with for_loop_e (fuel : nat) (v : name) (m : Z) (body : list stmt) (c : C) (h : H)
                {struct fuel} : outcome :=
  match fuel with O => OutOfFuel | S f =>
  match exec_e f body c h with
  | Fin c2 h2 =>
      match getv c2 v with
      | None => Crash 20%N
      | Some i => if wadd i 1 <? m then for_loop_e f v m body (setv c2 v (wadd i 1)) h2
                  else Fin c2 h2
      end
  | o => o
  end end
with while_loop_e (fuel : nat) (e : expr) (body : list stmt) (c : C) (h : H)
                  {struct fuel} : outcome :=
  match fuel with O => OutOfFuel | S f =>
  let (c1, v) := eval c e in
  match v with
  | inr x =>
    match on_err h x c1 with
    | inl (h2, c2) => while_loop_e f e body c2 h2
    | inr h2 => Stop h2
    end
  | inl z =>
    if z =? 0 then Fin c1 h else
    match exec_e f body c1 h with
    | Fin c2 h2 => while_loop_e f e body c2 h2
    | o => o
    end
  end end.

End SPECE.
