#!/bin/bash
# Build the extracted model plus the driver glue into ocaml/_build/model_run
set -e
cd "$(dirname "$0")"
mkdir -p _build
cp extracted/model.ml extracted/model.mli model_run.ml _build/
cd _build
ocamlfind ocamlopt -w -a -package zarith -linkpkg model.mli model.ml model_run.ml -o model_run 2>&1 | grep -v "WARNING conda" || true
test -x model_run
