(* Driver glue around the extracted model: reads a case file, runs the model, prints the
   canonical trace (same format as harness/src/main.rs).  Trusted glue, shared by all
   properties; no model logic lives here. *)
module BigZ = Z
open Model
(* names of the OCaml standard library that the extracted module shadows *)
type string = Stdlib.String.t
let fst = Stdlib.fst
let snd = Stdlib.snd
let compare = Stdlib.compare

(* ---------------------------------------------------------------- conversions *)
let rec nat_of_int i = if i <= 0 then O else S (nat_of_int (i - 1))
let rec int_of_nat = function O -> 0 | S n -> 1 + int_of_nat n

let rec pos_of_zt (z : BigZ.t) : positive =
  if BigZ.equal z BigZ.one then XH
  else if BigZ.is_even z then XO (pos_of_zt (BigZ.shift_right z 1))
  else XI (pos_of_zt (BigZ.shift_right z 1))
let rec zt_of_pos = function
  | XH -> BigZ.one
  | XO p -> BigZ.shift_left (zt_of_pos p) 1
  | XI p -> BigZ.succ (BigZ.shift_left (zt_of_pos p) 1)
let z_of_zt (z : BigZ.t) : Model.z =
  if BigZ.sign z = 0 then Z0 else if BigZ.sign z > 0 then Zpos (pos_of_zt z) else Zneg (pos_of_zt (BigZ.neg z))
let zt_of_z = function Z0 -> BigZ.zero | Zpos p -> zt_of_pos p | Zneg p -> BigZ.neg (zt_of_pos p)
let n_of_zt (z : BigZ.t) : Model.n = if BigZ.sign z = 0 then N0 else Npos (pos_of_zt z)
let zt_of_n = function N0 -> BigZ.zero | Npos p -> zt_of_pos p
let n_of_int i = n_of_zt (BigZ.of_int i)
let int_of_n n = BigZ.to_int (zt_of_n n)
let zs z = BigZ.to_string (zt_of_z z)
let ns n = BigZ.to_string (zt_of_n n)

(* ---------------------------------------------------------------- text *)
let hex_decode (h : string) : string =
  let n = String.length h / 2 in
  String.init n (fun i -> Char.chr (int_of_string ("0x" ^ String.sub h (2 * i) 2)))
let hex_encode (s : string) : string =
  let b = Buffer.create (2 * String.length s) in
  String.iter (fun c -> Buffer.add_string b (Printf.sprintf "%02x" (Char.code c))) s;
  Buffer.contents b

(* UTF-8 bytes -> code points (input is valid UTF-8: it comes from a Rust &str) *)
let decode_utf8 (s : string) : int list =
  let n = String.length s in
  let rec go i acc =
    if i >= n then List.rev acc
    else
      let c = Char.code s.[i] in
      if c < 0x80 then go (i + 1) (c :: acc)
      else if c < 0xE0 then go (i + 2) ((((c land 0x1F) lsl 6) lor (Char.code s.[i + 1] land 0x3F)) :: acc)
      else if c < 0xF0 then
        go (i + 3) ((((c land 0x0F) lsl 12) lor ((Char.code s.[i + 1] land 0x3F) lsl 6)
                     lor (Char.code s.[i + 2] land 0x3F)) :: acc)
      else
        go (i + 4) ((((c land 0x07) lsl 18) lor ((Char.code s.[i + 1] land 0x3F) lsl 12)
                     lor ((Char.code s.[i + 2] land 0x3F) lsl 6) lor (Char.code s.[i + 3] land 0x3F)) :: acc)
  in
  go 0 []
let encode_utf8 (cps : int list) : string =
  let b = Buffer.create 16 in
  List.iter (fun c -> Buffer.add_utf_8_uchar b (Uchar.of_int c)) cps;
  Buffer.contents b
let text_of_string s : Model.text = List.map n_of_int (decode_utf8 s)
let string_of_text (t : Model.text) : string = encode_utf8 (List.map int_of_n t)

let nm (t : Model.name) : string =
  let s = string_of_text t in
  let plain = s <> "" && (let ok = ref true in
    String.iter (fun c -> match c with 'A'..'Z' | 'a'..'z' | '0'..'9' | '_' -> () | _ -> ok := false) s; !ok) in
  if plain then s else "%" ^ hex_encode s

(* ---------------------------------------------------------------- printers *)
let inval_s = function IVal v -> zs v | IZ -> "Z"
let outval_s = function OVal v -> zs v | OZ -> "Z" | OX -> "X"
let expval_s = function XVal v -> zs v | XZ -> "Z" | XX -> "X"

let binop_s = function
  | Equal -> "=" | NotEqual -> "!=" | GreaterThan -> ">" | LessThan -> "<"
  | GreaterThanOrEqual -> ">=" | LessThanOrEqual -> "<=" | Or -> "|" | Xor -> "^" | And -> "&"
  | ShiftLeft -> "<<" | ShiftRight -> ">>" | Plus -> "+" | Minus -> "-" | Times -> "*"
  | Divide -> "/" | Reminder -> "%"
let unop_s = function UMinus -> "-" | ULogicalNot -> "!" | UBinaryNot -> "~"

(* impl Display for Expr / DataEntry / Stmt *)
let rec expr_s = function
  | ENum n -> zs n
  | EVar x -> string_of_text x
  | EBin (op, l, r) -> "(" ^ expr_s l ^ " " ^ binop_s op ^ " " ^ expr_s r ^ ")"
  | EUn (op, e) -> unop_s op ^ expr_s e
  | EFunc (f, args) -> string_of_text f ^ "(" ^ String.concat "," (List.map expr_s args) ^ ")"
let dentry_s = function
  | DNum n -> zs n
  | DExpr e -> "(" ^ expr_s e ^ ")"
  | DBits (k, e) -> "bits(" ^ ns k ^ "," ^ expr_s e ^ ")"
  | DX -> "X" | DZ -> "Z" | DC -> "C"
let rec stmt_s = function
  | SLet (x, e) -> "let " ^ string_of_text x ^ " = " ^ expr_s e ^ ";"
  | SLoop (v, m, body) ->
      "loop(" ^ string_of_text v ^ "," ^ expr_s m ^ ")\n"
      ^ String.concat "" (List.map (fun s -> stmt_s s ^ "\n") body) ^ "end loop"
  | SReset -> "resetRandom;"
  | SRow (data, _) -> String.concat "" (List.map (fun d -> dentry_s d ^ " ") data)
  | SWhile (c, body) ->
      "while(" ^ expr_s c ^ ")\n"
      ^ String.concat "" (List.map (fun s -> stmt_s s ^ "\n") body) ^ "end while"
let prog_s stmts = String.concat "" (List.map (fun s -> stmt_s s ^ "\n") stmts)

let rec stmt_lines = function
  | SRow (_, l) -> [ns l]
  | SLoop (_, _, b) | SWhile (_, b) -> List.concat_map stmt_lines b
  | _ -> []

let tk_s = function
  | TComma -> "Comma" | TSemi -> "Semi" | TPlus -> "Plus" | TMinus -> "Minus" | TTimes -> "Times"
  | TDivide -> "Divide" | TReminder -> "Reminder" | TLogicalNot -> "LogicalNot"
  | TBinaryNot -> "BinaryNot" | TXor -> "Xor" | TAnd -> "And" | TOr -> "Or"
  | TShiftLeft -> "ShiftLeft" | TShiftRight -> "ShiftRight" | TEqual -> "Equal"
  | TNotEqual -> "NotEqual" | TLessThanOrEqual -> "LessThanOrEqual"
  | TGreaterThanOrEqual -> "GreaterThanOrEqual" | TLessThan -> "LessThan"
  | TGreaterThan -> "GreaterThan" | TLParen -> "LParen" | TRParen -> "RParen" | TEnd -> "End"
  | TLoop -> "Loop" | TRepeat -> "Repeat" | TBits -> "Bits" | TLet -> "Let"
  | TResetRandom -> "ResetRandom" | TWhile -> "While" | TDeclare -> "Declare"
  | TProgram -> "Program" | TInit -> "Init" | TMemory -> "Memory" | TDef -> "Def" | TCall -> "Call"
  | TIdent -> "Ident" | TDecInt -> "DecInt" | THexInt -> "HexInt" | TBinInt -> "BinInt"
  | TOctInt -> "OctInt" | TEol -> "Eol" | TEof -> "Eof" | TError -> "Error"

let pkind_s = function
  | PE_UnexpectedEof -> "UnexpectedEof"
  | PE_NotExpectedToken (a, b) -> "NotExpectedToken:" ^ tk_s a ^ ":" ^ tk_s b
  | PE_UnexpectedToken k -> "UnexpectedToken:" ^ tk_s k
  | PE_UnknownToken -> "UnknownToken"
  | PE_UnsupportedStatement k -> "UnsupportedStatement:" ^ tk_s k
  | PE_ExpectedNumber k -> "ExpectedNumber:" ^ tk_s k
  | PE_NumberParseError -> "NumberParseError:PosOverflow"
  | PE_TooManyBits -> "TooManyBits"
  | PE_ExpectedNewLine -> "ExpectedNewLine"
  | PE_ExpectedCXZ _ -> "ExpectedCXZ"
  | PE_UnexpectedEndAtTopLevel -> "UnexpectedEndAtTopLevel"
  | PE_DataRowWithWrongNumberOfSignals (a, b) -> "DataRowWithWrongNumberOfSignals:" ^ ns a ^ ":" ^ ns b
  | PE_FunctionNotFound _ -> "FunctionNotFound"
  | PE_WrongNumberOfArguments (a, b) -> "WrongNumberOfArguments:" ^ ns a ^ ":" ^ ns b
  | PE_DuplicateSignal _ -> "DuplicateSignal"
  | PE_DuplicateVirtualSignal _ -> "DuplicateVirtualSignal"

let span_s (a, b) = ns a ^ ".." ^ ns b
let spans_s l = String.concat "," (List.map span_s l)

let serr_s = function
  | SE_DuplicateSignal _ -> "DuplicateSignal"
  | SE_SignalIsVirtual _ -> "SignalIsVirtual"
  | SE_UnknownSignals _ -> "UnknownSignals"
  | SE_NotAnInput _ -> "NotAnInput"
  | SE_NotAnOutput _ -> "NotAnOutput"
  | SE_UnknownVariableOrSignal _ -> "UnknownVariableOrSignal"

let xerr_s = function
  | XE_UnexpectedValueForSignal _ -> "UnexpectedValueForSignal"
  | XE_UnknownVariable _ -> "UnknownVariable"
  | XE_FunctionNotImplemented _ -> "FunctionNotImplemented"
  | XE_DivisionByZero -> "DivisionByZero"
  | XE_EmptyRandomRange _ -> "EmptyRandomRange"
let rterr_s = function
  | RT_WrongNumberOfOutputs _ -> "WrongNumberOfOutputs"
  | RT_WrongOutputOrder -> "WrongOutputOrder"
  | RT_MissingOutputs _ -> "MissingOutputs"
  | RT_Expr x -> "ExprError." ^ xerr_s x
let ierr_s = function
  | IE_Driver code -> "driver " ^ ns code
  | IE_Runtime r -> "runtime " ^ rterr_s r

let signal_s (s : signal) =
  let t, d = match s.styp with
    | TyInput d -> "I", ":" ^ inval_s d
    | TyOutput -> "O", ""
    | TyBidir d -> "B", ":" ^ inval_s d
    | TyVirtual _ -> "V", "" in
  nm s.sname ^ ":" ^ t ^ ":" ^ ns s.sbits ^ d

let in_entry_s (e : in_entry) = nm e.ie_sig.sname ^ "=" ^ inval_s e.ie_val ^ (if e.ie_changed then "*" else "")
let inputs_s l = String.concat " " (List.map in_entry_s l)
let out_result_s (r : out_result) =
  nm r.or_sig.sname ^ ":" ^ outval_s r.or_output ^ ":" ^ expval_s r.or_expected ^ ":"
  ^ (if or_check r then "1" else "0") ^ ":" ^ (if or_is_checked r then "1" else "0")
let call_s ((k, ins) : call) = (match k with RW -> "RW" | WO -> "W") ^ " " ^ inputs_s ins

(* ---------------------------------------------------------------- case files *)
type case = {
  mutable id : string; mutable kind : string; mutable src : string;
  mutable sigs : signal list; mutable layout : int list; mutable table : outval list list;
  mutable echo : bool; mutable wdefault : bool; mutable faults : (int * fault) list;
  mutable rng : string list; mutable max : int; mutable fuel : int; mutable cont : bool; mutable rebits : (int * int) list;
  mutable tree : string list option;   (* kind dig: the XML tree in prefix token form *)
}
let new_case () = { id = ""; kind = "run"; src = ""; sigs = []; layout = []; table = []; echo = false;
                    wdefault = false; faults = []; rng = []; max = 1000; fuel = 20000; cont = false; rebits = [];
                    tree = None }

let parse_inval s = if s = "Z" then IZ else IVal (z_of_zt (BigZ.of_string s))
let parse_outval s = if s = "Z" then OZ else if s = "X" then OX else OVal (z_of_zt (BigZ.of_string s))

let split s = List.filter (fun x -> x <> "") (String.split_on_char ' ' s)

let read_cases (ic : in_channel) : case list =
  let cases = ref [] and cur = ref (new_case ()) in
  (try
     while true do
       let line = input_line ic in
       match split line with
       | [] -> ()
       | "case" :: id :: _ -> cur := new_case (); !cur.id <- id
       | "kind" :: k :: _ -> !cur.kind <- k
       | "src" :: rest -> !cur.src <- hex_decode (match rest with h :: _ -> h | [] -> "")
       | "sig" :: name :: ty :: bits :: rest ->
           let nmv = text_of_string (hex_decode name) in
           let dflt = match rest with d :: _ -> d | [] -> "0" in
           let typ = match ty with
             | "I" -> TyInput (parse_inval dflt)
             | "B" -> TyBidir (parse_inval dflt)
             | _ -> TyOutput in
           !cur.sigs <- !cur.sigs @ [ { sname = nmv; sbits = n_of_zt (BigZ.of_string bits); styp = typ } ]
       | "layout" :: rest -> !cur.layout <- List.map int_of_string rest
       | "row" :: rest -> !cur.table <- !cur.table @ [ List.map parse_outval rest ]
       | "echo" :: v :: _ -> !cur.echo <- (v = "1")
       | "wdefault" :: v :: _ -> !cur.wdefault <- (v = "1")
       | "fault" :: k :: what :: rest ->
           let ki = int_of_string k in
           let a i = nat_of_int (int_of_string (List.nth rest i)) in
           let f = match what with
             | "err" -> FErr (n_of_zt (BigZ.of_string (List.nth rest 0)))
             | "drop" -> FDrop (a 0) | "add" -> FAdd (a 0) | "dup" -> FDup (a 0)
             | "swap" -> FSwap (a 0, a 1) | "subst" -> FSubst (a 0, a 1) | "widen" -> FWiden (a 0) | "addw" -> FAddW (a 0) | "swapsig" -> FSwapSig (a 0, a 1)
             | _ -> failwith ("bad fault " ^ what) in
           !cur.faults <- !cur.faults @ [ (ki, f) ]
       | "rng" :: rest -> !cur.rng <- rest
       | "max" :: v :: _ -> !cur.max <- int_of_string v
       | "fuel" :: v :: _ -> !cur.fuel <- int_of_string v
       | "cont" :: v :: _ -> !cur.cont <- (v = "1")
       | "rebits" :: i :: b :: _ -> !cur.rebits <- !cur.rebits @ [(int_of_string i, int_of_string b)]
       | "tree" :: rest -> !cur.tree <- Some rest
       | "end" :: _ -> cases := !cur :: !cases
       | _ -> ()
     done
   with End_of_file -> ());
  List.rev !cases

(* ---------------------------------------------------------------- the generator oracle *)
(* Built from the implementation's log of generator events (b<bound> d<value> R): the value
   of a draw as a function of the bounds drawn since the last (re)seed. *)
exception No_draw
let make_gen (events : string list) (out : Buffer.t) : gen =
  let tbl : (string, BigZ.t) Hashtbl.t = Hashtbl.create 16 in
  let key hist = String.concat "," hist in
  let hist = ref [] and bound = ref "" in
  List.iter (fun ev ->
      if ev = "R" then hist := []
      else if ev.[0] = 'b' then bound := String.sub ev 1 (String.length ev - 1)
      else if ev.[0] = 'd' then begin
        hist := !bound :: !hist;
        let k = key !hist in
        if not (Hashtbl.mem tbl k) then Hashtbl.add tbl k (BigZ.of_string (String.sub ev 1 (String.length ev - 1)))
      end) events;
  fun (h : rng_state) ((_, hi) : Model.z * Model.z) ->
    let hs = zs hi :: List.map (fun (_, b) -> zs b) h in
    (* a draw the implementation's log has no value for: the implementation was cut off by the watchdog before it
       got there (or it never draws here, which then shows as a difference): the model cannot go on *)
    let v = match Hashtbl.find_opt tbl (key hs) with Some v -> v | None -> raise No_draw in
    Buffer.add_string out (" b" ^ zs hi ^ " d" ^ BigZ.to_string v);
    z_of_zt v

(* ---------------------------------------------------------------- XML trees (kind dig) *)
(* Prefix token encoding of an [xdoc] (the children of roxmltree's Root node, in order):
     node ::= E <tag> <nattrs> (<key> <value>)^nattrs <nchildren> node^nchildren
            | T <text>
            | O                                  (comment / processing instruction)
   <tag> <key> <value> <text> are the hex of the UTF-8 bytes, `-` for the empty string.
   Tag and attribute names are local names; namespaced attributes are left out. *)
let hex_field (h : string) : Model.text = if h = "-" then [] else text_of_string (hex_decode h)

let rec parse_xnode (toks : string list) : xnode * string list =
  match toks with
  | "E" :: tag :: na :: rest ->
      let rec attrs k toks acc =
        if k = 0 then (List.rev acc, toks)
        else match toks with
          | key :: v :: r -> attrs (k - 1) r ((hex_field key, hex_field v) :: acc)
          | _ -> failwith "tree: truncated attribute list" in
      let (al, rest) = attrs (int_of_string na) rest [] in
      (match rest with
       | nc :: rest ->
           let (cs, rest) = parse_xnodes (int_of_string nc) rest [] in
           (XElem (hex_field tag, al, cs), rest)
       | [] -> failwith "tree: missing child count")
  | "T" :: t :: rest -> (XText (hex_field t), rest)
  | "O" :: rest -> (XOther, rest)
  | t :: _ -> failwith ("tree: bad token " ^ t)
  | [] -> failwith "tree: truncated"
and parse_xnodes k toks acc =
  if k = 0 then (List.rev acc, toks)
  else let (n, rest) = parse_xnode toks in parse_xnodes (k - 1) rest (n :: acc)

let rec parse_xdoc (toks : string list) : xdoc =
  match toks with
  | [] -> []
  | _ -> let (n, rest) = parse_xnode toks in n :: parse_xdoc rest

(* ---------------------------------------------------------------- runners *)
let pr = Printf.printf

let run_dig (c : case) =
  match c.tree with
  | None -> pr "DIG notree\n"      (* byte-level corruptions: no tree, the model is not consulted *)
  | Some toks ->
      (match dig_parse (parse_xdoc toks) with
       | Ok f ->
           pr "DIG ok\n";
           pr "SIGNALS %s\n" (String.concat " " (List.map signal_s f.df_signals));
           List.iteri (fun i (n, src) -> pr "TEST %d %s %s\n" i (nm n) (hex_encode (string_of_text src))) f.df_tests
       | Err DE_EmptyTest -> pr "DIG err EmptyTest\n"
       | Err (DE_MissingSignals names) ->
           pr "DIG err MissingSignals\n";
           (* a set: sorted by UTF-8 bytes, as the harness does *)
           let l = List.sort_uniq compare (List.map string_of_text names) in
           pr "MISSING %s\n" (String.concat " " (List.map (fun s -> nm (text_of_string s)) l))
       | Panic s -> pr "DIG panic # site %s\n" (ns s)
       | OOF -> pr "DIG oof\n")

let print_parse_result (r : (perr, parsed) r) : parsed option =
  match r with
  | Ok p -> pr "PARSE ok\n"; Some p
  | Err e -> pr "PARSE err %s %s\n" (pkind_s e.pe_kind) (spans_s e.pe_at); None
  | Panic s -> pr "PARSE panic # site %s\n" (ns s); None
  | OOF -> pr "PARSE oof\n"; None

let print_parsed (p : parsed) =
  pr "HEADER %s\n" (String.concat " " (List.map nm p.p_signals));
  pr "PLINES %s\n" (String.concat " " (List.concat_map stmt_lines p.p_stmts));
  pr "PVIRT %s\n" (String.concat " " (List.map (fun ((n, e), _) -> nm n ^ "=" ^ hex_encode (expr_s e)) p.p_virtuals));
  pr "PCIN %s\n" (String.concat " " (List.map (fun (n, _) -> nm n) p.p_expected_inputs));
  pr "PREADS %s\n" (String.concat " " (List.map (fun (n, _) -> nm n) p.p_read_outputs))

let sort_vars (l : (name * Model.z) list) =
  List.sort compare (List.map (fun (n, v) -> (string_of_text n, nm n ^ "=" ^ zs v)) l) |> List.map snd

let run_iter (c : case) (tc : testcase) (d : Model.n driver) (wdefault : bool) (static : bool) =
  let rngbuf = Buffer.create 64 in
  let g = make_gen c.rng rngbuf in
  let fuel = nat_of_int c.fuel in
  let print_calls (old_log : call list) (new_log : call list) =
    let n = List.length old_log in
    List.iteri (fun i cl -> if i >= n then pr "CALL %s\n" (call_s cl)) new_log in
  (match try_new d tc with
   | NewPanic s -> pr "NEW panic # site %s\n" (ns s); pr "END panic\n"
   | NewErr (e, log) -> if not static then print_calls [] log; pr "NEW err %s\n" (ierr_s e); pr "END err\n"
   | NewOk st0 ->
       if not static then print_calls [] st0.i_log;
       pr "NEW ok\n";
       let rec loop st k =
         if k >= c.max then pr "END limit\n"
         else
           match inext g d wdefault tc fuel st with
           | ItNone st1 ->
               pr "END none\n";
               if not static then begin
                 (* nothing happens once next() has returned None: ask twice more *)
                 let word st = match inext g d wdefault tc fuel st with
                   | ItNone s -> ("none", Some s) | ItRow (_, s) -> ("ROW", Some s) | ItErr (_, s) -> ("ERR", Some s)
                   | ItPanic _ -> ("PANIC", None) | ItOOF -> ("OOF", None) in
                 let (w1, s1) = word st1 in
                 let (w2, s2) = match s1 with Some s -> word s | None -> ("-", None) in
                 let calls = match s2 with Some s -> List.length s.i_log - List.length st1.i_log | None -> 0 in
                 pr "AFTER %s %s calls=%d\n" w1 w2 calls
               end
           | ItPanic s -> pr "ITEM panic # site %s\n" (ns s); pr "END panic\n"
           | ItOOF -> pr "ITEM oof\n"; pr "END oof\n"
           | ItErr (e, st') ->
               if not static then print_calls st.i_log st'.i_log;
               pr "ITEM err %s\n" (ierr_s e);
               (* a caller that keeps calling next() after ANY error item (the iterator's state after an
                  evaluation error is modelled: Stmt.next returns it with NErr) *)
               if c.cont then loop st' (k + 1) else pr "END err\n"
           | ItRow (row, st') ->
               if not static then print_calls st.i_log st'.i_log;
               if static then
                 (* StaticDataRow: inputs, expected entries, line *)
                 pr "SROW %s | %s | %s\n" (ns row.dr_line) (inputs_s row.dr_inputs)
                   (String.concat " " (List.map (fun (r : out_result) -> nm r.or_sig.sname ^ ":" ^ expval_s r.or_expected) row.dr_outputs))
               else begin
               pr "ROW %s | %s | %s | failing=%s\n" (ns row.dr_line) (inputs_s row.dr_inputs)
                 (String.concat " " (List.map out_result_s row.dr_outputs))
                 (String.concat "," (List.map (fun r -> nm r.or_sig.sname) (failing_outputs row)));
               pr "VARS %s\n" (String.concat " " (sort_vars (ctx_vars st'.i_ctx))) end;
               loop st' (k + 1)
       in
       loop st0 0);
  pr "RNG%s\n" (Buffer.contents rngbuf)

let run_case (c : case) =
  pr "CASE %s\n" c.id;
  let src = text_of_string c.src in
  (match c.kind with
   | "lex" ->
       (match lex_body N0 src with
        | None -> pr "LEX oof\n"
        | Some ts -> List.iter (fun t -> pr "TOK %s %s\n" (tk_s t.tkind) (span_s t.tspan)) ts)
   | "hlex" ->
       let rec go pos s =
         match hlex_one s with
         | None -> ()
         | Some ((k, w), r) ->
             let pos' = BigZ.add pos (zt_of_n (text_bytes w)) in
             (match k with
              | None -> ()
              | Some HName -> pr "TOK SignalName %s..%s\n" (BigZ.to_string pos) (BigZ.to_string pos')
              | Some HEol -> pr "TOK Eol %s..%s\n" (BigZ.to_string pos) (BigZ.to_string pos'));
             go pos' r in
       go BigZ.zero src
   | "parse" ->
       (match print_parse_result (parse src) with Some p -> print_parsed p | None -> ())
   | "xcheck" ->
       (* the extraction cross-check: the flat integer encoding of the whole case (XCheck.v) *)
       let sc = { sc_layout = List.map nat_of_int c.layout; sc_table = c.table; sc_echo = c.echo;
                  sc_faults = List.map (fun (k, f) -> (nat_of_int k, f)) c.faults } in
       let r = xcheck src c.sigs sc c.wdefault (nat_of_int c.fuel) (nat_of_int c.max) in
       pr "XCHECK %s\n" (String.concat " " (List.map zs r))
   | "run" | "static" | "bind" ->
       (match print_parse_result (parse src) with
        | None -> ()
        | Some p ->
            print_parsed p;
            (match with_signals p c.sigs with
             | Err e -> pr "BIND err %s\n" (serr_s e)
             | Panic s -> pr "BIND panic # site %s\n" (ns s)
             | OOF -> pr "BIND oof\n"
             | Ok tc ->
                 (* impl Display for TestCase: the Gallina printer Show.show_prog (the one ShowRoundTrip.v is about), extracted *)
                 pr "PROG %s\n" (hex_encode (string_of_text (show_prog tc.tc_stmts)));
                 pr "BIND ok\n";
                 (* `signals` is a public field of TestCase: a caller may change a width after binding *)
                 let tc = List.fold_left (fun (tc : testcase) (i, b) ->
                     { tc with tc_signals = List.mapi (fun j (s : signal) ->
                         if j = i then { s with sbits = n_of_int b } else s) tc.tc_signals }) tc c.rebits in
                 pr "SIGNALS %s\n" (String.concat " " (List.map signal_s tc.tc_signals));
                 pr "READS %s\n" (String.concat " " (List.map (fun i ->
                     match List.nth_opt tc.tc_signals (int_of_nat i) with Some s -> nm s.sname | None -> "?")
                   tc.tc_read_outputs));
                 if c.kind = "run" then begin
                   let sc = { sc_layout = List.map nat_of_int c.layout; sc_table = c.table;
                              sc_echo = c.echo;
                              sc_faults = List.map (fun (k, f) -> (nat_of_int k, f)) c.faults } in
                   run_iter c tc (script_driver tc.tc_signals sc) c.wdefault false
                 end
                 else if c.kind = "static" then begin
                   if tc.tc_read_outputs <> [] then (pr "STATIC err\n"; pr "RNG\n")
                   else begin pr "STATIC ok\n"; run_iter c tc static_driver false true end
                 end))
   | "dig" -> run_dig c
   | k -> pr "UNKNOWN kind %s\n" k);
  pr "DONE %s\n" c.id

let () =
  let ic = if Array.length Sys.argv > 1 then open_in Sys.argv.(1) else stdin in
  List.iter (fun c -> try run_case c with No_draw -> (pr "END oof no-draw-in-the-log\n"; pr "DONE %s\n" c.id)) (read_cases ic)
